(* Model driver: reads one case per line on stdin, runs the extracted Coq
   model, prints one result line per case.  The Rust harness prints the same
   format for the implementation. *)
open Conv

let dev_summary (d : Device.dev) : string =
  let bytes = d.Device.d_bytes in
  let n = Stdlib.List.length bytes in
  (* log hash: positions and contents of all writes, oldest first *)
  let lh = Stdlib.List.fold_left (fun h (p, bs) ->
      fnv_bytes (fnv_int (fnv_int h (int_of_n p)) (Stdlib.List.length bs)) bs)
      fnv_init (Stdlib.List.rev d.Device.d_log) in
  Printf.sprintf "ops=%d len=%d h=%s wlog=%d:%s" (int_of_n d.Device.d_ops) n
    (fnv_hex (fnv_bytes fnv_init bytes)) (Stdlib.List.length d.Device.d_log) (fnv_hex lh)

let fault_of (s : string) : BinNums.coq_N option =
  if s = "-" then None else Some (n_of_int (int_of_string s))

let res_num (r : BinNums.coq_N Prelude.res) : string =
  match r with
  | Prelude.Ok n -> "o" ^ decimal_of_n n
  | Prelude.Err k -> "e" ^ err_name k
  | Prelude.Panic -> "P"

(* PW <fault> <full:0|1> ops...   ops: w<hex> s<dec> f a p z *)
let run_pw (toks : string list) : string =
  match toks with
  | fault :: full :: ops ->
    let ops = Stdlib.List.map (fun t ->
        let arg = String.sub t 1 (String.length t - 1) in
        match t.[0] with
        | 'w' -> PagedWriter.PwWrite (bytes_of_hex arg)
        | 's' -> PagedWriter.PwSeek (n_of_decimal arg)
        | 'f' -> PagedWriter.PwFlush
        | 'a' -> PagedWriter.PwAlign
        | 'p' -> PagedWriter.PwPosition
        | 'z' -> PagedWriter.PwSize
        | _ -> failwith ("bad pw op " ^ t)) ops in
    let d0 = Device.dev_init [] (fault_of fault) in
    let (d1, r) = PagedWriter.pw_new d0 in
    (match r with
     | Prelude.Ok s ->
       let (s1, outs) = PagedWriter.pw_run ops s in
       let (s2, _) = PagedWriter.pw_drop s1 in
       let d = s2.PagedWriter.pw_dev in
       String.concat " " (Stdlib.List.map res_num outs) ^ " | " ^ dev_summary d
       ^ (if full = "1" then " dev=" ^ hex_of_bytes d.Device.d_bytes else "")
     | Prelude.Err k -> "new:e" ^ err_name k ^ " | " ^ dev_summary d1
     | Prelude.Panic -> "new:P")
  | _ -> failwith "bad PW case"

(* PR <fault> <pagesize> <devhex> ops...   ops: s<dec> r<dec> x<dec> a *)
let run_pr (toks : string list) : string =
  match toks with
  | fault :: ps :: devhex :: ops ->
    let ops = Stdlib.List.map (fun t ->
        let arg = String.sub t 1 (String.length t - 1) in
        match t.[0] with
        | 's' -> PagedReader.PrSeek (n_of_decimal arg)
        | 'r' -> PagedReader.PrRead (n_of_decimal arg)
        | 'x' -> PagedReader.PrReadExact (n_of_decimal arg)
        | 'a' -> PagedReader.PrAlign
        | _ -> failwith ("bad pr op " ^ t)) ops in
    let d0 = Device.dev_init (bytes_of_hex devhex) (fault_of fault) in
    let (d1, r) = PagedReader.pr_new (n_of_decimal ps) d0 in
    (match r with
     | Prelude.Ok s ->
       let (s1, outs) = PagedReader.pr_run ops s in
       let show o = match o with
         | Prelude.Ok (PagedReader.PoNum n) -> "o" ^ decimal_of_n n
         | Prelude.Ok (PagedReader.PoBytes l) ->
           Printf.sprintf "b%d:%s" (Stdlib.List.length l) (fnv_hex (fnv_bytes fnv_init l))
         | Prelude.Ok PagedReader.PoUnit -> "o"
         | Prelude.Err _ -> "e"
         | Prelude.Panic -> "P" in
       String.concat " " (Stdlib.List.map show outs)
       ^ Printf.sprintf " | ops=%d" (int_of_n s1.PagedReader.pr_dev.Device.d_ops)
     | Prelude.Err _ -> Printf.sprintf "new:e | ops=%d" (int_of_n d1.Device.d_ops)
     | Prelude.Panic -> "new:P")
  | _ -> failwith "bad PR case"

(* PWS ops...: the logical-stream specification of the writer *)
let run_pws (toks : string list) : string =
  let ops = Stdlib.List.map (fun t ->
      let arg = String.sub t 1 (String.length t - 1) in
      match t.[0] with
      | 'w' -> PagedWriter.PwWrite (bytes_of_hex arg)
      | 's' -> PagedWriter.PwSeek (n_of_decimal arg)
      | 'f' -> PagedWriter.PwFlush
      | 'a' -> PagedWriter.PwAlign
      | 'p' -> PagedWriter.PwPosition
      | 'z' -> PagedWriter.PwSize
      | _ -> failwith ("bad pw op " ^ t)) toks in
  let (s1, outs) = PageSpec.ls_run ops PageSpec.ls_init in
  let phys = PageSpec.paginate s1.PageSpec.ls_data in
  String.concat " " (Stdlib.List.map res_num outs)
  ^ Printf.sprintf " | len=%d h=%s" (Stdlib.List.length phys) (fnv_hex (fnv_bytes fnv_init phys))

(* PRS <devhex> ops...: the logical-stream specification of the reader on strip_crc dev *)
let run_prs (toks : string list) : string =
  match toks with
  | devhex :: ops ->
    let ops = Stdlib.List.map (fun t ->
        let arg = String.sub t 1 (String.length t - 1) in
        match t.[0] with
        | 's' -> PagedReader.PrSeek (n_of_decimal arg)
        | 'r' -> PagedReader.PrRead (n_of_decimal arg)
        | 'x' -> PagedReader.PrReadExact (n_of_decimal arg)
        | 'a' -> PagedReader.PrAlign
        | _ -> failwith ("bad pr op " ^ t)) ops in
    let log = PageSpec.strip_crc (bytes_of_hex devhex) in
    let outs = PageSpec.lr_run log ops BinNums.N0 in
    let show o = match o with
      | Prelude.Ok (PagedReader.PoNum n) -> "o" ^ decimal_of_n n
      | Prelude.Ok (PagedReader.PoBytes l) ->
        Printf.sprintf "b%d:%s" (Stdlib.List.length l) (fnv_hex (fnv_bytes fnv_init l))
      | Prelude.Ok PagedReader.PoUnit -> "o"
      | Prelude.Err _ -> "e"
      | Prelude.Panic -> "P" in
    String.concat " " (Stdlib.List.map show outs)
  | _ -> failwith "bad PRS case"

let run_crc (toks : string list) : string =
  match toks with
  | [hex] -> decimal_of_n (Crc.crc32c (bytes_of_hex hex))
  | [] -> decimal_of_n (Crc.crc32c [])
  | _ -> failwith "bad CRC case"

let () =
  try
    while true do
      let line = input_line stdin in
      let out =
        try
          match split_ws line with
          | [] -> ""
          | "PW" :: r -> run_pw r
          | "PR" :: r -> run_pr r
          | "CRC" :: r -> run_crc r
          | "PWS" :: r -> run_pws r
          | "PRS" :: r -> run_prs r
          | k :: _ -> "unknown-kind " ^ k
        with
        | Failure m -> "driver-failure " ^ m
        | Stack_overflow -> "driver-stack-overflow" in
      print_string out; print_newline ()
    done
  with End_of_file -> ()
