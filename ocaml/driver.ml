(* Model driver: reads one case per line on stdin, runs the extracted Coq
   model, prints one result line per case.  The Rust harness prints the same
   format for the implementation.  Case kinds beyond the core ones live in
   drv_<slice>.ml modules (each exports run : string -> string list -> string option);
   tools/build_model.sh generates drv_all.ml, which chains them. *)
open Conv
open Drv_core

let () =
  try
    while true do
      let line = input_line stdin in
      let out =
        try
          match split_ws line with
          | [] -> ""
          | ["BASE"; name; hex] -> register_base name hex; ""
          | "PW" :: r -> run_pw r
          | "PR" :: r -> run_pr r
          | "CRC" :: r -> run_crc r
          | "PWS" :: r -> run_pws r
          | "FW" :: r -> run_fw r
          | "RAWRD" :: r -> run_rawrd r
          | "SESS" :: r -> run_sess r
          | "OPEN" :: r -> run_open r
          | "BLOBRD" :: r -> run_blobrd r
          | "VCRC" :: r -> run_vcrc r
          | "RAWXML" :: r -> run_rawxml r
          | "BITS" :: r -> run_bits r
          | "BITSPEC" :: r -> run_bitspec r
          | "BW" :: r -> run_bw r
          | "BR" :: r -> run_br r
          | "PRS" :: r -> run_prs r
          | k :: r -> Drv_all.dispatch k r
        with
        | Failure m -> "driver-failure " ^ m
        | Stack_overflow -> "driver-stack-overflow" in
      print_string out; print_newline ()
    done
  with End_of_file -> ()
