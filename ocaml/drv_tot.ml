(* Totality and cost (C08, C09), model side: the binary entry points of the reader on one file image,
   in the order in which the harness kind TOT runs them on the real crate.
     TOTM <dev> <cap> item...    item = R:<file_offset>:<records>:<types>  raw iteration with this descriptor
                                        B:<offset>:<length>               blob
   Output sections (joined by " # "), each with the number of device operations the model issued:
     vcrc:<ok ps|eVariant|P> o=<ops>   rawxml:<ok n= h=|eVariant|P> o=<ops>
     new:<ok phys= xoff= xlen= xml=|eVariant|P> o=<ops>
     raw:<n= end= h=|new:eVariant|new:P> o=<ops>     bl <ok n= h=|eVariant|P> o=<ops>
   TOTRAW / TOTBLOB: one raw iteration / one blob with a free descriptor, as the harness kinds of the same name. *)
open Conv
open Drv_core

let ops_of (d : Device.dev) : int = int_of_n d.Device.d_ops

let strip_pts (s : string) : string =
  let n = String.length s in
  let rec find i = if i + 5 > n then None else if String.sub s i 5 = " pts=" then Some i else find (i + 1) in
  match find 0 with Some i -> String.sub s 0 i | None -> s

let million = n_of_int 1000000

(* raw iteration on reader state [s]; returns the state afterwards and "n= end= h=" *)
let raw_item (s : PagedReader.pr) (cap : int) (fo : BinNums.coq_N) (recs : BinNums.coq_N) (proto : Record.dtype list)
  : PagedReader.pr * string =
  let capped = BinNat.N.ltb million recs in
  let (s', txt) = raw_summary_st (if capped then Some cap else None) s fo recs proto in
  let txt = strip_pts txt in
  let txt =
    if capped && String.length txt > 2 && String.sub txt 0 2 = "n=" then begin
      (* the limit was reached: the harness calls that end=cap *)
      match String.split_on_char ' ' txt with
      | n :: e :: rest when n = "n=" ^ string_of_int cap && e = "end=none" -> String.concat " " (n :: "end=cap" :: rest)
      | _ -> txt
    end else txt in
  (s', txt)

let blob_item (s : PagedReader.pr) (off : BinNums.coq_N) (ln : BinNums.coq_N) : PagedReader.pr * string =
  let (s', r) = Prog.rrun (FileBin.blob_read s.PagedReader.pr_log_size off ln) s in
  (s', match r with
    | Prelude.Ok data -> Printf.sprintf "ok n=%d h=%s" (Stdlib.List.length data) (fnv_hex (fnv_bytes fnv_init data))
    | Prelude.Err k -> "e" ^ err_name k
    | Prelude.Panic -> "P")

let run_totm (toks : string list) : string =
  match toks with
  | devtok :: cap :: items ->
    let bytes = resolve_dev devtok in
    let cap = if cap = "-" then 2000000 else int_of_string cap in
    let out = ref [] in
    let push x = out := x :: !out in
    (match FileBin.validate_crc (Device.dev_init bytes None) with
     | (d, Prelude.Ok ps) -> push (Printf.sprintf "vcrc:ok %s o=%d" (decimal_of_n ps) (ops_of d))
     | (d, Prelude.Err k) -> push (Printf.sprintf "vcrc:e%s o=%d" (err_name k) (ops_of d))
     | (d, Prelude.Panic) -> push (Printf.sprintf "vcrc:P o=%d" (ops_of d)));
    (match ReaderOpen.raw_xml (Device.dev_init bytes None) with
     | (d, Prelude.Ok xml) ->
       push (Printf.sprintf "rawxml:ok n=%d h=%s o=%d" (Stdlib.List.length xml) (fnv_hex (fnv_bytes fnv_init xml)) (ops_of d))
     | (d, Prelude.Err k) -> push (Printf.sprintf "rawxml:e%s o=%d" (err_name k) (ops_of d))
     | (d, Prelude.Panic) -> push (Printf.sprintf "rawxml:P o=%d" (ops_of d)));
    (match ReaderOpen.reader_open (Device.dev_init bytes None) with
     | (d, Prelude.Ok ((s, h), xml)) ->
       push (Printf.sprintf "new:ok phys=%s xoff=%s xlen=%s xml=%s o=%d" (decimal_of_n h.FileBin.h_phys_length)
               (decimal_of_n h.FileBin.h_xml_offset) (decimal_of_n h.FileBin.h_xml_length)
               (fnv_hex (fnv_bytes fnv_init xml)) (ops_of d));
       let st = ref s in
       Stdlib.List.iter (fun t ->
           let before = ops_of !st.PagedReader.pr_dev in
           let (s', txt) = match String.split_on_char ':' t with
             | ["R"; fo; recs; proto] ->
               let (s', x) = raw_item !st cap (n_of_decimal fo) (n_of_decimal recs) (parse_proto (if proto = "-" then "" else proto)) in
               (s', "raw:" ^ x)
             | ["B"; off; ln] ->
               let (s', x) = blob_item !st (n_of_decimal off) (n_of_decimal ln) in (s', "bl " ^ x)
             | _ -> failwith ("bad TOTM item " ^ t) in
           st := s';
           push (Printf.sprintf "%s o=%d" txt (ops_of s'.PagedReader.pr_dev - before))) items
     | (d, Prelude.Err k) -> push (Printf.sprintf "new:e%s o=%d" (err_name k) (ops_of d))
     | (d, Prelude.Panic) -> push (Printf.sprintf "new:P o=%d" (ops_of d)));
    String.concat " # " (Stdlib.List.rev !out)
  | _ -> failwith "bad TOTM case"

let with_open (devtok : string) (f : PagedReader.pr -> string) : string =
  match ReaderOpen.reader_open (Device.dev_init (resolve_dev devtok) None) with
  | (_, Prelude.Ok ((s, _), _)) -> f s
  | (_, Prelude.Err k) -> "open:e" ^ err_name k
  | (_, Prelude.Panic) -> "open:P"

let run (kind : string) (toks : string list) : string option =
  match kind, toks with
  | "TOTM", _ -> Some (run_totm toks)
  | "TOTRAW", devtok :: fo :: recs :: proto :: rest ->
    let cap = match rest with c :: _ when c <> "-" -> int_of_string c | _ -> 2000000 in
    Some (with_open devtok (fun s ->
        let before = ops_of s.PagedReader.pr_dev in
        let (s', x) = raw_item s cap (n_of_decimal fo) (n_of_decimal recs) (parse_proto (if proto = "-" then "" else proto)) in
        Printf.sprintf "raw:%s o=%d" x (ops_of s'.PagedReader.pr_dev - before)))
  | "TOTBLOB", [devtok; off; ln] ->
    Some (with_open devtok (fun s ->
        let before = ops_of s.PagedReader.pr_dev in
        let (s', x) = blob_item s (n_of_decimal off) (n_of_decimal ln) in
        Printf.sprintf "bl %s o=%d" x (ops_of s'.PagedReader.pr_dev - before)))
  | _ -> None
