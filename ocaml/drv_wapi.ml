(* Slice "wapi": the writer API state machine (Model/WriterApi.v) on the case kind WAPI of
   harness/src/ext_wapi.rs (token format documented there).  Model side only:
   FIN:<xmlhex> gives the XML text [gen_xml] returns for that call (taken from the
   implementation's run), FIN:!<Variant> makes [gen_xml] fail with that error kind.
   Output: `<result per call> | <device summary> | <model view>`; the model view lists the
   descriptors the writer state held at the last successful FIN in the format of the
   harness's reader view (the check script compares them field by field), the raw points
   and blob bytes are read from the model's device image through the reader model. *)
open Conv
open Drv_core

let bytes_of_tok (s : string) : BinNums.coq_N list = bytes_of_hex s
let opt_s (s : string) : BinNums.coq_N list option = if s = "-" then None else Some (bytes_of_hex s)
let f64t_of_tok (s : string) : Meta.f64t = { Meta.f64_bits = n_of_hex s; f64_text = [] }
let f32t_of_tok (s : string) : Meta.f32t = { Meta.f32_bits = n_of_hex s; f32_text = [] }

let parse_name (s : string) : Meta.record_name =
  match s with
  | "x" -> Meta.CartesianX | "y" -> Meta.CartesianY | "z" -> Meta.CartesianZ
  | "cis" -> Meta.CartesianInvalidState
  | "sr" -> Meta.SphericalRange | "sa" -> Meta.SphericalAzimuth | "se" -> Meta.SphericalElevation
  | "sis" -> Meta.SphericalInvalidState
  | "in" -> Meta.Intensity | "iin" -> Meta.IsIntensityInvalid
  | "r" -> Meta.ColorRed | "g" -> Meta.ColorGreen | "b" -> Meta.ColorBlue | "ici" -> Meta.IsColorInvalid
  | "row" -> Meta.RowIndex | "col" -> Meta.ColumnIndex | "rc" -> Meta.ReturnCount | "ri" -> Meta.ReturnIndex
  | "ts" -> Meta.TimeStamp | "its" -> Meta.IsTimeStampInvalid
  | _ ->
    (match Stdlib.String.split_on_char '~' s with
     | ["u"; ns; nm] -> Meta.Unknown (bytes_of_hex ns, bytes_of_hex nm)
     | _ -> failwith ("bad name token " ^ s))

let show_name (n : Meta.record_name) : string =
  match n with
  | Meta.CartesianX -> "x" | Meta.CartesianY -> "y" | Meta.CartesianZ -> "z"
  | Meta.CartesianInvalidState -> "cis"
  | Meta.SphericalRange -> "sr" | Meta.SphericalAzimuth -> "sa" | Meta.SphericalElevation -> "se"
  | Meta.SphericalInvalidState -> "sis"
  | Meta.Intensity -> "in" | Meta.IsIntensityInvalid -> "iin"
  | Meta.ColorRed -> "r" | Meta.ColorGreen -> "g" | Meta.ColorBlue -> "b" | Meta.IsColorInvalid -> "ici"
  | Meta.RowIndex -> "row" | Meta.ColumnIndex -> "col" | Meta.ReturnCount -> "rc" | Meta.ReturnIndex -> "ri"
  | Meta.TimeStamp -> "ts" | Meta.IsTimeStampInvalid -> "its"
  | Meta.Unknown (ns, nm) -> "u~" ^ hex_of_bytes ns ^ "~" ^ hex_of_bytes nm

let parse_dtype (s : string) : Meta.data_type =
  let p = Array.of_list (Stdlib.String.split_on_char '/' s) in
  let o f i = if Array.length p > i && p.(i) <> "-" then Some (f p.(i)) else None in
  match p.(0) with
  | "F" -> Meta.DSingle (o f32t_of_tok 1, o f32t_of_tok 2)
  | "D" -> Meta.DDouble (o f64t_of_tok 1, o f64t_of_tok 2)
  | "I" -> Meta.DInteger (z_of_decimal p.(1), z_of_decimal p.(2))
  | "S" -> Meta.DScaledInteger (z_of_decimal p.(1), z_of_decimal p.(2), f64t_of_tok p.(3), f64t_of_tok p.(4))
  | _ -> failwith ("bad type token " ^ s)

let h64 (x : Meta.f64t) : string = hex_of_n 16 (Floats.canon64 x.Meta.f64_bits)
let h32 (x : Meta.f32t) : string = hex_of_n 8 (Floats.canon32 x.Meta.f32_bits)
let oh64 (x : Meta.f64t option) : string = match x with None -> "-" | Some v -> h64 v

let show_dtype (t : Meta.data_type) : string =
  match t with
  | Meta.DSingle (mn, mx) ->
    Printf.sprintf "F/%s/%s" (match mn with None -> "-" | Some v -> h32 v) (match mx with None -> "-" | Some v -> h32 v)
  | Meta.DDouble (mn, mx) -> Printf.sprintf "D/%s/%s" (oh64 mn) (oh64 mx)
  | Meta.DScaledInteger (mn, mx, sc, off) ->
    Printf.sprintf "S/%s/%s/%s/%s" (decimal_of_z mn) (decimal_of_z mx) (h64 sc) (h64 off)
  | Meta.DInteger (mn, mx) -> Printf.sprintf "I/%s/%s" (decimal_of_z mn) (decimal_of_z mx)

let parse_wproto (s : string) : Meta.record list =
  Stdlib.List.map (fun nt ->
      match Stdlib.String.index_opt nt '=' with
      | Some i -> { Meta.r_name = parse_name (Stdlib.String.sub nt 0 i);
                    r_type = parse_dtype (Stdlib.String.sub nt (i+1) (Stdlib.String.length nt - i - 1)) }
      | None -> failwith ("bad prototype entry " ^ nt))
    (Stdlib.List.filter (fun x -> x <> "") (Stdlib.String.split_on_char ',' s))

let parse_limit (s : string) : Meta.limit_value option =
  if s = "-" then None else
    let a = Stdlib.String.sub s 1 (Stdlib.String.length s - 1) in
    Some (match s.[0] with
        | 'f' -> Meta.LSingle (f32t_of_tok a)
        | 'd' -> Meta.LDouble (f64t_of_tok a)
        | 's' -> Meta.LScaledInteger (z_of_decimal a)
        | 'i' -> Meta.LInteger (z_of_decimal a)
        | _ -> failwith ("bad limit token " ^ s))

let show_limit (v : Meta.limit_value option) : string =
  match v with
  | None -> "-"
  | Some (Meta.LSingle x) -> "f" ^ h32 x
  | Some (Meta.LDouble x) -> "d" ^ h64 x
  | Some (Meta.LScaledInteger z) -> "s" ^ decimal_of_z z
  | Some (Meta.LInteger z) -> "i" ^ decimal_of_z z

let parse_transform (s : string) : Meta.transform =
  match Stdlib.List.map f64t_of_tok (Stdlib.String.split_on_char '/' s) with
  | [a; b; c; d; e; f; g] -> { Meta.t_rw = a; t_rx = b; t_ry = c; t_rz = d; t_tx = e; t_ty = f; t_tz = g }
  | _ -> failwith "bad transform"
let show_transform (t : Meta.transform option) : string =
  match t with
  | None -> "-"
  | Some t -> Stdlib.String.concat "/" (Stdlib.List.map h64 [t.Meta.t_rw; t.Meta.t_rx; t.Meta.t_ry; t.Meta.t_rz; t.Meta.t_tx; t.Meta.t_ty; t.Meta.t_tz])
let parse_dt (s : string) : Meta.date_time =
  match Stdlib.String.split_on_char '/' s with
  | [a; b] -> { Meta.dt_gps_time = f64t_of_tok a; dt_atomic = (b = "1") }
  | _ -> failwith "bad date time"
let show_dt (d : Meta.date_time option) : string =
  match d with
  | None -> "-"
  | Some d -> Printf.sprintf "%s/%d" (h64 d.Meta.dt_gps_time) (if d.Meta.dt_atomic then 1 else 0)
let show_os (s : BinNums.coq_N list option) : string =
  match s with None -> "-" | Some s -> "=" ^ hex_of_bytes s

let img_format (s : string) : Meta.image_format = if s = "j" then Meta.Jpeg else Meta.Png
let show_fmt (f : Meta.image_format) : string = match f with Meta.Jpeg -> "j" | Meta.Png -> "p"

let opt_map f s = if s = "-" then None else Some (f s)

let parse_call (t : string) : WriterApi.wcall * string list =
  let parts = Stdlib.String.split_on_char ':' t in
  let arg i = try Stdlib.List.nth parts i with _ -> "" in
  match Stdlib.List.hd parts with
  | "NEW" -> (WriterApi.NewWriter (bytes_of_hex (arg 1)), parts)
  | "SCM" -> (WriterApi.SetCoordinateMetadata (opt_s (arg 1)), parts)
  | "SCR" -> (WriterApi.SetCreation (if arg 1 = "-" then None else
                                       Some { Meta.dt_gps_time = f64t_of_tok (arg 1); dt_atomic = (arg 2 = "1") }), parts)
  | "EXT" -> (WriterApi.RegisterExtension (bytes_of_hex (arg 1), bytes_of_hex (arg 2)), parts)
  | "BLOB" -> (WriterApi.AddBlob (bytes_of_hex (arg 1)), parts)
  | "PC" -> (WriterApi.AddPointcloud (bytes_of_hex (arg 1), parse_wproto (arg 2)), parts)
  | "IMG" -> (WriterApi.AddImage (bytes_of_hex (arg 1)), parts)
  | "FIN" | "FINX" -> (WriterApi.Finalize, parts)  (* FINX: finalize_customized_xml(Ok); finalize() is defined as exactly that *)
  | "PT" -> (WriterApi.PcAddPoint (Stdlib.List.map parse_value
                                     (Stdlib.List.filter (fun x -> x <> "") (Stdlib.String.split_on_char ',' (arg 1)))), parts)
  | "PFIN" -> (WriterApi.PcFinalize, parts)
  | "PDROP" -> (WriterApi.PcDrop, parts)
  | "PSET" ->
    let a = arg 2 in
    let f = match arg 1 with
      | "name" -> WriterApi.PfName (opt_s a)
      | "desc" -> WriterApi.PfDescription (opt_s a)
      | "vendor" -> WriterApi.PfSensorVendor (opt_s a)
      | "model" -> WriterApi.PfSensorModel (opt_s a)
      | "serial" -> WriterApi.PfSensorSerial (opt_s a)
      | "hw" -> WriterApi.PfSensorHwVersion (opt_s a)
      | "sw" -> WriterApi.PfSensorSwVersion (opt_s a)
      | "fw" -> WriterApi.PfSensorFwVersion (opt_s a)
      | "oguids" -> WriterApi.PfOriginalGuids (if a = "-" then None else
                                                 Some (Stdlib.List.map bytes_of_hex
                                                         (Stdlib.List.filter (fun x -> x <> "" && x <> "empty") (Stdlib.String.split_on_char ';' a))))
      | "temp" -> WriterApi.PfTemperature (opt_map f64t_of_tok a)
      | "hum" -> WriterApi.PfHumidity (opt_map f64t_of_tok a)
      | "pres" -> WriterApi.PfAtmosphericPressure (opt_map f64t_of_tok a)
      | "pose" -> WriterApi.PfTransform (opt_map parse_transform a)
      | "astart" -> WriterApi.PfAcquisitionStart (opt_map parse_dt a)
      | "aend" -> WriterApi.PfAcquisitionEnd (opt_map parse_dt a)
      | "ilim" -> WriterApi.PfIntensityLimits (opt_map (fun a ->
          match Stdlib.String.split_on_char '/' a with
          | [x; y] -> { Meta.il_min = parse_limit x; il_max = parse_limit y }
          | _ -> failwith "bad ilim") a)
      | "clim" -> WriterApi.PfColorLimits (opt_map (fun a ->
          match Stdlib.List.map parse_limit (Stdlib.String.split_on_char '/' a) with
          | [a0; a1; b0; b1; c0; c1] -> { Meta.cl_red_min = a0; cl_red_max = a1; cl_green_min = b0; cl_green_max = b1;
                                         cl_blue_min = c0; cl_blue_max = c1 }
          | _ -> failwith "bad clim") a)
      | f -> failwith ("bad PSET field " ^ f) in
    (WriterApi.PcSet f, parts)
  | "ISET" ->
    let a = arg 2 in
    let f = match arg 1 with
      | "name" -> WriterApi.IfName (bytes_of_hex a)
      | "desc" -> WriterApi.IfDescription (bytes_of_hex a)
      | "pcguid" -> WriterApi.IfPointcloudGuid (bytes_of_hex a)
      | "vendor" -> WriterApi.IfSensorVendor (bytes_of_hex a)
      | "model" -> WriterApi.IfSensorModel (bytes_of_hex a)
      | "serial" -> WriterApi.IfSensorSerial (bytes_of_hex a)
      | "pose" -> WriterApi.IfTransform (parse_transform a)
      | "acq" -> WriterApi.IfAcquisition (parse_dt a)
      | f -> failwith ("bad ISET field " ^ f) in
    (WriterApi.ImSet f, parts)
  | "IVIS" ->
    (WriterApi.ImAddVisualReference (img_format (arg 1), bytes_of_hex (arg 2), n_of_decimal (arg 3), n_of_decimal (arg 4),
                                     opt_map bytes_of_hex (arg 5)), parts)
  | "IPIN" | "ISPH" | "ICYL" as k ->
    let fmt = img_format (arg 1) and data = bytes_of_hex (arg 2) and mask = opt_map bytes_of_hex (arg 4) in
    let p = Array.of_list (Stdlib.String.split_on_char '/' (arg 3)) in
    let w = n_of_decimal p.(0) and h = n_of_decimal p.(1) in
    let f i = f64t_of_tok p.(i) in
    ((match k with
        | "IPIN" -> WriterApi.ImAddPinhole (fmt, data, { WriterApi.php_width = w; php_height = h; php_focal_length = f 2;
                                                         php_pixel_width = f 3; php_pixel_height = f 4;
                                                         php_principal_x = f 5; php_principal_y = f 6 }, mask)
        | "ISPH" -> WriterApi.ImAddSpherical (fmt, data, { WriterApi.spp_width = w; spp_height = h;
                                                           spp_pixel_width = f 2; spp_pixel_height = f 3 }, mask)
        | _ -> WriterApi.ImAddCylindrical (fmt, data, { WriterApi.cyp_width = w; cyp_height = h; cyp_radius = f 2;
                                                        cyp_principal_y = f 3; cyp_pixel_width = f 4;
                                                        cyp_pixel_height = f 5 }, mask)), parts)
  | "IFIN" -> (WriterApi.ImFinalize, parts)
  | "IDROP" -> (WriterApi.ImDrop, parts)
  | k -> failwith ("bad WAPI call " ^ k)

let err_of_name (s : string) : Prelude.err_kind =
  match s with
  | "Invalid" -> Prelude.EInvalid | "Read" -> Prelude.ERead | "Write" -> Prelude.EWrite
  | "NotImpl" -> Prelude.ENotImpl | "Internal" -> Prelude.EInternal | _ -> Prelude.EIo

let show_bounds6 (l : Meta.f64t option list) : string = Stdlib.String.concat "/" (Stdlib.List.map oh64 l)
let oz (z : BinNums.coq_Z option) : string = match z with None -> "-" | Some z -> decimal_of_z z

let blob_view (rs : PagedReader.pr option) (b : Meta.blob) : string =
  let rd = match rs with
    | None -> "noreader"
    | Some rs ->
      let (_, r) = Prog.rrun (FileBin.blob_read rs.PagedReader.pr_log_size b.Meta.b_offset b.Meta.b_length) rs in
      (match r with
       | Prelude.Ok data -> Printf.sprintf "ok%d:%s" (Stdlib.List.length data) (fnv_hex (fnv_bytes fnv_init data))
       | Prelude.Err k -> "e" ^ err_name k
       | Prelude.Panic -> "P") in
  Printf.sprintf "%s:%s:%s" (decimal_of_n b.Meta.b_offset) (decimal_of_n b.Meta.b_length) rd
let oblob_view rs (b : Meta.blob option) : string = match b with None -> "-" | Some b -> blob_view rs b

(* raw points of one cloud through the reader model, format of the harness's iter_summary (pts up to 4000 chars) *)
let raw_view (rs : PagedReader.pr option) (pc : Meta.pointcloud) : string =
  match rs with
  | None -> "noreader"
  | Some rs ->
    let proto = Stdlib.List.map (fun r -> Meta.dtype_of r.Meta.r_type) pc.Meta.pc_prototype in
    let (s1, r) = Prog.rrun (QueueReader.raw_new pc.Meta.pc_file_offset pc.Meta.pc_records proto) rs in
    (match r with
     | Prelude.Ok it ->
       let buf = Buffer.create 256 in
       let count = ref 0 in
       let rec loop s it =
         let (s', r) = Prog.rrun (QueueReader.raw_next s.PagedReader.pr_log_size it) s in
         match r with
         | Prelude.Ok (it', QueueReader.Item p) ->
           if !count > 0 then Buffer.add_char buf ';';
           Buffer.add_string buf (Stdlib.String.concat "," (Stdlib.List.map show_value p));
           incr count; loop s' it'
         | Prelude.Ok (_, QueueReader.Done) -> "none"
         | Prelude.Err k -> "e" ^ err_name k
         | Prelude.Panic -> "P" in
       let fin = loop s1 it in
       let txt = Buffer.contents buf in
       Printf.sprintf "n=%d end=%s h=%s%s" !count fin (fnv_string txt)
         (if Stdlib.String.length txt <= 4000 then " pts=" ^ txt else "")
     | Prelude.Err k -> "new:e" ^ err_name k
     | Prelude.Panic -> "new:P")

let model_view (rs : PagedReader.pr option) (m : MetaFile.file_meta) (blobs : Meta.blob list) : string =
  let root = m.MetaFile.fm_root in
  let b = Buffer.create 1024 in
  Buffer.add_string b (Printf.sprintf "view guid=%s ext=%s cm=%s cr=%s" (hex_of_bytes root.Meta.rt_guid)
                         (Stdlib.String.concat "," (Stdlib.List.map (fun e -> hex_of_bytes e.Meta.e_namespace ^ "=" ^ hex_of_bytes e.Meta.e_url)
                                               m.MetaFile.fm_extensions))
                         (show_os root.Meta.rt_coordinate_metadata) (show_dt root.Meta.rt_creation));
  Stdlib.List.iter (fun (pc : Meta.pointcloud) ->
      let proto = Stdlib.String.concat "," (Stdlib.List.map (fun r -> show_name r.Meta.r_name ^ "=" ^ show_dtype r.Meta.r_type) pc.Meta.pc_prototype) in
      let cb = match pc.Meta.pc_cartesian_bounds with
        | None -> "-"
        | Some c -> show_bounds6 [c.Meta.cb_x_min; c.Meta.cb_x_max; c.Meta.cb_y_min; c.Meta.cb_y_max; c.Meta.cb_z_min; c.Meta.cb_z_max] in
      let sb = match pc.Meta.pc_spherical_bounds with
        | None -> "-"
        | Some s -> show_bounds6 [s.Meta.sb_range_min; s.Meta.sb_range_max; s.Meta.sb_elevation_min; s.Meta.sb_elevation_max;
                                  s.Meta.sb_azimuth_start; s.Meta.sb_azimuth_end] in
      let ib = match pc.Meta.pc_index_bounds with
        | None -> "-"
        | Some i -> Stdlib.String.concat "/" (Stdlib.List.map oz [i.Meta.ib_row_min; i.Meta.ib_row_max; i.Meta.ib_column_min;
                                                           i.Meta.ib_column_max; i.Meta.ib_return_min; i.Meta.ib_return_max]) in
      let il = match pc.Meta.pc_intensity_limits with
        | None -> "-"
        | Some l -> show_limit l.Meta.il_min ^ "/" ^ show_limit l.Meta.il_max in
      let cl = match pc.Meta.pc_color_limits with
        | None -> "-"
        | Some l -> Stdlib.String.concat "/" (Stdlib.List.map show_limit [l.Meta.cl_red_min; l.Meta.cl_red_max; l.Meta.cl_green_min;
                                                                   l.Meta.cl_green_max; l.Meta.cl_blue_min; l.Meta.cl_blue_max]) in
      let og = match pc.Meta.pc_original_guids with
        | None -> "-" | Some [] -> "empty"
        | Some l -> Stdlib.String.concat ";" (Stdlib.List.map hex_of_bytes l) in
      let meta = Stdlib.String.concat "|" [show_os pc.Meta.pc_name; show_os pc.Meta.pc_description; show_os pc.Meta.pc_sensor_vendor;
                                    show_os pc.Meta.pc_sensor_model; show_os pc.Meta.pc_sensor_serial;
                                    show_os pc.Meta.pc_sensor_hw_version; show_os pc.Meta.pc_sensor_sw_version;
                                    show_os pc.Meta.pc_sensor_fw_version; og; oh64 pc.Meta.pc_temperature;
                                    oh64 pc.Meta.pc_humidity; oh64 pc.Meta.pc_atmospheric_pressure;
                                    show_transform pc.Meta.pc_transform; show_dt pc.Meta.pc_acquisition_start;
                                    show_dt pc.Meta.pc_acquisition_end] in
      Buffer.add_string b (Printf.sprintf " # pc g=%s off=%s n=%s proto=%s cb=%s sb=%s ib=%s il=%s cl=%s meta=%s raw=%s"
                             (show_os pc.Meta.pc_guid) (decimal_of_n pc.Meta.pc_file_offset) (decimal_of_n pc.Meta.pc_records)
                             proto cb sb ib il cl meta (raw_view rs pc))) m.MetaFile.fm_pointclouds;
  Stdlib.List.iter (fun (im : Meta.image) ->
      let vr = match im.Meta.im_visual_reference with
        | None -> "-"
        | Some v -> Printf.sprintf "%s/%s/%s/%s/%s" (show_fmt v.Meta.vr_blob.Meta.ib_format) (blob_view rs v.Meta.vr_blob.Meta.ib_data)
                      (oblob_view rs v.Meta.vr_mask) (decimal_of_n v.Meta.vr_width) (decimal_of_n v.Meta.vr_height) in
      let fl l = Stdlib.String.concat "/" (Stdlib.List.map h64 l) in
      let pr = match im.Meta.im_projection with
        | None -> "-"
        | Some (Meta.PPinhole p) ->
          Printf.sprintf "pin/%s/%s/%s/%s/%s/%s" (show_fmt p.Meta.ph_blob.Meta.ib_format) (blob_view rs p.Meta.ph_blob.Meta.ib_data)
            (oblob_view rs p.Meta.ph_mask) (decimal_of_n p.Meta.ph_width) (decimal_of_n p.Meta.ph_height)
            (fl [p.Meta.ph_focal_length; p.Meta.ph_pixel_width; p.Meta.ph_pixel_height; p.Meta.ph_principal_x; p.Meta.ph_principal_y])
        | Some (Meta.PSpherical p) ->
          Printf.sprintf "sph/%s/%s/%s/%s/%s/%s" (show_fmt p.Meta.si_blob.Meta.ib_format) (blob_view rs p.Meta.si_blob.Meta.ib_data)
            (oblob_view rs p.Meta.si_mask) (decimal_of_n p.Meta.si_width) (decimal_of_n p.Meta.si_height)
            (fl [p.Meta.si_pixel_width; p.Meta.si_pixel_height])
        | Some (Meta.PCylindrical p) ->
          Printf.sprintf "cyl/%s/%s/%s/%s/%s/%s" (show_fmt p.Meta.ci_blob.Meta.ib_format) (blob_view rs p.Meta.ci_blob.Meta.ib_data)
            (oblob_view rs p.Meta.ci_mask) (decimal_of_n p.Meta.ci_width) (decimal_of_n p.Meta.ci_height)
            (fl [p.Meta.ci_radius; p.Meta.ci_principal_y; p.Meta.ci_pixel_width; p.Meta.ci_pixel_height]) in
      let meta = Stdlib.String.concat "|" [show_os im.Meta.im_name; show_os im.Meta.im_description; show_os im.Meta.im_pointcloud_guid;
                                    show_os im.Meta.im_sensor_vendor; show_os im.Meta.im_sensor_model; show_os im.Meta.im_sensor_serial;
                                    show_transform im.Meta.im_transform; show_dt im.Meta.im_acquisition] in
      Buffer.add_string b (Printf.sprintf " # im g=%s vr=%s pr=%s meta=%s" (show_os im.Meta.im_guid) vr pr meta)) m.MetaFile.fm_images;
  Stdlib.List.iter (fun bl -> Buffer.add_string b (" # bl " ^ blob_view rs bl)) blobs;
  Buffer.contents b

(* WAPIF V:<crate version hex> T64:<bits>=<text hex>,... T32:<bits>=<text hex>,... <calls> : the whole writer
   (Model/WriterFull.v): the XML is generated by the model (XmlGen.gen_root after the float texts were filled in
   from the table, which holds Rust's Display of the bit patterns - an oracle); nothing is borrowed from the
   implementation's file.  A float whose text is not in the table makes the case answer `missing-float`. *)
let full_mode : (string * (string, string) Hashtbl.t * (string, string) Hashtbl.t) option ref = ref None
let missing_float = ref false
let missing_key = ref ""

let table_of (s : string) : (string, string) Hashtbl.t =
  let h = Hashtbl.create 64 in
  Stdlib.List.iter (fun kv ->
      match Stdlib.String.index_opt kv '=' with
      | Some i -> Hashtbl.replace h (Stdlib.String.sub kv 0 i) (Stdlib.String.sub kv (i+1) (Stdlib.String.length kv - i - 1))
      | None -> ()) (Stdlib.String.split_on_char ',' s);
  h

let run_wapi (toks : string list) : string =
  let d0 = Device.dev_init [] None in
  let (d1, r) = PagedWriter.pw_new d0 in
  match r with
  | Prelude.Ok s ->
    let st = ref WriterApi.ws_init in
    let pw = ref s in
    let outs = ref [] in
    let blobs = ref [] in
    let last_meta = ref None in
    let skipping = ref false in
    (try
       Stdlib.List.iter (fun t ->
           let (c, parts) = parse_call t in
           let is_sub = (match c with
               | WriterApi.PcSet _ | WriterApi.PcAddPoint _ | WriterApi.PcFinalize | WriterApi.PcDrop
               | WriterApi.ImSet _ | WriterApi.ImAddVisualReference _ | WriterApi.ImAddPinhole _
               | WriterApi.ImAddSpherical _ | WriterApi.ImAddCylindrical _ | WriterApi.ImFinalize | WriterApi.ImDrop -> true
               | _ -> false) in
           (* calls on a sub-writer whose add_... call failed cannot be written in Rust: skipped, reported as - *)
           if !skipping && is_sub then begin
             outs := "-" :: !outs;
             if c = WriterApi.PcDrop || c = WriterApi.ImDrop then skipping := false
           end else begin
           skipping := false;
           let gen_xml (m : MetaFile.file_meta) : BinNums.coq_N list Prelude.res =
             match !full_mode with
             | Some (_, t64, t32) ->
               let look tab digits canon bits =
                 let k = hex_of_n digits (canon bits) in
                 (match Hashtbl.find_opt tab k with
                  | Some t -> bytes_of_hex t
                  | None -> missing_float := true; missing_key := k; []) in
               WriterFull.gen_xml_full (look t64 16 Floats.canon64) (look t32 8 Floats.canon32) m
             | None ->
             match parts with
             | _ :: x :: _ when Stdlib.String.length x > 0 && x.[0] = '!' ->
               Prelude.Err (err_of_name (Stdlib.String.sub x 1 (Stdlib.String.length x - 1)))
             | _ :: x :: _ -> Prelude.Ok (bytes_of_hex x)
             | _ -> Prelude.Ok [] in
           let meta_before = WriterApi.ws_meta !st in
           let libv = match !full_mode with Some (v, _, _) -> WriterFull.lib_version_text (bytes_of_hex v) | None -> [] in
           let (pw', r) = Prog.wrun (WriterApi.wapi_step gen_xml libv !st c) !pw in
           pw := pw';
           match r with
           | Prelude.Ok (st', cr) ->
             st := st';
             (match cr with
              | WriterApi.CrOk -> outs := "o" :: !outs; if c = WriterApi.Finalize then last_meta := Some meta_before
              | WriterApi.CrBlob (o, l) ->
                blobs := { Meta.b_offset = o; b_length = l } :: !blobs;
                outs := Printf.sprintf "b%s:%s" (decimal_of_n o) (decimal_of_n l) :: !outs
              | WriterApi.CrErr k ->
                outs := ("e" ^ err_name k) :: !outs;
                (match c with WriterApi.AddPointcloud _ | WriterApi.AddImage _ -> skipping := true | _ -> ())
              | WriterApi.CrNoCompile -> outs := "nocompile" :: !outs)
           | Prelude.Err k -> outs := ("uncaught-e" ^ err_name k) :: !outs; raise Exit
           | Prelude.Panic -> outs := "P" :: !outs; raise Exit
           end) toks
     with Exit -> ());
    let (s4, _) = PagedWriter.pw_drop !pw in
    let d = s4.PagedWriter.pw_dev in
    let rs = match ReaderOpen.reader_open (Device.dev_init d.Device.d_bytes None) with
      | (_, Prelude.Ok ((rs, _), _)) -> Some rs
      | _ -> None in
    let view = match !last_meta with
      | None -> "nofin"
      | Some m -> model_view rs m (Stdlib.List.rev !blobs) in
    Stdlib.String.concat " " (Stdlib.List.rev !outs) ^ " | " ^ dev_summary d ^ " | " ^ view
  | Prelude.Err k -> "new:e" ^ err_name k ^ " | " ^ dev_summary d1
  | Prelude.Panic -> "new:P"

let strip_prefix p t = Stdlib.String.sub t (Stdlib.String.length p) (Stdlib.String.length t - Stdlib.String.length p)

let run (kind : string) (toks : string list) : string option =
  match kind with
  | "WAPI" -> full_mode := None; Some (run_wapi toks)
  | "WAPIF" ->
    (match toks with
     | v :: t64 :: t32 :: calls ->
       full_mode := Some (strip_prefix "V:" v, table_of (strip_prefix "T64:" t64), table_of (strip_prefix "T32:" t32));
       missing_float := false;
       let out = run_wapi calls in
       full_mode := None;
       Some (if !missing_float then "missing-float " ^ !missing_key else out)
     | _ -> failwith "bad WAPIF case")
  | _ -> None
