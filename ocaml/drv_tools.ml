(* Slice "tools": the data path of the bundled command-line tools (Model/Tools.v).
   The oracles of the model (str::parse::<f32>, ryu, Display of floats) are
   instantiated with finite tables given in the case: key=value,key=value ...
   (hex of the text / hex of the bit pattern); a lookup outside the table is reported.
     XYZRT  <inputhex|-> <parse32 table|-> <ryu table|->   -> ok <outputhex|-> | e<Kind>
     XYZPTS <inputhex|-> <parse32 table|->                  -> ok x,y,z,r,g,b;... | ok - | e<Kind>
     XYZLN  <linehex|-> <parse32 table|->                   -> skip | pt x,y,z,r,g,b | e<Kind>
     CHKCRC <devhex>                                         -> 0 | 1     (exit status)
     XMLTOOL <devhex>                                        -> 0 n=<len> h=<fnv> | 1
     CSVB <disp32 table|-> <disp64 table|-> <points|->       -> <hex of the CSV body|->
     U8PATH v...                                             -> colour path of each value *)
open Conv
open Drv_core

exception Missing of string

let table (tok : string) : (string, string) Hashtbl.t =
  let h = Hashtbl.create 64 in
  if tok <> "-" then
    Stdlib.List.iter (fun kv ->
        match Stdlib.String.index_opt kv '=' with
        | Some i -> Hashtbl.replace h (Stdlib.String.sub kv 0 i)
                      (Stdlib.String.sub kv (i + 1) (Stdlib.String.length kv - i - 1))
        | None -> failwith ("bad table entry " ^ kv))
      (Stdlib.String.split_on_char ',' tok);
  h

let bytes_tok (s : string) = if s = "-" then [] else bytes_of_hex s
let hex_tok (l : BinNums.coq_N list) = match l with [] -> "-" | _ -> hex_of_bytes l

(* text -> bit pattern option *)
let parse_oracle (t : (string, string) Hashtbl.t) (text : BinNums.coq_N list) : BinNums.coq_N option =
  let k = match text with [] -> "-" | _ -> hex_of_bytes text in
  match Hashtbl.find_opt t k with
  | Some "x" -> None
  | Some v -> Some (n_of_hex v)
  | None -> raise (Missing ("parse:" ^ k))

(* bit pattern -> text *)
let fmt_oracle (digits : int) (what : string) (t : (string, string) Hashtbl.t) (bits : BinNums.coq_N) : BinNums.coq_N list =
  let k = hex_of_n digits bits in
  match Hashtbl.find_opt t k with
  | Some v -> bytes_of_hex v
  | None -> raise (Missing (what ^ ":" ^ k))

let show_res (f : 'a -> string) (r : 'a Prelude.res) : string =
  match r with
  | Prelude.Ok a -> f a
  | Prelude.Err k -> "e" ^ err_name k
  | Prelude.Panic -> "P"

let show_p6 (p : Tools.point6) : string =
  Printf.sprintf "%s,%s,%s,%s,%s,%s" (hex_of_n 8 p.Tools.p_x) (hex_of_n 8 p.Tools.p_y) (hex_of_n 8 p.Tools.p_z)
    (decimal_of_n p.Tools.p_r) (decimal_of_n p.Tools.p_g) (decimal_of_n p.Tools.p_b)

let run (kind : string) (toks : string list) : string option =
  try
    match kind, toks with
    | "XYZRT", [inp; pt; rt] ->
      let p = parse_oracle (table pt) and f = fmt_oracle 16 "ryu" (table rt) in
      Some (show_res (fun out -> "ok " ^ hex_tok out) (Tools.xyz_roundtrip p f (bytes_tok inp)))
    | "XYZPTS", [inp; pt] ->
      let p = parse_oracle (table pt) in
      Some (show_res (fun pts -> "ok " ^ (match pts with [] -> "-" | _ -> Stdlib.String.concat ";" (Stdlib.List.map show_p6 pts)))
              (Tools.from_xyz p (Tools.xyz_lines (bytes_tok inp))))
    | "XYZLN", [ln; pt] ->
      let p = parse_oracle (table pt) in
      Some (show_res (fun o -> match o with None -> "skip" | Some q -> "pt " ^ show_p6 q)
              (Tools.from_xyz_line p (bytes_tok ln)))
    | "CHKCRC", [dev] -> Some (if Tools.check_crc_file (resolve_dev dev) then "0" else "1")
    | "XMLTOOL", [dev] ->
      (match Tools.extract_xml_tool (resolve_dev dev) with
       | (true, xml) -> Some (Printf.sprintf "0 n=%d h=%s" (Stdlib.List.length xml) (fnv_hex (fnv_bytes fnv_init xml)))
       | (false, _) -> Some "1")
    | "CSVB", [t32; t64; pts] ->
      let f32 = fmt_oracle 8 "disp32" (table t32) and f64 = fmt_oracle 16 "disp64" (table t64) in
      let pts = if pts = "-" then [] else parse_points pts in
      Some (hex_tok (Tools.csv_body f32 f64 pts))
    | "U8PATH", vs ->
      Some (Stdlib.String.concat " " (Stdlib.List.map (fun v ->
          show_res decimal_of_z (Tools.color_path (n_of_decimal v))) vs))
    | ("XYZRT" | "XYZPTS" | "XYZLN" | "CHKCRC" | "XMLTOOL" | "CSVB"), _ -> failwith ("bad " ^ kind ^ " case")
    | _ -> None
  with Missing m -> Some ("missing-oracle " ^ m)
