(* Template of an extension module: return Some result for the case kinds this
   module owns, None otherwise. *)
open Conv
open Drv_core

let run (kind : string) (toks : string list) : string option =
  match kind with
  | "ECHO" -> Some (Stdlib.String.concat " " toks)
  | _ -> None
