(* Core case kinds of the model driver (page, bit, packet and file level) and
   the helpers shared with the extension modules drv_*.ml. *)
open Conv

let dev_summary (d : Device.dev) : string =
  let bytes = d.Device.d_bytes in
  let n = Stdlib.List.length bytes in
  (* log hash: positions and contents of all writes, oldest first *)
  let lh = Stdlib.List.fold_left (fun h (p, bs) ->
      fnv_bytes (fnv_int (fnv_int h (int_of_n p)) (Stdlib.List.length bs)) bs)
      fnv_init (Stdlib.List.rev d.Device.d_log) in
  Printf.sprintf "ops=%d len=%d h=%s wlog=%d:%s" (int_of_n d.Device.d_ops) n
    (fnv_hex (fnv_bytes fnv_init bytes)) (Stdlib.List.length d.Device.d_log) (fnv_hex lh)

let fault_of (s : string) : BinNums.coq_N option =
  if s = "-" then None else Some (n_of_int (int_of_string s))

let res_num (r : BinNums.coq_N Prelude.res) : string =
  match r with
  | Prelude.Ok n -> "o" ^ decimal_of_n n
  | Prelude.Err k -> "e" ^ err_name k
  | Prelude.Panic -> "P"

(* PW <fault> <full:0|1> ops...   ops: w<hex> s<dec> f a p z *)
let run_pw (toks : string list) : string =
  match toks with
  | fault :: full :: ops ->
    let ops = Stdlib.List.map (fun t ->
        let arg = Stdlib.String.sub t 1 (Stdlib.String.length t - 1) in
        match t.[0] with
        | 'w' -> PagedWriter.PwWrite (bytes_of_hex arg)
        | 's' -> PagedWriter.PwSeek (n_of_decimal arg)
        | 'f' -> PagedWriter.PwFlush
        | 'a' -> PagedWriter.PwAlign
        | 'p' -> PagedWriter.PwPosition
        | 'z' -> PagedWriter.PwSize
        | _ -> failwith ("bad pw op " ^ t)) ops in
    let d0 = Device.dev_init [] (fault_of fault) in
    let (d1, r) = PagedWriter.pw_new d0 in
    (match r with
     | Prelude.Ok s ->
       let (s1, outs) = PagedWriter.pw_run ops s in
       let (s2, _) = PagedWriter.pw_drop s1 in
       let d = s2.PagedWriter.pw_dev in
       Stdlib.String.concat " " (Stdlib.List.map res_num outs) ^ " | " ^ dev_summary d
       ^ (if full = "1" then " dev=" ^ hex_of_bytes d.Device.d_bytes else "")
     | Prelude.Err k -> "new:e" ^ err_name k ^ " | " ^ dev_summary d1
     | Prelude.Panic -> "new:P")
  | _ -> failwith "bad PW case"

(* PR <fault> <pagesize> <devhex> ops...   ops: s<dec> r<dec> x<dec> a *)
let run_pr (toks : string list) : string =
  match toks with
  | fault :: ps :: devhex :: ops ->
    let ops = Stdlib.List.map (fun t ->
        let arg = Stdlib.String.sub t 1 (Stdlib.String.length t - 1) in
        match t.[0] with
        | 's' -> PagedReader.PrSeek (n_of_decimal arg)
        | 'r' -> PagedReader.PrRead (n_of_decimal arg)
        | 'x' -> PagedReader.PrReadExact (n_of_decimal arg)
        | 'a' -> PagedReader.PrAlign
        | _ -> failwith ("bad pr op " ^ t)) ops in
    let d0 = Device.dev_init (resolve_dev devhex) (fault_of fault) in
    let (d1, r) = PagedReader.pr_new (n_of_decimal ps) d0 in
    (match r with
     | Prelude.Ok s ->
       let (s1, outs) = PagedReader.pr_run ops s in
       let show o = match o with
         | Prelude.Ok (PagedReader.PoNum n) -> "o" ^ decimal_of_n n
         | Prelude.Ok (PagedReader.PoBytes l) ->
           Printf.sprintf "b%d:%s" (Stdlib.List.length l) (fnv_hex (fnv_bytes fnv_init l))
         | Prelude.Ok PagedReader.PoUnit -> "o"
         | Prelude.Err _ -> "e"
         | Prelude.Panic -> "P" in
       Stdlib.String.concat " " (Stdlib.List.map show outs)
       ^ Printf.sprintf " | ops=%d" (int_of_n s1.PagedReader.pr_dev.Device.d_ops)
     | Prelude.Err _ -> Printf.sprintf "new:e | ops=%d" (int_of_n d1.Device.d_ops)
     | Prelude.Panic -> "new:P")
  | _ -> failwith "bad PR case"

(* PWS ops...: the logical-stream specification of the writer *)
let run_pws (toks : string list) : string =
  let ops = Stdlib.List.map (fun t ->
      let arg = Stdlib.String.sub t 1 (Stdlib.String.length t - 1) in
      match t.[0] with
      | 'w' -> PagedWriter.PwWrite (bytes_of_hex arg)
      | 's' -> PagedWriter.PwSeek (n_of_decimal arg)
      | 'f' -> PagedWriter.PwFlush
      | 'a' -> PagedWriter.PwAlign
      | 'p' -> PagedWriter.PwPosition
      | 'z' -> PagedWriter.PwSize
      | _ -> failwith ("bad pw op " ^ t)) toks in
  let (s1, outs) = PageSpec.ls_run ops PageSpec.ls_init in
  let phys = PageSpec.paginate s1.PageSpec.ls_data in
  Stdlib.String.concat " " (Stdlib.List.map res_num outs)
  ^ Printf.sprintf " | len=%d h=%s" (Stdlib.List.length phys) (fnv_hex (fnv_bytes fnv_init phys))

(* PRS <devhex> ops...: the logical-stream specification of the reader on strip_crc dev *)
let run_prs (toks : string list) : string =
  match toks with
  | devhex :: ops ->
    let ops = Stdlib.List.map (fun t ->
        let arg = Stdlib.String.sub t 1 (Stdlib.String.length t - 1) in
        match t.[0] with
        | 's' -> PagedReader.PrSeek (n_of_decimal arg)
        | 'r' -> PagedReader.PrRead (n_of_decimal arg)
        | 'x' -> PagedReader.PrReadExact (n_of_decimal arg)
        | 'a' -> PagedReader.PrAlign
        | _ -> failwith ("bad pr op " ^ t)) ops in
    let log = PageSpec.strip_crc (bytes_of_hex devhex) in
    let outs = PageSpec.lr_run log ops BinNums.N0 in
    let show o = match o with
      | Prelude.Ok (PagedReader.PoNum n) -> "o" ^ decimal_of_n n
      | Prelude.Ok (PagedReader.PoBytes l) ->
        Printf.sprintf "b%d:%s" (Stdlib.List.length l) (fnv_hex (fnv_bytes fnv_init l))
      | Prelude.Ok PagedReader.PoUnit -> "o"
      | Prelude.Err _ -> "e"
      | Prelude.Panic -> "P" in
    Stdlib.String.concat " " (Stdlib.List.map show outs)
  | _ -> failwith "bad PRS case"

(* ---- bit layer ---- *)
let parse_type (s : string) : Record.dtype =
  match Stdlib.String.split_on_char '/' s with
  | "F" :: _ -> Record.TSingle
  | "D" :: _ -> Record.TDouble
  | "I" :: mn :: mx :: _ -> Record.TInteger (z_of_decimal mn, z_of_decimal mx)
  | "S" :: mn :: mx :: _ -> Record.TScaled (z_of_decimal mn, z_of_decimal mx)
  | _ -> failwith "bad type"

let n_of_hex (s : string) : BinNums.coq_N =
  let sixteen = n_of_int 16 in
  let acc = ref BinNums.N0 in
  Stdlib.String.iter (fun c -> acc := BinNat.N.add (BinNat.N.mul !acc sixteen) (n_of_int (hexval c))) s;
  !acc

let hex_of_n (digits : int) (n : BinNums.coq_N) : string =
  let sixteen = n_of_int 16 in
  let rec go n k acc =
    if k = 0 then acc else
      let (q, r) = BinNat.N.div_eucl n sixteen in
      go q (k - 1) (Printf.sprintf "%x" (int_of_n r) ^ acc) in
  go n digits ""

let parse_value (s : string) : Record.rvalue =
  let a = Stdlib.String.sub s 1 (Stdlib.String.length s - 1) in
  match s.[0] with
  | 'f' -> Record.VSingle (n_of_hex a)
  | 'd' -> Record.VDouble (n_of_hex a)
  | 's' -> Record.VScaled (z_of_decimal a)
  | 'i' -> Record.VInteger (z_of_decimal a)
  | _ -> failwith "bad value"

let show_value (v : Record.rvalue) : string =
  match v with
  | Record.VSingle x -> "f" ^ hex_of_n 8 x
  | Record.VDouble x -> "d" ^ hex_of_n 16 x
  | Record.VScaled z -> "s" ^ decimal_of_z z
  | Record.VInteger z -> "i" ^ decimal_of_z z

let rec split_chunks (stream : BinNums.coq_N list) (cuts : int list) : BinNums.coq_N list list =
  match cuts with
  | [] -> [stream]
  | c :: r ->
    let rec take k l acc = if k = 0 then (Stdlib.List.rev acc, l) else
        match l with [] -> (Stdlib.List.rev acc, []) | x :: t -> take (k-1) t (x :: acc) in
    let (a, b) = take c stream [] in
    a :: split_chunks b r

(* BITS <type> c<cuts> values... *)
let run_bits (toks : string list) : string =
  match toks with
  | ty :: cuts :: vals ->
    let t = parse_type ty in
    let cuts = Stdlib.List.map int_of_string
        (Stdlib.List.filter (fun x -> x <> "") (Stdlib.String.split_on_char ',' (Stdlib.String.sub cuts 1 (Stdlib.String.length cuts - 1)))) in
    let vals = Stdlib.List.map parse_value vals in
    let w = int_of_n (Record.bit_size t) in
    let rec wr i vs b = match vs with
      | [] -> Stdlib.Ok b
      | v :: r -> (match Record.dtype_write t v b with
          | Prelude.Ok b' -> wr (i+1) r b'
          | Prelude.Err k -> Stdlib.Error (Printf.sprintf "w=%d we%s@%d" w (err_name k) i)
          | Prelude.Panic -> Stdlib.Error (Printf.sprintf "w=%d wP@%d" w i)) in
    (match wr 0 vals BsWrite.bsw_new with
     | Stdlib.Error m -> m
     | Stdlib.Ok b ->
       let (_, stream) = BsWrite.bsw_get_all_bytes b in
       let out = Printf.sprintf "w=%d stream=%s" w (hex_of_bytes stream) in
       if w = 0 then out else
         (match Record.feed_chunks t (split_chunks stream cuts) BsRead.bsr_new [] with
          | Prelude.Ok (_, vs) -> out ^ " out=" ^ Stdlib.String.concat "," (Stdlib.List.map show_value vs)
          | Prelude.Err k -> out ^ " re" ^ err_name k
          | Prelude.Panic -> out ^ " rP"))
  | _ -> failwith "bad BITS case"

(* BITSPEC <type> c<cuts> values...: the independent codec *)
let run_bitspec (toks : string list) : string =
  match toks with
  | ty :: _ :: vals ->
    let t = parse_type ty in
    let vals = Stdlib.List.map parse_value vals in
    let w = int_of_n (BitSpec.spec_bit_size t) in
    let stream = BitSpec.spec_stream_bytes t vals in
    let out = Printf.sprintf "w=%d stream=%s" w (hex_of_bytes stream) in
    if w = 0 then out else
      out ^ " out=" ^ Stdlib.String.concat "," (Stdlib.List.map show_value (BitSpec.spec_decode_stream t stream))
  | _ -> failwith "bad BITSPEC case"

let run_bw (toks : string list) : string =
  let outs = ref [] in
  let b = ref BsWrite.bsw_new in
  (try
     Stdlib.List.iter (fun t ->
         let a = Stdlib.String.sub t 1 (Stdlib.String.length t - 1) in
         let push x = outs := x :: !outs; if x = "P" then raise Exit in
         match t.[0] with
         | 'b' ->
           let i = Stdlib.String.index a ':' in
           let bits = n_of_decimal (Stdlib.String.sub a 0 i) in
           let data = bytes_of_hex (Stdlib.String.sub a (i+1) (Stdlib.String.length a - i - 1)) in
           (match BsWrite.bsw_add_bits !b data bits with
            | Prelude.Ok b' -> b := b'; push "o" | _ -> push "P")
         | 'y' ->
           (match BsWrite.bsw_add_bytes !b (bytes_of_hex a) with
            | Prelude.Ok b' -> b := b'; push "o" | _ -> push "P")
         | 'g' ->
           (match BsWrite.bsw_get_full_bytes !b with
            | Prelude.Ok (b', v) -> b := b'; push ("[" ^ hex_of_bytes v ^ "]") | _ -> push "P")
         | 'G' -> let (b', v) = BsWrite.bsw_get_all_bytes !b in b := b'; push ("[" ^ hex_of_bytes v ^ "]")
         | 'n' ->
           (match BsWrite.bsw_full_bytes !b with
            | Prelude.Ok f -> push (Printf.sprintf "%d/%d" (int_of_n f) (int_of_n (BsWrite.bsw_all_bytes !b)))
            | _ -> push "P")
         | _ -> failwith "bad bw op") toks
   with Exit -> ());
  Stdlib.String.concat " " (Stdlib.List.rev !outs)

let run_br (toks : string list) : string =
  let outs = ref [] in
  let b = ref BsRead.bsr_new in
  (try
     Stdlib.List.iter (fun t ->
         let a = Stdlib.String.sub t 1 (Stdlib.String.length t - 1) in
         let push x = outs := x :: !outs; if x = "P" then raise Exit in
         match t.[0] with
         | 'a' ->
           (match BsRead.bsr_append !b (bytes_of_hex a) with
            | Prelude.Ok b' -> b := b'; push "o" | _ -> push "P")
         | 'e' ->
           (match BsRead.bsr_extract !b (n_of_decimal a) with
            | Prelude.Ok (b', Some v) -> b := b'; push (decimal_of_n v)
            | Prelude.Ok (b', None) -> b := b'; push "none"
            | _ -> push "P")
         | 'v' ->
           (match BsRead.bsr_available !b with
            | Prelude.Ok v -> push (decimal_of_n v) | _ -> push "P")
         | _ -> failwith "bad br op") toks
   with Exit -> ());
  Stdlib.String.concat " " (Stdlib.List.rev !outs)

(* ---- file level, binary side ---- *)
let parse_proto (s : string) : Record.dtype list =
  (* name=type,name=type,... ; names are ignored by the binary model *)
  Stdlib.List.map (fun nt ->
      match Stdlib.String.index_opt nt '=' with
      | Some i -> parse_type (Stdlib.String.sub nt (i+1) (Stdlib.String.length nt - i - 1))
      | None -> parse_type nt)
    (Stdlib.List.filter (fun x -> x <> "") (Stdlib.String.split_on_char ',' s))

let parse_points (s : string) : Record.rvalue list list =
  if s = "" then [] else
    Stdlib.List.map (fun p ->
        Stdlib.List.map parse_value (Stdlib.List.filter (fun x -> x <> "") (Stdlib.String.split_on_char ',' p)))
      (Stdlib.String.split_on_char ';' s)

let parse_item (t : string) : FileBin.item =
  match Stdlib.String.split_on_char ':' t with
  | ["B"; h] -> FileBin.IBlob (bytes_of_hex h)
  | ["P"; proto; pts] -> FileBin.IPc (parse_proto proto, parse_points pts)
  | ["P"; proto] -> FileBin.IPc (parse_proto proto, [])
  | _ -> failwith ("bad item " ^ t)

let show_points (pts : Record.rvalue list list) : string =
  Stdlib.String.concat ";" (Stdlib.List.map (fun p -> Stdlib.String.concat "," (Stdlib.List.map show_value p)) pts)

let fnv_string (s : string) : string =
  let h = ref fnv_init in
  Stdlib.String.iter (fun c -> h := fnv_byte !h (Char.code c)) s;
  fnv_hex !h

let raw_summary_st (limit : int option) (s : PagedReader.pr) (fo : BinNums.coq_N) (recs : BinNums.coq_N) (proto : Record.dtype list)
  : PagedReader.pr * string =
  let (s1, r) = Prog.rrun (QueueReader.raw_new fo recs proto) s in
  let last = ref s1 in
  let txt = match r with
  | Prelude.Ok it ->
    let buf = Buffer.create 256 in
    let count = ref 0 in
    let rec loop s it =
      last := s;
      if (match limit with Some n -> !count >= n | None -> false) then "none" else
      let (s', r) = Prog.rrun (QueueReader.raw_next s.PagedReader.pr_log_size it) s in
      last := s';
      match r with
      | Prelude.Ok (it', QueueReader.Item p) ->
        if !count > 0 then Buffer.add_char buf ';';
        Buffer.add_string buf (Stdlib.String.concat "," (Stdlib.List.map show_value p));
        incr count; loop s' it'
      | Prelude.Ok (_, QueueReader.Done) -> "none"
      | Prelude.Err k -> "e" ^ err_name k
      | Prelude.Panic -> "P" in
    let fin = loop s1 it in
    let txt = Buffer.contents buf in
    Printf.sprintf "n=%d end=%s h=%s%s" !count fin (fnv_string txt)
      (if Stdlib.String.length txt <= 1500 then " pts=" ^ txt else "")
  | Prelude.Err k -> "new:e" ^ err_name k
  | Prelude.Panic -> "new:P" in
  (!last, txt)

let raw_summary s fo recs proto = snd (raw_summary_st None s fo recs proto)

(* FW <fault> item... X:<xmlhex> [DUMP] : run the writer program; items one by one so that the
   result of each call is visible, the writer lives on after a failed item as in the API;
   then read everything back from the written file *)
let run_fw (toks : string list) : string =
  match toks with
  | fault :: rest ->
    let xml = ref None in
    let dump = Stdlib.List.mem "DUMP" rest in
    let items = Stdlib.List.filter_map (fun t ->
        if t = "DUMP" then None else
        if Stdlib.String.length t >= 2 && Stdlib.String.sub t 0 2 = "X:" then
          (xml := Some (bytes_of_hex (Stdlib.String.sub t 2 (Stdlib.String.length t - 2))); None)
        else Some (parse_item t)) rest in
    let d0 = Device.dev_init [] (fault_of fault) in
    let (d1, r) = PagedWriter.pw_new d0 in
    (match r with
     | Prelude.Ok s ->
       let outs = ref [] in
       let results = ref [] in
       let st = ref s in
       let res_s r f = match r with
         | Prelude.Ok v -> f v | Prelude.Err k -> "e" ^ err_name k | Prelude.Panic -> "P" in
       let (s1, r0) = Prog.wrun FileBin.writer_init !st in
       st := s1;
       outs := [res_s r0 (fun () -> "o")];
       let fin_ok = ref false in
       if r0 = Prelude.Ok () then begin
         Stdlib.List.iter (fun it ->
             let (s2, r) = Prog.wrun (FileBin.item_write it) !st in
             st := s2;
             (match r with Prelude.Ok o -> results := (it, o) :: !results | _ -> ());
             outs := res_s r (fun o -> match o with
                 | FileBin.OBlob (o, l) -> Printf.sprintf "b%s:%s" (decimal_of_n o) (decimal_of_n l)
                 | FileBin.OPc (o, n) -> Printf.sprintf "p%s:%s" (decimal_of_n o) (decimal_of_n n)) :: !outs) items;
         (match !xml with
          | Some x ->
            let (s3, r) = Prog.wrun (FileBin.writer_finalize x) !st in
            st := s3; outs := res_s r (fun () -> "o") :: !outs;
            fin_ok := (r = Prelude.Ok ())
          | None -> ())
       end;
       let (s4, _) = PagedWriter.pw_drop !st in
       let d = s4.PagedWriter.pw_dev in
       let rb =
         match ReaderOpen.reader_open (Device.dev_init d.Device.d_bytes None) with
         | (_, Prelude.Ok ((rs, _), _)) ->
           Stdlib.String.concat "" (Stdlib.List.map (fun (it, o) ->
               match it, o with
               | FileBin.IPc (proto, _), FileBin.OPc (fo, n) -> " # pc " ^ raw_summary rs fo n proto
               | FileBin.IBlob _, FileBin.OBlob (bo, bl) ->
                 let (_, r) = Prog.rrun (FileBin.blob_read rs.PagedReader.pr_log_size bo bl) rs in
                 " # bl " ^ (match r with
                     | Prelude.Ok data -> Printf.sprintf "ok n=%d h=%s" (Stdlib.List.length data) (fnv_hex (fnv_bytes fnv_init data))
                     | Prelude.Err k -> "e" ^ err_name k
                     | Prelude.Panic -> "P")
               | _ -> " # ??") (Stdlib.List.rev !results))
         | _ -> " # reopen-failed" in
       Stdlib.String.concat " " (Stdlib.List.rev !outs) ^ " | " ^ dev_summary d ^ rb
       ^ (if dump then " dev=" ^ hex_of_bytes d.Device.d_bytes else "")
     | Prelude.Err k -> "new:e" ^ err_name k ^ " | " ^ dev_summary d1
     | Prelude.Panic -> "new:P")
  | _ -> failwith "bad FW case"

(* RAWRD <fault> <devhex> <file_offset> <records> <proto> : raw iteration with the descriptor given *)
let run_rawrd (toks : string list) : string =
  match toks with
  | [fault; devhex; fo; recs; proto] ->
    let d0 = Device.dev_init (resolve_dev devhex) (fault_of fault) in
    (match ReaderOpen.reader_open d0 with
     | (_, Prelude.Ok ((s, _), _)) -> raw_summary s (n_of_decimal fo) (n_of_decimal recs) (parse_proto proto)
     | (_, Prelude.Err k) -> "open:e" ^ err_name k
     | (_, Prelude.Panic) -> "open:P")
  | _ -> failwith "bad RAWRD case"

(* OPEN <fault> <devhex> : header fields and XML bytes *)
let run_open (toks : string list) : string =
  match toks with
  | [fault; devhex] ->
    let d0 = Device.dev_init (resolve_dev devhex) (fault_of fault) in
    (match ReaderOpen.reader_open d0 with
     | (d, Prelude.Ok ((_, h), xml)) ->
       Printf.sprintf "ok phys=%s xoff=%s xlen=%s xml=%s ops=%d" (decimal_of_n h.FileBin.h_phys_length)
         (decimal_of_n h.FileBin.h_xml_offset) (decimal_of_n h.FileBin.h_xml_length)
         (fnv_hex (fnv_bytes fnv_init xml)) (int_of_n d.Device.d_ops)
     | (d, Prelude.Err k) -> Printf.sprintf "e%s ops=%d" (err_name k) (int_of_n d.Device.d_ops)
     | (_, Prelude.Panic) -> "P")
  | _ -> failwith "bad OPEN case"

(* BLOBRD <fault> <devhex> <offset> <length> *)
let run_blobrd (toks : string list) : string =
  match toks with
  | [fault; devhex; off; ln] ->
    let d0 = Device.dev_init (resolve_dev devhex) (fault_of fault) in
    (match ReaderOpen.reader_open d0 with
     | (_, Prelude.Ok ((s, _), _)) ->
       let (_, r) = Prog.rrun (FileBin.blob_read s.PagedReader.pr_log_size (n_of_decimal off) (n_of_decimal ln)) s in
       (match r with
        | Prelude.Ok data -> Printf.sprintf "ok n=%d h=%s" (Stdlib.List.length data) (fnv_hex (fnv_bytes fnv_init data))
        | Prelude.Err k -> "e" ^ err_name k
        | Prelude.Panic -> "P")
     | (_, Prelude.Err k) -> "open:e" ^ err_name k
     | (_, Prelude.Panic) -> "open:P")
  | _ -> failwith "bad BLOBRD case"

(* VCRC <fault> <devhex> / RAWXML <fault> <devhex> *)
let run_vcrc (toks : string list) : string =
  match toks with
  | [fault; devhex] ->
    (match FileBin.validate_crc (Device.dev_init (resolve_dev devhex) (fault_of fault)) with
     | (_, Prelude.Ok ps) -> "ok " ^ decimal_of_n ps
     | (_, Prelude.Err k) -> "e" ^ err_name k
     | (_, Prelude.Panic) -> "P")
  | _ -> failwith "bad VCRC case"

let run_rawxml (toks : string list) : string =
  match toks with
  | [fault; devhex] ->
    (match ReaderOpen.raw_xml (Device.dev_init (resolve_dev devhex) (fault_of fault)) with
     | (_, Prelude.Ok xml) -> Printf.sprintf "ok n=%d h=%s" (Stdlib.List.length xml) (fnv_hex (fnv_bytes fnv_init xml))
     | (_, Prelude.Err k) -> "e" ^ err_name k
     | (_, Prelude.Panic) -> "P")
  | _ -> failwith "bad RAWXML case"

(* SESS <fault> <devhex> op... : several read operations on ONE reader *)
let run_sess (toks : string list) : string =
  match toks with
  | fault :: devhex :: ops ->
    let d0 = Device.dev_init (resolve_dev devhex) (fault_of fault) in
    (match ReaderOpen.reader_open d0 with
     | (_, Prelude.Ok ((s, _), xml)) ->
       let st = ref s in
       let outs = ref ["open:ok"] in
       Stdlib.List.iter (fun t ->
           let o = match Stdlib.String.split_on_char ':' t with
             | ["X"] -> "xml=" ^ fnv_hex (fnv_bytes fnv_init xml)
             | ["R"; fo; recs; proto; limit] ->
               let lim = if limit = "all" then None else Some (int_of_string limit) in
               let (s', txt) = raw_summary_st lim !st (n_of_decimal fo) (n_of_decimal recs) (parse_proto proto) in
               st := s'; txt
             | ["B"; off; ln] ->
               let (s', r) = Prog.rrun (FileBin.blob_read !st.PagedReader.pr_log_size (n_of_decimal off) (n_of_decimal ln)) !st in
               st := s';
               (match r with
                | Prelude.Ok data -> Printf.sprintf "ok n=%d h=%s" (Stdlib.List.length data) (fnv_hex (fnv_bytes fnv_init data))
                | Prelude.Err k -> "e" ^ err_name k
                | Prelude.Panic -> "P")
             | _ -> failwith ("bad sess op " ^ t) in
           outs := o :: !outs) ops;
       Stdlib.String.concat " # " (Stdlib.List.rev !outs)
     | (_, Prelude.Err k) -> "open:e" ^ err_name k
     | (_, Prelude.Panic) -> "open:P")
  | _ -> failwith "bad SESS case"

let run_crc (toks : string list) : string =
  match toks with
  | [hex] -> decimal_of_n (Crc.crc32c (bytes_of_hex hex))
  | [] -> decimal_of_n (Crc.crc32c [])
  | _ -> failwith "bad CRC case"

