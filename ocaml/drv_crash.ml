(* Slice "crash" (C15, C16): the model side of the case kinds of harness/src/ext_crash.rs.
   CWLOG <fault> <chunks: ignored, the model device never transfers short> <flags> item... [X:<xmlhex>]
   CSESS <fault> <chunks> <flags> <dev> op...
   COPEN / CVCRC / CRAWXML <fault> <chunks> <dev>
   Formats: see ext_crash.rs. *)
open Conv
open Drv_core

let is_failure (t : string) : bool =
  let n = Stdlib.String.length t in
  let contains sub =
    let m = Stdlib.String.length sub in
    let rec go i = i + m <= n && (Stdlib.String.sub t i m = sub || go (i + 1)) in go 0 in
  t = "P" || (n > 0 && t.[0] = 'e') || (n >= 4 && Stdlib.String.sub t 0 4 = "new:") || contains "end=e" || contains "end=P"

let res_tok r f = match r with
  | Prelude.Ok v -> f v | Prelude.Err k -> "e" ^ err_name k | Prelude.Panic -> "P"

let run_cwlog (toks : string list) : string =
  match toks with
  | fault :: _ :: flags :: rest ->
    let flags = Stdlib.String.split_on_char ',' flags in
    let has f = Stdlib.List.mem f flags in
    let xml = ref None in
    let items = Stdlib.List.filter (fun t ->
        if Stdlib.String.length t >= 2 && Stdlib.String.sub t 0 2 = "X:" then
          (xml := Some (bytes_of_hex (Stdlib.String.sub t 2 (Stdlib.String.length t - 2))); false)
        else true) rest in
    let callops = ref [] in
    let finlog = ref None in
    let trailer (d : Device.dev) finops logmark =
      let o = function Some i -> string_of_int i | None -> "-" in
      dev_summary d ^ " finops=" ^ o finops ^ " logmark=" ^ o logmark ^ " finlog=" ^ o !finlog
      ^ " callops=" ^ Stdlib.String.concat "," (Stdlib.List.rev_map string_of_int !callops)
      ^ (if has "log" then
           " log=" ^ Stdlib.String.concat "," (Stdlib.List.rev_map (fun (p, bs) -> decimal_of_n p ^ ":" ^ hex_of_bytes bs) d.Device.d_log)
         else "")
      ^ (if has "dump" then " dev=" ^ hex_of_bytes d.Device.d_bytes else "") in
    let d0 = Device.dev_init [] (fault_of fault) in
    let (d1, r) = PagedWriter.pw_new d0 in
    (match r with
     | Prelude.Ok s ->
       let st = ref s in
       let outs = ref [] in
       let run p = let (s', r) = Prog.wrun p !st in st := s'; r in
       let blob data = run (FileBin.item_write (FileBin.IBlob data)) in
       let show_blob o = match o with
         | FileBin.OBlob (o, l) -> Printf.sprintf "b%s:%s" (decimal_of_n o) (decimal_of_n l)
         | FileBin.OPc (o, n) -> Printf.sprintf "p%s:%s" (decimal_of_n o) (decimal_of_n n) in
       let r0 = run FileBin.writer_init in
       outs := [res_tok r0 (fun () -> "o")];
       let mark () = callops := int_of_n (!st).PagedWriter.pw_dev.Device.d_ops :: !callops in
       if r0 = Prelude.Ok () then mark ();
       let finops = ref None and logmark = ref None in
       if r0 = Prelude.Ok () then begin
         let stopped = ref false in
         (* the top-level finalize is terminal (WriterApi.wapi_step: ws_finalized): afterwards add_blob,
            add_pointcloud, add_image and finalize are refused with Invalid and issue no operation *)
         let finalized = ref false in
         let loglen () = Stdlib.List.length (!st).PagedWriter.pw_dev.Device.d_log in
         let top_finalize () =
           if !logmark = None then logmark := Some (loglen ());
           if !finalized then "eInvalid" else
             match !xml with
             | None -> failwith "CWLOG: finalize without X:"
             | Some x ->
               let r = run (FileBin.writer_finalize x) in
               if r = Prelude.Ok () then begin finalized := true; if !finlog = None then finlog := Some (loglen ()) end;
               res_tok r (fun () -> "o") in
         Stdlib.List.iter (fun t ->
             if not !stopped then begin
               let o = match Stdlib.String.split_on_char ':' t with
                 | ["FIN"] | ["FINX"] -> top_finalize ()
                 | _ when !finalized -> "eInvalid"
                 | ["B"; h] -> res_tok (blob (bytes_of_hex h)) show_blob
                 | [("I" | "ID"); _; h; m] ->
                   (* one library call writes the data blob and then the mask blob *)
                   (match blob (bytes_of_hex h) with
                    | Prelude.Ok o1 ->
                      if m = "-" then show_blob o1 else
                        (match blob (bytes_of_hex m) with
                         | Prelude.Ok o2 -> show_blob o1 ^ " " ^ show_blob o2
                         | r -> res_tok r show_blob)
                    | r -> res_tok r show_blob)
                 | "P" :: proto :: pts ->
                   let pts = match pts with [p] -> parse_points p | _ -> [] in
                   res_tok (run (FileBin.item_write (FileBin.IPc (parse_proto proto, pts)))) show_blob
                 | "PD" :: proto :: pts ->
                   let pts = match pts with [p] -> parse_points p | _ -> [] in
                   (match run (PcWriter.pcw_new (parse_proto proto)) with
                    | Prelude.Ok w ->
                      res_tok (run (FileBin.add_points pts w)) (fun _ -> Printf.sprintf "d%d" (Stdlib.List.length pts))
                    | Prelude.Err k -> "e" ^ err_name k
                    | Prelude.Panic -> "P")
                 | _ -> failwith ("bad item " ^ t) in
               outs := o :: !outs;
               mark ();
               if is_failure o && has "stop" then stopped := true
             end) items;
         (match !xml with
          | Some _ when not (has "nofin") && not (has "xfin") && not !stopped ->
            logmark := Some (loglen ());
            let o = top_finalize () in
            mark ();
            outs := o :: !outs
          | _ -> ());
         finops := Some (int_of_n (!st).PagedWriter.pw_dev.Device.d_ops)
       end;
       let (s4, _) = PagedWriter.pw_drop !st in
       Stdlib.String.concat " " (Stdlib.List.rev !outs) ^ " | " ^ trailer s4.PagedWriter.pw_dev !finops !logmark
     | Prelude.Err k -> "new:e" ^ err_name k ^ " | " ^ trailer d1 None None
     | Prelude.Panic -> "new:P | " ^ trailer d1 None None)
  | _ -> failwith "bad CWLOG case"

let ops_of (d : Device.dev) : string = Printf.sprintf " | ops=%d" (int_of_n d.Device.d_ops)

let run_csess (toks : string list) : string =
  match toks with
  | fault :: _ :: flags :: devhex :: ops ->
    let stop = Stdlib.List.mem "stop" (Stdlib.String.split_on_char ',' flags) in
    let d0 = Device.dev_init (resolve_dev devhex) (fault_of fault) in
    (match ReaderOpen.reader_open d0 with
     | (_, Prelude.Ok ((s, _), xml)) ->
       let st = ref s in
       let outs = ref ["open:ok"] in
       let stopped = ref false in
       Stdlib.List.iter (fun t ->
           if not !stopped then begin
             let o = match Stdlib.String.split_on_char ':' t with
               | ["X"] -> "xml=" ^ fnv_hex (fnv_bytes fnv_init xml)
               | ["R"; fo; recs; proto; limit] ->
                 let lim = if limit = "all" then None else Some (int_of_string limit) in
                 let (s', txt) = raw_summary_st lim !st (n_of_decimal fo) (n_of_decimal recs) (parse_proto proto) in
                 st := s'; txt
               | ["B"; off; ln] ->
                 let (s', r) = Prog.rrun (FileBin.blob_read !st.PagedReader.pr_log_size (n_of_decimal off) (n_of_decimal ln)) !st in
                 st := s';
                 (match r with
                  | Prelude.Ok data -> Printf.sprintf "ok n=%d h=%s" (Stdlib.List.length data) (fnv_hex (fnv_bytes fnv_init data))
                  | Prelude.Err k -> "e" ^ err_name k
                  | Prelude.Panic -> "P")
               | _ -> failwith ("bad csess op " ^ t) in
             outs := o :: !outs;
             if stop && is_failure o then stopped := true
           end) ops;
       Stdlib.String.concat " # " (Stdlib.List.rev !outs) ^ ops_of (!st).PagedReader.pr_dev
     | (d, Prelude.Err k) -> "open:e" ^ err_name k ^ ops_of d
     | (d, Prelude.Panic) -> "open:P" ^ ops_of d)
  | _ -> failwith "bad CSESS case"

let run_copen (toks : string list) : string =
  match toks with
  | [fault; _; devhex] ->
    (match ReaderOpen.reader_open (Device.dev_init (resolve_dev devhex) (fault_of fault)) with
     | (d, Prelude.Ok ((_, h), xml)) ->
       Printf.sprintf "ok phys=%s xoff=%s xlen=%s xml=%s" (decimal_of_n h.FileBin.h_phys_length)
         (decimal_of_n h.FileBin.h_xml_offset) (decimal_of_n h.FileBin.h_xml_length)
         (fnv_hex (fnv_bytes fnv_init xml)) ^ ops_of d
     | (d, Prelude.Err k) -> "e" ^ err_name k ^ ops_of d
     | (d, Prelude.Panic) -> "P" ^ ops_of d)
  | _ -> failwith "bad COPEN case"

let run_cvcrc (toks : string list) : string =
  match toks with
  | [fault; _; devhex] ->
    (match FileBin.validate_crc (Device.dev_init (resolve_dev devhex) (fault_of fault)) with
     | (d, Prelude.Ok ps) -> "ok " ^ decimal_of_n ps ^ ops_of d
     | (d, Prelude.Err k) -> "e" ^ err_name k ^ ops_of d
     | (d, Prelude.Panic) -> "P" ^ ops_of d)
  | _ -> failwith "bad CVCRC case"

let run_crawxml (toks : string list) : string =
  match toks with
  | [fault; _; devhex] ->
    (match ReaderOpen.raw_xml (Device.dev_init (resolve_dev devhex) (fault_of fault)) with
     | (d, Prelude.Ok xml) -> Printf.sprintf "ok n=%d h=%s" (Stdlib.List.length xml) (fnv_hex (fnv_bytes fnv_init xml)) ^ ops_of d
     | (d, Prelude.Err k) -> "e" ^ err_name k ^ ops_of d
     | (d, Prelude.Panic) -> "P" ^ ops_of d)
  | _ -> failwith "bad CRAWXML case"

let run (kind : string) (toks : string list) : string option =
  match kind with
  | "CWLOG" -> Some (run_cwlog toks)
  | "CSESS" -> Some (run_csess toks)
  | "COPEN" -> Some (run_copen toks)
  | "CVCRC" -> Some (run_cvcrc toks)
  | "CRAWXML" -> Some (run_crawxml toks)
  | _ -> None
