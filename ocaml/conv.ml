(* Conversions between OCaml values and the extracted inductive numbers. *)
open BinNums

let rec pos_of_int (i : int) : positive =
  if i = 1 then Coq_xH
  else if i land 1 = 0 then Coq_xO (pos_of_int (i lsr 1))
  else Coq_xI (pos_of_int (i lsr 1))

let n_of_int (i : int) : coq_N = if i = 0 then N0 else Npos (pos_of_int i)

let rec int_of_pos (p : positive) : int =
  match p with
  | Coq_xH -> 1
  | Coq_xO q -> 2 * int_of_pos q
  | Coq_xI q -> 2 * int_of_pos q + 1

let int_of_n (n : coq_N) : int = match n with N0 -> 0 | Npos p -> int_of_pos p

(* decimal strings of arbitrary size <-> N (for u64/i64 values that do not fit OCaml's int) *)
let n_of_decimal (s : string) : coq_N =
  (* repeated: acc * 10 + digit, on the extracted N *)
  let ten = n_of_int 10 in
  let acc = ref N0 in
  Stdlib.String.iter (fun c ->
    let d = Char.code c - 48 in
    if d < 0 || d > 9 then failwith ("bad decimal: " ^ s);
    acc := BinNat.N.add (BinNat.N.mul !acc ten) (n_of_int d)) s;
  !acc

let decimal_of_n (n : coq_N) : string =
  let ten = n_of_int 10 in
  let rec go n acc =
    match n with
    | N0 -> acc
    | _ ->
      let (q, r) = BinNat.N.div_eucl n ten in
      go q (string_of_int (int_of_n r) ^ acc) in
  match n with N0 -> "0" | _ -> go n ""

let z_of_decimal (s : string) : coq_Z =
  if Stdlib.String.length s > 0 && s.[0] = '-' then
    (match n_of_decimal (Stdlib.String.sub s 1 (Stdlib.String.length s - 1)) with
     | N0 -> Z0 | Npos p -> Zneg p)
  else (match n_of_decimal s with N0 -> Z0 | Npos p -> Zpos p)

let decimal_of_z (z : coq_Z) : string =
  match z with
  | Z0 -> "0"
  | Zpos p -> decimal_of_n (Npos p)
  | Zneg p -> "-" ^ decimal_of_n (Npos p)

let hexval c =
  match c with
  | '0'..'9' -> Char.code c - 48
  | 'a'..'f' -> Char.code c - 87
  | 'A'..'F' -> Char.code c - 55
  | _ -> failwith "bad hex"

(* byte tables so that conversion does not rebuild positives *)
let byte_tab : coq_N array = Array.init 256 n_of_int

let bytes_of_hex (s : string) : coq_N list =
  let n = Stdlib.String.length s / 2 in
  let rec go i acc =
    if i < 0 then acc
    else go (i - 1) (byte_tab.(hexval s.[2*i] * 16 + hexval s.[2*i+1]) :: acc) in
  go (n - 1) []

let hex_of_bytes (l : coq_N list) : string =
  let b = Buffer.create 64 in
  Stdlib.List.iter (fun x -> Buffer.add_string b (Printf.sprintf "%02x" (int_of_n x))) l;
  Buffer.contents b

(* FNV-1a 64 over a byte list, printed as 16 hex digits (same in the Rust harness) *)
let fnv_init = 0xcbf29ce484222325L
let fnv_byte (h : int64) (b : int) : int64 =
  Int64.mul (Int64.logxor h (Int64.of_int b)) 0x100000001b3L
let fnv_bytes (h : int64) (l : coq_N list) : int64 =
  Stdlib.List.fold_left (fun h x -> fnv_byte h (int_of_n x)) h l
let fnv_int (h : int64) (i : int) : int64 =
  (* 8 little-endian bytes *)
  let h = ref h in
  for k = 0 to 7 do h := fnv_byte !h ((i lsr (8*k)) land 255) done; !h
let fnv_hex (h : int64) : string = Printf.sprintf "%016Lx" h

let err_name (k : Prelude.err_kind) : string =
  match k with
  | Prelude.EInvalid -> "Invalid" | Prelude.ERead -> "Read" | Prelude.EWrite -> "Write"
  | Prelude.ENotImpl -> "NotImpl" | Prelude.EInternal -> "Internal" | Prelude.EIo -> "Io"

let split_ws (s : string) : string list =
  Stdlib.List.filter (fun x -> x <> "") (Stdlib.String.split_on_char ' ' s)

(* registered base images: BASE <name> <hex>; device tokens may be @name^pos:xx^pos:xx *)
let bases : (string, Bytes.t) Hashtbl.t = Hashtbl.create 8
let register_base (name : string) (hex : string) : unit =
  let n = Stdlib.String.length hex / 2 in
  let b = Bytes.create n in
  for i = 0 to n - 1 do Bytes.set b i (Char.chr (hexval hex.[2*i] * 16 + hexval hex.[2*i+1])) done;
  Hashtbl.replace bases name b
let resolve_dev (tok : string) : coq_N list =
  if Stdlib.String.length tok > 0 && tok.[0] = '@' then begin
    match Stdlib.String.split_on_char '^' (Stdlib.String.sub tok 1 (Stdlib.String.length tok - 1)) with
    | name :: patches ->
      let b = Bytes.copy (Hashtbl.find bases name) in
      Stdlib.List.iter (fun p ->
          match Stdlib.String.split_on_char ':' p with
          | [pos; x] ->
            let pos = int_of_string pos in
            let x = hexval x.[0] * 16 + hexval x.[1] in
            Bytes.set b pos (Char.chr (Char.code (Bytes.get b pos) lxor x))
          | _ -> failwith "bad patch") patches;
      let rec go i acc = if i < 0 then acc else go (i - 1) (byte_tab.(Char.code (Bytes.get b i)) :: acc) in
      go (Bytes.length b - 1) []
    | [] -> failwith "bad base token"
  end else bytes_of_hex tok
