(* XMLPARSE <hex of document bytes>: what the XML parser model (Model/XmlParse.v) makes of a
   document, in the dump format of harness/src/ext_xmltree.rs (`XMLTREE`), or
   err-utf8 / err-parse / unsupported.
   XMLRENDER <hex> <seed>: parse the document with the model; if the tree is well formed
   (Spec/XmlRender.wf_doc) print `r <hex of render c tree>` for the choices c derived from
   seed (seed 0 = writer_choices), else `not-wf` / `no-parse`.
   XMLRT <hex> <seed>: the same, then parse the rendering with the model again:
   `rt-ok` when it is the tree we started from, `rt-fail <hex of rendering>` otherwise. *)
open Conv
open XmlParse
open XmlRender

let rec int_of_nat (n : Datatypes.nat) : int = match n with Datatypes.O -> 0 | Datatypes.S k -> 1 + int_of_nat k

(* a cheap deterministic hash for the choice functions *)
let mix (a : int) (b : int) : int =
  let x = (a * 0x9E3779B1 + b * 0x85EBCA77 + 0x165667B1) land 0x3FFFFFFFFFFFFFF in
  let x = x lxor (x lsr 15) in
  let x = (x * 0x2C1B3C6D) land 0x3FFFFFFFFFFFFFF in
  x lxor (x lsr 12)

let ws_pool = [| []; [32]; [32;32]; [9]; [10]; [13;10]; [32;10;9]; [13]; [120]; [32;120;9] |]
let ws_of (h : int) : BinNums.coq_N list = Stdlib.List.map n_of_int ws_pool.(h mod Array.length ws_pool)
let style_of (h : int) : ref_style =
  match h mod 8 with 0 | 1 | 2 | 3 -> RsRaw | 4 -> RsNamed | 5 -> RsDec | 6 -> RsHex | _ -> RsNamed
let path_hash (seed : int) (p : Datatypes.nat list) : int =
  Stdlib.List.fold_left (fun h n -> mix h (int_of_nat n)) seed p

let choices_of_seed (seed : int) : render_choices =
  if seed = 0 then writer_choices else
  { rc_bom = (mix seed 1) mod 5 = 0;
    rc_decl = (if (mix seed 2) mod 2 = 0 then DeclNone else DeclStd);
    rc_doc_ws = (fun i -> ws_of (mix (mix seed 3) (int_of_nat i)));
    rc_elem = (fun p _ ->
        let h = path_hash (mix seed 4) p in
        { ec_merge = Stdlib.List.init ((mix h 1) mod 6) (fun k -> (mix h (10 + k)) mod 2 = 0);
          ec_quote = (fun i -> if (mix h (100 + int_of_nat i)) mod 2 = 0 then QDouble else QSingle);
          ec_ref = (fun i j b -> style_of (mix (mix h (200 + int_of_nat i)) (int_of_nat j * 256 + int_of_n b)));
          ec_ws = (fun i -> ws_of (mix h (300 + int_of_nat i)));
          ec_ws_end = ws_of (mix h 5);
          ec_ws_close = ws_of (mix h 6);
          ec_self_close = (mix h 7) mod 2 = 0 });
    rc_text = (fun p _ _ _ ->
        let h = path_hash (mix seed 5) p in
        if (mix h 1) mod 3 = 0 then TcCData
        else TcEscaped (fun j b -> style_of (mix (mix h 2) (int_of_nat j * 256 + int_of_n b)))) }

let run (kind : string) (toks : string list) : string option =
  let doc_of toks = bytes_of_hex (match toks with t :: _ -> t | [] -> "") in
  let seed_of toks = match toks with _ :: s :: _ -> int_of_string s | _ -> 0 in
  match kind with
  | "XMLPARSE" ->
    Some (match xml_read (doc_of toks) with
        | XmlOk d -> Drv_xmltree.dump_doc d
        | XmlErrUtf8 -> "err-utf8"
        | XmlErrParse -> "err-parse"
        | XmlUnsupported -> "unsupported")
  | "XMLRENDER" | "XMLRT" ->
    Some (match xml_read (doc_of toks) with
        | XmlOk d ->
          if wf_doc d then begin
            let r = render (choices_of_seed (seed_of toks)) d in
            if kind = "XMLRENDER" then "r " ^ hex_of_bytes r
            else match xml_parse r with
              | ParseOk d' when d' = d -> "rt-ok"
              | _ -> "rt-fail " ^ hex_of_bytes r
          end else "not-wf"
        | _ -> "no-parse")
  | _ -> None
