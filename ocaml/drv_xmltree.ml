(* The one-line dump format of XML trees shared with the harness (see
   harness/src/ext_xmltree.rs): printing a model tree and reading a dump back
   into a model tree.   XMLTREEID <dump> : parse a dump and print it again. *)
open Conv
open XmlTree

let hs (l : BinNums.coq_N list) : string = "=" ^ hex_of_bytes l
let ho (o : BinNums.coq_N list option) : string = match o with Some l -> hs l | None -> "-"

let rec dump_node (b : Buffer.t) (n : xnode) : unit =
  let add s = if Buffer.length b > 0 then Buffer.add_char b ' '; Buffer.add_string b s in
  match n with
  | XElem (nm, attrs, scope, ch) ->
    add (Printf.sprintf "E %s %s %d %d %d" (ho nm.xn_ns) (hs nm.xn_local)
           (Stdlib.List.length attrs) (Stdlib.List.length scope) (Stdlib.List.length ch));
    Stdlib.List.iter (fun a -> add (Printf.sprintf "A %s %s %s" (ho a.xa_name.xn_ns) (hs a.xa_name.xn_local) (hs a.xa_value))) attrs;
    Stdlib.List.iter (fun d -> add (Printf.sprintf "N %s %s" (ho d.xns_prefix) (hs d.xns_uri))) scope;
    Stdlib.List.iter (dump_node b) ch
  | XText t -> add ("T " ^ hs t)
  | XComment t -> add ("C " ^ hs t)
  | XPI (t, v) -> add (Printf.sprintf "P %s %s" (hs t) (ho v))

let dump_doc (d : xdoc) : string =
  let b = Buffer.create 256 in
  Buffer.add_string b (Printf.sprintf "D %d" (Stdlib.List.length d));
  Stdlib.List.iter (dump_node b) d;
  Buffer.contents b

let unhs (s : string) : BinNums.coq_N list =
  if Stdlib.String.length s = 0 || s.[0] <> '=' then failwith ("bad string token " ^ s)
  else bytes_of_hex (Stdlib.String.sub s 1 (Stdlib.String.length s - 1))
let unho (s : string) : BinNums.coq_N list option = if s = "-" then None else Some (unhs s)

(* tokens -> tree *)
let parse_dump (toks : string list) : xdoc =
  let toks = ref toks in
  let next () = match !toks with t :: r -> toks := r; t | [] -> failwith "dump too short" in
  let rec times n f = if n <= 0 then [] else let x = f () in x :: times (n - 1) f in
  let rec node () : xnode =
    match next () with
    | "E" ->
      let ns = unho (next ()) in let local = unhs (next ()) in
      let na = int_of_string (next ()) in let nn = int_of_string (next ()) in let nc = int_of_string (next ()) in
      let attrs = times na (fun () ->
          (match next () with "A" -> () | t -> failwith ("expected A, got " ^ t));
          let ans = unho (next ()) in let al = unhs (next ()) in let v = unhs (next ()) in
          { xa_name = { xn_ns = ans; xn_local = al }; xa_value = v }) in
      let scope = times nn (fun () ->
          (match next () with "N" -> () | t -> failwith ("expected N, got " ^ t));
          let p = unho (next ()) in let u = unhs (next ()) in { xns_prefix = p; xns_uri = u }) in
      let ch = times nc node in
      XElem ({ xn_ns = ns; xn_local = local }, attrs, scope, ch)
    | "T" -> XText (unhs (next ()))
    | "C" -> XComment (unhs (next ()))
    | "P" -> let t = unhs (next ()) in let v = unho (next ()) in XPI (t, v)
    | t -> failwith ("bad node token " ^ t) in
  match next () with
  | "D" -> let n = int_of_string (next ()) in times n node
  | t -> failwith ("expected D, got " ^ t)

let run (kind : string) (toks : string list) : string option =
  match kind with
  | "XMLTREEID" -> Some (dump_doc (parse_dump toks))
  | _ -> None
