(* Slice "simple": the simple point iterator model (Model/SimpleIter.v) and the
   documented view (Spec/SimpleSpec.v) on the case kinds of harness/src/ext_simple.rs:
   PPOST SIMRD (formats documented there) and
   VIEW <desc> <optlist> <rawpoint> [T:...]   the extracted Spec view of one raw point per option vector.
   The libm functions are a finite table given in the case line as tokens
   T:<q>=<result>,...  (q as in TRIG: c<bits> s<bits> a<bits> t<y>:<x>); a query outside the
   table makes the result of the case `trig-miss <q> ...`, which the check script answers by
   extending the table. *)
open Conv
open Drv_core

let d64 (s : string) = Floats.f64_of_bits (n_of_hex s)
let d32 (s : string) = Floats.f32_of_bits (n_of_hex s)
let h64 x = hex_of_n 16 (Floats.bits_of_f64c x)
let h32 x = hex_of_n 8 (Floats.bits_of_f32c x)

(* ---- trig table ---- *)
let table : (string, Bits.binary64) Hashtbl.t = Hashtbl.create 64
let misses : (string, unit) Hashtbl.t = Hashtbl.create 8
let nan64 = d64 "7ff8000000000000"

let load_table (toks : string list) : string list =
  Hashtbl.reset table; Hashtbl.reset misses;
  Stdlib.List.filter (fun t ->
      if String.length t >= 2 && String.sub t 0 2 = "T:" then begin
        Stdlib.List.iter (fun e ->
            if e <> "" then
              match String.index_opt e '=' with
              | Some i -> Hashtbl.replace table (String.sub e 0 i) (d64 (String.sub e (i+1) (String.length e - i - 1)))
              | None -> failwith "bad table entry")
          (String.split_on_char ',' (String.sub t 2 (String.length t - 2)));
        false
      end else true) toks

let look (q : string) : Bits.binary64 =
  match Hashtbl.find_opt table q with
  | Some v -> v
  | None -> Hashtbl.replace misses q (); nan64

let fcos x = look ("c" ^ h64 x)
let fsin x = look ("s" ^ h64 x)
let fasin x = look ("a" ^ h64 x)
let fatan2 y x = look ("t" ^ h64 y ^ ":" ^ h64 x)

let with_misses (out : string) : string =
  if Hashtbl.length misses = 0 then out
  else "trig-miss " ^ String.concat " " (Stdlib.List.sort compare (Hashtbl.fold (fun k () acc -> k :: acc) misses []))

(* ---- points ---- *)
let parse_point (s : string) : SimpleIter.point =
  match String.split_on_char '/' s with
  | [c; sp; col; i; row; column] ->
    let cart = match String.split_on_char ',' c with
      | ["V"; x; y; z] -> SimpleIter.CValid (d64 x, d64 y, d64 z)
      | ["D"; x; y; z] -> SimpleIter.CDirection (d64 x, d64 y, d64 z)
      | _ -> SimpleIter.CInvalid in
    let sph = match String.split_on_char ',' sp with
      | ["V"; r; a; e] -> SimpleIter.SValid (d64 r, d64 a, d64 e)
      | ["D"; a; e] -> SimpleIter.SDirection (d64 a, d64 e)
      | _ -> SimpleIter.SInvalid in
    let color = if col = "-" then None else
        (match String.split_on_char ',' col with
         | [r; g; b] -> Some { SimpleIter.c_red = d32 r; c_green = d32 g; c_blue = d32 b }
         | _ -> failwith "bad color") in
    let intensity = if i = "-" then None else Some (d32 i) in
    { SimpleIter.p_cartesian = cart; p_spherical = sph; p_color = color; p_intensity = intensity;
      p_row = z_of_decimal row; p_column = z_of_decimal column }
  | _ -> failwith "bad point"

let show_point (p : SimpleIter.point) : string =
  let c = match p.SimpleIter.p_cartesian with
    | SimpleIter.CValid (x, y, z) -> Printf.sprintf "V,%s,%s,%s" (h64 x) (h64 y) (h64 z)
    | SimpleIter.CDirection (x, y, z) -> Printf.sprintf "D,%s,%s,%s" (h64 x) (h64 y) (h64 z)
    | SimpleIter.CInvalid -> "I" in
  let s = match p.SimpleIter.p_spherical with
    | SimpleIter.SValid (r, a, e) -> Printf.sprintf "V,%s,%s,%s" (h64 r) (h64 a) (h64 e)
    | SimpleIter.SDirection (a, e) -> Printf.sprintf "D,%s,%s" (h64 a) (h64 e)
    | SimpleIter.SInvalid -> "I" in
  let col = match p.SimpleIter.p_color with
    | Some c -> Printf.sprintf "%s,%s,%s" (h32 c.SimpleIter.c_red) (h32 c.SimpleIter.c_green) (h32 c.SimpleIter.c_blue)
    | None -> "-" in
  let i = match p.SimpleIter.p_intensity with Some i -> h32 i | None -> "-" in
  Printf.sprintf "%s/%s/%s/%s/%s/%s" c s col i (decimal_of_z p.SimpleIter.p_row) (decimal_of_z p.SimpleIter.p_column)

let f64t (s : string) : Meta.f64t = { Meta.f64_bits = n_of_hex s; f64_text = [] }
let f32t (s : string) : Meta.f32t = { Meta.f32_bits = n_of_hex s; f32_text = [] }

let parse_pose (s : string) : Meta.transform option =
  if s = "-" || s = "N" then None else
    match String.split_on_char ',' s with
    | [w; x; y; z; tx; ty; tz] ->
      Some { Meta.t_rw = f64t w; t_rx = f64t x; t_ry = f64t y; t_rz = f64t z; t_tx = f64t tx; t_ty = f64t ty; t_tz = f64t tz }
    | _ -> failwith "bad pose"

let run_ppost (toks : string list) : string =
  match toks with
  | [pose; flags; point] ->
    let b i = flags.[i] = '1' in
    let pose' = if pose = "-" then None else Some (parse_pose pose) in
    let p = SimpleIter.postprocess_hook fcos fsin fasin fatan2 (b 0) (b 1) (b 2) pose' (parse_point point) in
    with_misses (show_point p)
  | _ -> failwith "bad PPOST case"

(* ---- descriptors ---- *)
let bytes_of_ascii (s : string) : BinNums.coq_N list =
  Stdlib.List.init (String.length s) (fun i -> n_of_int (Char.code s.[i]))

let parse_name (s : string) : Meta.record_name =
  match s with
  | "x" -> Meta.CartesianX | "y" -> Meta.CartesianY | "z" -> Meta.CartesianZ
  | "cis" -> Meta.CartesianInvalidState
  | "sr" -> Meta.SphericalRange | "sa" -> Meta.SphericalAzimuth | "se" -> Meta.SphericalElevation
  | "sis" -> Meta.SphericalInvalidState
  | "in" -> Meta.Intensity | "iin" -> Meta.IsIntensityInvalid
  | "r" -> Meta.ColorRed | "g" -> Meta.ColorGreen | "b" -> Meta.ColorBlue | "ici" -> Meta.IsColorInvalid
  | "row" -> Meta.RowIndex | "col" -> Meta.ColumnIndex | "rc" -> Meta.ReturnCount | "ri" -> Meta.ReturnIndex
  | "ts" -> Meta.TimeStamp | "its" -> Meta.IsTimeStampInvalid
  | _ ->
    (match String.split_on_char '.' s with
     | "u" :: ns :: rest -> Meta.Unknown (bytes_of_ascii ns, bytes_of_ascii (String.concat "." rest))
     | _ -> failwith ("bad record name " ^ s))

let parse_dtype (s : string) : Meta.data_type =
  let o f t = if t = "-" then None else Some (f t) in
  match String.split_on_char '/' s with
  | ["F"] -> Meta.DSingle (None, None)
  | ["D"] -> Meta.DDouble (None, None)
  | ["F"; mn; mx] -> Meta.DSingle (o f32t mn, o f32t mx)
  | ["D"; mn; mx] -> Meta.DDouble (o f64t mn, o f64t mx)
  | ["S"; mn; mx] -> Meta.DScaledInteger (z_of_decimal mn, z_of_decimal mx, f64t "3ff0000000000000", f64t "0000000000000000")
  | ["S"; mn; mx; sc; off] -> Meta.DScaledInteger (z_of_decimal mn, z_of_decimal mx, f64t sc, f64t off)
  | ["I"; mn; mx] -> Meta.DInteger (z_of_decimal mn, z_of_decimal mx)
  | _ -> failwith ("bad type token " ^ s)

let parse_limit (s : string) : Meta.limit_value option =
  if s = "-" then None else
    let a = String.sub s 1 (String.length s - 1) in
    Some (match s.[0] with
        | 'f' -> Meta.LSingle (f32t a)
        | 'd' -> Meta.LDouble (f64t a)
        | 's' -> Meta.LScaledInteger (z_of_decimal a)
        | 'i' -> Meta.LInteger (z_of_decimal a)
        | _ -> failwith ("bad limit token " ^ s))

let parse_desc (s : string) : Meta.pointcloud =
  let fo = ref BinNums.N0 and recs = ref BinNums.N0 and proto = ref [] and il = ref None and cl = ref None and pose = ref None in
  Stdlib.List.iter (fun kv ->
      match String.index_opt kv '=' with
      | None -> failwith "bad descriptor"
      | Some i ->
        let k = String.sub kv 0 i and v = String.sub kv (i+1) (String.length kv - i - 1) in
        (match k with
         | "fo" -> fo := n_of_decimal v
         | "rec" -> recs := n_of_decimal v
         | "proto" ->
           proto := Stdlib.List.map (fun nt ->
               match String.index_opt nt '=' with
               | Some j -> { Meta.r_name = parse_name (String.sub nt 0 j);
                             r_type = parse_dtype (String.sub nt (j+1) (String.length nt - j - 1)) }
               | None -> failwith "bad record")
               (Stdlib.List.filter (fun x -> x <> "") (String.split_on_char ',' v))
         | "il" ->
           il := if v = "~" then None else
               (match String.split_on_char ',' v with
                | [a; b] -> Some { Meta.il_min = parse_limit a; il_max = parse_limit b }
                | _ -> failwith "bad il")
         | "cl" ->
           cl := if v = "~" then None else
               (match Stdlib.List.map parse_limit (String.split_on_char ',' v) with
                | [a; b; c; d; e; f] ->
                  Some { Meta.cl_red_min = a; cl_red_max = b; cl_green_min = c; cl_green_max = d; cl_blue_min = e; cl_blue_max = f }
                | _ -> failwith "bad cl")
         | "pose" -> pose := parse_pose v
         | _ -> failwith ("bad descriptor key " ^ k)))
    (String.split_on_char ';' s);
  { Meta.pc_guid = None; pc_file_offset = !fo; pc_records = !recs; pc_prototype = !proto;
    pc_original_guids = None; pc_name = None; pc_description = None; pc_cartesian_bounds = None;
    pc_spherical_bounds = None; pc_index_bounds = None; pc_intensity_limits = !il; pc_color_limits = !cl;
    pc_transform = !pose; pc_acquisition_start = None; pc_acquisition_end = None; pc_sensor_vendor = None;
    pc_sensor_model = None; pc_sensor_serial = None; pc_sensor_hw_version = None; pc_sensor_sw_version = None;
    pc_sensor_fw_version = None; pc_temperature = None; pc_humidity = None; pc_atmospheric_pressure = None }

let opts_of (k : int) : SimpleIter.opts =
  { SimpleIter.o_s2c = k land 1 <> 0; o_c2s = k land 2 <> 0; o_i2c = k land 4 <> 0;
    o_ni = k land 8 <> 0; o_nc = k land 16 <> 0; o_pose = k land 32 <> 0 }

let optlist (s : string) : int list =
  Stdlib.List.map int_of_string (Stdlib.List.filter (fun x -> x <> "") (String.split_on_char ',' s))

(* ---- SIMRD ---- *)
let drain (next : PagedReader.pr -> 'it -> PagedReader.pr * ('it * 'a QueueReader.step_out) Prelude.res)
    (show : 'a -> string) (s : PagedReader.pr) (it : 'it) : string =
  let pts = ref [] in
  let rec loop s it =
    match next s it with
    | (s', Prelude.Ok (it', QueueReader.Item p)) -> pts := show p :: !pts; loop s' it'
    | (_, Prelude.Ok (_, QueueReader.Done)) -> "none"
    | (_, Prelude.Err k) -> "e" ^ err_name k
    | (_, Prelude.Panic) -> "P" in
  let fin = loop s it in
  Printf.sprintf "n=%d end=%s pts=%s" (Stdlib.List.length !pts) fin (String.concat ";" (Stdlib.List.rev !pts))

let run_simrd (toks : string list) : string =
  match toks with
  | [fault; devhex; desc; ol] ->
    let d0 = Device.dev_init (resolve_dev devhex) (fault_of fault) in
    (match ReaderOpen.reader_open d0 with
     | (_, Prelude.Ok ((s, _), _)) ->
       let pc = parse_desc desc in
       let ls = s.PagedReader.pr_log_size in
       let raw =
         match Prog.rrun (QueueReader.raw_new pc.Meta.pc_file_offset pc.Meta.pc_records (SimpleIter.proto_dtypes pc)) s with
         | (s1, Prelude.Ok it) ->
           "raw " ^ drain (fun s it -> Prog.rrun (QueueReader.raw_next ls it) s)
             (fun p -> String.concat "," (Stdlib.List.map show_value p)) s1 it
         | (_, Prelude.Err k) -> "raw new:e" ^ err_name k
         | (_, Prelude.Panic) -> "raw new:P" in
       let per k =
         Printf.sprintf "o%d %s" k
           (match Prog.rrun (SimpleIter.simple_open pc (opts_of k)) s with
            | (s1, Prelude.Ok it) ->
              drain (fun s it -> Prog.rrun (SimpleIter.simple_next fcos fsin fasin fatan2 ls it) s) show_point s1 it
            | (_, Prelude.Err k) -> "new:e" ^ err_name k
            | (_, Prelude.Panic) -> "new:P") in
       with_misses (String.concat " # " (raw :: Stdlib.List.map per (optlist ol)))
     | (_, Prelude.Err k) -> "open:e" ^ err_name k
     | (_, Prelude.Panic) -> "open:P")
  | _ -> failwith "bad SIMRD case"

(* ---- VIEW ---- *)
let run_view (toks : string list) : string =
  match toks with
  | [desc; ol; raw] ->
    let pc = parse_desc desc in
    let vs = Stdlib.List.map parse_value (Stdlib.List.filter (fun x -> x <> "") (String.split_on_char ',' raw)) in
    with_misses (String.concat " " (Stdlib.List.map (fun k ->
        match SimpleSpec.view fcos fsin fasin fatan2 pc (opts_of k) vs with
        | Prelude.Ok p -> show_point p
        | Prelude.Err e -> "e" ^ err_name e
        | Prelude.Panic -> "P") (optlist ol)))
  | _ -> failwith "bad VIEW case"

(* ---- SESS2: the SESS kind of drv_core.ml plus simple iteration ---- *)
let summary (pts : string list) (fin : string) : string =
  let txt = String.concat ";" pts in
  Printf.sprintf "n=%d end=%s h=%s%s" (Stdlib.List.length pts) fin (fnv_string txt)
    (if String.length txt <= 1500 then " pts=" ^ txt else "")

let drain_limited next show (limit : int option) (s : PagedReader.pr) it : PagedReader.pr * string =
  let pts = ref [] and count = ref 0 and last = ref s in
  let rec loop s it =
    last := s;
    if (match limit with Some n -> !count >= n | None -> false) then "none" else
      match next s it with
      | (s', Prelude.Ok (it', QueueReader.Item p)) -> pts := show p :: !pts; incr count; loop s' it'
      | (s', Prelude.Ok (_, QueueReader.Done)) -> last := s'; "none"
      | (s', Prelude.Err k) -> last := s'; "e" ^ err_name k
      | (s', Prelude.Panic) -> last := s'; "P" in
  let fin = loop s it in
  (!last, summary (Stdlib.List.rev !pts) fin)

let run_sess2 (toks : string list) : string =
  match toks with
  | fault :: devhex :: ops ->
    let d0 = Device.dev_init (resolve_dev devhex) (fault_of fault) in
    (match ReaderOpen.reader_open d0 with
     | (_, Prelude.Ok ((s, _), xml)) ->
       let st = ref s in
       let outs = ref ["open:ok"] in
       let lim l = if l = "all" then None else Some (int_of_string l) in
       Stdlib.List.iter (fun t ->
           let ls = !st.PagedReader.pr_log_size in
           let o = match String.split_on_char ':' t with
             | ["X"] -> "xml=" ^ fnv_hex (fnv_bytes fnv_init xml)
             | ["R"; fo; recs; proto; limit] ->
               (match Prog.rrun (QueueReader.raw_new (n_of_decimal fo) (n_of_decimal recs)
                                   (Stdlib.List.map (fun r -> Meta.dtype_of r) (Stdlib.List.map parse_dtype
                                      (Stdlib.List.filter (fun x -> x <> "") (String.split_on_char ',' proto))))) !st with
                | (s1, Prelude.Ok it) ->
                  let (s2, txt) = drain_limited (fun s it -> Prog.rrun (QueueReader.raw_next ls it) s)
                      (fun p -> String.concat "," (Stdlib.List.map show_value p)) (lim limit) s1 it in
                  st := s2; txt
                | (s1, Prelude.Err k) -> st := s1; "new:e" ^ err_name k
                | (s1, Prelude.Panic) -> st := s1; "new:P")
             | "S" :: fo :: recs :: proto :: mask :: limit :: rest ->
               let extra = match rest with
                 | [il; cl; pose] -> Printf.sprintf ";il=%s;cl=%s;pose=%s" il cl pose
                 | _ -> "" in
               let pc = parse_desc (Printf.sprintf "fo=%s;rec=%s;proto=%s%s" fo recs proto extra) in
               (match Prog.rrun (SimpleIter.simple_open pc (opts_of (int_of_string mask))) !st with
                | (s1, Prelude.Ok it) ->
                  let (s2, txt) = drain_limited (fun s it -> Prog.rrun (SimpleIter.simple_next fcos fsin fasin fatan2 ls it) s)
                      show_point (lim limit) s1 it in
                  st := s2; txt
                | (s1, Prelude.Err k) -> st := s1; "new:e" ^ err_name k
                | (s1, Prelude.Panic) -> st := s1; "new:P")
             | ["B"; off; ln] ->
               let (s', r) = Prog.rrun (FileBin.blob_read ls (n_of_decimal off) (n_of_decimal ln)) !st in
               st := s';
               (match r with
                | Prelude.Ok data -> Printf.sprintf "ok n=%d h=%s" (Stdlib.List.length data) (fnv_hex (fnv_bytes fnv_init data))
                | Prelude.Err k -> "e" ^ err_name k
                | Prelude.Panic -> "P")
             | _ -> failwith ("bad sess2 op " ^ t) in
           outs := o :: !outs) ops;
       with_misses (String.concat " # " (Stdlib.List.rev !outs))
     | (_, Prelude.Err k) -> "open:e" ^ err_name k
     | (_, Prelude.Panic) -> "open:P")
  | _ -> failwith "bad SESS2 case"

let run (kind : string) (toks : string list) : string option =
  match kind with
  | "SESS2" -> let t = load_table toks in Some (run_sess2 t)
  | "PPOST" -> let t = load_table toks in Some (run_ppost t)
  | "SIMRD" -> let t = load_table toks in Some (run_simrd t)
  | "VIEW" -> let t = load_table toks in Some (run_view t)
  | _ -> None
