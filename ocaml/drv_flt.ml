(* Slice "flt": the float layer (Base/Floats.v) and the normalisation model
   (Model/Normalize.v) on the case kinds of harness/src/ext_flt.rs:
   NORM F2S S2D I2D D2I U8C ARITH (formats documented there). *)
open Conv
open Drv_core

let d64 (s : string) = Floats.f64_of_bits (n_of_hex s)
let d32 (s : string) = Floats.f32_of_bits (n_of_hex s)
let h64 x = hex_of_n 16 (Floats.bits_of_f64c x)
let h32 x = hex_of_n 8 (Floats.bits_of_f32c x)

let parse_ntype (s : string) : Normalize.ntype option =
  let o f t = if t = "-" then None else Some (f t) in
  match String.split_on_char '/' s with
  | ["-"] -> None
  | ["F"; mn; mx] -> Some (Normalize.NTSingle (o d32 mn, o d32 mx))
  | ["D"; mn; mx] -> Some (Normalize.NTDouble (o d64 mn, o d64 mx))
  | ["S"; mn; mx; sc; off] -> Some (Normalize.NTScaled (z_of_decimal mn, z_of_decimal mx, d64 sc, d64 off))
  | ["I"; mn; mx] -> Some (Normalize.NTInteger (z_of_decimal mn, z_of_decimal mx))
  | _ -> failwith ("bad type token " ^ s)

let parse_limit (s : string) : Normalize.nval option =
  if s = "-" || s = "~" then None else
    let a = String.sub s 1 (String.length s - 1) in
    Some (match s.[0] with
        | 'f' -> Normalize.NSingle (d32 a)
        | 'd' -> Normalize.NDouble (d64 a)
        | 's' -> Normalize.NScaled (z_of_decimal a)
        | 'i' -> Normalize.NInteger (z_of_decimal a)
        | _ -> failwith ("bad limit token " ^ s))

let run_norm (toks : string list) : string =
  match toks with
  | _channel :: ty :: lmin :: lmax :: vals ->
    let ch = { Normalize.ch_type = parse_ntype ty; ch_lmin = parse_limit lmin; ch_lmax = parse_limit lmax } in
    String.concat " " (Stdlib.List.map (fun v ->
        match Normalize.normalize_hook ch (d64 v) with
        | Prelude.Ok (Some x) -> "ok:" ^ h32 x
        | Prelude.Ok None -> "none"
        | Prelude.Err k -> "e" ^ err_name k
        | Prelude.Panic -> "P") vals)
  | _ -> failwith "bad NORM case"

let b01 b = if b then "1" else "0"

let run_arith (toks : string list) : string =
  let arg i = match Stdlib.List.nth_opt toks i with Some t -> d64 t | None -> Floats.f64_zero in
  let a = arg 1 and b = arg 2 and c = arg 3 in
  match Stdlib.List.hd toks with
  | "add" -> h64 (Floats.f64_add a b)
  | "sub" -> h64 (Floats.f64_sub a b)
  | "mul" -> h64 (Floats.f64_mul a b)
  | "div" -> h64 (Floats.f64_div a b)
  | "min" -> h64 (Floats.f64_min a b)
  | "max" -> h64 (Floats.f64_max a b)
  | "sqrt" -> h64 (Floats.f64_sqrt a)
  | "neg" -> h64 (Floats.f64_neg a)
  | "abs" -> h64 (Floats.f64_abs a)
  | "lt" -> b01 (Floats.f64_lt a b)
  | "le" -> b01 (Floats.f64_le a b)
  | "eq" -> b01 (Floats.f64_eq a b)
  | "gt" -> b01 (Floats.f64_gt a b)
  | "nan" -> b01 (Floats.f64_is_nan a)
  | "fin" -> b01 (Floats.f64_is_finite a)
  | "inf" -> b01 (Floats.f64_is_infinite a)
  | "clamp" -> (match Floats.f64_clamp a b c with Prelude.Ok x -> h64 x | _ -> "P")
  | _ -> failwith "bad ARITH op"

let run (kind : string) (toks : string list) : string option =
  let each f = Some (String.concat " " (Stdlib.List.map f toks)) in
  match kind with
  | "NORM" -> Some (run_norm toks)
  | "F2S" -> each (fun t -> h32 (Floats.f32_of_f64 (d64 t)))
  | "S2D" -> each (fun t -> h64 (Floats.f64_of_f32 (d32 t)))
  | "I2D" -> each (fun t -> h64 (Floats.f64_of_Z (z_of_decimal t)))
  | "D2I" -> each (fun t -> decimal_of_z (Floats.f64_to_i64 (d64 t)))
  | "U8C" -> each (fun t -> decimal_of_z (Normalize.to_u8_color (d32 t)))
  | "ARITH" -> Some (run_arith toks)
  | _ -> None
