(* Slice "xg": the XML generator model (Model/XmlGen.v) and the abstract tree
   (Spec/MetaTree.v) on the writer programs of harness/src/ext_xg.rs.

   METAWM <program tokens as for METAW> ORACLE <oracle tokens>
     builds the [file_meta] the writer holds at E57Writer::finalize for this program (W) and the metadata
     the caller asked for (M; differs from W only in incomplete DEFAULT limits, see [build]) and prints
        <hex of gen_root W | eInvalid | P> | <dump of M, format of ext_xg.rs dump_meta> | <dump of tree_of M> | <W|w><X|x>
     (W: writer_meta_ok M, X: meta_xml_ok M - the hypotheses of the theorems of Proofs/XgRender.v, XgWf.v)
     The program must contain only commands that succeeded on the implementation (the check script
     removes the others).  Oracle tokens (everything the model does not compute):
        LV <s>                      the crate version (CARGO_PKG_VERSION)
        d<16 hex>=<hex of text>     Rust's Display of this f64 bit pattern
        f<8 hex>=<hex of text>      Rust's Display of this f32 bit pattern
        PCO <off> <rec> <cb> <sb> <ib>       per finalized point cloud, in order: section offset, record
                                    count, bounds (tokens of the read-back dump without the `cb:` key)
        IMO <o|-> <o|-> <o|-> <o|-> per finalized image, in order: offsets of the visual reference blob,
                                    its mask, the projection blob, its mask
   XGSELF                           digest of gen_root on the example value of Spec/XgWriterOk.v: `<len> <sum>`
                                    (proved inside Coq: Proofs/XgRender.v xg_example_digest) and whether the
                                    two hypotheses of the theorems hold on it
   XGDISPLAY <decimal>...           display_i / display_u of the model as `=hex` (as IDISPLAY of the harness)
   XGESC <s>                        cdata_escape and url_escape of a string: `<hex> <hex>` *)
open Conv
open Drv_core
open Meta

let ftab64 : (string, BinNums.coq_N list) Hashtbl.t = Hashtbl.create 64
let ftab32 : (string, BinNums.coq_N list) Hashtbl.t = Hashtbl.create 64

let bytes_of_ascii (s : string) : BinNums.coq_N list =
  Stdlib.List.init (Stdlib.String.length s) (fun i -> byte_tab.(Char.code s.[i]))

let unstr (t : string) : BinNums.coq_N list =
  if Stdlib.String.length t = 0 || t.[0] <> '=' then failwith ("bad string token " ^ t)
  else bytes_of_hex (Stdlib.String.sub t 1 (Stdlib.String.length t - 1))
let unstro (t : string) = if t = "-" then None else Some (unstr t)
let hs (l : BinNums.coq_N list) = "=" ^ hex_of_bytes l
let hso o = match o with Some l -> hs l | None -> "-"

let f64_of (h : string) : f64t =
  match Hashtbl.find_opt ftab64 h with
  | Some t -> { f64_bits = n_of_hex h; f64_text = t }
  | None -> failwith ("no Display text for f64 " ^ h)
let f32_of (h : string) : f32t =
  match Hashtbl.find_opt ftab32 h with
  | Some t -> { f32_bits = n_of_hex h; f32_text = t }
  | None -> failwith ("no Display text for f32 " ^ h)
let o64 t = if t = "-" then None else Some (f64_of t)

let c64 (f : f64t) : string =
  let h = hex_of_n 16 f.f64_bits in
  let v = Int64.of_string ("0x" ^ h) in
  if Int64.logand v 0x7ff0000000000000L = 0x7ff0000000000000L && Int64.logand v 0x000fffffffffffffL <> 0L
  then "7ff8000000000000" else h
let c32 (f : f32t) : string =
  let h = hex_of_n 8 f.f32_bits in
  let v = int_of_string ("0x" ^ h) in
  if v land 0x7f800000 = 0x7f800000 && v land 0x007fffff <> 0 then "7fc00000" else h

let parse_dt t =
  if t = "-" then None else
    match Stdlib.String.split_on_char ':' t with
    | [a; b] -> Some { dt_gps_time = f64_of a; dt_atomic = (b = "1") }
    | _ -> failwith ("bad dt " ^ t)
let show_dt d = match d with None -> "-" | Some d -> c64 d.dt_gps_time ^ ":" ^ (if d.dt_atomic then "1" else "0")

let parse_tr t =
  if t = "-" then None else
    match Stdlib.List.map f64_of (Stdlib.String.split_on_char ':' t) with
    | [rw; rx; ry; rz; tx; ty; tz] ->
      Some { t_rw = rw; t_rx = rx; t_ry = ry; t_rz = rz; t_tx = tx; t_ty = ty; t_tz = tz }
    | _ -> failwith ("bad tr " ^ t)
let show_tr t = match t with
  | None -> "-"
  | Some t -> Stdlib.String.concat ":" (Stdlib.List.map c64 [t.t_rw; t.t_rx; t.t_ry; t.t_rz; t.t_tx; t.t_ty; t.t_tz])

let parse_lim t =
  if t = "-" then None else
    let a = Stdlib.String.sub t 1 (Stdlib.String.length t - 1) in
    Some (match t.[0] with
        | 'f' -> LSingle (f32_of a)
        | 'd' -> LDouble (f64_of a)
        | 's' -> LScaledInteger (z_of_decimal a)
        | 'i' -> LInteger (z_of_decimal a)
        | _ -> failwith ("bad limit " ^ t))
let show_lim l = match l with
  | None -> "-"
  | Some (LSingle f) -> "f" ^ c32 f
  | Some (LDouble f) -> "d" ^ c64 f
  | Some (LScaledInteger z) -> "s" ^ decimal_of_z z
  | Some (LInteger z) -> "i" ^ decimal_of_z z

let parse_name (s : string) : record_name =
  match s with
  | "x" -> CartesianX | "y" -> CartesianY | "z" -> CartesianZ | "cis" -> CartesianInvalidState
  | "sr" -> SphericalRange | "sa" -> SphericalAzimuth | "se" -> SphericalElevation | "sis" -> SphericalInvalidState
  | "in" -> Intensity | "iin" -> IsIntensityInvalid
  | "r" -> ColorRed | "g" -> ColorGreen | "b" -> ColorBlue | "ici" -> IsColorInvalid
  | "row" -> RowIndex | "col" -> ColumnIndex | "rc" -> ReturnCount | "ri" -> ReturnIndex
  | "ts" -> TimeStamp | "its" -> IsTimeStampInvalid
  | _ ->
    (match Stdlib.String.split_on_char '.' s with
     | ["u"; ns; nm] -> Unknown (bytes_of_hex ns, bytes_of_hex nm)
     | _ -> failwith ("bad record name " ^ s))
let show_name (n : record_name) : string =
  match n with
  | CartesianX -> "x" | CartesianY -> "y" | CartesianZ -> "z" | CartesianInvalidState -> "cis"
  | SphericalRange -> "sr" | SphericalAzimuth -> "sa" | SphericalElevation -> "se" | SphericalInvalidState -> "sis"
  | Intensity -> "in" | IsIntensityInvalid -> "iin"
  | ColorRed -> "r" | ColorGreen -> "g" | ColorBlue -> "b" | IsColorInvalid -> "ici"
  | RowIndex -> "row" | ColumnIndex -> "col" | ReturnCount -> "rc" | ReturnIndex -> "ri"
  | TimeStamp -> "ts" | IsTimeStampInvalid -> "its"
  | Unknown (ns, nm) -> "u." ^ hex_of_bytes ns ^ "." ^ hex_of_bytes nm

let parse_dtype (s : string) : data_type =
  let o32 t = if t = "-" then None else Some (f32_of t) in
  match Stdlib.String.split_on_char '/' s with
  | ["F"; mn; mx] -> DSingle (o32 mn, o32 mx)
  | ["D"; mn; mx] -> DDouble (o64 mn, o64 mx)
  | ["S"; mn; mx; sc; off] -> DScaledInteger (z_of_decimal mn, z_of_decimal mx, f64_of sc, f64_of off)
  | ["I"; mn; mx] -> DInteger (z_of_decimal mn, z_of_decimal mx)
  | _ -> failwith ("bad type token " ^ s)
let show_dtype (t : data_type) : string =
  let s32 o = match o with None -> "-" | Some f -> c32 f in
  let s64 o = match o with None -> "-" | Some f -> c64 f in
  match t with
  | DSingle (mn, mx) -> "F/" ^ s32 mn ^ "/" ^ s32 mx
  | DDouble (mn, mx) -> "D/" ^ s64 mn ^ "/" ^ s64 mx
  | DScaledInteger (mn, mx, sc, off) -> "S/" ^ decimal_of_z mn ^ "/" ^ decimal_of_z mx ^ "/" ^ c64 sc ^ "/" ^ c64 off
  | DInteger (mn, mx) -> "I/" ^ decimal_of_z mn ^ "/" ^ decimal_of_z mx

let parse_rec (t : string) : record =
  match Stdlib.String.index_opt t '~' with
  | Some k -> { r_name = parse_name (Stdlib.String.sub t 0 k); r_type = parse_dtype (Stdlib.String.sub t (k + 1) (Stdlib.String.length t - k - 1)) }
  | None -> failwith ("bad record token " ^ t)
let show_rec (r : record) = show_name r.r_name ^ "~" ^ show_dtype r.r_type

(* RecordDataType::limits *)
let limits_of (t : data_type) : limit_value option * limit_value option =
  match t with
  | DSingle (mn, mx) -> (Stdlib.Option.map (fun f -> LSingle f) mn, Stdlib.Option.map (fun f -> LSingle f) mx)
  | DDouble (mn, mx) -> (Stdlib.Option.map (fun f -> LDouble f) mn, Stdlib.Option.map (fun f -> LDouble f) mx)
  | DScaledInteger (mn, mx, _, _) -> (Some (LScaledInteger mn), Some (LScaledInteger mx))
  | DInteger (mn, mx) -> (Some (LInteger mn), Some (LInteger mx))

let split6 (t : string) : string list option =
  if t = "-" then None else
    match Stdlib.String.split_on_char ',' t with
    | [_; _; _; _; _; _] as l -> Some l
    | _ -> failwith ("bad bounds token " ^ t)
let oz t = if t = "-" then None else Some (z_of_decimal t)

let parse_cb t = match split6 t with
  | None -> None
  | Some [a; b; c; d; e; f] ->
    Some { cb_x_min = o64 a; cb_x_max = o64 b; cb_y_min = o64 c; cb_y_max = o64 d; cb_z_min = o64 e; cb_z_max = o64 f }
  | _ -> assert false
let parse_sb t = match split6 t with
  | None -> None
  | Some [a; b; c; d; e; f] ->
    Some { sb_range_min = o64 a; sb_range_max = o64 b; sb_elevation_min = o64 c; sb_elevation_max = o64 d;
           sb_azimuth_start = o64 e; sb_azimuth_end = o64 f }
  | _ -> assert false
let parse_ib t = match split6 t with
  | None -> None
  | Some [a; b; c; d; e; f] ->
    Some { ib_row_min = oz a; ib_row_max = oz b; ib_column_min = oz c; ib_column_max = oz d;
           ib_return_min = oz e; ib_return_max = oz f }
  | _ -> assert false

let so64 o = match o with None -> "-" | Some f -> c64 f
let soz o = match o with None -> "-" | Some z -> decimal_of_z z

let show_blob (b : blob) = decimal_of_n b.b_offset ^ "/" ^ decimal_of_n b.b_length
let show_iblob (b : image_blob) = (match b.ib_format with Png -> "p" | Jpeg -> "j") ^ "/" ^ show_blob b.ib_data
let show_mask m = match m with None -> "-" | Some b -> show_blob b

let dump_meta (m : MetaFile.file_meta) : string =
  let o = Buffer.create 1024 in
  let add s = if Buffer.length o > 0 then Buffer.add_char o ' '; Buffer.add_string o s in
  let r = m.MetaFile.fm_root in
  add (Printf.sprintf "ROOT fmt:%s guid:%s lv:%s cr:%s cm:%s" (hs r.rt_format) (hs r.rt_guid) (hso r.rt_library_version)
         (show_dt r.rt_creation) (hso r.rt_coordinate_metadata));
  add (Printf.sprintf "EXT %d" (Stdlib.List.length m.MetaFile.fm_extensions));
  Stdlib.List.iter (fun e -> add (hs e.e_namespace ^ " " ^ hs e.e_url)) m.MetaFile.fm_extensions;
  add (Printf.sprintf "PCS %d" (Stdlib.List.length m.MetaFile.fm_pointclouds));
  Stdlib.List.iter (fun pc ->
      add (Printf.sprintf "PC guid:%s off:%s rec:%s proto:%d" (hso pc.pc_guid) (decimal_of_n pc.pc_file_offset)
             (decimal_of_n pc.pc_records) (Stdlib.List.length pc.pc_prototype));
      Stdlib.List.iter (fun r -> add (show_rec r)) pc.pc_prototype;
      add (match pc.pc_original_guids with
          | None -> "og:-"
          | Some v -> Printf.sprintf "og:%d%s" (Stdlib.List.length v) (Stdlib.String.concat "" (Stdlib.List.map (fun s -> "," ^ hs s) v)));
      add ("name:" ^ hso pc.pc_name);
      add ("desc:" ^ hso pc.pc_description);
      add (match pc.pc_cartesian_bounds with
          | None -> "cb:-"
          | Some b -> "cb:" ^ Stdlib.String.concat "," (Stdlib.List.map so64 [b.cb_x_min; b.cb_x_max; b.cb_y_min; b.cb_y_max; b.cb_z_min; b.cb_z_max]));
      add (match pc.pc_spherical_bounds with
          | None -> "sb:-"
          | Some b -> "sb:" ^ Stdlib.String.concat "," (Stdlib.List.map so64 [b.sb_range_min; b.sb_range_max; b.sb_elevation_min; b.sb_elevation_max; b.sb_azimuth_start; b.sb_azimuth_end]));
      add (match pc.pc_index_bounds with
          | None -> "ib:-"
          | Some b -> "ib:" ^ Stdlib.String.concat "," (Stdlib.List.map soz [b.ib_row_min; b.ib_row_max; b.ib_column_min; b.ib_column_max; b.ib_return_min; b.ib_return_max]));
      add (match pc.pc_intensity_limits with
          | None -> "il:-"
          | Some l -> "il:" ^ show_lim l.il_min ^ "," ^ show_lim l.il_max);
      add (match pc.pc_color_limits with
          | None -> "cl:-"
          | Some l -> "cl:" ^ Stdlib.String.concat "," (Stdlib.List.map show_lim [l.cl_red_min; l.cl_red_max; l.cl_green_min; l.cl_green_max; l.cl_blue_min; l.cl_blue_max]));
      add ("tr:" ^ show_tr pc.pc_transform);
      add ("as:" ^ show_dt pc.pc_acquisition_start);
      add ("ae:" ^ show_dt pc.pc_acquisition_end);
      add ("sv:" ^ hso pc.pc_sensor_vendor);
      add ("sm:" ^ hso pc.pc_sensor_model);
      add ("ss:" ^ hso pc.pc_sensor_serial);
      add ("shw:" ^ hso pc.pc_sensor_hw_version);
      add ("ssw:" ^ hso pc.pc_sensor_sw_version);
      add ("sfw:" ^ hso pc.pc_sensor_fw_version);
      add ("te:" ^ so64 pc.pc_temperature);
      add ("hu:" ^ so64 pc.pc_humidity);
      add ("ap:" ^ so64 pc.pc_atmospheric_pressure)) m.MetaFile.fm_pointclouds;
  add (Printf.sprintf "IMGS %d" (Stdlib.List.length m.MetaFile.fm_images));
  Stdlib.List.iter (fun im ->
      add ("IMG guid:" ^ hso im.im_guid);
      add (match im.im_visual_reference with
          | None -> "vr:-"
          | Some v -> Printf.sprintf "vr:%s,%s,%s,%s" (show_iblob v.vr_blob) (show_mask v.vr_mask) (decimal_of_n v.vr_width) (decimal_of_n v.vr_height));
      add (match im.im_projection with
          | None -> "pr:-"
          | Some (PPinhole p) ->
            Stdlib.String.concat "," (["pr:P"; show_iblob p.ph_blob; show_mask p.ph_mask; decimal_of_n p.ph_width; decimal_of_n p.ph_height]
                               @ Stdlib.List.map c64 [p.ph_focal_length; p.ph_pixel_width; p.ph_pixel_height; p.ph_principal_x; p.ph_principal_y])
          | Some (PSpherical p) ->
            Stdlib.String.concat "," (["pr:S"; show_iblob p.si_blob; show_mask p.si_mask; decimal_of_n p.si_width; decimal_of_n p.si_height]
                               @ Stdlib.List.map c64 [p.si_pixel_width; p.si_pixel_height])
          | Some (PCylindrical p) ->
            Stdlib.String.concat "," (["pr:C"; show_iblob p.ci_blob; show_mask p.ci_mask; decimal_of_n p.ci_width; decimal_of_n p.ci_height]
                               @ Stdlib.List.map c64 [p.ci_radius; p.ci_principal_y; p.ci_pixel_width; p.ci_pixel_height]));
      add ("tr:" ^ show_tr im.im_transform);
      add ("pg:" ^ hso im.im_pointcloud_guid);
      add ("name:" ^ hso im.im_name);
      add ("desc:" ^ hso im.im_description);
      add ("aq:" ^ show_dt im.im_acquisition);
      add ("sv:" ^ hso im.im_sensor_vendor);
      add ("sm:" ^ hso im.im_sensor_model);
      add ("ss:" ^ hso im.im_sensor_serial)) m.MetaFile.fm_images;
  Buffer.contents o

(* ---- program -> file_meta (what the writer holds at E57Writer::finalize) *)

let rec split_at (key : string) (l : string list) (acc : string list) : string list * string list =
  match l with
  | [] -> (Stdlib.List.rev acc, [])
  | t :: r -> if t = key then (Stdlib.List.rev acc, r) else split_at key r (t :: acc)

let rec take_n n l = if n = 0 then ([], l) else match l with x :: r -> let (a, b) = take_n (n - 1) r in (x :: a, b) | [] -> failwith "program too short"

let il_complete (l : intensity_limits) = l.il_min <> None && l.il_max <> None
let cl_complete (l : color_limits) =
  l.cl_red_min <> None && l.cl_red_max <> None && l.cl_green_min <> None && l.cl_green_max <> None
  && l.cl_blue_min <> None && l.cl_blue_max <> None

(* returns (the value the writer holds, the metadata the caller asked for): they differ only in the
   DEFAULT limits the writer derives from the prototype - when these are incomplete (a float record
   without minimum/maximum) the writer holds them but never writes them and the caller never set them *)
let build (toks : string list) : MetaFile.file_meta * MetaFile.file_meta =
  let (prog, oracle) = split_at "ORACLE" toks [] in
  Hashtbl.reset ftab64; Hashtbl.reset ftab32;
  let version = ref [] in
  let pcos = ref [] and imos = ref [] in
  let rec orc l = match l with
    | [] -> ()
    | "LV" :: s :: r -> version := unstr s; orc r
    | "PCO" :: off :: rc :: cb :: sb :: ib :: r -> pcos := !pcos @ [(off, rc, cb, sb, ib)]; orc r
    | "IMO" :: a :: b :: c :: d :: r -> imos := !imos @ [(a, b, c, d)]; orc r
    | t :: r when Stdlib.String.length t > 1 && (t.[0] = 'd' || t.[0] = 'f') && Stdlib.String.contains t '=' ->
      let k = Stdlib.String.index t '=' in
      let bits = Stdlib.String.sub t 1 (k - 1) and text = bytes_of_hex (Stdlib.String.sub t (k + 1) (Stdlib.String.length t - k - 1)) in
      Hashtbl.replace (if t.[0] = 'd' then ftab64 else ftab32) bits text; orc r
    | t :: _ -> failwith ("bad oracle token " ^ t) in
  orc oracle;
  let guid, rest = match prog with "G" :: g :: r -> (unstr g, r) | _ -> failwith "program must start with G" in
  let cm = ref None and cr = ref None in
  let exts = ref [] and pcs = ref [] and pcs_exp = ref [] and imgs = ref [] in
  let find_rec proto n = Stdlib.List.find_opt (fun r -> r.r_name = n) proto in
  let rec top l = match l with
    | [] -> ()
    | "CM" :: s :: r -> cm := unstro s; top r
    | "CR" :: d :: r -> cr := parse_dt d; top r
    | "X" :: ns :: url :: r -> exts := !exts @ [{ e_namespace = unstr ns; e_url = unstr url }]; top r
    | "BLOB" :: _ :: r -> top r
    | "FIN" :: r -> top r
    | "PC" :: g :: n :: r ->
      let (recs, r) = take_n (int_of_string n) r in
      let proto = Stdlib.List.map parse_rec recs in
      (* PointCloudWriter::new: default limits from the prototype *)
      let il = match find_rec proto Intensity with
        | Some i -> let (a, b) = limits_of i.r_type in Some { il_min = a; il_max = b }
        | None -> None in
      let cl = match find_rec proto ColorRed, find_rec proto ColorGreen, find_rec proto ColorBlue with
        | Some rr, Some gg, Some bb ->
          let (a, b) = limits_of rr.r_type and (c, d) = limits_of gg.r_type and (e, f) = limits_of bb.r_type in
          Some { cl_red_min = a; cl_red_max = b; cl_green_min = c; cl_green_max = d; cl_blue_min = e; cl_blue_max = f }
        | _ -> None in
      let pc = ref { pc_guid = Some (unstr g); pc_file_offset = BinNums.N0; pc_records = BinNums.N0; pc_prototype = proto;
                     pc_original_guids = None; pc_name = None; pc_description = None;
                     pc_cartesian_bounds = None; pc_spherical_bounds = None; pc_index_bounds = None;
                     pc_intensity_limits = il; pc_color_limits = cl; pc_transform = None;
                     pc_acquisition_start = None; pc_acquisition_end = None;
                     pc_sensor_vendor = None; pc_sensor_model = None; pc_sensor_serial = None;
                     pc_sensor_hw_version = None; pc_sensor_sw_version = None; pc_sensor_fw_version = None;
                     pc_temperature = None; pc_humidity = None; pc_atmospheric_pressure = None } in
      let il_set = ref false and cl_set = ref false in
      let rec inpc l = match l with
        | "PN" :: s :: r -> pc := { !pc with pc_name = unstro s }; inpc r
        | "PD" :: s :: r -> pc := { !pc with pc_description = unstro s }; inpc r
        | "PSV" :: s :: r -> pc := { !pc with pc_sensor_vendor = unstro s }; inpc r
        | "PSM" :: s :: r -> pc := { !pc with pc_sensor_model = unstro s }; inpc r
        | "PSS" :: s :: r -> pc := { !pc with pc_sensor_serial = unstro s }; inpc r
        | "PSH" :: s :: r -> pc := { !pc with pc_sensor_hw_version = unstro s }; inpc r
        | "PSW" :: s :: r -> pc := { !pc with pc_sensor_sw_version = unstro s }; inpc r
        | "PSF" :: s :: r -> pc := { !pc with pc_sensor_fw_version = unstro s }; inpc r
        | "POG" :: "-" :: r -> pc := { !pc with pc_original_guids = None }; inpc r
        | "POG" :: n :: r -> let (gs, r) = take_n (int_of_string n) r in
          pc := { !pc with pc_original_guids = Some (Stdlib.List.map unstr gs) }; inpc r
        | "PT" :: t :: r -> pc := { !pc with pc_transform = parse_tr t }; inpc r
        | "PAS" :: t :: r -> pc := { !pc with pc_acquisition_start = parse_dt t }; inpc r
        | "PAE" :: t :: r -> pc := { !pc with pc_acquisition_end = parse_dt t }; inpc r
        | "PTE" :: t :: r -> pc := { !pc with pc_temperature = o64 t }; inpc r
        | "PHU" :: t :: r -> pc := { !pc with pc_humidity = o64 t }; inpc r
        | "PAP" :: t :: r -> pc := { !pc with pc_atmospheric_pressure = o64 t }; inpc r
        | "PIL" :: "-" :: r -> il_set := true; pc := { !pc with pc_intensity_limits = None }; inpc r
        | "PIL" :: "+" :: a :: b :: r -> il_set := true; pc := { !pc with pc_intensity_limits = Some { il_min = parse_lim a; il_max = parse_lim b } }; inpc r
        | "PCL" :: "-" :: r -> cl_set := true; pc := { !pc with pc_color_limits = None }; inpc r
        | "PCL" :: "+" :: a :: b :: c :: d :: e :: f :: r ->
          cl_set := true;
          pc := { !pc with pc_color_limits = Some { cl_red_min = parse_lim a; cl_red_max = parse_lim b; cl_green_min = parse_lim c;
                                                    cl_green_max = parse_lim d; cl_blue_min = parse_lim e; cl_blue_max = parse_lim f } }; inpc r
        | "PP" :: n :: r -> let (_, r) = take_n (int_of_string n) r in inpc r   (* points only move the oracle values *)
        | "PE" :: r ->
          (match !pcos with
           | (off, rc, cb, sb, ib) :: more ->
             pcos := more;
             let w = { !pc with pc_file_offset = n_of_decimal off; pc_records = n_of_decimal rc;
                                pc_cartesian_bounds = parse_cb cb; pc_spherical_bounds = parse_sb sb; pc_index_bounds = parse_ib ib } in
             pcs := !pcs @ [w];
             let il' = match w.pc_intensity_limits with Some l when not !il_set && not (il_complete l) -> None | x -> x in
             let cl' = match w.pc_color_limits with Some l when not !cl_set && not (cl_complete l) -> None | x -> x in
             pcs_exp := !pcs_exp @ [{ w with pc_intensity_limits = il'; pc_color_limits = cl' }];
             (* finalize take()s every optional field: a second finalize pushes an emptied descriptor *)
             il_set := true; cl_set := true;
             pc := { !pc with pc_original_guids = None; pc_name = None; pc_description = None;
                              pc_intensity_limits = None; pc_color_limits = None; pc_transform = None;
                              pc_acquisition_start = None; pc_acquisition_end = None;
                              pc_sensor_vendor = None; pc_sensor_model = None; pc_sensor_serial = None;
                              pc_sensor_hw_version = None; pc_sensor_sw_version = None; pc_sensor_fw_version = None;
                              pc_temperature = None; pc_humidity = None; pc_atmospheric_pressure = None }
           | [] -> failwith "no PCO oracle for a finalized point cloud");
          inpc r
        | _ -> l in
      top (inpc r)
    | "IMG" :: g :: r ->
      let im = ref { im_guid = Some (unstr g); im_visual_reference = None; im_projection = None; im_transform = None;
                     im_pointcloud_guid = None; im_name = None; im_description = None; im_acquisition = None;
                     im_sensor_vendor = None; im_sensor_model = None; im_sensor_serial = None } in
      let mk_blob fmt data = { ib_data = { b_offset = BinNums.N0; b_length = n_of_int (Stdlib.List.length (unstr data)) };
                               ib_format = (if fmt = "p" then Png else Jpeg) } in
      let mk_mask m = if m = "-" then None else Some { b_offset = BinNums.N0; b_length = n_of_int (Stdlib.List.length (unstr m)) } in
      let nd = n_of_decimal in
      let rec inim l = match l with
        | "IN" :: s :: r -> im := { !im with im_name = Some (unstr s) }; inim r
        | "ID" :: s :: r -> im := { !im with im_description = Some (unstr s) }; inim r
        | "IG" :: s :: r -> im := { !im with im_pointcloud_guid = Some (unstr s) }; inim r
        | "ISV" :: s :: r -> im := { !im with im_sensor_vendor = Some (unstr s) }; inim r
        | "ISM" :: s :: r -> im := { !im with im_sensor_model = Some (unstr s) }; inim r
        | "ISS" :: s :: r -> im := { !im with im_sensor_serial = Some (unstr s) }; inim r
        | "IT" :: t :: r -> im := { !im with im_transform = parse_tr t }; inim r
        | "IA" :: t :: r -> im := { !im with im_acquisition = parse_dt t }; inim r
        | "IVR" :: fmt :: data :: mask :: w :: h :: r ->
          im := { !im with im_visual_reference = Some { vr_blob = mk_blob fmt data; vr_mask = mk_mask mask; vr_width = nd w; vr_height = nd h } }; inim r
        | "IPH" :: fmt :: data :: mask :: w :: h :: fl :: pw :: ph :: px :: py :: r ->
          im := { !im with im_projection = Some (PPinhole { ph_blob = mk_blob fmt data; ph_mask = mk_mask mask; ph_width = nd w; ph_height = nd h;
                                                            ph_focal_length = f64_of fl; ph_pixel_width = f64_of pw; ph_pixel_height = f64_of ph;
                                                            ph_principal_x = f64_of px; ph_principal_y = f64_of py }) }; inim r
        | "ISP" :: fmt :: data :: mask :: w :: h :: pw :: ph :: r ->
          im := { !im with im_projection = Some (PSpherical { si_blob = mk_blob fmt data; si_mask = mk_mask mask; si_width = nd w; si_height = nd h;
                                                              si_pixel_width = f64_of pw; si_pixel_height = f64_of ph }) }; inim r
        | "ICY" :: fmt :: data :: mask :: w :: h :: rad :: ppy :: pw :: ph :: r ->
          im := { !im with im_projection = Some (PCylindrical { ci_blob = mk_blob fmt data; ci_mask = mk_mask mask; ci_width = nd w; ci_height = nd h;
                                                                ci_radius = f64_of rad; ci_principal_y = f64_of ppy;
                                                                ci_pixel_width = f64_of pw; ci_pixel_height = f64_of ph }) }; inim r
        | "IE" :: r ->
          (match !imos with
           | (a, b, c, d) :: more ->
             imos := more;
             let setb (ib : image_blob) o = { ib with ib_data = { ib.ib_data with b_offset = n_of_decimal o } } in
             let setm m o = match m with Some (bl : blob) -> Some { bl with b_offset = n_of_decimal o } | None -> None in
             let vr = match (!im).im_visual_reference with
               | Some v -> Some { v with vr_blob = setb v.vr_blob a; vr_mask = setm v.vr_mask b }
               | None -> None in
             let pr = match (!im).im_projection with
               | Some (PPinhole p) -> Some (PPinhole { p with ph_blob = setb p.ph_blob c; ph_mask = setm p.ph_mask d })
               | Some (PSpherical p) -> Some (PSpherical { p with si_blob = setb p.si_blob c; si_mask = setm p.si_mask d })
               | Some (PCylindrical p) -> Some (PCylindrical { p with ci_blob = setb p.ci_blob c; ci_mask = setm p.ci_mask d })
               | None -> None in
             imgs := !imgs @ [{ !im with im_visual_reference = vr; im_projection = pr }]
           | [] -> failwith "no IMO oracle for a finalized image");
          inim r
        | _ -> l in
      top (inim r)
    | t :: _ -> failwith ("bad METAWM command " ^ t) in
  top rest;
  let lv = bytes_of_ascii "Rust E57 Library v" @ !version @ bytes_of_ascii " github.com/cry-inc/e57" in
  let w = { MetaFile.fm_root = { rt_format = bytes_of_ascii "ASTM E57 3D Imaging Data File"; rt_guid = guid;
                                 rt_major_version = BinNums.Zpos BinNums.Coq_xH; rt_minor_version = BinNums.Z0;
                                 rt_library_version = Some lv; rt_creation = !cr; rt_coordinate_metadata = !cm };
            fm_extensions = !exts; fm_pointclouds = !pcs; fm_images = !imgs } in
  (w, { w with MetaFile.fm_pointclouds = !pcs_exp })

let run_metawm (toks : string list) : string =
  let (mw, m) = build toks in
  let g = match XmlGen.gen_root mw with
    | Prelude.Ok bs -> hex_of_bytes bs
    | Prelude.Err k -> "e" ^ err_name k
    | Prelude.Panic -> "P" in
  (* the last field: do the hypotheses of gen_is_render / tree_of_wf hold for this value
     (W for the writer's value, X for the metadata)? *)
  g ^ " | " ^ dump_meta m ^ " | " ^ Drv_xmltree.dump_doc (MetaTree.tree_of m)
  ^ " | " ^ (if XgWriterOk.writer_meta_ok m then "W" else "w") ^ (if XgWriterOk.meta_xml_ok m then "X" else "x")

let run (kind : string) (toks : string list) : string option =
  match kind with
  | "METAWM" -> Some (run_metawm toks)
  | "XGSELF" ->
    Some (match XmlGen.gen_root XgWriterOk.xg_example with
        | Prelude.Ok bs ->
          let (l, h) = XgWriterOk.xg_digest bs in
          Printf.sprintf "%s %s %b %b" (decimal_of_n l) (decimal_of_n h)
            (XgWriterOk.writer_meta_ok XgWriterOk.xg_example) (XgWriterOk.meta_xml_ok XgWriterOk.xg_example)
        | _ -> "error")
  | "XGDISPLAY" ->
    Some (Stdlib.String.concat " " (Stdlib.List.map (fun t ->
        if Stdlib.String.length t > 0 && t.[0] = '-' then hs (XmlGen.display_i (z_of_decimal t))
        else
          let a = XmlGen.display_i (z_of_decimal t) and b = XmlGen.display_u (n_of_decimal t) in
          if a = b then hs a else "MISMATCH") toks))
  | "XGESC" ->
    (match toks with
     | [s] -> Some (hex_of_bytes (XmlGen.cdata_escape (unstr s)) ^ " " ^ hex_of_bytes (XmlGen.url_escape (unstr s)))
     | _ -> failwith "bad XGESC case")
  | _ -> None
