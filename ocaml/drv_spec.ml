(* Case kinds of the file-level specification (coq/theories/Spec/FileSpec.v):
   SPECENC <xmlhex> <entry>...            the extracted independent encoder
       entry:  X                                    position of the XML text
               B:<pad>:<datahex>                    blob section, <pad> extra zero bytes after it
               P:<pad>:<proto>:<points>:<layout>    compressed vector; layout = packets joined by '_':
                                                    I<total> index, G<total> ignored,
                                                    D<n0>.<n1>... data packet taking the next n_i bytes of
                                                    record i's byte stream
       -> ok len=<n> h=<fnv> offs=<physical offset of every entry> xoff=<..> followed=<0|1> file=<hex>
          | illegal-layout
   SPECDEC <file> [STRUCT] <desc>...      the extracted independent decoder
       desc:   b<off>:<len>   p<off>:<records>:<proto>
       -> wf=<0|1> container=<0|1> descs=<0|1 per descriptor> disjoint=<0|1> xml=<fnv>
          then, unless STRUCT, per descriptor  # bl ok n= h=  /  # pc n= end=none h= [pts=]  (or  # undecodable)
   SPECDX <xmlhex>                        the descriptors the XML states (FileSpecXml.dx_of: xml_parse, extract_all)
       -> dx=<desc,desc,...> in document order (point clouds, then image blobs) | dx=none
   SPECDECX <file>                        the decoder with the XML plugged in (FileSpecXml.spec_wellformed_xml)
       -> wfx=<0|1> proto=<0|1> dx=<...|none>      (proto: every prototype value within its element's limits)
   Float texts are parsed by OCaml's float_of_string (an oracle for the extractors; the descriptors hold no floats). *)
open Conv
open Drv_core

let rec take_n (k : int) (l : 'a list) (acc : 'a list) : 'a list * 'a list =
  if k = 0 then (Stdlib.List.rev acc, l) else
    match l with [] -> failwith "layout takes more bytes than the stream has" | x :: t -> take_n (k - 1) t (x :: acc)

let parse_layout (proto : Record.dtype list) (points : Record.rvalue list list) (s : string) : FormatSpec.layout =
  let n = Stdlib.List.length proto in
  let streams = Array.of_list (Stdlib.List.mapi (fun i t ->
      BitSpec.spec_stream_bytes t (Stdlib.List.map (fun p -> Stdlib.List.nth p i) points)) proto) in
  ignore n;
  if s = "" then [] else
    Stdlib.List.map (fun p ->
        let a = Stdlib.String.sub p 1 (Stdlib.String.length p - 1) in
        match p.[0] with
        | 'I' -> FormatSpec.SIndex (n_of_decimal a)
        | 'G' -> FormatSpec.SIgnored (n_of_decimal a)
        | 'D' ->
          let lens = Stdlib.List.map int_of_string (Stdlib.String.split_on_char '.' a) in
          FormatSpec.SData (Stdlib.List.mapi (fun i k ->
              if i >= Array.length streams then failwith "more chunks than records";
              let (c, rest) = take_n k streams.(i) [] in
              streams.(i) <- rest; c) lens)
        | _ -> failwith ("bad packet token " ^ p)) (Stdlib.String.split_on_char '_' s)

let parse_entry (t : string) : FileSpec.fsection =
  match Stdlib.String.split_on_char ':' t with
  | ["X"] -> FileSpec.FXml
  | ["B"; pad; h] -> FileSpec.FBlob (bytes_of_hex h, n_of_decimal pad)
  | ["P"; pad; proto; pts; lay] ->
    let proto = parse_proto proto in
    let pts = parse_points pts in
    FileSpec.FPc (proto, pts, parse_layout proto pts lay, n_of_decimal pad)
  | _ -> failwith ("bad entry " ^ t)

let run_specenc (toks : string list) : string =
  match toks with
  | xmlhex :: entries ->
    let x = bytes_of_hex xmlhex in
    let fl = Stdlib.List.map parse_entry entries in
    if not (FileSpec.file_layout_ok fl) then "illegal-layout" else
      let xl = Prelude.len x in
      let f = FileSpec.spec_encode_file fl x in
      let offs = FileSpec.spec_layout_offsets fl xl in
      let xo = PageSpec.phys_of_log (FileSpec.xml_start (n_of_int 48) fl xl) in
      let followed = FileSpec.pcs_followed fl xl (FileSpec.spec_file_filler fl x) in
      Printf.sprintf "ok len=%d h=%s offs=%s xoff=%s followed=%d file=%s" (Stdlib.List.length f)
        (fnv_hex (fnv_bytes fnv_init f)) (Stdlib.String.concat "," (Stdlib.List.map decimal_of_n offs))
        (decimal_of_n xo) (if followed then 1 else 0) (hex_of_bytes f)
  | _ -> failwith "bad SPECENC case"

let parse_desc (t : string) : FileSpec.descriptor =
  let a = Stdlib.String.sub t 1 (Stdlib.String.length t - 1) in
  match t.[0], Stdlib.String.split_on_char ':' a with
  | 'b', [off; ln] -> FileSpec.DBlob (n_of_decimal off, n_of_decimal ln)
  | 'p', [off; recs; proto] -> FileSpec.DPc (n_of_decimal off, n_of_decimal recs, parse_proto proto)
  | _ -> failwith ("bad descriptor " ^ t)

let run_specdec (toks : string list) : string =
  match toks with
  | file :: rest ->
    let structure_only = Stdlib.List.mem "STRUCT" rest in
    let descs = Stdlib.List.map parse_desc (Stdlib.List.filter (fun t -> t <> "STRUCT") rest) in
    let f = resolve_dev file in
    let dx = fun _ -> descs in
    let b x = if x then 1 else 0 in
    let container = FileSpec.container_ok f in
    let log = PageSpec.strip_crc f in
    let each = Stdlib.List.map (fun d -> FileSpec.desc_ok log d) descs in
    let wf = FileSpec.spec_wellformed f dx in
    let sections = FileSpec.sections_ok log descs in
    let disjoint = sections || not (Stdlib.List.for_all (fun x -> x) each) || not container in
    (* [disjoint] is exact when the container and every descriptor are fine: sections_ok is their
       conjunction with pairwise disjointness *)
    let head = Printf.sprintf "wf=%d container=%d descs=%s disjoint=%d xml=%s" (b wf) (b container)
        (Stdlib.String.concat "" (Stdlib.List.map (fun x -> string_of_int (b x)) each))
        (b (if container && Stdlib.List.for_all (fun x -> x) each then sections else disjoint))
        (if container then fnv_hex (fnv_bytes fnv_init (FileSpec.file_xml f)) else "-") in
    if structure_only || not wf then head else
      (match FileSpec.spec_decode_file f dx with
       | None -> head ^ " # undecodable"
       | Some d ->
         head ^ Stdlib.String.concat "" (Stdlib.List.map (fun c ->
             match c with
             | FileSpec.CBlob data ->
               Printf.sprintf " # bl ok n=%d h=%s" (Stdlib.List.length data) (fnv_hex (fnv_bytes fnv_init data))
             | FileSpec.CPoints pts ->
               let txt = show_points pts in
               Printf.sprintf " # pc n=%d end=none h=%s%s" (Stdlib.List.length pts) (fnv_string txt)
                 (if Stdlib.String.length txt <= 1500 then " pts=" ^ txt else "")) d.FileSpec.dec_items))
  | _ -> failwith "bad SPECDEC case"


(* float oracles: bits of the value OCaml reads; texts Rust's parser also accepts for the writer's own output *)
let n_of_u64 (x : int64) : BinNums.coq_N = n_of_decimal (Printf.sprintf "%Lu" x)
let text_of (s : BinNums.coq_N list) : string =
  let b = Buffer.create 16 in Stdlib.List.iter (fun x -> Buffer.add_char b (Char.chr (int_of_n x land 255))) s; Buffer.contents b
let float_text_ok (t : string) : bool =
  t <> "" && not (Stdlib.String.contains t '_') && not (Stdlib.String.contains t 'x') && not (Stdlib.String.contains t 'X')
let pf64 (s : BinNums.coq_N list) : BinNums.coq_N option =
  let t = text_of s in
  if not (float_text_ok t) then None else
    match float_of_string_opt t with Some v -> Some (n_of_u64 (Int64.bits_of_float v)) | None -> None
let pf32 (s : BinNums.coq_N list) : BinNums.coq_N option =
  let t = text_of s in
  if not (float_text_ok t) then None else
    match float_of_string_opt t with
    | Some v -> Some (n_of_u64 (Int64.logand (Int64.of_int32 (Int32.bits_of_float v)) 0xFFFFFFFFL))
    | None -> None

let show_type (t : Record.dtype) : string =
  match t with
  | Record.TSingle -> "F" | Record.TDouble -> "D"
  | Record.TInteger (a, b) -> "I/" ^ decimal_of_z a ^ "/" ^ decimal_of_z b
  | Record.TScaled (a, b) -> "S/" ^ decimal_of_z a ^ "/" ^ decimal_of_z b

let show_desc (d : FileSpec.descriptor) : string =
  match d with
  | FileSpec.DBlob (o, l) -> "b" ^ decimal_of_n o ^ ":" ^ decimal_of_n l
  | FileSpec.DPc (o, n, proto) ->
    "p" ^ decimal_of_n o ^ ":" ^ decimal_of_n n ^ ":" ^ Stdlib.String.concat "," (Stdlib.List.map show_type proto)

let show_dx (x : BinNums.coq_N list) : string =
  match FileSpecXml.dx_of pf64 pf32 XmlExtract.f64_div_u32_bits x with
  | Some l -> "dx=" ^ Stdlib.String.concat ";" (Stdlib.List.map show_desc l)
  | None -> "dx=none"

let run (kind : string) (toks : string list) : string option =
  match kind with
  | "SPECENC" -> Some (run_specenc toks)
  | "SPECDEC" -> Some (run_specdec toks)
  | "SPECDX" -> Some (show_dx (bytes_of_hex (match toks with t :: _ -> t | [] -> "")))
  | "SPECDECX" ->
    let f = resolve_dev (match toks with t :: _ -> t | [] -> "") in
    let wf = FileSpecXml.spec_wellformed_xml pf64 pf32 XmlExtract.f64_div_u32_bits f in
    let cont = FileSpec.container_ok f in
    Some (Printf.sprintf "wfx=%d proto=%d %s" (if wf then 1 else 0)
            (if cont && FileSpecXml.xml_proto_values_ok pf64 pf32 (FileSpec.file_xml f) then 1 else 0)
            (if cont then show_dx (FileSpec.file_xml f) else "dx=none"))
  | _ -> None
