(* XEXTRACTM <oracle entries...> ;; <tree dump tokens...>
   runs the extracted XmlExtract.extract_all on the tree, with the float parsers instantiated by the
   oracle table (entries `=texthex:f64bits|-:f32bits|-`), and prints the canonical metadata dump
   described in harness/src/ext_xe.rs (`OK ...` | `E:<Variant>` | `PANIC`).
   A tree that is `err-utf8` / `err-parse` gives what E57Reader::new answers before extraction
   (Error::Read / Error::Invalid). *)
open Conv
open BinNums
open Meta
open MetaFile

let hs (l : coq_N list) : string = "=" ^ hex_of_bytes l
let os (o : coq_N list option) : string = match o with Some l -> hs l | None -> "-"

let n_of_hexstr (s : string) : coq_N =
  let sixteen = n_of_int 16 in
  let acc = ref N0 in
  Stdlib.String.iter (fun c -> acc := BinNat.N.add (BinNat.N.mul !acc sixteen) (n_of_int (hexval c))) s;
  !acc

let hex_of_n (digits : int) (n : coq_N) : string =
  let sixteen = n_of_int 16 in
  let b = Bytes.make digits '0' in
  let rec go i n =
    if i < 0 then () else begin
      let (q, r) = BinNat.N.div_eucl n sixteen in
      Bytes.set b i "0123456789abcdef".[int_of_n r];
      go (i - 1) q
    end in
  go (digits - 1) n;
  Bytes.to_string b

let f64b (v : f64t) : string = hex_of_n 16 (Floats.canon64 v.f64_bits)
let f32b (v : f32t) : string = hex_of_n 8 (Floats.canon32 v.f32_bits)
let of64 (o : f64t option) = match o with Some v -> f64b v | None -> "-"
let of32 (o : f32t option) = match o with Some v -> f32b v | None -> "-"
let oint (o : coq_Z option) = match o with Some v -> decimal_of_z v | None -> "-"
let dt (o : date_time option) =
  match o with
  | Some d -> f64b d.dt_gps_time ^ "/" ^ (if d.dt_atomic then "1" else "0")
  | None -> "-"
let tr (o : transform option) =
  match o with
  | Some t -> Stdlib.String.concat "," (Stdlib.List.map f64b [t.t_rw; t.t_rx; t.t_ry; t.t_rz; t.t_tx; t.t_ty; t.t_tz])
  | None -> "-"
let lim (o : limit_value option) =
  match o with
  | None -> "-"
  | Some (LSingle v) -> "S:" ^ f32b v
  | Some (LDouble v) -> "D:" ^ f64b v
  | Some (LScaledInteger v) -> "SI:" ^ decimal_of_z v
  | Some (LInteger v) -> "I:" ^ decimal_of_z v

let rname (n : record_name) : string =
  match n with
  | CartesianX -> "CartesianX" | CartesianY -> "CartesianY" | CartesianZ -> "CartesianZ"
  | CartesianInvalidState -> "CartesianInvalidState"
  | SphericalRange -> "SphericalRange" | SphericalAzimuth -> "SphericalAzimuth"
  | SphericalElevation -> "SphericalElevation" | SphericalInvalidState -> "SphericalInvalidState"
  | Intensity -> "Intensity" | IsIntensityInvalid -> "IsIntensityInvalid"
  | ColorRed -> "ColorRed" | ColorGreen -> "ColorGreen" | ColorBlue -> "ColorBlue"
  | IsColorInvalid -> "IsColorInvalid"
  | RowIndex -> "RowIndex" | ColumnIndex -> "ColumnIndex"
  | ReturnCount -> "ReturnCount" | ReturnIndex -> "ReturnIndex"
  | TimeStamp -> "TimeStamp" | IsTimeStampInvalid -> "IsTimeStampInvalid"
  | Unknown (ns, name) -> "U:" ^ hs ns ^ ":" ^ hs name

let rtype (t : data_type) : string =
  match t with
  | DSingle (mn, mx) -> "S:" ^ of32 mn ^ ":" ^ of32 mx
  | DDouble (mn, mx) -> "D:" ^ of64 mn ^ ":" ^ of64 mx
  | DScaledInteger (mn, mx, sc, off) ->
    "SI:" ^ decimal_of_z mn ^ ":" ^ decimal_of_z mx ^ ":" ^ f64b sc ^ ":" ^ f64b off
  | DInteger (mn, mx) -> "I:" ^ decimal_of_z mn ^ ":" ^ decimal_of_z mx

let iblob (b : image_blob) : string =
  (match b.ib_format with Jpeg -> "J" | Png -> "P") ^ "@" ^ decimal_of_n b.ib_data.b_offset ^ "+" ^ decimal_of_n b.ib_data.b_length
let mask (m : blob option) : string =
  match m with Some b -> decimal_of_n b.b_offset ^ "+" ^ decimal_of_n b.b_length | None -> "-"

let dump_pointcloud (pc : pointcloud) (out : string list ref) : unit =
  let push s = out := s :: !out in
  push "pc";
  push ("guid=" ^ os pc.pc_guid);
  push ("off=" ^ decimal_of_n pc.pc_file_offset);
  push ("rec=" ^ decimal_of_n pc.pc_records);
  push ("proto=" ^ string_of_int (Stdlib.List.length pc.pc_prototype));
  Stdlib.List.iter (fun r -> push (rname r.r_name ^ "/" ^ rtype r.r_type)) pc.pc_prototype;
  push ("og=" ^ (match pc.pc_original_guids with
      | None -> "-"
      | Some l -> "[" ^ Stdlib.String.concat "," (Stdlib.List.map hs l) ^ "]"));
  push ("name=" ^ os pc.pc_name);
  push ("desc=" ^ os pc.pc_description);
  push ("cb=" ^ (match pc.pc_cartesian_bounds with
      | None -> "-"
      | Some b -> Stdlib.String.concat "," (Stdlib.List.map of64 [b.cb_x_min; b.cb_x_max; b.cb_y_min; b.cb_y_max; b.cb_z_min; b.cb_z_max])));
  push ("sb=" ^ (match pc.pc_spherical_bounds with
      | None -> "-"
      | Some b -> Stdlib.String.concat "," (Stdlib.List.map of64 [b.sb_range_min; b.sb_range_max; b.sb_elevation_min; b.sb_elevation_max; b.sb_azimuth_start; b.sb_azimuth_end])));
  push ("ib=" ^ (match pc.pc_index_bounds with
      | None -> "-"
      | Some b -> Stdlib.String.concat "," (Stdlib.List.map oint [b.ib_row_min; b.ib_row_max; b.ib_column_min; b.ib_column_max; b.ib_return_min; b.ib_return_max])));
  push ("il=" ^ (match pc.pc_intensity_limits with
      | None -> "-"
      | Some l -> lim l.il_min ^ "," ^ lim l.il_max));
  push ("cl=" ^ (match pc.pc_color_limits with
      | None -> "-"
      | Some l -> Stdlib.String.concat "," (Stdlib.List.map lim [l.cl_red_min; l.cl_red_max; l.cl_green_min; l.cl_green_max; l.cl_blue_min; l.cl_blue_max])));
  push ("tr=" ^ tr pc.pc_transform);
  push ("as=" ^ dt pc.pc_acquisition_start);
  push ("ae=" ^ dt pc.pc_acquisition_end);
  push ("sv=" ^ os pc.pc_sensor_vendor);
  push ("sm=" ^ os pc.pc_sensor_model);
  push ("ss=" ^ os pc.pc_sensor_serial);
  push ("hw=" ^ os pc.pc_sensor_hw_version);
  push ("sw=" ^ os pc.pc_sensor_sw_version);
  push ("fw=" ^ os pc.pc_sensor_fw_version);
  push ("temp=" ^ of64 pc.pc_temperature);
  push ("hum=" ^ of64 pc.pc_humidity);
  push ("pres=" ^ of64 pc.pc_atmospheric_pressure)

let dump_image (im : image) (out : string list ref) : unit =
  let push s = out := s :: !out in
  let dn = decimal_of_n in
  push "im";
  push ("guid=" ^ os im.im_guid);
  push ("vr=" ^ (match im.im_visual_reference with
      | None -> "-"
      | Some v -> Stdlib.String.concat "," [iblob v.vr_blob; mask v.vr_mask; dn v.vr_width; dn v.vr_height]));
  push ("pj=" ^ (match im.im_projection with
      | None -> "-"
      | Some (PPinhole p) ->
        Stdlib.String.concat "," ["PH"; iblob p.ph_blob; mask p.ph_mask; dn p.ph_width; dn p.ph_height;
                           f64b p.ph_focal_length; f64b p.ph_pixel_width; f64b p.ph_pixel_height;
                           f64b p.ph_principal_x; f64b p.ph_principal_y]
      | Some (PSpherical p) ->
        Stdlib.String.concat "," ["SP"; iblob p.si_blob; mask p.si_mask; dn p.si_width; dn p.si_height;
                           f64b p.si_pixel_width; f64b p.si_pixel_height]
      | Some (PCylindrical p) ->
        Stdlib.String.concat "," ["CY"; iblob p.ci_blob; mask p.ci_mask; dn p.ci_width; dn p.ci_height;
                           f64b p.ci_radius; f64b p.ci_principal_y; f64b p.ci_pixel_width; f64b p.ci_pixel_height]));
  push ("tr=" ^ tr im.im_transform);
  push ("pcg=" ^ os im.im_pointcloud_guid);
  push ("name=" ^ os im.im_name);
  push ("desc=" ^ os im.im_description);
  push ("acq=" ^ dt im.im_acquisition);
  push ("sv=" ^ os im.im_sensor_vendor);
  push ("sm=" ^ os im.im_sensor_model);
  push ("ss=" ^ os im.im_sensor_serial)

let dump_meta (m : file_meta) : string =
  let out = ref [] in
  let push s = out := s :: !out in
  let r = m.fm_root in
  push ("fmt=" ^ hs r.rt_format);
  push ("guid=" ^ hs r.rt_guid);
  push ("lib=" ^ os r.rt_library_version);
  push ("cre=" ^ dt r.rt_creation);
  push ("crd=" ^ os r.rt_coordinate_metadata);
  push ("ext=" ^ string_of_int (Stdlib.List.length m.fm_extensions));
  Stdlib.List.iter (fun e -> push (hs e.e_namespace ^ "," ^ hs e.e_url)) m.fm_extensions;
  push ("pcs=" ^ string_of_int (Stdlib.List.length m.fm_pointclouds));
  Stdlib.List.iter (fun pc -> dump_pointcloud pc out) m.fm_pointclouds;
  push ("ims=" ^ string_of_int (Stdlib.List.length m.fm_images));
  Stdlib.List.iter (fun im -> dump_image im out) m.fm_images;
  Stdlib.String.concat " " (Stdlib.List.rev !out)

let show_res (r : file_meta Prelude.res) : string =
  match r with
  | Prelude.Ok m -> "OK " ^ dump_meta m
  | Prelude.Err k -> "E:" ^ err_name k
  | Prelude.Panic -> "PANIC"

(* oracle entries -> the two float parsers *)
let parsers_of_table (entries : string list) =
  let t64 : (string, coq_N) Hashtbl.t = Hashtbl.create 64 in
  let t32 : (string, coq_N) Hashtbl.t = Hashtbl.create 64 in
  Stdlib.List.iter (fun e ->
      match Stdlib.String.split_on_char ':' e with
      | [text; a; b] ->
        if Stdlib.String.length text = 0 || text.[0] <> '=' then failwith ("bad oracle entry " ^ e);
        let key = Stdlib.String.lowercase_ascii (Stdlib.String.sub text 1 (Stdlib.String.length text - 1)) in
        if a <> "-" then Hashtbl.replace t64 key (n_of_hexstr a);
        if b <> "-" then Hashtbl.replace t32 key (n_of_hexstr b)
      | _ -> failwith ("bad oracle entry " ^ e)) entries;
  ((fun (s : coq_N list) -> Hashtbl.find_opt t64 (hex_of_bytes s)),
   (fun (s : coq_N list) -> Hashtbl.find_opt t32 (hex_of_bytes s)))

let split_at_sep (toks : string list) : string list * string list =
  let rec go acc l =
    match l with
    | [] -> (Stdlib.List.rev acc, [])
    | ";;" :: r -> (Stdlib.List.rev acc, r)
    | x :: r -> go (x :: acc) r in
  go [] toks

let run (kind : string) (toks : string list) : string option =
  match kind with
  | "XEXTRACTM" ->
    (* an optional first token X=<hex of the XML bytes>: the depth check of E57Reader::new
       (Model/XmlDepth.v) is applied to them before the tree is looked at *)
    let (xml, toks) = match toks with
      | t :: r when Stdlib.String.length t >= 2 && Stdlib.String.sub t 0 2 = "X=" -> (Some (bytes_of_hex (Stdlib.String.sub t 2 (Stdlib.String.length t - 2))), r)
      | _ -> (None, toks) in
    let (orc, tree) = split_at_sep toks in
    let deep = match xml with Some b -> not (XmlDepth.xml_depth_ok b) | None -> false in
    (match tree with
     | ["err-utf8"] -> Some "E:Read"
     | _ when deep -> Some "E:Invalid"
     | ["too-deep"] -> Some "model-accepts-depth"
     | ["err-parse"] -> Some "E:Invalid"
     | ["P"] -> Some "PANIC"
     | _ ->
       let (p64, p32) = parsers_of_table orc in
       let doc = Drv_xmltree.parse_dump tree in
       Some (show_res (XmlExtract.extract_all_impl p64 p32 doc)))
  | "RNEWM" ->
    (* RNEWM <oracle entries...> ;; <file bytes: hex or @base^patches>: Model/ReaderFull.reader_new_impl *)
    let (orc, file) = split_at_sep toks in
    (match file with
     | [tok] ->
       let (p64, p32) = parsers_of_table orc in
       let d0 = Device.dev_init (resolve_dev tok) None in
       (match ReaderFull.reader_new_impl p64 p32 d0 with
        | (_, Prelude.Ok (_, m)) -> Some ("OK " ^ dump_meta m)
        | (_, Prelude.Err k) ->
          (* documents outside the parser model are answered Err Invalid by the model: tell them apart *)
          let unsupported =
            (match ReaderOpen.reader_open d0 with
             | (_, Prelude.Ok (_, xml)) -> (match XmlParse.xml_read xml with XmlParse.XmlUnsupported -> true | _ -> false)
             | _ -> false) in
          Some (if unsupported then "UNSUPPORTED" else "E:" ^ err_name k)
        | (_, Prelude.Panic) -> Some "PANIC")
     | _ -> failwith "bad RNEWM case")
  | "XEWIT" ->
    (* the tree of a witness document of Proofs/XeRefute.v / XeExtRecords.v, in the dump format *)
    let d = match toks with
      | ["w_base"] -> XeRefute.d_base | ["w_same_name"] -> XeRefute.d_same_name
      | ["w_before_text"] -> XeRefute.d_before_text | ["w_comment_before_text"] -> XeRefute.d_comment_before_text
      | ["w_bad_number"] -> XeRefute.d_bad_number | ["w_bad_number_hidden"] -> XeRefute.d_bad_number_hidden
      | ["w_data3d"] -> XeRefute.d_data3d | ["w_data3d_captured"] -> XeRefute.d_data3d_captured
      | ["w_limits"] -> XeRefute.d_limits | ["w_limits_captured"] -> XeRefute.d_limits_captured
      | ["w_base_reg"] -> XeRefute.d_base_reg | ["w_inert"] -> XeRefute.d_inert
      | ["w_proto_std"] -> XeExtRecords.d_proto_std | ["w_proto_ext"] -> XeExtRecords.d_proto_ext
      | ["w_proto_ext_std_name"] -> XeExtRecords.d_proto_ext_std_name
      | _ -> failwith "unknown witness" in
    Some (Drv_xmltree.dump_doc d)
  | _ -> None
