"""XMLP - differential check of the XML parser model (coq/theories/Model/XmlParse.v, extracted, case
kind XMLPARSE) against roxmltree as the crate links it (harness case kind XMLTREE).  Not a registered
property: the library the C03/C04/C18 checks call, and runnable by hand:
    NO_MAKE=1 VERIF_CACHE=/verif/.cache-xmlp python3 tools/props/xmlp.py [--tier quick|thorough] [--seed N]
    ./tools/check X99 [--tier ...]      (tools/props/x99.py forwards to run below)
"""
import os, sys, time, glob, resource

if __name__ == "__main__":
    sys.path.insert(0, os.path.dirname(os.path.dirname(os.path.abspath(__file__))))
from vlib import core, xmlgen


def _raise_stack():
    # the extracted scanners recurse per byte; give the driver the stack the hard limit allows
    try:
        soft, hard = resource.getrlimit(resource.RLIMIT_STACK)
        resource.setrlimit(resource.RLIMIT_STACK, (hard, hard))
    except Exception:
        pass


def classify(out):
    if out.startswith("D "):
        return "tree"
    return out.split(" ")[0] if out else "empty"


def compare(docs, impl=None):
    """docs: list of bytes.  Returns (impl outputs, model outputs)."""
    _raise_stack()
    impl = impl or core.ensure_harness("release")
    hexes = [d.hex() for d in docs]
    o_impl = core.run_cases(impl, ["XMLTREE " + h for h in hexes])
    o_model = core.run_cases(core.DRIVER, ["XMLPARSE " + h for h in hexes])
    return o_impl, o_model


def bundled_xml(impl=None):
    """XML sections of the bundled files under /repo/testdata (name, bytes)."""
    impl = impl or core.ensure_harness("release")
    files = sorted(glob.glob(os.path.join(core.REPO, "testdata", "*.e57")) +
                   glob.glob(os.path.join(core.REPO, "testdata", "**", "*.e57"), recursive=True))
    files = sorted(set(files))
    outs = core.run_cases(impl, ["XMLOF " + f for f in files], shards=1)
    res = []
    for f, o in zip(files, outs):
        if o.startswith("xml "):
            res.append((os.path.basename(f), bytes.fromhex(o[4:])))
    return res


def gen_docs(rng, n, stats):
    """n documents, tagged with the stream they come from"""
    docs = []
    def add(kind, d):
        docs.append((kind, d))
        stats[kind] = stats.get(kind, 0) + 1
    for d in xmlgen.hand_docs():
        add("hand", d)
    smalls = [d for d in xmlgen.hand_docs() if 8 <= len(d) <= 80]
    # truncations at every byte of small valid documents
    seeds = [b"<?xml version=\"1.0\" encoding=\"UTF-8\"?>\n<e57Root type=\"Structure\" xmlns:p=\"u&amp;\" xmlns=\"d\">\n<guid type=\"String\"><![CDATA[a]]]]><![CDATA[>b]]></guid>\n<p:x a='1'/>&#x41;<!--c--><?pi v?>\n</e57Root>\n",
             "﻿<?xml version='1.0'?><!-- c --><a xmlns='u'><b xml:lang=\"é\">t&lt;\r\n</b><![CDATA[€]]></a> <?p?>".encode()]
    for s in seeds:
        for t in xmlgen.truncations(s):
            add("truncation", t)
    if n >= 100000:
        # the namespace-count limit (roxmltree: 65535 distinct declarations; the model: 65535 declarations)
        for k in (65535, 65536):
            add("ns-limit", ("<r>" + "".join('<a xmlns:p="u"/>' for _ in range(k)) + "</r>").encode())
            add("ns-limit", ("<r>" + "".join('<a xmlns:p%d="u"/>' % i for i in range(k)) + "</r>").encode())
    while len(docs) < n:
        c = rng.below(100)
        if c < 22:
            add("writer", xmlgen.writer_doc(rng))
        elif c < 50:
            add("variant", xmlgen.variant_doc(rng, sloppy=False))
        elif c < 62:
            add("variant-sloppy", xmlgen.variant_doc(rng, sloppy=True))
        elif c < 80:
            add("soup", xmlgen.soup_doc(rng))
        elif c < 93:
            base = rng.choice(smalls) if rng.chance(1, 2) else (xmlgen.variant_doc(rng) if rng.chance(2, 3) else xmlgen.writer_doc(rng))
            d = xmlgen.mutate(rng, base)
            if rng.chance(1, 4):
                d = xmlgen.mutate(rng, d)
            add("mutation", d)
        elif c < 97:
            base = rng.choice(smalls) if rng.chance(1, 2) else xmlgen.variant_doc(rng)
            add("bad-utf8", xmlgen.bad_utf8(rng, base))
        elif c < 98:
            base = xmlgen.variant_doc(rng)
            if len(base) <= 100 and rng.chance(1, 4):
                for t in xmlgen.truncations(base):
                    add("truncation", t)
            else:
                add("truncation", base[:rng.below(len(base))])
        else:
            base = xmlgen.writer_doc(rng)
            add("truncation", base[:rng.below(len(base))])
    return docs


def differential(rng, n, tier="quick", batch=25000, impl=None):
    """Generates n documents and compares model and implementation.
    Returns (cases, mismatches, unsupported_count, stats); mismatches = list of dicts."""
    stats = {}
    impl = impl or core.ensure_harness("release")
    t0 = time.time()
    docs = gen_docs(rng, n, stats)
    t_gen = time.time() - t0
    mismatches, unsupported, classes, sizes = [], 0, {}, [0, 0]
    t_impl = t_model = 0.0
    for lo in range(0, len(docs), batch):
        part = docs[lo:lo + batch]
        _raise_stack()
        hexes = [d.hex() for _, d in part]
        t1 = time.time()
        o_impl = core.run_cases(impl, ["XMLTREE " + h for h in hexes])
        t2 = time.time()
        o_model = core.run_cases(core.DRIVER, ["XMLPARSE " + h for h in hexes])
        t3 = time.time()
        t_impl += t2 - t1
        t_model += t3 - t2
        for (kind, d), a, b in zip(part, o_impl, o_model):
            sizes[0] += len(d); sizes[1] = max(sizes[1], len(d))
            k = (kind, classify(a))
            classes[k] = classes.get(k, 0) + 1
            if b == "unsupported":
                unsupported += 1
                continue
            if a != b:
                mismatches.append(dict(kind=kind, doc=d.hex(), impl=a[:2000], model=b[:2000]))
    stats = dict(streams=stats, results={"%s/%s" % k: v for k, v in sorted(classes.items())},
                 total_bytes=sizes[0], max_doc_bytes=sizes[1], gen_s=round(t_gen, 2),
                 impl_s=round(t_impl, 2), model_s=round(t_model, 2),
                 model_docs_per_s=round(len(docs) / max(t_model, 1e-9)), model_bytes_per_s=round(sizes[0] / max(t_model, 1e-9)),
                 jobs=core.NPROC)
    return len(docs), mismatches, unsupported, stats


def render_check(rng, n, impl=None):
    """Spec side: documents whose tree is well formed (wf_doc) are rendered by the extracted
    Spec/XmlRender.render under writer_choices (seed 0) and random choices; the rendering must be read
    back as the same tree by the model (XMLRT, an instance of theorem parse_render) and by roxmltree
    (XMLRENDER + XMLTREE, the direct specification/implementation leg).
    Returns (rendered, failures list, not_wf count, stats)."""
    impl = impl or core.ensure_harness("release")
    _raise_stack()
    docs = []
    while len(docs) < n:
        c = rng.below(10)
        docs.append(xmlgen.writer_doc(rng) if c < 3 else xmlgen.variant_doc(rng, sloppy=False))
    seeds = [0 if i % 3 == 0 else 1 + rng.below(1 << 30) for i in range(len(docs))]
    o_rt = core.run_cases(core.DRIVER, ["XMLRT %s %d" % (d.hex(), s) for d, s in zip(docs, seeds)])
    o_rd = core.run_cases(core.DRIVER, ["XMLRENDER %s %d" % (d.hex(), s) for d, s in zip(docs, seeds)])
    fails, not_wf, rendered = [], 0, 0
    idx = [i for i, o in enumerate(o_rd) if o.startswith("r ")]
    t_orig = core.run_cases(impl, ["XMLTREE " + docs[i].hex() for i in idx])
    t_rend = core.run_cases(impl, ["XMLTREE " + o_rd[i][2:] for i in idx])
    for i, o in enumerate(o_rt):
        if o in ("not-wf", "no-parse"):
            not_wf += 1
        elif o != "rt-ok":
            fails.append(dict(kind="model-roundtrip", doc=docs[i].hex(), seed=seeds[i], out=o[:1500]))
    for k, i in enumerate(idx):
        rendered += 1
        if t_orig[k] != t_rend[k]:
            fails.append(dict(kind="roxmltree-on-rendering", doc=docs[i].hex(), seed=seeds[i], rendering=o_rd[i][2:1500],
                              tree=t_orig[k][:800], tree_of_rendering=t_rend[k][:800]))
    return rendered, fails, not_wf, dict(documents=len(docs), rendered=rendered, not_wf_or_error=not_wf, writer_choice_runs=sum(1 for s in seeds if s == 0))


def prefix_check(rng, n_small, n_large, impl=None):
    """C15 support: every proper prefix of a writer-style document (all prefixes of small documents, sampled
    prefixes of large ones).  A prefix at least 2 bytes short (the rendering ends with "</e57Root>\\n") must be
    rejected by model and roxmltree alike (err-parse, or err-utf8 when the cut falls inside a character); the
    prefix 1 byte short (only the final LF missing) is a complete document and must give the full tree
    (instances of Proofs/XmlpPrefix.v: writer_prefix_fails).  Returns (cases, failures, stats)."""
    impl = impl or core.ensure_harness("release")
    docs, cases = [], []
    while len(docs) < n_small:
        d = xmlgen.writer_doc(rng)
        a, b = compare([d], impl)
        if a[0].startswith("D ") and len(d) <= 1500:
            docs.append((d, a[0]))
            cases += [(d, a[0], k) for k in range(len(d))]
    big = 0
    while big < n_large:
        d = xmlgen.writer_doc(rng)
        a, b = compare([d], impl)
        if a[0].startswith("D "):
            big += 1
            ks = set([len(d) - 1, len(d) - 2, len(d) - 3, 0, 1] + [rng.below(len(d)) for _ in range(60)])
            cases += [(d, a[0], k) for k in sorted(ks)]
    o_impl, o_model = compare([d[:k] for d, _, k in cases], impl)
    fails, kinds = [], {}
    for (d, full, k), a, b in zip(cases, o_impl, o_model):
        short = len(d) - k
        if short >= 2:
            ok = a == b and a in ("err-parse", "err-utf8")
            kinds[a if ok else "BAD"] = kinds.get(a if ok else "BAD", 0) + 1
        else:
            ok = a == b == full
            kinds["one-byte-short:tree" if ok else "BAD"] = kinds.get("one-byte-short:tree" if ok else "BAD", 0) + 1
        if not ok:
            fails.append(dict(kind="prefix", doc=d.hex(), cut=k, impl=a[:300], model=b[:300]))
    return len(cases), fails, dict(documents=len(docs) + big, prefixes=len(cases), outcomes=kinds)


def shrink(doc_hex, impl=None):
    """greedy byte-deletion shrinking of a disagreeing document"""
    d = bytes.fromhex(doc_hex)
    def bad(x):
        a, b = compare([x], impl)
        return a[0] != b[0] and b[0] != "unsupported"
    if not bad(d):
        return d
    changed = True
    while changed and len(d) > 1:
        changed = False
        for size in (max(1, len(d) // 2), max(1, len(d) // 4), 4, 1):
            i = 0
            while i < len(d):
                cand = d[:i] + d[i + size:]
                if cand != d and bad(cand):
                    d = cand; changed = True
                else:
                    i += size
    return d


def run(rep, tier, rng, replay=None):
    rep.level = "differential"
    rep.cov["trusted_base"] = core.TRUSTED_COMMON + [
        "harness case kind XMLTREE prints roxmltree::Document::parse of the bytes (after std::str::from_utf8) through the public Node API"]
    rep.cov["rule"] = ("for every generated document the extracted XmlParse.xml_read prints the same tree dump / err-utf8 / err-parse "
                       "as roxmltree 0.20 in the harness; documents the model calls unsupported are counted, not compared")
    if os.environ.get("XMLP_NO_BUILD") and os.path.exists(core.DRIVER):
        ok, log = True, ""      # development: the driver was built privately
    else:
        ok, log = core.ensure_model()
    if not ok:
        rep.violation("proof-build-failed", "model build failed: " + log[-400:], dict(kind="build", log=log[-2000:]), no_input=True)
        return
    impl = core.ensure_harness("release")
    if replay:
        a, b = compare([bytes.fromhex(replay["doc"])], impl)
        rep.count(1)
        if a[0] != b[0] and b[0] != "unsupported":
            rep.violation("correspondence-xmlp", "replayed document still disagrees: impl=%s model=%s" % (a[0][:200], b[0][:200]),
                          dict(kind="xml", doc=replay["doc"]), no_input=True)
        return
    n = 12000 if tier == "quick" else 220000
    cases, mism, unsup, stats = differential(rng, n, tier, impl=impl)
    rep.count(cases)
    # bundled files
    bx = bundled_xml(impl)
    a, b = compare([x for _, x in bx], impl)
    nb = 0
    for (name, x), ia, ib in zip(bx, a, b):
        rep.count(1)
        if ib == "unsupported":
            unsup += 1
        elif ia != ib:
            mism.append(dict(kind="bundled:" + name, doc=x.hex(), impl=ia[:2000], model=ib[:2000]))
        else:
            nb += 1
    stats["bundled_files_agreeing"] = nb
    stats["bundled_files"] = len(bx)
    stats["bundled_max_xml_bytes"] = max([len(x) for _, x in bx] or [0])
    stats["unsupported"] = unsup
    stats["mismatches"] = len(mism)
    rendered, rfails, not_wf, rstats = render_check(rng, 3000 if tier == "quick" else 40000, impl)
    rep.count(rendered)
    stats["render_check"] = rstats
    for f in rfails[:3]:
        rep.violation("render-roundtrip-xmlp", "rendering of a well-formed tree is not read back as that tree (%s): %s" % (f["kind"], str(f)[:500]),
                      dict(f, kind="xml-render"), no_input=True)
    stats["render_failures"] = len(rfails)
    pcases, pfails, pstats = prefix_check(rng, 6 if tier == "quick" else 60, 20 if tier == "quick" else 400, impl)
    rep.count(pcases)
    stats["prefix_check"] = pstats
    for f in pfails[:3]:
        rep.violation("prefix-xmlp", "a proper prefix of a writer-style document is not rejected alike by model and roxmltree: %s" % str(f)[:500],
                      dict(f, kind="xml-prefix"), no_input=True)
    print("XMLP prefix check: %s, %d failures" % (pstats, len(pfails)))
    rep.cov["xmlp"] = stats
    rep.cov["distinct_nontrivial"] = cases
    for m in mism[:3]:
        small = shrink(m["doc"], impl)
        sa, sb = compare([small], impl)
        rep.violation("correspondence-xmlp",
                      "XML parser model and roxmltree disagree (%s): doc=%r impl=%s model=%s" % (m["kind"], small[:300], sa[0][:300], sb[0][:300]),
                      dict(kind="xml", doc=small.hex(), original=m["doc"][:4000]), no_input=True)
    print("XMLP render check: %s, %d failures" % (rstats, len(rfails)))
    print("XMLP: %d documents, %d mismatches, %d unsupported; model %d docs/s (%d bytes/s, %d processes); streams %s" % (
        cases + len(bx), len(mism), unsup, stats["model_docs_per_s"], stats["model_bytes_per_s"], stats["jobs"], stats["streams"]))


if __name__ == "__main__":
    import argparse
    ap = argparse.ArgumentParser()
    ap.add_argument("--tier", default="quick")
    ap.add_argument("--seed", type=int, default=int(os.environ.get("VERIF_SEED", "1")))
    ap.add_argument("--replay")
    args = ap.parse_args()
    os.chdir(core.VERIF)
    import json
    rep = core.Report("XMLP", args.tier, args.seed)
    run(rep, args.tier, core.Rng(args.seed * 1000003 + 9901), json.load(open(args.replay)) if args.replay else None)
    sys.exit(rep.finish())
