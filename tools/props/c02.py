"""C02 - every finalized file is well-formed by an independent decoder.

Direct leg (needs no implementation-shaped model): files written by the REAL writer (the
programs of C01/C06: blobs, images, point clouds interleaved, preceding content swept over
residues modulo 1020) are judged by the EXTRACTED independent decoder (FileSpec.spec_wellformed /
spec_decode_file); the decoded points and blob bytes must equal what was handed to the writer.
The specification itself is tested on every run: the bundled files written by libE57Format must
be accepted (and the one with a damaged checksum rejected by the checksum clause).
Correspondence leg: the writer model produces the same file byte for byte."""
import glob, os, re, struct
from vlib import core, gen, specgen, crc
from props import c01, c06

I64_MIN, I64_MAX = gen.I64_MIN, gen.I64_MAX


def descriptors(items, outs):
    """descriptor tokens of SPECDEC from the writer's results; None if the program did not succeed"""
    flat = c01.flat_items(items)
    toks = [o for o in outs if o[0] in "bp" and ":" in o]
    if any(o.startswith("e") or o in ("P", "dropP") for o in outs) or len(toks) != len(flat):
        return None
    descs = []
    for it, o in zip(flat, toks):
        if it[0] == "B":
            if o[0] != "b":
                return None
            descs.append(o)
        else:
            if o[0] != "p" or "?" in o:
                return None
            descs.append("%s:%s" % (o, ",".join(specgen.bare_type(t) for _, t in it[1])))
    return descs


def check_written(rep, progs):
    impl = core.ensure_harness("debug")
    lines = ["- " + " ".join(c01.item_tok(i) for i in items) for items in progs]
    mlines = ["- " + " ".join(c01.item_tok(i, model=True) for i in items) for items in progs]
    o_impl = core.run_cases(impl, ["FW %s DUMP" % l for l in lines])
    rep.count(len(lines))
    dec_lines, meta, xmls = [], [], []
    n_dir = n_corr = skipped = 0
    for i, items in enumerate(progs):
        o = o_impl[i]
        dev = o.split(" dev=")[1].strip() if " dev=" in o else ""
        outs, summary, rbs, xml = c01.parse_fw(o.split(" dev=")[0])
        xmls.append(xml)
        descs = descriptors(items, outs)
        if descs is None or not dev:
            skipped += 1        # the writer did not return Ok for every call: nothing is claimed about the file
            continue
        dec_lines.append("SPECDEC %s %s" % (dev, " ".join(descs)))
        meta.append((i, dev, descs, xml))
    dec = core.run_cases(core.DRIVER, dec_lines)
    rep.count(len(dec_lines))
    for (i, dev, descs, xml), d in zip(meta, dec):
        items = progs[i]
        parts = d.split(" # ")
        head = dict(t.split("=", 1) for t in parts[0].split() if "=" in t)
        bad = cls = None
        if head.get("wf") != "1":
            clause = ("container (pages, checksums, header, XML range)" if head.get("container") == "0" else
                      "section %d (%s)" % (head.get("descs", "").find("0"), descs[max(0, head.get("descs", "").find("0"))].split(":")[0]) if "0" in head.get("descs", "") else
                      "sections overlap" if head.get("disjoint") == "0" else d[:80])
            bad, cls = "the independent decoder rejects a finalized file: %s" % clause, "c02-illformed"
        elif head.get("xml") != gen.fnv_hex(bytes.fromhex(xml)):
            bad, cls = "the XML range of the header does not hold the XML text the reader returns", "c02-xml"
        elif len(parts) - 1 != len(descs):
            bad, cls = "the independent decoder cannot decode a section of a finalized file (%s)" % d[:120], "c02-undecodable"
        else:
            for k, it in enumerate(c01.flat_items(items)):
                if parts[k + 1] != c01.expected_readback(it):
                    bad, cls = "item %d decodes as [%s], written [%s]" % (k, parts[k + 1][:160], c01.expected_readback(it)[:160]), "c02-content"
                    break
        if bad:
            n_dir += 1
            rep.violation(cls, bad, dict(kind="written-file", items=[c01.item_tok(x) for x in items], file=dev, descriptors=descs))
    # correspondence: the writer model produces the same bytes and publishes the same offsets
    o_model = core.run_cases(core.DRIVER, ["FW %s X:%s" % (l, x) for l, x in zip(mlines, xmls)])
    for i, items in enumerate(progs):
        a = c01.parse_fw(o_impl[i].split(" dev=")[0])
        m = c01.parse_fw(o_model[i])
        key = lambda p: (p[0], [t for t in p[1].split() if t.startswith("len=") or t.startswith("h=")])
        if key(a) != key(m):
            n_corr += 1
            rep.violation("correspondence-c02", "writer model and implementation differ (results or file bytes): impl=%s | model=%s" %
                          (c01.strip_xml(o_impl[i].split(" dev=")[0])[:200], o_model[i][:200]),
                          dict(kind="writer-program", items=[c01.item_tok(x) for x in items],
                               failing="correspondence writer model vs implementation"), no_input=True)
    return o_impl, n_dir, n_corr, skipped, len(dec_lines)


# ---------------------------------------------------------------- the bundled foreign files

def foreign_descriptors(xml):
    descs = []
    for m in re.finditer(r'<points\s+type="CompressedVector"\s+fileOffset="(\d+)"\s+recordCount="(\d+)"\s*>(.*?)</points>', xml, re.S):
        proto = re.search(r'<prototype[^>]*>(.*?)</prototype>', m.group(3), re.S)
        types = []
        for e in re.finditer(r'<([\w:]+)\s+([^<>]*?)/?>', proto.group(1) if proto else ""):
            at = dict(re.findall(r'(\w+)="([^"]*)"', e.group(2)))
            if at.get("type") == "Float":
                types.append("F" if at.get("precision") == "single" else "D")
            elif at.get("type") in ("Integer", "ScaledInteger"):
                types.append("%s/%d/%d" % ("I" if at["type"] == "Integer" else "S", int(at.get("minimum", I64_MIN)), int(at.get("maximum", I64_MAX))))
        descs.append("p%s:%s:%s" % (m.group(1), m.group(2), ",".join(types)))
    for m in re.finditer(r'type="Blob"\s+fileOffset="(\d+)"\s+length="(\d+)"', xml):
        descs.append("b%s:%s" % (m.group(1), m.group(2)))
    return descs


def check_foreign(rep, tier):
    impl = core.ensure_harness("release")
    limit = 400 * 1024 if tier == "quick" else 1 << 30
    names, lines, rd, decode_pts = [], [], [], []
    for path in sorted(glob.glob(os.path.join(core.REPO, "testdata", "*.e57"))):
        f = open(path, "rb").read()
        if len(f) > limit or len(f) % 1024 or len(f) < 1024:
            continue
        log = crc.strip(f)
        xo, xl = struct.unpack("<QQ", log[24:40])
        xml = log[specgen.log_of_phys(xo):specgen.log_of_phys(xo) + xl].decode("utf-8", "replace")
        descs = foreign_descriptors(xml)
        full = len(f) <= 64 * 1024
        names.append(os.path.basename(path))
        decode_pts.append(full)
        lines.append("SPECDEC %s %s%s" % (f.hex(), "" if full else "STRUCT ", " ".join(descs)))
        rd.append("RD - " + f.hex())
    out = core.run_cases(core.DRIVER, lines)
    real = core.run_cases(impl, rd)
    rep.count(len(lines))
    accepted = 0
    for nm, o, r, full, line in zip(names, out, real, decode_pts, lines):
        head = dict(t.split("=", 1) for t in o.split(" # ")[0].split() if "=" in t)
        if nm == "corrupt_crc.e57":
            if head.get("container") != "0":
                rep.violation("c02-spec-too-lax", "the specification accepts the bundled file with a damaged page checksum", dict(kind="foreign-file", file=nm), no_input=True)
            continue
        if head.get("wf") != "1":
            rep.violation("c02-spec-too-strict", "the specification rejects the bundled libE57Format file %s: %s" % (nm, o[:160]),
                          dict(kind="foreign-file", file=nm, result=o[:400]), no_input=True)
            continue
        accepted += 1
        if full:
            # the independent decoder and the real reader agree on the points of the foreign file
            spec_pcs = [p for p in o.split(" # ")[1:] if p.startswith("pc ")]
            real_pcs = ["pc " + p for k, p in enumerate(r.split(" # ")[1:]) if k % 2 == 1]
            if spec_pcs != real_pcs:
                rep.violation("c02-foreign-decode", "independent decoder and reader disagree on the points of %s: spec=%s reader=%s" % (nm, spec_pcs[:1], real_pcs[:1]),
                              dict(kind="foreign-file", file=nm), no_input=True)
    return len(names), accepted


def run(rep, tier, rng, replay=None):
    ok = core.proof_step(rep, "C02", thorough=(tier == "thorough"))
    rep.cov["trusted_base"] = core.TRUSTED_COMMON + [
        "Spec/FileSpec.v + Spec/FormatSpec.v + Spec/BitSpec.v + Spec/PageSpec.v: my reading of ASTM E2807, tested on every run against the bundled libE57Format files (accepted) and the damaged one (rejected)",
        "binary side only: the section descriptors are taken from the writer's results / the reader's read-back instead of being extracted from the XML by the specification (XML side: C04)",
        "the XML text is taken from the implementation's file and given to the writer model as an input (correspondence leg)"]
    if not ok:
        return
    specgen.big_stack()
    if replay and replay.get("kind") in ("written-file", "writer-program"):
        progs = [[("B", bytes.fromhex(t[2:])) if t.startswith("B:") else
                  ("I", t.split(":")[1], bytes.fromhex(t.split(":")[2]), None if t.split(":")[3] == "-" else bytes.fromhex(t.split(":")[3])) if t.startswith("I:") else
                  ("P", [tuple(x.split("=", 1)) for x in t.split(":")[1].split(",")],
                   [p.split(",") for p in t.split(":")[2].split(";")] if len(t.split(":")) > 2 and t.split(":")[2] else [])
                  for t in replay["items"]]]
    else:
        progs = c01.gen_programs(rng.fork(), tier) + c06.gen_programs(rng.fork(), tier)
        if tier == "quick":
            # the capacity-boundary programs of C01 are long; one of them is enough here
            big = [p for p in progs if any(i[0] == "P" and len(i[2]) > 1000 for i in p)]
            progs = [p for p in progs if p not in big[1:]]
    o_impl, n_dir, n_corr, skipped, judged = check_written(rep, progs)
    residues = set()
    for i, items in enumerate(progs):
        for o in c01.parse_fw(o_impl[i].split(" dev=")[0])[0]:
            if o[0] in "bp" and ":" in o and "?" not in o:
                residues.add(specgen.log_of_phys(int(o[1:].split(":")[0])) % 1020)
        rep.distinct(gen.fnv_hex(" ".join(c01.item_tok(x) for x in items).encode()))
    n_foreign, n_acc = (0, 0) if replay else check_foreign(rep, tier)
    rep.cov.update(programs=len(progs), files_judged=judged, programs_not_ok_skipped=skipped, section_start_residues_mod_1020=len(residues),
                   foreign_files=n_foreign, foreign_files_accepted=n_acc, direct_failures=n_dir, correspondence_failures=n_corr,
                   traces_validated_against_impl=len(progs))
    rep.sample(dict(kind="written file", items=[c01.item_tok(x)[:100] for x in progs[len(progs) // 2]]))
    rep.cov["rule"] = ("writer programs of C01 and C06 (blobs, images of all four kinds with and without mask, point clouds over the type/width grid, interleaved; preceding content swept "
                       "over residues modulo 1020; packet-capacity boundary) run through the real writer; the finalized file is judged by the extracted spec_wellformed (pages, checksums, "
                       "header, XML range, every section: alignment, position outside checksums, section id, header lengths, packet lengths and stream lengths, data/index offsets, no overlap) "
                       "and decoded by the extracted spec_decode_file; points and blob bytes must equal the input. The bundled libE57Format files must be accepted and decode to what the "
                       "reader returns. Correspondence: writer model file = real file byte for byte. distinct = distinct programs")
