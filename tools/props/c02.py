"""C02 - every finalized file is well-formed by an independent decoder.

Direct leg (needs no implementation-shaped model): files written by the REAL writer (the
programs of C01/C06: blobs, images, point clouds interleaved, preceding content swept over
residues modulo 1020) are judged by the EXTRACTED independent decoder (FileSpec.spec_wellformed /
spec_decode_file); the decoded points and blob bytes must equal what was handed to the writer.
The specification itself is tested on every run: the bundled files written by libE57Format must
be accepted (and the one with a damaged checksum rejected by the checksum clause).
Correspondence leg: the writer model produces the same file byte for byte."""
import glob, os, re, struct
from vlib import core, gen, specgen, crc
from props import c01, c06

I64_MIN, I64_MAX = gen.I64_MIN, gen.I64_MAX


def descriptors(items, outs):
    """(descriptor tokens of SPECDEC, the items that were written) from the writer's results.  A call that
    returned an error contributes nothing (the writer lives on, the file must still be well formed);
    None if the writer could not be created, a call panicked or finalize failed."""
    if not outs or outs[0] != "o" or outs[-1] != "o" or "P" in outs or "dropP" in outs:
        return None
    toks = outs[1:-1]
    descs, kept, k = [], [], 0
    descriptors.in_xml = []          # the XML refers to point clouds and image blobs, not to blobs added with add_blob
    for it in items:
        if k >= len(toks):
            return None
        if toks[k].startswith("e"):
            k += 1
            continue
        parts = [("B", it[2])] + ([("B", it[3])] if it[3] is not None else []) if it[0] == "I" else [it]
        for part in parts:
            if k >= len(toks):
                return None
            o = toks[k]
            k += 1
            if part[0] == "B":
                if o[0] != "b":
                    return None
                descs.append(o)
            else:
                if o[0] != "p" or "?" in o:
                    return None
                descs.append("%s:%s" % (o, ",".join(specgen.bare_type(t) for _, t in part[1])))
            kept.append(part)
            descriptors.in_xml.append(it[0] != "B")
    return (descs, kept) if k == len(toks) else None


def gen_partly_failing(rng, tier):
    """call sequences in which one call fails (the hypothesis of the property is only that finalize
    returned Ok): out-of-range, mistyped or missing values, prototypes the writer rejects"""
    progs = []
    for _ in range(40 if tier == "quick" else 1500):
        proto = gen.rand_proto(rng, small=True)
        pts = gen.rand_points(rng, proto, rng.choice([1, 2, 5, 30]))
        c = rng.below(5)
        j, a = rng.below(len(pts)), rng.below(len(proto))
        if c == 0:
            ints = [i for i, (_, t) in enumerate(proto) if t[0] in "IS"]
            if ints:
                a = rng.choice(ints)
                mx = int(proto[a][1].split("/")[2])
                if mx < gen.I64_MAX:
                    pts[j][a] = ("i%d" if proto[a][1][0] == "I" else "s%d") % (mx + 1)       # out of range
                else:
                    pts[j][a] = "f00000000"
            else:
                pts[j][a] = "i0"
        elif c == 1:
            pts[j][a] = "i0" if proto[a][1] in ("F", "D") else "d0000000000000000"            # mistyped
        elif c == 2:
            pts[j] = pts[j][:-1]                                                            # a value is missing
        elif c == 3:
            proto = [(n, "I/5/5") for n, _ in proto]                                         # nothing to store: rejected
            pts = []
        else:
            proto = [("x", "F"), ("y", "F")]                                                 # incomplete coordinates: rejected
            pts = []
        bad = ("P", proto, pts) if c != 4 else ("P", proto, pts, "rejected by the API's name rules, which the binary model does not have")
        good1 = ("B", rng.bytes(rng.range(0, 1200)))
        p2 = gen.rand_proto(rng, small=True)
        good2 = ("P", p2, gen.rand_points(rng, p2, rng.range(0, 9)))
        items = [good1, bad, good2]
        if rng.chance(1, 2):
            items = [bad, good2, good1]
        progs.append(items)
    return progs


def check_written(rep, progs):
    impl = core.ensure_harness("debug")
    lines = ["- " + " ".join(c01.item_tok(i) for i in items) for items in progs]
    mlines = ["- " + " ".join(c01.item_tok(i, model=True) for i in items) for items in progs]
    o_impl = core.run_cases(impl, ["FW %s DUMP" % l for l in lines])
    rep.count(len(lines))
    dec_lines, meta, xmls = [], [], []
    n_dir = n_corr = skipped = partly = 0
    failed = set()
    for i, items in enumerate(progs):
        o = o_impl[i]
        dev = o.split(" dev=")[1].strip() if " dev=" in o else ""
        outs, summary, rbs, xml = c01.parse_fw(o.split(" dev=")[0])
        xmls.append(xml)
        dk = descriptors(items, outs)
        if dk is None or not dev:
            skipped += 1        # the writer could not be created or finalize did not return Ok: nothing is claimed about the file
            continue
        descs, kept = dk
        stated = [d for d, x in zip(descs, descriptors.in_xml) if x]
        if any(o.startswith("e") for o in outs):
            partly += 1
        dec_lines.append("SPECDEC %s %s" % (dev, " ".join(descs)))
        meta.append((i, dev, descs, xml, kept, stated))
    dec = core.run_cases(core.DRIVER, dec_lines)
    rep.count(len(dec_lines))
    # the XML plugged in: the extracted xml_parse + extract_all must find, in the file's own XML, exactly the
    # sections the writer published, and the file must be well formed with those (FileSpecXml.spec_wellformed_xml)
    decx = core.run_cases(core.DRIVER, ["SPECDECX " + m[1] for m in meta])
    rep.count(len(meta))
    for (i, dev, descs, xml, kept, stated), d in zip(meta, decx):
        head = dict(t.split("=", 1) for t in d.split() if "=" in t)
        got = sorted(x for x in head.get("dx", "none").split(";") if x) if head.get("dx") != "none" else None
        bad = None
        if got is None:
            bad, cls = "the XML of a finalized file does not parse or does not extract under the independent XML specification (%s)" % d[:80], "c02-xml-unparsable"
        elif got != sorted(stated):
            bad, cls = "the XML of a finalized file states sections %s, the writer published (point clouds and image blobs) %s" % (got[:4], sorted(stated)[:4]), "c02-xml-descriptors"
        elif head.get("proto") != "1" or proto_values_python(bytes.fromhex(xml).decode("utf-8", "replace")):
            bad, cls = ("a prototype element's value lies outside the element's own limits (extracted validator: proto=%s; independent text check: %s)" %
                        (head.get("proto"), proto_values_python(bytes.fromhex(xml).decode("utf-8", "replace"))[:1])), "c02-prototype-value-out-of-bounds"
        elif head.get("wfx") != "1":
            bad, cls = "the file is not well formed with the descriptors its own XML states (%s)" % d[:80], "c02-illformed-xml"
        if bad:
            n_dir += 1
            failed.add(i)
            rep.violation(cls, bad, dict(kind="written-file", items=[c01.item_tok(x) for x in progs[i]], file=dev, descriptors=descs))
    for (i, dev, descs, xml, kept, stated), d in zip(meta, dec):
        items = progs[i]
        parts = d.split(" # ")
        head = dict(t.split("=", 1) for t in parts[0].split() if "=" in t)
        bad = cls = None
        if head.get("wf") != "1":
            clause = ("container (pages, checksums, header, XML range)" if head.get("container") == "0" else
                      "section %d (%s)" % (head.get("descs", "").find("0"), descs[max(0, head.get("descs", "").find("0"))].split(":")[0]) if "0" in head.get("descs", "") else
                      "sections overlap" if head.get("disjoint") == "0" else d[:80])
            bad, cls = "the independent decoder rejects a finalized file: %s" % clause, "c02-illformed"
        elif head.get("xml") != gen.fnv_hex(bytes.fromhex(xml)):
            bad, cls = "the XML range of the header does not hold the XML text the reader returns", "c02-xml"
        elif len(parts) - 1 != len(descs):
            bad, cls = "the independent decoder cannot decode a section of a finalized file (%s)" % d[:120], "c02-undecodable"
        else:
            for k, it in enumerate(kept):
                if parts[k + 1] != c01.expected_readback(it):
                    bad, cls = "item %d decodes as [%s], written [%s]" % (k, parts[k + 1][:160], c01.expected_readback(it)[:160]), "c02-content"
                    break
        if bad:
            n_dir += 1
            failed.add(i)
            rep.violation(cls, bad, dict(kind="written-file", items=[c01.item_tok(x) for x in items], file=dev, descriptors=descs))
    # correspondence: the writer model produces the same bytes and publishes the same offsets
    o_model = core.run_cases(core.DRIVER, ["FW %s X:%s" % (l, x) for l, x in zip(mlines, xmls)])
    for i, items in enumerate(progs):
        a = c01.parse_fw(o_impl[i].split(" dev=")[0])
        m = c01.parse_fw(o_model[i])
        key = lambda p: (p[0], [t for t in p[1].split() if t.startswith("len=") or t.startswith("h=")])
        if any(it[0] == "P" and len(it) > 3 for it in items):
            continue
        if key(a) != key(m) and i not in failed:
            n_corr += 1
            rep.violation("correspondence-c02", "writer model and implementation differ (results or file bytes): impl=%s | model=%s" %
                          (c01.strip_xml(o_impl[i].split(" dev=")[0])[:200], o_model[i][:200]),
                          dict(kind="writer-program", items=[c01.item_tok(x) for x in items],
                               failing="correspondence writer model vs implementation"), no_input=True)
    return o_impl, n_dir, n_corr, skipped, len(dec_lines), partly


# ---------------------------------------------------------------- the bundled foreign files

def foreign_descriptors(xml):
    descs = []
    for m in re.finditer(r'<points\s+type="CompressedVector"\s+fileOffset="(\d+)"\s+recordCount="(\d+)"\s*>(.*?)</points>', xml, re.S):
        proto = re.search(r'<prototype[^>]*>(.*?)</prototype>', m.group(3), re.S)
        types = []
        for e in re.finditer(r'<([\w:]+)\s+([^<>]*?)/?>', proto.group(1) if proto else ""):
            at = dict(re.findall(r'(\w+)="([^"]*)"', e.group(2)))
            if at.get("type") == "Float":
                types.append("F" if at.get("precision") == "single" else "D")
            elif at.get("type") in ("Integer", "ScaledInteger"):
                types.append("%s/%d/%d" % ("I" if at["type"] == "Integer" else "S", int(at.get("minimum", I64_MIN)), int(at.get("maximum", I64_MAX))))
        descs.append("p%s:%s:%s" % (m.group(1), m.group(2), ",".join(types)))
    for m in re.finditer(r'type="Blob"\s+fileOffset="(\d+)"\s+length="(\d+)"', xml):
        descs.append("b%s:%s" % (m.group(1), m.group(2)))
    return descs


def check_foreign(rep, tier):
    impl = core.ensure_harness("release")
    limit = 400 * 1024 if tier == "quick" else 1 << 30
    names, lines, rd, decode_pts = [], [], [], []
    for path in sorted(glob.glob(os.path.join(core.REPO, "testdata", "*.e57"))):
        f = open(path, "rb").read()
        if len(f) > limit or len(f) % 1024 or len(f) < 1024:
            continue
        log = crc.strip(f)
        xo, xl = struct.unpack("<QQ", log[24:40])
        xml = log[specgen.log_of_phys(xo):specgen.log_of_phys(xo) + xl].decode("utf-8", "replace")
        descs = foreign_descriptors(xml)
        full = len(f) <= 64 * 1024
        names.append(os.path.basename(path))
        decode_pts.append(full)
        lines.append("SPECDEC %s %s%s" % (f.hex(), "" if full else "STRUCT ", " ".join(descs)))
        rd.append("RD - " + f.hex())
    out = core.run_cases(core.DRIVER, lines)
    real = core.run_cases(impl, rd)
    rep.count(len(lines))
    accepted = 0
    for nm, o, r, full, line in zip(names, out, real, decode_pts, lines):
        head = dict(t.split("=", 1) for t in o.split(" # ")[0].split() if "=" in t)
        if nm == "corrupt_crc.e57":
            if head.get("container") != "0":
                rep.violation("c02-spec-too-lax", "the specification accepts the bundled file with a damaged page checksum", dict(kind="foreign-file", file=nm), no_input=True)
            continue
        if head.get("wf") != "1":
            rep.violation("c02-spec-too-strict", "the specification rejects the bundled libE57Format file %s: %s" % (nm, o[:160]),
                          dict(kind="foreign-file", file=nm, result=o[:400]), no_input=True)
            continue
        accepted += 1
        if full:
            # the independent decoder and the real reader agree on the points of the foreign file
            spec_pcs = [p for p in o.split(" # ")[1:] if p.startswith("pc ")]
            real_pcs = ["pc " + p for k, p in enumerate(r.split(" # ")[1:]) if k % 2 == 1]
            if spec_pcs != real_pcs:
                rep.violation("c02-foreign-decode", "independent decoder and reader disagree on the points of %s: spec=%s reader=%s" % (nm, spec_pcs[:1], real_pcs[:1]),
                              dict(kind="foreign-file", file=nm), no_input=True)
    return len(names), accepted


def proto_values_python(xml):
    """independent check on the XML text: every child of every <prototype> has a text that is a value of its type
    within [minimum, maximum] where declared (absent text = 0); returns the offending elements"""
    bad = []
    for pm in re.finditer(r"<prototype\b[^>]*>(.*?)</prototype>", xml, re.S):
        for e in re.finditer(r"<([\w:.-]+)((?:\s+[\w:.-]+\s*=\s*\"[^\"]*\")*)\s*(?:/>|>([^<]*)</\1\s*>)", pm.group(1)):
            at = dict(re.findall(r'([\w:.-]+)\s*=\s*"([^"]*)"', e.group(2)))
            text = e.group(3) if e.group(3) not in (None, "") else "0"
            try:
                if at.get("type") in ("Integer", "ScaledInteger"):
                    v, mn, mx = int(text), int(at.get("minimum", I64_MIN)), int(at.get("maximum", I64_MAX))
                    ok = mn <= v <= mx
                elif at.get("type") == "Float":
                    v = float(text)
                    ok = v == v and ("minimum" not in at or float(at["minimum"]) <= v) and ("maximum" not in at or v <= float(at["maximum"]))
                else:
                    ok = True
            except ValueError:
                ok = False
            if not ok:
                bad.append(e.group(0)[:160])
    return bad


def f32_bits(x):
    return struct.unpack("<I", struct.pack("<f", x))[0]


def check_float_limits(rep, rng, tier):
    """prototypes with limited Float records (limits above zero, below zero, only a negative maximum, only a positive
    minimum, ranges containing zero, unit range), written by the real writer (harness kind SIMW of slice simple);
    the extracted validator and the text check must find every prototype value within its limits"""
    impl = core.ensure_harness("debug")
    shapes = [(0.5, 120.0), (1.0, 4096.0), (-120.0, -0.5), (None, -2.0), (None, -0.0), (2.0, None), (0.0, 1.0), (-1.0, 1.0),
              (None, 3.0), (-3.0, None), (None, None), (1e-30, 1e30), (-1e30, -1e-30), (7.0, 7.0), (None, -1e-40)]
    # limits the writer must refuse (since /repo eaf8fc6): not ordered, or NaN; if it accepts them the validator below objects
    refused = [(5.0, 1.0), (0.0, -0.5), (float("nan"), None), (None, float("nan")), (1.0, float("nan"))]
    lines = []
    for _ in range(60 if tier == "quick" else 1500):
        recs = []
        for nm in ["x", "y", "z", "in", "ts"][:rng.range(3, 5)]:
            mn, mx = rng.choice(refused) if rng.chance(1, 12) else rng.choice(shapes)
            if rng.chance(1, 2):
                tok = "F/%s/%s" % ("-" if mn is None else "%08x" % f32_bits(mn), "-" if mx is None else "%08x" % f32_bits(mx))
            else:
                tok = "D/%s/%s" % ("-" if mn is None else "%016x" % specgen.f64_bits(mn), "-" if mx is None else "%016x" % specgen.f64_bits(mx))
            recs.append("%s=%s" % (nm, tok))
        lines.append("SIMW n %s - - ~ ~" % ",".join(recs))
    out = core.run_cases(impl, lines)
    devs, keep = [], []
    for l, o in zip(lines, out):
        if o.startswith("w=o "):
            devs.append(o.split(" dev=")[1].split()[0])
            keep.append(l)
    dec = core.run_cases(core.DRIVER, ["SPECDECX " + d for d in devs])
    rep.count(len(devs))
    n = 0
    for l, dev, d in zip(keep, devs, dec):
        head = dict(t.split("=", 1) for t in d.split() if "=" in t)
        f = bytes.fromhex(dev)
        log = crc.strip(f)
        xo, xl = struct.unpack("<QQ", log[24:40])
        xml = log[specgen.log_of_phys(xo):specgen.log_of_phys(xo) + xl].decode("utf-8", "replace")
        py = proto_values_python(xml)
        if head.get("proto") != "1" or py or head.get("wfx") != "1":
            n += 1
            rep.violation("c02-prototype-value-out-of-bounds",
                          "a prototype element's value lies outside the element's own limits: %s (extracted validator: %s); program %s" %
                          (py[:2], d[:40], l[:200]), dict(kind="simw-program", line=l, file=dev))
    rep.cov["float_limit_prototypes_refused_by_the_writer"] = sum(1 for o in out if o.startswith("w=e"))
    return len(devs), n


# ---------------------------------------------------------------- non-ASCII metadata

NON_ASCII = ["\u00e9", "\u00fc", "\u00df\u00e4", "\u20ac", "\u4e2d", "\u4e2d\u6587", "\U0001F600", "\U00010000\U0001F680",
             "caf\u00e9", "M\u00fcnchen \u2603", "\u00e9\u20ac\U0001F600", "na\u00efve \u4e2d\u6587 \U0001F600 x"]


def check_non_ascii(rep, rng, tier):
    """writer programs whose metadata strings (file guid, coordinate metadata, point cloud guid / name / description /
    sensor strings, image guid / name / description / sensor strings) hold 2-, 3- and 4-byte UTF-8 characters, one or
    several (harness kind METAWDEV of slice xg).  The file is judged by the extracted validator with the XML plugged in;
    and, for THIS writer (which fills with zeros), nothing but zeros may follow the XML section the header declares
    (the format itself tolerates other bytes there: libE57Format leaves remnants behind its XML)."""
    impl = core.ensure_harness("debug")
    hs = lambda t: "=" + t.encode().hex()
    ascii_s = lambda: rng.choice(["plain", "x", "scan 1"])
    lines, n_chars = [], []
    for k in range(48 if tier == "quick" else 1500):
        slots = ["G", "CM", "PCG", "PN", "PD", "PSV", "PSM", "PSS", "IG", "IN", "ID", "ISV"]
        hot = {slots[k % len(slots)]: rng.choice(NON_ASCII)} if k < 2 * len(slots) else {x: rng.choice(NON_ASCII) for x in slots if rng.chance(1, 3)}
        if not hot:
            hot = {"PN": rng.choice(NON_ASCII)}
        v = lambda slot: hs(hot.get(slot, ascii_s()))
        cmd = ["G", v("G"), "CM", v("CM"),
               "PC", v("PCG"), "3", "x~F/-/-", "y~F/-/-", "z~F/-/-", "PN", v("PN"), "PD", v("PD"), "PSV", v("PSV"), "PSM", v("PSM"), "PSS", v("PSS"),
               "PP", "3", "f3f800000", "f40000000", "f40400000", "PE",
               "IMG", v("IG"), "IN", v("IN"), "ID", v("ID"), "ISV", v("ISV"), "IVR", "p", "=010203", "-", "3", "2", "IE", "FIN"]
        lines.append("METAWDEV " + " ".join(cmd))
        n_chars.append(sum(1 for t in hot.values() for ch in t if ord(ch) > 127))
    out = core.run_cases(impl, lines)
    devs, keep = [], []
    for l, o, nc in zip(lines, out, n_chars):
        res, _, dev = o.partition(" | ")
        if res and all(x == "o" for x in res.split(",")) and dev.strip():
            devs.append(dev.strip())
            keep.append((l, nc))
    dec = core.run_cases(core.DRIVER, ["SPECDECX " + d for d in devs])
    rep.count(len(devs))
    n = 0
    for (l, nc), dev, d in zip(keep, devs, dec):
        head = dict(t.split("=", 1) for t in d.split() if "=" in t)
        f = bytes.fromhex(dev)
        log = crc.strip(f)
        xo, xl = struct.unpack("<QQ", log[24:40])
        end = specgen.log_of_phys(xo) + xl
        xml = log[specgen.log_of_phys(xo):end]
        bad = cls = None
        if head.get("dx") in (None, "none") or head.get("wfx") != "1":
            bad, cls = "the XML section the header declares does not parse / the file is not well formed with it (%s); declared section ends with %r" % (d[:50], xml[-24:]), "c02-xml-unparsable"
        elif any(log[end:]):
            bad, cls = "the header's XML length does not cover the document written: %r follows the declared XML section" % bytes(log[end:end + 16]).rstrip(b"\0"), "c02-xml-length"
        elif not xml.rstrip(b" \t\r\n").endswith(b"</e57Root>"):
            bad, cls = "the declared XML section does not end with the root end tag: %r" % xml[-24:], "c02-xml-length"
        if bad:
            n += 1
            rep.violation(cls, "%s (%d non-ASCII characters in the metadata); program %s" % (bad, nc, l[:160]), dict(kind="metaw-program", line=l, file=dev))
    return len(devs), n


# ---------------------------------------------------------------- the decoder has teeth

def check_teeth(rep, rng):
    """every clause of spec_wellformed rejects a file that violates it: one real file, one defect at a time
    (pages resealed unless the defect is the checksum)"""
    impl = core.ensure_harness("debug")
    proto = [("x", "F"), ("y", "F"), ("z", "F"), ("in", "I/0/2047")]
    items = [("B", rng.bytes(301)), ("P", proto, gen.rand_points(rng, proto, 7)), ("B", rng.bytes(64))]
    o = core.run_one(impl, "FW - " + " ".join(c01.item_tok(i) for i in items) + " DUMP")
    f = bytes.fromhex(o.split(" dev=")[1].strip())
    outs = c01.parse_fw(o.split(" dev=")[0])[0]
    descs, kept = descriptors(items, outs)
    (b0, _), (p0, _), (b1, _) = [(int(d[1:].split(":")[0]), 0) for d in descs]
    lb0, lp0 = specgen.log_of_phys(b0), specgen.log_of_phys(p0)
    log = bytearray(crc.strip(f))
    le = lambda v, n=8: (v % (1 << (8 * n))).to_bytes(n, "little")
    u = lambda off, n=8: int.from_bytes(log[off:off + n], "little")

    def patched(off, data):
        l = bytearray(log)
        l[off:off + len(data)] = data
        return crc.paginate(bytes(l))
    cases = [("unchanged", f, descs, True),
             ("one payload bit flipped, checksum not updated", bytes([f[0]]) + bytes([f[1] ^ 1]) + f[2:], descs, False),
             ("checksum byte flipped", f[:1021] + bytes([f[1021] ^ 0x10]) + f[1022:], descs, False),
             ("size not a whole number of pages", f[:-1], descs, False),
             ("last page missing (stated length differs)", f[:-1024], descs, False),
             ("signature", patched(0, b"ASTM-E58"), descs, False),
             ("major version 2", patched(8, le(2, 4)), descs, False),
             ("minor version 1", patched(12, le(1, 4)), descs, False),
             ("page size 2048", patched(40, le(2048)), descs, False),
             ("stated file length one page too long", patched(16, le(len(f) + 1024)), descs, False),
             ("XML offset inside checksum bytes", patched(24, le(1021)), descs, False),
             ("XML offset inside the header", patched(24, le(40)), descs, False),
             ("XML length reaches behind the end", patched(32, le(len(log))), descs, False),
             ("XML length zero", patched(32, le(0)), descs, False),
             ("XML range overlaps the last section", patched(24, le(b1)), descs, False),
             ("vector: section id 0", patched(lp0, b"\x00"), descs, False),
             ("vector: reserved byte set", patched(lp0 + 3, b"\x01"), descs, False),
             ("vector: section length + 4", patched(lp0 + 8, le(u(lp0 + 8) + 4)), descs, False),
             ("vector: section length - 4", patched(lp0 + 8, le(u(lp0 + 8) - 4)), descs, False),
             ("vector: section length not a multiple of 4", patched(lp0 + 8, le(u(lp0 + 8) + 2)), descs, False),
             ("vector: data offset + 4 (inside a packet)", patched(lp0 + 16, le(u(lp0 + 16) + 4)), descs, False),
             ("vector: data offset before the section", patched(lp0 + 16, le(b0)), descs, False),
             ("vector: data offset in checksum bytes", patched(lp0 + 16, le(1022)), descs, False),
             ("vector: index offset on a data packet", patched(lp0 + 24, le(u(lp0 + 16))), descs, False),
             ("vector: packet type 7", patched(lp0 + 32, b"\x07"), descs, False),
             ("vector: packet length + 4", patched(lp0 + 34, le(u(lp0 + 34, 2) + 4, 2)), descs, False),
             ("vector: packet length - 4", patched(lp0 + 34, le(u(lp0 + 34, 2) - 4, 2)), descs, False),
             ("vector: bytestream count + 1", patched(lp0 + 36, le(u(lp0 + 36, 2) + 1, 2)), descs, False),
             ("vector: a stream length + 4", patched(lp0 + 38, le(u(lp0 + 38, 2) + 4, 2)), descs, False),
             ("blob: section id 1", patched(lb0, b"\x01"), descs, False),
             ("blob: reserved byte set", patched(lb0 + 7, b"\x01"), descs, False),
             ("blob: section length + 4", patched(lb0 + 8, le(u(lb0 + 8) + 4)), descs, False),
             ("blob: section length = data length", patched(lb0 + 8, le(301)), descs, False),
             ("blob: descriptor longer than the section", f, ["b%d:%d" % (b0, 309)] + descs[1:], False),
             ("descriptor offset + 4", f, ["b%d:301" % (b0 + 4)] + descs[1:], False),
             ("descriptor offset not 4-aligned", f, ["b%d:301" % (b0 + 2)] + descs[1:], False),
             ("descriptor offset in checksum bytes", f, ["b1021:301"] + descs[1:], False),
             ("descriptor of a vector on a blob section", f, [descs[1].replace("p%d:" % p0, "p%d:" % b0)] + descs[1:], False),
             ("the same section listed twice", f, descs + [descs[0]], False),
             ("a section descriptor on the header", f, ["b0:32"] + descs, False)]
    out = core.run_cases(core.DRIVER, ["SPECDEC %s STRUCT %s" % (c[1].hex(), " ".join(c[2])) for c in cases])
    rep.count(len(cases))
    n = 0
    for (what, _, _, want), o in zip(cases, out):
        got = o.startswith("wf=1")
        if got != want:
            n += 1
            rep.violation("c02-spec-too-lax" if got else "c02-spec-too-strict",
                          "spec_wellformed %s a real file with this defect: %s (%s)" % ("accepts" if got else "rejects", what, o[:100]),
                          dict(kind="spec-selftest", what=what), no_input=True)
    return len(cases), n



def run(rep, tier, rng, replay=None):
    ok = core.proof_step(rep, "C02", thorough=(tier == "thorough"))
    rep.cov["trusted_base"] = core.TRUSTED_COMMON + [
        "Spec/FileSpec.v + Spec/FormatSpec.v + Spec/BitSpec.v + Spec/PageSpec.v: my reading of ASTM E2807, tested on every run against the bundled libE57Format files (accepted) and the damaged one (rejected)",
        "binary side only: the section descriptors are taken from the writer's results / the reader's read-back instead of being extracted from the XML by the specification (XML side: C04)",
        "the XML text is taken from the implementation's file and given to the writer model as an input (correspondence leg)"]
    if not ok:
        return
    specgen.big_stack()
    if replay and replay.get("kind") == "metaw-program":
        o = core.run_one(core.ensure_harness("debug"), replay["line"])
        dev = o.partition(" | ")[2].strip()
        d = core.run_one(core.DRIVER, "SPECDECX " + dev) if dev else "no-file"
        log = crc.strip(bytes.fromhex(dev)) if dev else b""
        xo, xl = struct.unpack("<QQ", log[24:40]) if dev else (0, 0)
        if "wfx=1" not in d or "dx=none" in d or any(log[specgen.log_of_phys(xo) + xl:]):
            rep.violation(replay.get("violation_class", "c02-xml-length"), "the header's XML length does not cover the document written (%s)" % d[:50],
                          dict(kind="metaw-program", line=replay["line"]))
        return
    if replay and replay.get("kind") == "simw-program":
        o = core.run_one(core.ensure_harness("debug"), replay["line"])
        d = core.run_one(core.DRIVER, "SPECDECX " + o.split(" dev=")[1].split()[0]) if " dev=" in o else "no-file"
        if "proto=1" not in d or "wfx=1" not in d:
            rep.violation("c02-prototype-value-out-of-bounds", "a prototype element's value lies outside the element's own limits (%s)" % d[:60],
                          dict(kind="simw-program", line=replay["line"]))
        return
    if replay and replay.get("kind") in ("written-file", "writer-program"):
        progs = [[("B", bytes.fromhex(t[2:])) if t.startswith("B:") else
                  ("I", t.split(":")[1], bytes.fromhex(t.split(":")[2]), None if t.split(":")[3] == "-" else bytes.fromhex(t.split(":")[3])) if t.startswith("I:") else
                  ("P", [tuple(x.split("=", 1)) for x in t.split(":")[1].split(",")],
                   [p.split(",") for p in t.split(":")[2].split(";")] if len(t.split(":")) > 2 and t.split(":")[2] else [])
                  for t in replay["items"]]]
    else:
        progs = c01.gen_programs(rng.fork(), tier) + c06.gen_programs(rng.fork(), tier) + gen_partly_failing(rng.fork(), tier)
        if tier == "quick":
            # the capacity-boundary programs of C01 are long; one of them is enough here
            big = [p for p in progs if any(i[0] == "P" and len(i[2]) > 1000 for i in p)]
            progs = [p for p in progs if p not in big[1:]]
    o_impl, n_dir, n_corr, skipped, judged, partly = check_written(rep, progs)
    residues = set()
    for i, items in enumerate(progs):
        for o in c01.parse_fw(o_impl[i].split(" dev=")[0])[0]:
            if o[0] in "bp" and ":" in o and "?" not in o:
                residues.add(specgen.log_of_phys(int(o[1:].split(":")[0])) % 1020)
        rep.distinct(gen.fnv_hex(" ".join(c01.item_tok(x) for x in items).encode()))
    n_foreign, n_acc = (0, 0) if replay else check_foreign(rep, tier)
    n_teeth, n_teeth_bad = (0, 0) if replay else check_teeth(rep, rng.fork())
    n_fl, n_fl_bad = (0, 0) if replay else check_float_limits(rep, rng.fork(), tier)
    n_na, n_na_bad = (0, 0) if replay else check_non_ascii(rep, rng.fork(), tier)
    rep.cov.update(programs=len(progs), files_judged=judged, programs_not_ok_skipped=skipped, programs_with_a_failed_call=partly, section_start_residues_mod_1020=len(residues),
                   foreign_files=n_foreign, foreign_files_accepted=n_acc, defective_files_for_the_decoder=n_teeth, defects_not_rejected=n_teeth_bad,
                   float_limit_prototypes=n_fl, prototype_values_out_of_bounds=n_fl_bad,
                   non_ascii_metadata_programs=n_na, non_ascii_failures=n_na_bad, direct_failures=n_dir, correspondence_failures=n_corr,
                   traces_validated_against_impl=len(progs))
    rep.sample(dict(kind="written file", items=[c01.item_tok(x)[:100] for x in progs[len(progs) // 2]]))
    rep.cov["rule"] = ("writer programs of C01 and C06 plus call sequences in which one call fails (out-of-range, mistyped or missing value, rejected prototype; the file must still be well formed and hold the other items) (blobs, images of all four kinds with and without mask, point clouds over the type/width grid, interleaved; preceding content swept "
                       "over residues modulo 1020; packet-capacity boundary) run through the real writer; the finalized file is judged by the extracted spec_wellformed (pages, checksums, "
                       "header, XML range, every section: alignment, position outside checksums, section id, header lengths, packet lengths and stream lengths, data/index offsets, no overlap) "
                       "and decoded by the extracted spec_decode_file; points and blob bytes must equal the input; the file's own XML, parsed by the extracted xml_parse and "
                       "extracted by the extracted extract_all (FileSpecXml.dx_of), must state exactly the published sections and the file must be spec_wellformed_xml, "
                       "which includes: the text of every prototype element is a value of the element's type within the element's own minimum/maximum (also checked by an independent "
                       "regular-expression pass over the XML text; extra programs with limited Float records: limits above zero, below zero, only a negative maximum, only a positive minimum). "
                       "Programs with 2-, 3-, 4-byte UTF-8 characters (one, several) in every metadata string: the XML section the header declares must parse, be the whole document, and be followed by zeros only. The bundled libE57Format files must be accepted and decode to what the "
                       "reader returns; one real file with one defect at a time (40 defects: every clause of the decoder) must be rejected. Correspondence: writer model file = real file byte for byte. distinct = distinct programs")
