"""C09 - reading untrusted bytes uses bounded time and memory per call; an iterator never yields more
points than the declared record count."""
import re
import struct
from vlib import core, tot

MAX_PAGE = 1 << 20            # MAX_PAGE_SIZE of paged_reader.rs
MAX_XML = 10 << 20            # MAX_XML_SIZE of e57_reader.rs
PACKET = 1 << 16              # u16 packet and stream lengths
K = 1024
# Bounds `A * len(file) + B` on the peak additional heap of one call (bytes), with the reason for each constant.
BOUNDS = {
    # page buffer + read buffer, both of the page size the file declares (<= MAX_PAGE_SIZE), error text
    "vcrc": (0, 2 * MAX_PAGE + 8 * K),
    # page buffer (declared page size) + the XML buffer, which is allocated from the declared length (<= MAX_XML_SIZE) before reading
    "rawxml": (0, MAX_PAGE + MAX_XML + 8 * K),
    # XML buffer (<= MAX_XML_SIZE whatever the file size) + roxmltree document + descriptors: measured <= 12 bytes per XML byte
    "new": (64, MAX_XML + 64 * K),
    # clones of the XML text and of the descriptor vectors
    "meta": (8, 8 * K),
    # one read buffer (<= 64 KiB) per stream in turn, stream buffers (<= bytes read, double-buffered), queues: a 16-byte RecordValue
    # per value, a sized value costs >= 1 input bit, VecDeque capacity <= 2x (3x while growing): 8 * 16 * 3 = 384 per stream byte
    "raw": (512, 4 * PACKET),
    # additionally all available points as 104-byte Point values in a Vec and a VecDeque: 8 * 104 * (2 + 2) = 3328 per stream byte
    "simple": (512 + 4096, 4 * PACKET),
    # the caller's Vec (doubling) + the 8 KiB copy buffer of io::copy
    "bl": (4, 64 * K),
}
# Probe for "skipped packets x prototype length" (repaired in the crate: advance() goes on to the next packet after an index or
# ignored packet): 200000 four-byte ignored packets in front of the only data packet, 4000 records.  One step of either iterator
# needed about 2.5 ns x K x P = 2 s of CPU time before the repair and needs about 15 ms after it; the bound leaves a factor 8 to
# the former and 16 to the latter.
PROBE_SKIPPED_US = 250_000
OPS_PER_PAGE, OPS_CONST = 2, 8          # one seek + one read per page touched, pages are touched in ascending order within a call
TIME_LIMIT_US = 5_000_000       # CPU time of the harness thread during one call (wall time is reported only: it grows with the load of the machine)


# ---------------------------------------------------------------- zero-width record receiving large streams
# Deterministic probe for the defect repaired in the crate by 7dd87aa: QueueReader::advance appended the byte stream of EVERY record
# to its bit buffer, also for records of zero bit size, whose buffers are never consumed; ByteStreamReadBuffer::append copies what
# is left each time.  File family: prototype [Integer 0..1, Integer 7..7]; N data packets with stream lengths [0, 65524] (the largest
# well-formed data packet: 65536 bytes), then one data packet with one byte for the one-bit record.  The first next() reads all N + 1
# packets.  Oracle: the peak additional heap of the whole iteration stays below a constant that does not depend on N (the unrepaired
# crate holds the whole file, twice while appending), and the device operations stay linear in the file size.
ZW_CHUNK = 65524
ZW_PACKETS = (16, 64, 256)
ZW_HEAP_BOUND = 4 * PACKET + 64 * K      # read buffer (<= 64 KiB) + bit buffers (leftover + one chunk, double-buffered while appending) + slack


def zw_stream_file(n_packets, chunk=ZW_CHUNK):
    """header, section at 48 (n_packets x [0, chunk] + one packet [1 byte, 0]), XML; 8 points"""
    def data_packet(streams):
        raw = b"".join(struct.pack("<H", len(x)) for x in streams) + b"".join(streams)
        ln = 6 + len(raw)
        pad = (-ln) % 4
        return struct.pack("<BBHH", 1, 0, ln + pad - 1, len(streams)) + raw + bytes(pad)
    fill = bytes((i * 7 + 3) % 251 for i in range(chunk))
    body = b"".join([data_packet([b"", fill])] * n_packets + [data_packet([b"\xa5", b""])])
    section = struct.pack("<B7xQQQ", 1, 32 + len(body), 80, 0) + body
    xml = ('<?xml version="1.0" encoding="UTF-8"?>\n<e57Root type="Structure" xmlns="http://www.astm.org/COMMIT/E57/2010-e57-v1.0">'
           '<formatName type="String">ASTM E57 3D Imaging Data File</formatName><guid type="String">g</guid>'
           '<versionMajor type="Integer">1</versionMajor><versionMinor type="Integer">0</versionMinor>'
           '<data3D type="Vector" allowHeterogeneousChildren="1"><vectorChild type="Structure"><guid type="String">p</guid>'
           '<points type="CompressedVector" fileOffset="48" recordCount="8"><prototype type="Structure">'
           '<cartesianX type="Integer" minimum="0" maximum="1"/><cartesianY type="Integer" minimum="7" maximum="7"/>'
           '</prototype></points></vectorChild></data3D></e57Root>').encode()
    log = bytearray(48) + bytearray(section)
    while len(log) % 4:
        log.append(0)
    xoff = len(log)
    log += xml
    n = (len(log) + 1019) // 1020
    log[0:48] = b"ASTM-E57" + struct.pack("<IIQQQQ", 1, 0, n * 1024, tot.phys_of_log(xoff), len(xml), 1024)
    return tot.seal(log)


def zero_width_stream_probe(rep, packets=ZW_PACKETS, chunk=ZW_CHUNK):
    """-> number of calls over a bound; violations of class c09-zero-width-stream-retained (replay: the parameters of the file)"""
    files = [(n, zw_stream_file(n, chunk)) for n in packets]
    lines = ["TOT %s 0 -" % tot.devtok(f) for _, f in files]
    rows, bad = [], 0
    worst = None
    for prof in ("release", "debug"):
        outs = tot.run_lines(core.ensure_harness(prof), lines)
        for (n, f), o in zip(files, outs):
            rep.count(1)
            rep.distinct(("zw-stream", n, chunk))
            t = tot.parse_tot(o)
            L = len(f)
            pages = (L + 1023) // 1024
            if t.get("hang") or t["crash"]:
                bad += 1
                rep.violation("c09-zero-width-stream-retained",
                              "%s profile: reading a %d-byte file with %d data packets whose %d-byte streams all belong to a record of zero bit size %s" %
                              (prof, L, n, chunk, "did not return" if t.get("hang") else "killed the process: " + (t["raw"] or "")[:120]),
                              dict(kind="zero-width-stream", packets=n, chunk=chunk, profile=prof))
                continue
            for kind, label, text, _ in calls_of(t):
                if kind not in ("raw", "simple"):
                    continue
                me = tot.meter(text)
                if "m" not in me:
                    continue
                res = tot.strip_meter(text)[:60]
                rows.append(dict(packets=n, file_bytes=L, profile=prof, call=label, result=res, peak_heap=me["m"], device_ops=me["o"],
                                 slowest_step_us=me["t"]))
                why = None
                if me["m"] > ZW_HEAP_BOUND:
                    why = ("peak additional heap %d bytes (%.2f x the file) exceeds the bound %d, which does not depend on the number of packets: the bytes of a record "
                           "of zero bit size must not be kept" % (me["m"], me["m"] / float(L), ZW_HEAP_BOUND))
                elif me["o"] > OPS_PER_PAGE * pages + OPS_CONST:
                    why = "%d device operations on %d pages (bound %d * pages + %d)" % (me["o"], pages, OPS_PER_PAGE, OPS_CONST)
                if why:
                    bad += 1
                    if worst is None or n < worst[0]:
                        worst = (n, "%s profile, %s on a %d-byte file of %d data packets with stream lengths [0, %d] for the prototype [Integer 0..1, Integer 7..7] (%s): %s" %
                                 (prof, label, L, n, chunk, res, why), prof)
    if worst:
        rep.violation("c09-zero-width-stream-retained", worst[1], dict(kind="zero-width-stream", packets=worst[0], chunk=chunk, profile=worst[2]))
    # the same family, small: model and implementation agree on results and device operations
    small = zw_stream_file(3, 1000)
    bin_d = core.ensure_harness("debug")
    o = tot.run_lines(bin_d, ["TOT %s 0 -" % tot.devtok(small)])[0]
    td = tot.parse_tot(o)
    corr = "not-run"
    if not td["crash"] and not td.get("hang") and not td["panics"]:
        mo = core.run_cases(core.DRIVER, [tot.model_line(td, tot.devtok(small))])[0]
        st, detail = tot.compare(td, mo)
        corr = st
        if st == "mismatch":
            bad += 1
            rep.violation("correspondence-c09", "model and implementation differ on the zero-width stream family (3 packets of 1000 bytes): %s" % detail,
                          dict(kind="zero-width-stream", packets=3, chunk=1000, profile="debug",
                               failing="correspondence reader model vs implementation incl. device operation counts"), no_input=True)
    rep.cov["zero_width_stream_probe"] = dict(
        rule="prototype [Integer 0..1, Integer 7..7]; N data packets with stream lengths [0, %d], then one packet [1, 0]; 8 points; the first next() reads every packet. "
             "Oracle: peak additional heap of a whole raw / simple iteration <= %d bytes whatever N; device operations <= %d * pages + %d; times are reported, not judged" %
             (chunk, ZW_HEAP_BOUND, OPS_PER_PAGE, OPS_CONST),
        packets=list(packets), measured=rows, small_instance_model_vs_impl=corr, calls_over_a_bound=bad)
    return bad


def zero_width_count(proto):
    z = 0
    for t in proto.split(","):
        p = t.split("/")
        if p[0] in ("I", "S") and len(p) >= 3 and int(p[2]) <= int(p[1]):
            z += 1
    return z


def calls_of(t):
    """(entry kind, label, text, zero-width records of the prototype) for every measured call of a TOT result"""
    out = []
    for s in t["sections"]:
        if s.startswith(("vcrc:", "rawxml:", "new:")):
            out.append((s.split(":")[0], s.split(":")[0], s, 0))
        elif s.startswith("meta"):
            out.append(("meta", "meta", s, 0))
        elif s.startswith("bl "):
            out.append(("bl", " ".join(s.split()[:4]), s, 0))
        elif s.startswith("pc "):
            m = re.match(r"pc (\d+) fo=\d+ rc=\d+ proto=(\S+) ", s)
            z = zero_width_count(m.group(2)) if m and m.group(2) != "-" else 0
            out.append(("raw", "pc%s.raw" % (m.group(1) if m else "?"), s.split(" | ", 1)[1], z))
        elif s.startswith("ps "):
            parts = s.split(" | ")
            for p in parts[1:]:
                out.append(("simple", "pc%s.simple[%s]" % (parts[0].split()[1], p.split(":")[0][1:]), p, None))
    return out


def fixed_target_probe(rep, bases, replay):
    """Blob extraction into a target of fixed capacity (`&mut [u8]`, harness kind BLOBRDS of file.rs: the extraction runs in a
    thread of its own, `HANG` after 20 s): whatever the capacity - empty, one byte, one short, exact, one more - the call must
    return.  -> number of violations"""
    impl = core.ensure_harness("release")
    cases = []
    if replay and replay.get("kind") == "blob-fixed-target":
        cases.append((bytes.fromhex(replay["file"]), replay["offset"], replay["length"], replay["capacity"], replay.get("base", "?")))
    elif not replay:
        for b in [b for b in bases if b.blobs and len(b.phys) <= 20000][:5]:
            for off, ln in b.blobs[:2]:
                for cap in sorted({0, 1, max(0, ln - 1), ln, ln + 1}):
                    cases.append((b.phys, off, ln, cap, b.name))
    if not cases:
        return 0
    outs = tot.run_lines(impl, ["BLOBRDS - %s %d %d %d" % (tot.devtok(f), off, ln, cap) for f, off, ln, cap, _ in cases])
    bad = 0
    classes = {}
    for (f, off, ln, cap, name), o in zip(cases, outs):
        rep.count(1)
        rep.distinct(("blob-fixed-target", name, off, ln, cap))
        classes[o.split()[0]] = classes.get(o.split()[0], 0) + 1
        if o.startswith("HANG"):
            bad += 1
            rep.violation("c09-call-does-not-return",
                          "E57Reader::blob of the blob at %d (length %d) of %s into a target of fixed capacity %d bytes did not return within 20 s" % (off, ln, name, cap),
                          dict(kind="blob-fixed-target", file=f.hex(), offset=off, length=ln, capacity=cap, base=name))
    rep.cov["blob_extraction_into_fixed_capacity_targets"] = dict(cases=len(cases), result_classes=classes)
    return bad


def run(rep, tier, rng, replay=None):
    ok = core.proof_step(rep, "C09", thorough=(tier == "thorough"))
    rep.level = "proof"   # partial in substance, see MANIFEST text
    rep.cov["trusted_base"] = core.TRUSTED_COMMON + [
        "the theorems bound the model's abstract quantities (loop fuel, bytes consumed, number of queued values, number of points); allocator behaviour, "
        "Vec/VecDeque growth factors, roxmltree's memory use and wall time are measured by this check (counting global allocator in the harness, "
        "device operation counter, clock), not proved",
        "roxmltree and the descriptor extraction are not modelled (their cost is measured only)",
        "the measured bounds use the constants listed under `bounds` in the evidence"]
    if not ok:
        return
    if replay and replay.get("kind") == "zero-width-stream":
        zero_width_stream_probe(rep, packets=(int(replay["packets"]),), chunk=int(replay.get("chunk", ZW_CHUNK)))
        return
    if replay and replay.get("kind") == "blob-fixed-target":
        fixed_target_probe(rep, [], replay)
        return
    n_probe_bad = zero_width_stream_probe(rep) if not replay else 0
    res = tot.explore(rep, tier, rng, replay)
    n_probe_bad += fixed_target_probe(rep, res["bases"], replay)
    muts = res["muts"]
    stats = {}
    n_bad = n_corr = n_skip = n_model = 0
    worst = {}

    slow = []        # (cpu us, profile, mutant, label, masks): candidates for c09-time, confirmed below

    def judge(prof, m, t, masks=None):
        nonlocal n_bad
        L = len(m["phys"])
        pages = (L + 1023) // 1024
        if t.get("hang"):
            n_bad += 1
            rep.violation("c09-call-does-not-return",
                          "%s profile: a reading call on a %s mutation of %s (%d bytes) did not return within %s s (process killed; confirmed by running this file alone, twice)%s" %
                          (prof, m["kind"], m["base"], L, t["raw"].split()[1], ": " + m["note"] if m.get("note") else ""),
                          dict(kind="file", file=m["phys"].hex(), mutation=m["kind"], base=m["base"], profile=prof, note=m.get("note", "")))
            return
        if t["crash"]:
            n_bad += 1
            rep.violation("c09-abort", "%s profile: the process died on a %s mutation of %s (%d bytes) - allocation beyond the harness limit of 1 GiB, or abort: %s" %
                          (prof, m["kind"], m["base"], L, (t["raw"] or "")[:160]),
                          dict(kind="file", file=m["phys"].hex(), mutation=m["kind"], base=m["base"], profile=prof))
            return
        zs = {}
        for kind, label, text, z in calls_of(t):
            if kind == "raw":
                zs[label.split(".")[0]] = z
            if z is None:
                z = zs.get(label.split(".")[0], 0)
            me = tot.meter(text)
            if "m" not in me:
                continue
            a, b = BOUNDS[kind]
            fixed = a * L + b
            st = stats.setdefault(kind, dict(calls=0, max_bytes=0, max_bytes_per_file_byte=0.0, max_ops=0, max_step_us=0, max_over_fixed_bound=0.0))
            st["calls"] += 1
            st["max_bytes"] = max(st["max_bytes"], me["m"])
            if L:
                st["max_bytes_per_file_byte"] = round(max(st["max_bytes_per_file_byte"], max(0, me["m"] - b) / L), 2)
            st["max_ops"] = max(st["max_ops"], me["o"])
            st["max_step_us"] = max(st["max_step_us"], me["t"])
            st["max_step_cpu_us"] = max(st.get("max_step_cpu_us", 0), me.get("c", 0))
            st["max_over_fixed_bound"] = round(max(st["max_over_fixed_bound"], me["m"] / float(fixed)), 3)
            desc = None
            if me["m"] > fixed and z > 0 and kind in ("raw", "simple"):
                # the regression class of the finding repaired by 803272f: memory grows with the number of zero-width records
                desc = ("c09-zero-width-amplification",
                        "peak additional heap %d bytes in %s on a %d-byte file (%.0f x the file) exceeds the fixed bound %d * len + %d and the prototype has %d zero-width record(s): "
                        "values of zero-width records must not be stored" % (me["m"], label, L, me["m"] / float(max(L, 1)), a, b, z))
            elif me["m"] > fixed:
                desc = ("c09-memory-bound", "peak additional heap %d bytes in %s exceeds %d * %d + %d" % (me["m"], label, a, L, b))
            elif me["o"] > OPS_PER_PAGE * pages + OPS_CONST:
                desc = ("c09-device-operations", "%d device operations in %s on a file of %d pages (bound %d * pages + %d)" % (me["o"], label, pages, OPS_PER_PAGE, OPS_CONST))
            elif prof == "release" and me.get("c", 0) > TIME_LIMIT_US:
                slow.append((me["c"], prof, m, label, masks if masks is not None else res["masks"], TIME_LIMIT_US, "c09-time"))
            elif prof == "release" and kind in ("raw", "simple") and m["kind"].startswith("crafted-skipped-packets") and me.get("c", 0) > PROBE_SKIPPED_US:
                slow.append((me["c"], prof, m, label, masks if masks is not None else res["masks"], PROBE_SKIPPED_US, "c09-skipped-packets-times-prototype"))
            elif re.search(r" over( |$)|end=over", text):
                desc = ("c09-count", "%s yielded more points than the declared record count: %s" % (label, tot.strip_meter(text)[:160]))
            if desc:
                n_bad += 1
                key = desc[0]
                if key not in worst or me["m"] > worst[key][0]:
                    worst[key] = (me["m"], desc[1], m, prof, label)

    for i, m in enumerate(muts):
        rep.count(2)
        rep.distinct((m["kind"], m["base"], tot.gen.fnv_hex(m["phys"])))
        for prof in ("debug", "release"):
            judge(prof, m, res["tot"][prof][i])
        td = res["tot"]["debug"][i]
        if res["model"][i] is not None and not td["crash"] and not td["panics"] and not td.get("hang"):
            n_model += 1
            st, detail = tot.compare(td, res["model"][i])
            if st == "xml_layer_not_modelled":
                n_skip += 1
            elif st == "mismatch":
                n_corr += 1
                rep.violation("correspondence-c09", "model and implementation differ (result, values or number of device operations) on a %s mutation of %s: %s" % (m["kind"], m["base"], detail),
                              dict(kind="file", file=m["phys"].hex(), mutation=m["kind"], base=m["base"],
                                   failing="correspondence reader model vs implementation incl. device operation counts (theorems C09_*)"), no_input=True)
    for i, m in enumerate(res["big"]["muts"]):
        rep.count(2)
        for prof in ("debug", "release"):
            judge(prof, m, tot.parse_tot(res["big"]["out"][prof][i]), masks=[0, 63])
    # descriptors through the API: cost and correspondence
    fr = res["free"]
    for i, line in enumerate(fr["lines"]):
        rep.count(2)
        rep.distinct(("free", line[-120:]))
        toks = line.split()
        phys_len = len(toks[1]) // 2
        for prof in ("debug", "release"):
            o = fr["out"][prof][i]
            t = tot.parse_tot(o)
            if t.get("hang"):
                n_bad += 1
                rep.violation("c09-call-does-not-return", "%s ... (%s) did not return within %s s (confirmed alone)" % (" ".join(toks[:1] + toks[2:6])[:100], fr["notes"][i], o.split()[1]),
                              dict(kind="free-descriptor", case=line))
                continue
            if t["crash"]:
                n_bad += 1
                rep.violation("c09-abort", "the process died on %s (%s)" % (line[:60], fr["notes"][i]), dict(kind="free-descriptor", case=line))
                continue
            sec = t["sections"][0] if t["sections"] else ""
            me = tot.meter(sec)
            if "m" in me:
                kind = "raw" if sec.startswith("raw:") else "bl"
                z = zero_width_count(toks[5]) if kind == "raw" and toks[5] != "-" else 0
                a, b = BOUNDS[kind]
                if me["m"] > a * phys_len + b:
                    n_bad += 1
                    rep.violation("c09-memory-bound", "peak additional heap %d bytes for %s ... (%s) on a %d-byte file" % (me["m"], " ".join(toks[:1] + toks[2:6])[:120], fr["notes"][i], phys_len),
                                  dict(kind="free-descriptor", case=line))
                if " over" in sec:
                    n_bad += 1
                    rep.violation("c09-count", "more points than records: %s" % tot.strip_meter(sec)[:160], dict(kind="free-descriptor", case=line))
        if fr["out"]["debug"][i].startswith("HANG"):
            continue
        if tot.comparable_free(fr["out"]["debug"][i]) != fr["model"][i]:
            n_corr += 1
            rep.violation("correspondence-c09", "model and implementation differ on %s (%s): impl [%s] model [%s]" %
                          (line.split()[0], fr["notes"][i], tot.comparable_free(fr["out"]["debug"][i])[:150], fr["model"][i][:150]),
                          dict(kind="free-descriptor", case=line, failing="correspondence raw iteration / blob model vs implementation incl. device operation counts"), no_input=True)
    # c09-time: only after the case, run ALONE up to three times, still needs more CPU time than the bound in every run
    n_time_unconfirmed = 0
    picked, per_class = [], {}
    for e in sorted(slow, key=lambda x: -x[0]):
        if per_class.get(e[6], 0) < 2:
            per_class[e[6]] = per_class.get(e[6], 0) + 1
            picked.append(e)
    for cpu, prof, m, label, masks, bound, cls in picked:
        line = "TOT %s %s -" % (tot.devtok(m["phys"]), "all" if masks == "all" else ",".join(str(x) for x in masks))
        best = None
        for _ in range(3):
            t = tot.parse_tot(tot.run_alone(core.ensure_harness(prof), line))
            if t.get("hang") or t["crash"]:
                continue
            c = [tot.meter(text).get("c", 0) for kind, lab, text, z in calls_of(t) if lab == label]
            if c:
                best = c[0] if best is None else min(best, c[0])
            if best is not None and best <= bound:
                break
        if best is not None and best > bound:
            n_bad += 1
            rep.violation(cls, "%s profile, %s mutation of %s (%d bytes): a single call of %s needed %d us of CPU time in the sharded run and at least %d us in each of "
                          "three runs of this file alone (bound %d us)%s" % (prof, m["kind"], m["base"], len(m["phys"]), label, cpu, best, bound, ": " + m["note"] if m.get("note") else ""),
                          dict(kind="file", file=m["phys"].hex(), mutation=m["kind"], base=m["base"], entry=label, profile=prof))
        else:
            n_time_unconfirmed += 1
    rep.cov["slow_calls_not_confirmed_when_run_alone"] = n_time_unconfirmed
    for cls, (mbytes, desc, m, prof, label) in sorted(worst.items()):
        rep.violation(cls, "%s profile, %s mutation of %s: %s" % (prof, m["kind"], m["base"], desc),
                      dict(kind="file", file=m["phys"].hex(), mutation=m["kind"], base=m["base"], entry=label, profile=prof, note=m.get("note", "")))
    kinds = {}
    for m in muts:
        kinds[m["kind"]] = kinds.get(m["kind"], 0) + 1
    rep.cov.update(mutants=len(muts), mutation_kinds=kinds, free_descriptor_cases=len(fr["lines"]),
                   large_bundled_files=[m["base"] for m in res["big"]["muts"]],
                   bounds={k: "%d * len(file) + %d" % v for k, v in BOUNDS.items()},
                   bounds_note="the bounds do not depend on the prototype; a raw or simple iteration over a prototype with zero-width records that exceeds its bound is reported as "
                               "c09-zero-width-amplification (regression probes: hand-built files with 100 and 500 zero-width records), anything else as c09-memory-bound; device operations per call <= %d * pages + %d; every single call <= %d us (release)" % (OPS_PER_PAGE, OPS_CONST, TIME_LIMIT_US),
                   measured=stats, calls_over_a_bound=n_bad + n_probe_bad, model_runs=n_model, xml_layer_not_modelled=n_skip, correspondence_failures=n_corr,
                   traces_validated_against_impl=n_model + len(fr["lines"]), harness_allocation_limit_bytes=1 << 30)
    if muts:
        k = len(muts) // 3
        rep.sample(dict(kind=muts[k]["kind"], base=muts[k]["base"], impl=res["out"]["release"][k][:400]))
    rep.cov["rule"] = ("same inputs as C08 (structure-aware mutants of written and bundled files with re-sealed checksums, unsealed damage, truncations, extensions, hand-built files on the "
                       "zero-width / huge-count / skipped-packet guards, descriptors through the API, the large bundled files). Every call of every reading entry point is measured: peak additional "
                       "heap (counting global allocator), device operations, wall time; iterators are driven to their first Err/None (capped at 2*10^6 points when the declared count exceeds 10^6) and "
                       "the number of points is compared with the declared count. Oracle: the explicit bounds listed under `bounds`; points <= recordCount. Correspondence: the extracted model "
                       "agrees on result class, values and the exact number of device operations of every binary entry point. distinct = distinct (mutation kind, base, file hash)")
