"""C09 - reading untrusted bytes uses bounded time and memory per call; an iterator never yields more
points than the declared record count."""
import re
from vlib import core, tot

MAX_PAGE = 1 << 20            # MAX_PAGE_SIZE of paged_reader.rs
MAX_XML = 10 << 20            # MAX_XML_SIZE of e57_reader.rs
PACKET = 1 << 16              # u16 packet and stream lengths
K = 1024
# Bounds `A * len(file) + B` on the peak additional heap of one call (bytes), with the reason for each constant.
BOUNDS = {
    # page buffer + read buffer, both of the page size the file declares (<= MAX_PAGE_SIZE), error text
    "vcrc": (0, 2 * MAX_PAGE + 8 * K),
    # page buffer (declared page size) + the XML buffer, which is allocated from the declared length (<= MAX_XML_SIZE) before reading
    "rawxml": (0, MAX_PAGE + MAX_XML + 8 * K),
    # XML buffer (<= MAX_XML_SIZE whatever the file size) + roxmltree document + descriptors: measured <= 12 bytes per XML byte
    "new": (64, MAX_XML + 64 * K),
    # clones of the XML text and of the descriptor vectors
    "meta": (8, 8 * K),
    # one read buffer (<= 64 KiB) per stream in turn, stream buffers (<= bytes read, double-buffered), queues: a 16-byte RecordValue
    # per value, a sized value costs >= 1 input bit, VecDeque capacity <= 2x (3x while growing): 8 * 16 * 3 = 384 per stream byte
    "raw": (512, 4 * PACKET),
    # additionally all available points as 104-byte Point values in a Vec and a VecDeque: 8 * 104 * (2 + 2) = 3328 per stream byte
    "simple": (512 + 4096, 4 * PACKET),
    # the caller's Vec (doubling) + the 8 KiB copy buffer of io::copy
    "bl": (4, 64 * K),
}
OPS_PER_PAGE, OPS_CONST = 2, 8          # one seek + one read per page touched, pages are touched in ascending order within a call
TIME_LIMIT_US = 5_000_000


def zero_width_count(proto):
    z = 0
    for t in proto.split(","):
        p = t.split("/")
        if p[0] in ("I", "S") and len(p) >= 3 and int(p[2]) <= int(p[1]):
            z += 1
    return z


def calls_of(t):
    """(entry kind, label, text, zero-width records of the prototype) for every measured call of a TOT result"""
    out = []
    for s in t["sections"]:
        if s.startswith(("vcrc:", "rawxml:", "new:")):
            out.append((s.split(":")[0], s.split(":")[0], s, 0))
        elif s.startswith("meta"):
            out.append(("meta", "meta", s, 0))
        elif s.startswith("bl "):
            out.append(("bl", " ".join(s.split()[:4]), s, 0))
        elif s.startswith("pc "):
            m = re.match(r"pc (\d+) fo=\d+ rc=\d+ proto=(\S+) ", s)
            z = zero_width_count(m.group(2)) if m and m.group(2) != "-" else 0
            out.append(("raw", "pc%s.raw" % (m.group(1) if m else "?"), s.split(" | ", 1)[1], z))
        elif s.startswith("ps "):
            parts = s.split(" | ")
            for p in parts[1:]:
                out.append(("simple", "pc%s.simple[%s]" % (parts[0].split()[1], p.split(":")[0][1:]), p, None))
    return out


def run(rep, tier, rng, replay=None):
    ok = core.proof_step(rep, "C09", thorough=(tier == "thorough"))
    rep.level = "proof"   # partial in substance, see MANIFEST text
    rep.cov["trusted_base"] = core.TRUSTED_COMMON + [
        "the theorems bound the model's abstract quantities (loop fuel, bytes consumed, number of queued values, number of points); allocator behaviour, "
        "Vec/VecDeque growth factors, roxmltree's memory use and wall time are measured by this check (counting global allocator in the harness, "
        "device operation counter, clock), not proved",
        "roxmltree and the descriptor extraction are not modelled (their cost is measured only)",
        "the measured bounds use the constants listed under `bounds` in the evidence"]
    if not ok:
        return
    res = tot.explore(rep, tier, rng, replay)
    muts = res["muts"]
    stats = {}
    n_bad = n_corr = n_skip = n_model = 0
    worst = {}

    def judge(prof, m, t, label_prefix=""):
        nonlocal n_bad
        L = len(m["phys"])
        pages = (L + 1023) // 1024
        if t["crash"]:
            n_bad += 1
            rep.violation("c09-abort", "%s profile: the process died on a %s mutation of %s (%d bytes) - allocation beyond the harness limit of 1 GiB, or abort: %s" %
                          (prof, m["kind"], m["base"], L, (t["raw"] or "")[:160]),
                          dict(kind="file", file=m["phys"].hex(), mutation=m["kind"], base=m["base"], profile=prof))
            return
        zs = {}
        for kind, label, text, z in calls_of(t):
            if kind == "raw":
                zs[label.split(".")[0]] = z
            if z is None:
                z = zs.get(label.split(".")[0], 0)
            me = tot.meter(text)
            if "m" not in me:
                continue
            a, b = BOUNDS[kind]
            fixed = a * L + b
            st = stats.setdefault(kind, dict(calls=0, max_bytes=0, max_bytes_per_file_byte=0.0, max_ops=0, max_step_us=0, max_over_fixed_bound=0.0))
            st["calls"] += 1
            st["max_bytes"] = max(st["max_bytes"], me["m"])
            if L:
                st["max_bytes_per_file_byte"] = round(max(st["max_bytes_per_file_byte"], max(0, me["m"] - b) / L), 2)
            st["max_ops"] = max(st["max_ops"], me["o"])
            st["max_step_us"] = max(st["max_step_us"], me["t"])
            st["max_over_fixed_bound"] = round(max(st["max_over_fixed_bound"], me["m"] / float(fixed)), 3)
            desc = None
            if me["m"] > fixed and z > 0 and kind in ("raw", "simple"):
                # the regression class of the finding repaired by 803272f: memory grows with the number of zero-width records
                desc = ("c09-zero-width-amplification",
                        "peak additional heap %d bytes in %s on a %d-byte file (%.0f x the file) exceeds the fixed bound %d * len + %d and the prototype has %d zero-width record(s): "
                        "values of zero-width records must not be stored" % (me["m"], label, L, me["m"] / float(max(L, 1)), a, b, z))
            elif me["m"] > fixed:
                desc = ("c09-memory-bound", "peak additional heap %d bytes in %s exceeds %d * %d + %d" % (me["m"], label, a, L, b))
            elif me["o"] > OPS_PER_PAGE * pages + OPS_CONST:
                desc = ("c09-device-operations", "%d device operations in %s on a file of %d pages (bound %d * pages + %d)" % (me["o"], label, pages, OPS_PER_PAGE, OPS_CONST))
            elif prof == "release" and max(me["t"], 0) > TIME_LIMIT_US:
                desc = ("c09-time", "a single call of %s took %d us" % (label, me["t"]))
            elif re.search(r" over( |$)|end=over", text):
                desc = ("c09-count", "%s yielded more points than the declared record count: %s" % (label, tot.strip_meter(text)[:160]))
            if desc:
                n_bad += 1
                key = desc[0]
                if key not in worst or me["m"] > worst[key][0]:
                    worst[key] = (me["m"], desc[1], m, prof, label)

    for i, m in enumerate(muts):
        rep.count(2)
        rep.distinct((m["kind"], m["base"], tot.gen.fnv_hex(m["phys"])))
        for prof in ("debug", "release"):
            judge(prof, m, res["tot"][prof][i])
        td = res["tot"]["debug"][i]
        if res["model"][i] is not None and not td["crash"] and not td["panics"]:
            n_model += 1
            st, detail = tot.compare(td, res["model"][i])
            if st == "xml_layer_not_modelled":
                n_skip += 1
            elif st == "mismatch":
                n_corr += 1
                rep.violation("correspondence-c09", "model and implementation differ (result, values or number of device operations) on a %s mutation of %s: %s" % (m["kind"], m["base"], detail),
                              dict(kind="file", file=m["phys"].hex(), mutation=m["kind"], base=m["base"],
                                   failing="correspondence reader model vs implementation incl. device operation counts (theorems C09_*)"), no_input=True)
    for i, m in enumerate(res["big"]["muts"]):
        rep.count(2)
        for prof in ("debug", "release"):
            judge(prof, m, tot.parse_tot(res["big"]["out"][prof][i]))
    # descriptors through the API: cost and correspondence
    fr = res["free"]
    for i, line in enumerate(fr["lines"]):
        rep.count(2)
        rep.distinct(("free", line[-120:]))
        toks = line.split()
        phys_len = len(toks[1]) // 2
        for prof in ("debug", "release"):
            o = fr["out"][prof][i]
            t = tot.parse_tot(o)
            if t["crash"]:
                n_bad += 1
                rep.violation("c09-abort", "the process died on %s (%s)" % (line[:60], fr["notes"][i]), dict(kind="free-descriptor", case=line))
                continue
            sec = t["sections"][0] if t["sections"] else ""
            me = tot.meter(sec)
            if "m" in me:
                kind = "raw" if sec.startswith("raw:") else "bl"
                z = zero_width_count(toks[5]) if kind == "raw" and toks[5] != "-" else 0
                a, b = BOUNDS[kind]
                if me["m"] > a * phys_len + b:
                    n_bad += 1
                    rep.violation("c09-memory-bound", "peak additional heap %d bytes for %s ... (%s) on a %d-byte file" % (me["m"], " ".join(toks[:1] + toks[2:6])[:120], fr["notes"][i], phys_len),
                                  dict(kind="free-descriptor", case=line))
                if " over" in sec:
                    n_bad += 1
                    rep.violation("c09-count", "more points than records: %s" % tot.strip_meter(sec)[:160], dict(kind="free-descriptor", case=line))
        if tot.comparable_free(fr["out"]["debug"][i]) != fr["model"][i]:
            n_corr += 1
            rep.violation("correspondence-c09", "model and implementation differ on %s (%s): impl [%s] model [%s]" %
                          (line.split()[0], fr["notes"][i], tot.comparable_free(fr["out"]["debug"][i])[:150], fr["model"][i][:150]),
                          dict(kind="free-descriptor", case=line, failing="correspondence raw iteration / blob model vs implementation incl. device operation counts"), no_input=True)
    for cls, (mbytes, desc, m, prof, label) in sorted(worst.items()):
        rep.violation(cls, "%s profile, %s mutation of %s: %s" % (prof, m["kind"], m["base"], desc),
                      dict(kind="file", file=m["phys"].hex(), mutation=m["kind"], base=m["base"], entry=label, profile=prof, note=m.get("note", "")))
    kinds = {}
    for m in muts:
        kinds[m["kind"]] = kinds.get(m["kind"], 0) + 1
    rep.cov.update(mutants=len(muts), mutation_kinds=kinds, free_descriptor_cases=len(fr["lines"]),
                   large_bundled_files=[m["base"] for m in res["big"]["muts"]],
                   bounds={k: "%d * len(file) + %d" % v for k, v in BOUNDS.items()},
                   bounds_note="the bounds do not depend on the prototype; a raw or simple iteration over a prototype with zero-width records that exceeds its bound is reported as "
                               "c09-zero-width-amplification (regression probes: hand-built files with 100 and 500 zero-width records), anything else as c09-memory-bound; device operations per call <= %d * pages + %d; every single call <= %d us (release)" % (OPS_PER_PAGE, OPS_CONST, TIME_LIMIT_US),
                   measured=stats, calls_over_a_bound=n_bad, model_runs=n_model, xml_layer_not_modelled=n_skip, correspondence_failures=n_corr,
                   traces_validated_against_impl=n_model + len(fr["lines"]), harness_allocation_limit_bytes=1 << 30)
    if muts:
        k = len(muts) // 3
        rep.sample(dict(kind=muts[k]["kind"], base=muts[k]["base"], impl=res["out"]["release"][k][:400]))
    rep.cov["rule"] = ("same inputs as C08 (structure-aware mutants of written and bundled files with re-sealed checksums, unsealed damage, truncations, extensions, hand-built files on the "
                       "zero-width / huge-count / skipped-packet guards, descriptors through the API, the large bundled files). Every call of every reading entry point is measured: peak additional "
                       "heap (counting global allocator), device operations, wall time; iterators are driven to their first Err/None (capped at 2*10^6 points when the declared count exceeds 10^6) and "
                       "the number of points is compared with the declared count. Oracle: the explicit bounds listed under `bounds`; points <= recordCount. Correspondence: the extracted model "
                       "agrees on result class, values and the exact number of device operations of every binary entry point. distinct = distinct (mutation kind, base, file hash)")
