"""C20 - the bundled command-line tools preserve data end to end.

The five tool BINARIES (built from /repo's workspace) are run on generated
inputs in a scratch directory:
  (A) XYZ text -> e57-from-xyz -> e57-to-xyz -> XYZ text
  (B) e57-check-crc on files from the real writer, intact and damaged
  (C) e57-extract-xml and e57-unpack against what the library returns
Direct oracle = the property text (independent Python code: vlib/xyztext.py,
vlib/crc.py); the model Model/Tools.v runs on the same inputs through the
extracted driver with its oracles (f32 parsing, ryu, Display) given as tables
of what the real functions returned."""
import os, shutil, struct, tempfile
from concurrent.futures import ThreadPoolExecutor
from vlib import core, gen, crc, toolsbuild, xyztext as X
from props import c01

PACKET = 4334        # points per packet of the from-xyz prototype: (65535 - 6 - 12 - 6 - 500) * 8 // 120


def hx(b):
    return b.hex() if b else "-"


# ------------------------------------------------------------------ (A) XYZ generator

SPECIAL_BITS = [0x00000000, 0x80000000, 0x00000001, 0x80000001, 0x007fffff, 0x00800000, 0x7f7fffff, 0xff7fffff,
                0x3f800000, 0xbf800000, 0x4b800000, 0x4b800001, 0x4b7fffff, 0x3dcccccd, 0x40490fdb, 0x00000002,
                0x7f000000, 0x33800000, 0x3f7fffff, 0x3f800001, 0xc2c80000, 0x461c4000]


def rand_f32_bits(rng):
    c = rng.below(10)
    if c < 3:
        return rng.choice(SPECIAL_BITS)
    if c < 5:
        # small integers and short decimals
        v = rng.range(-2000, 2000) / rng.choice([1, 1, 2, 4, 10, 100, 1000])
        return struct.unpack("<I", struct.pack("<f", v))[0]
    b = rng.below(1 << 32)
    if (b & 0x7f800000) == 0x7f800000:
        b &= 0xbfffffff
    if c == 5:
        b &= 0x807fffff          # subnormal
    return b


_POOL = []


def coord_text(rng, fast=False):
    if fast:
        # a pool of texts: long files repeat coordinates (the per-text work is the exact rounding)
        if len(_POOL) < 1500:
            b = rand_f32_bits(rng)
            _POOL.append(X.shortest(b) if rng.chance(2, 3) else rng.choice(X.text_variants(b, rng)))
            return _POOL[-1]
        return rng.choice(_POOL)
    b = rand_f32_bits(rng)
    c = rng.below(12)
    if c == 0:
        # free decimal text, not tied to a bit pattern (rounds somewhere; may overflow to inf)
        return "%s%d.%0*de%d" % (rng.choice(["", "-", "+"]), rng.below(10 ** rng.range(0, 10)), rng.range(1, 18),
                                 rng.below(10 ** 9), rng.range(-50, 39))
    if c == 1:
        return rng.choice(["0.1", "3.14159265358979", "1e-46", "3.4028236e38", "0.000", "-0.0", "+0", "1e38", "7e-46",
                           "16777217", "1.00000001", "123456789", "2.5e-45", "1.17549435e-38", "1.1754942e-38"])
    return rng.choice(X.text_variants(b, rng))


def color_text(rng, v=None):
    v = rng.choice([0, 1, 127, 128, 254, 255, rng.below(256)]) if v is None else v
    c = rng.below(8)
    if c == 0:
        return "+%d" % v
    if c == 1:
        return "%03d" % v
    if c == 2:
        return "0" * rng.range(1, 30) + str(v)
    return str(v)


JUNK = ["extra", "7", "0.5", "#", "nan", "x=1", "\t", "a\tb", "\u00fc", "255", "-1", "1e9999", "\x1c", "\u200b"]
BAD_COORD = ["abc", "1,5", "0x10", "1e", "--1", "1_0", ".", "e5", "+", "-", "1.5f", "\uff11", "1.2.3", "1e5.0", "\u00fc", "in", "nane", "1\t2", "\x0b1"]
BAD_COLOR = ["256", "-1", "-0", "1.0", "1e2", "0x7", "+", "", "999999999999999999999", "12a", "\u0663", "+-1", "1 ", "\t5"]
WS_LEAD = ["", "", "", " ", "  ", "\t", " \t ", "\x0b", "\x0c", "\r", "\xa0", "\u2003", "\u3000"]
WS_TRAIL = ["", "", "", " ", "   ", "\t", "\r", " \r", "\x0c\x0b", "\x85", "\u2028"]


def gen_line(rng, kind, fast=False):
    """-> text of one line without terminator.  kind: pt | short | bad | nonfinite | tabs"""
    if kind == "pt":
        cols = [coord_text(rng, fast) for _ in range(3)] + [color_text(rng) for _ in range(3)]
        if not fast and rng.chance(1, 3):
            for _ in range(rng.range(1, 4)):
                cols.append(rng.choice(JUNK))
            if rng.chance(1, 4):
                cols.insert(rng.range(6, len(cols)), "")          # double space after the sixth column
        body = " ".join(cols)
        if fast:
            return body
        return rng.choice(WS_LEAD) + body + rng.choice(WS_TRAIL)
    if kind == "short":
        n = rng.below(6)
        cols = [rng.choice([coord_text(rng, True), color_text(rng), "abc", "256", "\u00fc"]) for _ in range(n)]
        c = rng.below(6)
        if c == 0:
            return rng.choice(["", " ", "\t", "  \t ", "\r"])
        if c == 1 and n >= 2:
            return "\t".join(cols)
        return rng.choice(WS_LEAD) + " ".join(cols) + rng.choice(WS_TRAIL)
    if kind == "tabs":
        # six good columns separated by tabs: one part for split(' ')
        return "\t".join([coord_text(rng, True) for _ in range(3)] + [color_text(rng) for _ in range(3)])
    if kind == "nonfinite":
        cols = [coord_text(rng, True) for _ in range(3)] + [color_text(rng) for _ in range(3)]
        cols[rng.below(3)] = rng.choice(["inf", "-inf", "NaN", "nan", "+infinity", "1e39", "-3.5e38", "INF"])
        return " ".join(cols)
    # bad: at least six parts, one of the first six does not parse
    cols = [coord_text(rng, True) for _ in range(3)] + [color_text(rng) for _ in range(3)]
    c = rng.below(6)
    if c == 0:
        cols[rng.below(3)] = rng.choice(BAD_COORD)
    elif c == 1:
        cols[3 + rng.below(3)] = rng.choice(BAD_COLOR)
    elif c == 2:
        cols.insert(rng.below(6), "")                              # double space inside the first six columns
        if rng.chance(1, 2):
            cols = cols[:6]
    elif c == 3:
        i = rng.below(5)
        cols[i:i + 2] = [cols[i] + "\t" + cols[i + 1]]             # a tab instead of one space
        cols += ["1", "2"]
    elif c == 4:
        cols[rng.below(6)] += rng.choice(["\x1c", "\u200b", "\x00"])
    else:
        cols[rng.below(6)] = ""
        cols.append("9")
    return " ".join(cols) + (" " + rng.choice(JUNK) if rng.chance(1, 3) else "")


def gen_xyz_file(rng, nlines, mix, fast=False):
    """-> (bytes, domain) ; mix: weights of line kinds; domain 'in' (the property's quantifier) or 'outside'"""
    kinds = []
    for k, w in mix.items():
        kinds += [k] * w
    out = bytearray()
    domain = "in"
    for i in range(nlines):
        k = rng.choice(kinds)
        if k == "rawbytes":
            line = rng.choice([b"\xff 1 2 3 4 5", b"1 2 3 4 5 6 \xc3", b"\xed\xa0\x80", b"1 2 3 4 5 \xc0\x80", b"\xf4\x90\x80\x80"])
            domain = "outside"
        else:
            if k == "nonfinite":
                domain = "outside"
            line = gen_line(rng, k, fast).encode("utf-8")
        term = b"\n"
        if not fast:
            t = rng.below(10)
            term = b"\r\n" if t < 2 else b"\n"
            if i == nlines - 1 and rng.chance(1, 2):
                term = b""
        out += line + term
    return bytes(out), domain


_PARSE_MEMO = {}


def parse_f32_memo(t):
    if t not in _PARSE_MEMO:
        _PARSE_MEMO[t] = X.parse_f32_text(t)
    return _PARSE_MEMO[t]


def xyz_expect(data):
    """The property text on one input: -> ('abort', reason) | ('ok', [(xbits, ybits, zbits, r, g, b)], coltexts)
    coltexts: the texts of the first three columns of every line with at least six parts (for the oracle table)"""
    lines = data.split(b"\n")
    lines = [l + b"\n" for l in lines[:-1]] + ([lines[-1]] if lines[-1] else [])
    pts, texts, abort = [], [], None
    for ln in lines:
        try:
            s = ln.decode("utf-8")
        except UnicodeDecodeError:
            abort = abort or "line is not UTF-8"
            continue
        parts = X.rust_trim(s).split(" ")
        if len(parts) < 6:
            continue
        texts += parts[:3]
        c = [parse_f32_memo(p) for p in parts[:3]]
        u = [X.parse_u8_text(p) for p in parts[3:6]]
        if None in c or None in u:
            abort = abort or "a column of %r does not parse" % " ".join(parts[:6])[:60]
            continue
        pts.append(tuple(c) + tuple(u))
    if abort:
        return ("abort", abort, texts)
    return ("ok", pts, texts)


def run_xyz_batch(files, tools, impl, rep, tmp, par=8):
    """files: list of dict(data, domain, tag).  Runs the two tools on each; fills rc/outputs; direct oracle and
    model comparison.  Returns counters."""
    # 1. tools
    def work(i):
        f = files[i]
        d = os.path.join(tmp, "x%d" % i)
        os.makedirs(d)
        p = os.path.join(d, "in.xyz")
        with open(p, "wb") as fh:
            fh.write(f["data"])
        f["rc1"], _, f["err1"] = toolsbuild.run_tool(tools["e57-from-xyz"], ["in.xyz"], d)
        f["e57"] = open(p + ".e57", "rb").read() if os.path.exists(p + ".e57") else None
        f["rc2"], f["out"] = None, None
        if f["rc1"] == 0:
            f["rc2"], _, f["err2"] = toolsbuild.run_tool(tools["e57-to-xyz"], ["in.xyz.e57"], d)
            o = p + ".e57.xyz"
            f["out"] = open(o, "rb").read() if os.path.exists(o) else None
            f["rc3"], _, _ = toolsbuild.run_tool(tools["e57-check-crc"], ["in.xyz.e57"], d)
        shutil.rmtree(d, ignore_errors=True)
    with ThreadPoolExecutor(max_workers=par) as ex:
        list(ex.map(work, range(len(files))))
    # 2. oracle tables: Rust's parse of every column text, of every output coordinate text
    for f in files:
        f["exp"] = xyz_expect(f["data"])
    col_texts = sorted({t for f in files for t in f["exp"][2]})
    out_texts = set()
    for f in files:
        if f["out"]:
            for ln in f["out"].split(b"\n"):
                out_texts.update(ln.split(b" ")[:3])
    out_texts.discard(b"")
    out_texts = sorted(out_texts)
    CH = 400
    enc = [hx(t.encode("utf-8")) for t in col_texts]
    p32 = " ".join(core.run_cases(impl, ["F32PARSE " + " ".join(enc[i:i + CH]) for i in range(0, len(enc), CH)])).split()
    parse_tab = dict(zip(col_texts, p32))
    enc = [hx(t) for t in out_texts]
    o64 = " ".join(core.run_cases(impl, ["F64PARSE " + " ".join(enc[i:i + CH]) for i in range(0, len(enc), CH)])).split()
    o32 = " ".join(core.run_cases(impl, ["F32PARSE " + " ".join(enc[i:i + CH]) for i in range(0, len(enc), CH)])).split()
    ryu64 = dict(zip(out_texts, o64))
    ryu32 = dict(zip(out_texts, o32))
    cnt = dict(files=0, lines_kept=0, aborts=0, outside=0, outside_mismatch=0, ryu_texts=len(out_texts), parse_texts=len(col_texts),
               corr=0, direct=0)
    # Python's grammar/rounding against Rust's on the texts of this run (the oracle of the oracle)
    for t in col_texts:
        mine = parse_f32_memo(t)
        if ("x" if mine is None else "%08x" % mine) != parse_tab[t]:
            rep.violation("correspondence-c20", "f32::from_str(%r) = %s but the exact-rounding reference says %s" % (
                t, parse_tab[t], mine), dict(kind="f32parse", text=t), no_input=True)
    # hypothesis H2: what ryu printed parses back (Rust and Python agree on the f64), and is a canonical text per value
    rev = {}
    for t in out_texts:
        k = ryu64[t]
        try:
            pv = float(t.decode("ascii"))
            pk = "7ff8000000000000" if pv != pv else "%016x" % X.f64_bits(pv)
        except (ValueError, UnicodeDecodeError):
            pk = "x"
        if k in ("x", "u") or pk != k:
            rep.violation("c20-ryu-text-unparsable", "e57-to-xyz printed the coordinate text %r which does not parse back consistently "
                          "(Rust f64: %s, Python: %s)" % (t, k, pk), dict(kind="ryu", text=t.hex()))
            cnt["direct"] += 1
        if k in rev and rev[k] != t:
            rep.violation("correspondence-c20", "two different texts for one f64 value %s: %r and %r" % (k, rev[k], t),
                          dict(kind="ryu", text=t.hex()), no_input=True)
        rev[k] = t
    # 3. per file: direct oracle, then model
    cases, idx = [], []
    for fi, f in enumerate(files):
        cnt["files"] += 1
        rep.count()
        exp = f["exp"]
        replay = dict(kind="xyz", input_hex=f["data"].hex(), input_text=f["data"].decode("utf-8", "replace")[:2000], tag=f["tag"])
        bad = None
        cls = None
        if -1 in (f["rc1"], f["rc2"]):
            bad, cls = "a tool was killed by a signal or timed out", "c20-tool-crash"
        elif exp[0] == "abort":
            cnt["aborts"] += 1
            if f["rc1"] == 0:
                bad, cls = "e57-from-xyz exits 0 although %s" % exp[1], "c20-bad-input-accepted"
        else:
            pts = exp[1]
            if f["rc1"] != 0:
                bad, cls = "e57-from-xyz fails (status %s: %s) on a well-formed input" % (f["rc1"], f["err1"][-120:]), "c20-from-xyz-fails"
            elif f["rc2"] != 0 or f["out"] is None:
                bad, cls = "e57-to-xyz fails (status %s) on the file e57-from-xyz wrote" % f["rc2"], "c20-to-xyz-fails"
            elif f.get("rc3") != 0:
                bad, cls = "e57-check-crc rejects the file e57-from-xyz wrote", "c20-written-file-crc"
            else:
                olines = f["out"].split(b"\n")
                if olines[-1] != b"":
                    bad, cls = "output does not end with a newline", "c20-output-format"
                olines = olines[:-1]
                if not bad and len(olines) != len(pts):
                    bad, cls = "%d lines have six columns, the output has %d lines" % (len(pts), len(olines)), "c20-line-count"
                if not bad:
                    for li, (ol, p) in enumerate(zip(olines, pts)):
                        toks = ol.split(b" ")
                        fin = all(X.f32_is_finite(b) for b in p[:3])
                        if len(toks) != 6:
                            bad, cls = "output line %d has %d columns: %r" % (li, len(toks), ol[:80]), "c20-output-format"
                            break
                        try:
                            got = [float(t.decode("ascii")) for t in toks[:3]]
                            col = [int(t.decode("ascii")) for t in toks[3:]]
                        except (ValueError, UnicodeDecodeError):
                            bad, cls = "output line %d is not numeric: %r" % (li, ol[:80]), "c20-output-format"
                            break
                        if list(col) != list(p[3:]):
                            bad, cls = "colours of kept line %d: input %s, output %s" % (li, list(p[3:]), col), "c20-colour-changed"
                            break
                        if fin:
                            want = [X.f32_value(b) for b in p[:3]]
                            # numerically unchanged: the text, read as f32, is the stored f32 (a zero may come back with either sign)
                            if got != want or any((int(ryu32.get(t, "x").replace("x", "7fc00000").replace("u", "7fc00000"), 16) != b)
                                                  and not ((b & 0x7fffffff) == 0 and ryu32.get(t) in ("00000000", "80000000"))
                                                  for t, b in zip(toks[:3], p[:3])):
                                bad = "coordinates of kept line %d: input f32 values %r, output %r" % (li, want, got)
                                cls = "c20-coordinate-changed"
                                break
                        else:
                            # outside "finite coordinates": recorded, not judged
                            want = [X.f32_value(b) for b in p[:3]]
                            same = all((g != g and w != w) or g == w for g, w in zip(got, want))
                            cnt["outside_mismatch"] += 0 if same else 1
                            if not same and "nonfinite_example" not in cnt:
                                cnt["nonfinite_example"] = dict(input_values=[repr(w) for w in want], output_line=ol.decode("ascii", "replace"))
                    cnt["lines_kept"] += len(pts)
        if f["domain"] == "outside":
            cnt["outside"] += 1
        if bad:
            cnt["direct"] += 1
            rep.violation(cls, "XYZ round trip (%s): %s" % (f["tag"], bad), replay)
        f["direct_bad"] = bad
        # model cases
        texts = sorted(set(exp[2]))
        ptab = ",".join("%s=%s" % (hx(t.encode("utf-8")), parse_tab[t]) for t in texts) or "-"
        rtab = "-"
        if f["out"]:
            ts = set()
            for ln in f["out"].split(b"\n"):
                ts.update(ln.split(b" ")[:3])
            ts.discard(b"")
            rtab = ",".join("%s=%s" % (ryu64[t], t.hex()) for t in sorted(ts) if ryu64[t] not in ("x", "u")) or "-"
        cases.append("XYZRT %s %s %s" % (hx(f["data"]), ptab, rtab)); idx.append((fi, "rt"))
        cases.append("XYZPTS %s %s" % (hx(f["data"]), ptab)); idx.append((fi, "pts"))
    mout = core.run_cases(core.DRIVER, cases)
    # the points e57-from-xyz stored, read back by the library (raw iterator)
    rcases = [(fi, "RAWPTS - " + f["e57"].hex()) for fi, f in enumerate(files) if f["rc1"] == 0 and f["e57"]]
    rout = dict(zip([fi for fi, _ in rcases], core.run_cases(impl, [c for _, c in rcases])))
    for (fi, what), mo in zip(idx, mout):
        f = files[fi]
        replay = dict(kind="xyz", input_hex=f["data"].hex(), tag=f["tag"], failing="correspondence Model/Tools.v vs tool binaries (theorems C20_xyz_roundtrip, C20_line_filter)")
        dis = None
        if what == "rt":
            if f["rc1"] != 0:
                if not mo.startswith("e"):
                    dis = "e57-from-xyz aborts (status %s), the model says %s" % (f["rc1"], mo[:80])
            elif f["out"] is not None:
                want = "ok " + hx(f["out"])
                if mo != want:
                    dis = "tool output and model output differ: tool %s... model %s..." % (want[:100], mo[:100])
            rep.distinct(("xyz", gen.fnv_hex(f["data"])))
        else:
            if f["rc1"] == 0 and fi in rout:
                r = rout[fi]
                lib = r[3:].strip() if r.startswith("ok") else r
                # library tokens f<8hex>,...,i<dec> -> model format
                norm = "-"
                if lib and lib != "-":
                    norm = ";".join(",".join(v[1:] for v in p.split(",")) for p in lib.split(";"))
                mo_n = mo[3:] if mo.startswith("ok ") else mo
                # f32 parsing yields one NaN; the stored payload is that NaN's
                if norm != mo_n:
                    dis = "points stored by e57-from-xyz (read back raw) differ from the model's: file %s... model %s..." % (norm[:100], mo_n[:100])
        if dis:
            cnt["corr"] += 1
            rep.violation("correspondence-c20", "XYZ (%s): %s" % (f["tag"], dis), replay, no_input=not f.get("direct_bad"))
    return cnt


def xyz_files(rng, tier):
    files = []
    def add(data, domain, tag):
        files.append(dict(data=data, domain=domain, tag=tag))
    good = dict(pt=8, short=2)
    add(b"", "in", "empty")
    add(b"\n", "in", "one blank line")
    add(b"1 2 3 4 5 6", "in", "one line without newline")
    add(b"1 2 3 4 5 6\r\n", "in", "CRLF")
    add(b"-0 -0.0 -0e5 0 0 0\n-0 -1 -1 1 1 1\n", "in", "negative zeros")
    add(b"1\t2\t3\t4\t5\t6\n", "in", "tab separated (one part)")
    add(b"1 2 3 4 5 6\n1\t2 3 4 5 6 7\n", "in", "tab inside the first six columns")
    add(b"1  2 3 4 5 6\n", "in", "double space")
    add(b"1 2 3 4 5 6  7\n", "in", "double space after column six")
    add("\xa01 2 3 4 5 6 \n".encode("utf-8"), "in", "unicode whitespace around")
    add("1 2 3 4 5 6\x1c\n".encode("utf-8"), "in", "U+001C is not whitespace")
    # every colour value, in all three channels
    add(b"".join(b"0.5 1.5 -2.5 %d %d %d\n" % (v, 255 - v, (v * 7) % 256) for v in range(256)), "in", "all 256 colour values")
    n_rand = 220 if tier == "quick" else 4000
    for i in range(n_rand):
        n = rng.choice([0, 1, 2, 3, 5, 9, 17, 40]) if rng.chance(5, 6) else rng.range(40, 300)
        data, dom = gen_xyz_file(rng, n, good)
        add(data, dom, "random well-formed #%d" % i)
    for i in range(60 if tier == "quick" else 800):
        n = rng.choice([1, 2, 3, 5, 9])
        data, dom = gen_xyz_file(rng, n, dict(pt=5, short=2, bad=2, tabs=1))
        add(data, dom, "with malformed lines #%d" % i)
    for i in range(24 if tier == "quick" else 300):
        data, dom = gen_xyz_file(rng, rng.choice([1, 2, 4]), dict(pt=3, nonfinite=2, rawbytes=1, short=1))
        add(data, dom, "outside the quantifier #%d" % i)
    # more than one packet
    big = [PACKET - 1, PACKET, PACKET + 1, 5003] if tier == "quick" else [PACKET - 1, PACKET, PACKET + 1, 5003, 2 * PACKET, 2 * PACKET + 1, 13001]
    for n in big:
        data, dom = gen_xyz_file(rng, n, dict(pt=30, short=1), fast=True)
        add(data, dom, "%d lines (packet capacity %d)" % (n, PACKET))
    return files


# ------------------------------------------------------------------ (B) (C) E57 files

IMG_KINDS = ["v", "p", "s", "c"]


def e57_programs(rng, tier):
    progs = []
    proto6 = [("x", "F"), ("y", "F"), ("z", "F"), ("r", "I/0/255"), ("g", "I/0/255"), ("b", "I/0/255")]
    progs.append([("P", proto6, gen.rand_points(rng, proto6, 12))])
    progs.append([("B", rng.bytes(700)), ("P", proto6, gen.rand_points(rng, proto6, 3)), ("I", "v", rng.bytes(300), rng.bytes(40)),
                  ("I", "p", rng.bytes(1500), None), ("I", "s", rng.bytes(10), rng.bytes(1030)), ("I", "c", b"", None)])
    protod = [("x", "D"), ("y", "D"), ("z", "D"), ("in", "S/0/1000/3f50624dd2f1a9fc/0000000000000000"), ("row", "I/-5/5")]
    progs.append([("P", protod, gen.rand_points(rng, protod, 150)), ("P", proto6, [])])
    n = 25 if tier == "quick" else 400
    for _ in range(n):
        items = []
        for _ in range(rng.range(1, 4)):
            c = rng.below(10)
            if c < 2:
                items.append(("B", rng.bytes(rng.choice([0, 1, 5, 1019, 1020, 1021, rng.range(0, 2500)]))))
            elif c < 4:
                items.append(("I", rng.choice(IMG_KINDS), rng.bytes(rng.range(0, 1500)), rng.bytes(rng.range(0, 300)) if rng.chance(1, 2) else None))
            else:
                proto = gen.rand_proto(rng, small=rng.chance(1, 2))
                items.append(("P", proto, gen.rand_points(rng, proto, rng.choice([0, 1, 2, 5, 17, 64]))))
        progs.append(items)
    return progs


def write_files(progs, impl):
    """run the writer programs through the real library; -> list of dict(items, dev, xml, outs)"""
    lines = ["FW - " + " ".join(c01.item_tok(i) for i in items) + " DUMP" for items in progs]
    outs = core.run_cases(impl, lines)
    res = []
    for items, o in zip(progs, outs):
        if " dev=" not in o or "reopen-failed" in o:
            continue
        dev = bytes.fromhex(o.split(" dev=")[1].strip())
        xml = bytes.fromhex(o.split(" xml=")[1].split(" ")[0]) if " xml=" in o else b""
        res.append(dict(items=items, dev=dev, xml=xml, fw=o.split(" | ")[0].split()))
    return res


def py_crc_ok(data):
    """the property text of e57-check-crc, from the format: the file is a whole number of pages of the size
    announced in the header, each with a valid CRC-32C"""
    if len(data) < 48:
        return False
    ps = int.from_bytes(data[40:48], "little")
    if not (4 < ps <= 1024 * 1024) or len(data) % ps != 0:
        return False
    for p in range(len(data) // ps):
        pg = data[p * ps:(p + 1) * ps]
        if crc.crc32c(pg[:ps - 4]).to_bytes(4, "big") != pg[ps - 4:]:
            return False
    return True


def alterations(rng, dev, tier):
    """[(kind, bytes)] damaged versions of one file"""
    alts = []
    pages = len(dev) // 1024
    per_page = 3 if tier == "quick" else 24
    for pg in range(pages):
        for _ in range(per_page):
            pos = pg * 1024 + rng.below(1024)
            b = bytearray(dev); b[pos] ^= 1 << rng.below(8)
            alts.append(("bitflip page %d byte %d" % (pg, pos), bytes(b)))
    for cut in sorted({0, 1, 47, 48, 1023, 1024, len(dev) - 1, len(dev) - 1024, rng.below(len(dev))}):
        if 0 <= cut < len(dev):
            alts.append(("truncated to %d" % cut, dev[:cut]))
    alts.append(("1 byte appended", dev + b"\x00"))
    alts.append(("random page appended", dev + rng.bytes(1024)))
    alts.append(("sealed zero page appended", dev + crc.paginate(bytes(1020))))
    alts.append(("4 bytes appended", dev + b"\x00\x00\x00\x00"))
    return alts


CSV_NAMES = {"x": "CartesianX", "y": "CartesianY", "z": "CartesianZ", "cis": "CartesianInvalidState", "sr": "SphericalRange",
             "sa": "SphericalAzimuth", "se": "SphericalElevation", "sis": "SphericalInvalidState", "in": "Intensity",
             "iin": "IsIntensityInvalid", "r": "ColorRed", "g": "ColorGreen", "b": "ColorBlue", "ici": "IsColorInvalid",
             "row": "RowIndex", "col": "ColumnIndex", "rc": "ReturnCount", "ri": "ReturnIndex", "ts": "TimeStamp",
             "its": "IsTimeStampInvalid"}


def rust_f64_debug(bits):
    v = struct.unpack("<d", struct.pack("<Q", bits))[0]
    s = repr(v)
    return s if ("e" not in s and "inf" not in s and "nan" not in s) else None


def csv_header(proto):
    cols = []
    for n, t in proto:
        p = t.split("/")
        if p[0] == "F":
            ty = "Single { min: None, max: None }"
        elif p[0] == "D":
            ty = "Double { min: None, max: None }"
        elif p[0] == "I":
            ty = "Integer { min: %s, max: %s }" % (p[1], p[2])
        else:
            sc = rust_f64_debug(int(p[3], 16) if len(p) > 3 else 0x3ff0000000000000)
            of = rust_f64_debug(int(p[4], 16) if len(p) > 4 else 0)
            if sc is None or of is None:
                return None
            ty = "ScaledInteger { min: %s, max: %s, scale: %s, offset: %s }" % (p[1], p[2], sc, of)
        cols.append("%s %s" % (CSV_NAMES.get(n, "?"), ty))
    return ";".join(cols) + "\n"


def unpack_dir(tools, tmp, name, data, no_points=False):
    """run e57-unpack on one file; -> (rc, {file name: bytes}, stderr)"""
    d = os.path.join(tmp, name)
    os.makedirs(d)
    with open(os.path.join(d, "f.e57"), "wb") as fh:
        fh.write(data)
    rc, _, err = toolsbuild.run_tool(tools["e57-unpack"], ["f.e57"] + (["--no-points"] if no_points else []), d)
    files = {}
    ud = os.path.join(d, "f.e57_unpacked")
    if os.path.isdir(ud):
        for fn in sorted(os.listdir(ud)):
            files[fn] = open(os.path.join(ud, fn), "rb").read()
    shutil.rmtree(d, ignore_errors=True)
    return rc, files, err


def expected_image_files(imgs_line):
    """IMGS harness output -> {file name: (length, fnv)}"""
    exp = {}
    if not imgs_line.startswith("ok"):
        return None
    body = imgs_line[2:].strip()
    if not body:
        return exp
    for i, part in enumerate(body.split(" # ")):
        t = part.split()
        k = 1
        while k < len(t):
            if t[k] == "V":
                ext, ln, h = t[k + 1], t[k + 2], t[k + 3]
                exp["image_%d_preview.%s" % (i, ext)] = (int(ln), h)
                k += 4
                if k < len(t) and t[k] == "M":
                    exp["image_%d_preview_mask.png" % i] = (int(t[k + 1]), t[k + 2])
                    k += 3
            elif t[k] == "P":
                ty, ext, ln, h = t[k + 1], t[k + 2], t[k + 3], t[k + 4]
                exp["image_%d_%s.%s" % (i, ty, ext)] = (int(ln), h)
                k += 5
                if k < len(t) and t[k] == "M":
                    exp["image_%d_%s_mask.png" % (i, ty)] = (int(t[k + 1]), t[k + 2])
                    k += 3
            else:
                return None
    return exp


def run_e57_side(rep, tier, rng, tools, impl, tmp, replay=None):
    cnt = dict(base_files=0, crc_cases=0, crc_intact=0, crc_damaged=0, xml_cases=0, unpack_intact=0, unpack_damaged=0,
               csv_values=0, blobs=0, corr=0, direct=0, dir_runs=0)
    bases = write_files(e57_programs(core.Rng(rng.next()), tier), impl)
    if replay and replay.get("kind") in ("crc", "xmltool", "unpack"):
        bases = [dict(items=None, dev=bytes.fromhex(replay["base_hex"]), xml=b"", fw=[])] if replay.get("base_hex") else bases[:1]
    cnt["base_files"] = len(bases)
    # ---------- (B) check-crc
    crc_cases = []   # (base index, kind, bytes)
    for bi, b in enumerate(bases):
        crc_cases.append((bi, "intact", b["dev"]))
        lim = None if tier == "thorough" or bi < 6 else 8
        alts = alterations(core.Rng(rng.next()), b["dev"], tier)
        if lim:
            alts = [alts[core.Rng(rng.next()).below(len(alts))] for _ in range(lim)]
        for kind, data in alts:
            crc_cases.append((bi, kind, data))
    # crafted: another page size, valid under it (accepted by validate_crc, which does not look at the rest of the header)
    def sealed(ps, npages, r):
        out = bytearray()
        for p in range(npages):
            pl = bytearray(r.bytes(ps - 4))
            if p == 0:
                pl[40:48] = ps.to_bytes(8, "little")
            out += pl + crc.crc32c(bytes(pl)).to_bytes(4, "big")
        return bytes(out)
    for ps, n in ((2048, 2), (64, 5), (1024, 1), (52, 1), (5, 20), (1024 * 1024, 1)):
        crc_cases.append((-1, "crafted page size %d" % ps, sealed(ps, n, core.Rng(rng.next()))))
    if replay and replay.get("kind") == "crc":
        crc_cases = [(-1, "replay", bytes.fromhex(replay["file_hex"]))]
    def crc_work(i):
        bi, kind, data = crc_cases[i]
        d = os.path.join(tmp, "c%d" % i)
        os.makedirs(d)
        with open(os.path.join(d, "f.e57"), "wb") as fh:
            fh.write(data)
        rc, so, se = toolsbuild.run_tool(tools["e57-check-crc"], ["f.e57"], d)
        shutil.rmtree(d, ignore_errors=True)
        return rc
    with ThreadPoolExecutor(max_workers=8) as ex:
        rcs = list(ex.map(crc_work, range(len(crc_cases))))
    lib = core.run_cases(impl, ["VCRC - " + hx(data) if data else "VCRC - 00" for _, _, data in crc_cases])
    # the list-based model is not run on files above 256 KiB (one 1 MiB page is one million list cells)
    MODEL_MAX = 256 * 1024
    mod = core.run_cases(core.DRIVER, ["CHKCRC " + data.hex() for _, _, data in crc_cases if data and len(data) <= MODEL_MAX])
    mi = 0
    for (bi, kind, data), rc, lv in zip(crc_cases, rcs, lib):
        cnt["crc_cases"] += 1
        rep.count()
        want_ok = py_crc_ok(data)
        cnt["crc_intact" if want_ok else "crc_damaged"] += 1
        rep.distinct(("crc", gen.fnv_hex(data)))
        replay_d = dict(kind="crc", file_hex=data.hex(), what=kind)
        bad = None
        if rc == -1:
            bad = "e57-check-crc was killed or timed out"
        elif (rc == 0) != want_ok:
            bad = "e57-check-crc exits %d on a file (%s) whose page checksums are %s" % (rc, kind, "all valid" if want_ok else "not all valid")
        if bad:
            cnt["direct"] += 1
            rep.violation("c20-check-crc-status", bad, replay_d)
        if data:
            lib_ok = lv.startswith("ok")
            mo = "0" if rc == 0 else "1"
            if len(data) <= MODEL_MAX:
                mo = mod[mi]; mi += 1
            if lib_ok != (rc == 0) or (mo == "0") != (rc == 0):
                cnt["corr"] += 1
                rep.violation("correspondence-c20", "check-crc (%s): tool status %d, library validate_crc %s, model status %s" % (kind, rc, lv, mo),
                              dict(replay_d, failing="correspondence check_crc_file vs tool (theorem C20_check_crc)"), no_input=not bad)
    # directory mode: all intact -> 0 ; one damaged among them -> 1 ; non-e57 extensions ignored
    for trial in range(3):
        d = os.path.join(tmp, "dir%d" % trial)
        os.makedirs(os.path.join(d, "sub"))
        good = [b["dev"] for b in bases[:4]]
        for k, g in enumerate(good):
            with open(os.path.join(d, "sub" if k % 2 else "", "g%d.%s" % (k, "E57" if k == 1 else "e57")), "wb") as fh:
                fh.write(g)
        with open(os.path.join(d, "ignored.txt"), "wb") as fh:
            fh.write(b"not an e57 file")
        want = 0
        if trial == 1:
            b = bytearray(good[0]); b[100] ^= 4
            with open(os.path.join(d, "sub", "damaged.e57"), "wb") as fh:
                fh.write(bytes(b))
            want = 1
        if trial == 2:
            with open(os.path.join(d, "short.e57"), "wb") as fh:
                fh.write(good[0][:500])
            want = 1
        rc, so, se = toolsbuild.run_tool(tools["e57-check-crc"], [d], tmp)
        shutil.rmtree(d, ignore_errors=True)
        cnt["dir_runs"] += 1
        rep.count()
        if (rc != 0) != (want != 0):
            cnt["direct"] += 1
            rep.violation("c20-check-crc-status", "e57-check-crc on a directory with %s exits %d" % (
                ["only intact files", "one damaged file", "one truncated file"][trial], rc), dict(kind="crc-dir", trial=trial))
    # ---------- (C) extract-xml and unpack
    xcases = []
    for bi, b in enumerate(bases):
        xcases.append((bi, "intact", b["dev"]))
        alts = alterations(core.Rng(rng.next()), b["dev"], "quick")
        r2 = core.Rng(rng.next())
        for _ in range(6 if tier == "quick" else 40):
            xcases.append((bi,) + alts[r2.below(len(alts))])
    if replay and replay.get("kind") in ("xmltool", "unpack"):
        xcases = [(0, "replay", bytes.fromhex(replay["file_hex"]))]
    def x_work(i):
        bi, kind, data = xcases[i]
        d = os.path.join(tmp, "x%d" % i)
        os.makedirs(d)
        with open(os.path.join(d, "f.e57"), "wb") as fh:
            fh.write(data)
        rc, so, se = toolsbuild.run_tool(tools["e57-extract-xml"], ["f.e57"], d)
        shutil.rmtree(d, ignore_errors=True)
        urc, ufiles, uerr = unpack_dir(tools, tmp, "u%d" % i, data)
        return rc, so, urc, ufiles
    with ThreadPoolExecutor(max_workers=8) as ex:
        xres = list(ex.map(x_work, range(len(xcases))))
    nz = [(i, c) for i, c in enumerate(xcases) if c[2]]
    lib_x = dict(zip([i for i, _ in nz], core.run_cases(impl, ["RAWXML - " + c[2].hex() for _, c in nz])))
    mod_x = dict(zip([i for i, _ in nz], core.run_cases(core.DRIVER, ["XMLTOOL " + c[2].hex() for _, c in nz])))
    intact_idx = {}
    for i, (bi, kind, data) in enumerate(xcases):
        if kind == "intact":
            intact_idx[bi] = i
    # library references for the intact files
    ii = sorted(intact_idx.values())
    lib_pts = dict(zip(ii, core.run_cases(impl, ["RAWPTS - " + xcases[i][2].hex() for i in ii])))
    lib_img = dict(zip(ii, core.run_cases(impl, ["IMGS - " + xcases[i][2].hex() for i in ii])))
    for i, ((bi, kind, data), (rc, so, urc, ufiles)) in enumerate(zip(xcases, xres)):
        rep.count(2)
        cnt["xml_cases"] += 1
        base = bases[bi]
        replay_d = dict(kind="xmltool", file_hex=data.hex(), base_hex=base["dev"].hex(), what=kind)
        ref = xres[intact_idx[bi]] if bi in intact_idx else None
        bad = None
        if rc == -1 or urc == -1:
            bad, cls = "a tool was killed or timed out (%s)" % kind, "c20-tool-crash"
        elif kind == "intact":
            cnt["unpack_intact"] += 1
            if rc != 0 or so != base["xml"]:
                bad, cls = "e57-extract-xml (status %d) does not print the XML section the library returns (%d vs %d bytes)" % (rc, len(so), len(base["xml"])), "c20-extract-xml"
            elif urc != 0:
                bad, cls = "e57-unpack fails (status %d) on an intact file" % urc, "c20-unpack-fails"
            elif ufiles.get("metadata.xml") != base["xml"]:
                bad, cls = "e57-unpack: metadata.xml differs from the XML the library returns", "c20-unpack-xml"
            else:
                b2, c2 = check_unpack_against_library(rep, base, ufiles, lib_pts[i], lib_img[i], impl, cnt)
                if b2:
                    bad, cls = b2, c2
        else:
            cnt["unpack_damaged"] += 1
            # damaged: fail, or emit exactly what the undamaged file gives
            if rc == 0 and ref and so != ref[1]:
                bad, cls = "e57-extract-xml exits 0 on a damaged file (%s) and prints different XML" % kind, "c20-extract-xml-damaged"
            elif rc != 0 and so not in (b"",) and ref and not ref[1].startswith(so):
                bad, cls = "e57-extract-xml fails on a damaged file (%s) but has already printed different bytes" % kind, "c20-extract-xml-damaged"
            elif ref:
                for fn, content in ufiles.items():
                    if fn.endswith(".txt") and fn != "metadata.txt" and urc != 0:
                        pass
                    want = ref[3].get(fn)
                    if want is None:
                        if urc == 0:
                            bad, cls = "e57-unpack exits 0 on a damaged file (%s) and writes an extra file %s" % (kind, fn), "c20-unpack-damaged"
                            break
                        continue
                    okc = (content == want) if urc == 0 else want.startswith(content)
                    if not okc:
                        bad, cls = "e57-unpack (status %d) on a damaged file (%s) writes different data into %s" % (urc, kind, fn), "c20-unpack-damaged"
                        break
                if not bad and urc == 0 and set(ufiles) != set(ref[3]):
                    bad, cls = "e57-unpack exits 0 on a damaged file (%s) with a different set of files" % kind, "c20-unpack-damaged"
        if bad:
            cnt["direct"] += 1
            rep.violation(cls, bad, dict(replay_d, kind="unpack" if "unpack" in cls else "xmltool"))
        if data:
            lv, mv = lib_x[i], mod_x[i]
            tool_s = ("0 n=%d h=%s" % (len(so), gen.fnv_hex(so))) if rc == 0 else "1"
            lib_s = "0 " + lv[3:] if lv.startswith("ok") else "1"
            if tool_s != lib_s or tool_s != mv:
                cnt["corr"] += 1
                rep.violation("correspondence-c20", "extract-xml (%s): tool %s, library raw_xml %s, model %s" % (kind, tool_s, lv, mv),
                              dict(replay_d, failing="correspondence extract_xml_tool vs tool (theorem C20_extract_xml)"), no_input=not bad)
    return cnt


def check_unpack_against_library(rep, base, ufiles, pts_line, img_line, impl, cnt):
    """intact file: pc_<i>.csv against the raw iterator, image files against the blobs; -> (bad, class)"""
    if not pts_line.startswith("ok"):
        return "the library cannot read the file back (%s)" % pts_line[:60], "c20-unpack-points"
    clouds = pts_line[2:].strip()
    clouds = clouds.split(" # ") if clouds else []
    protos = [it[1] for it in base["items"] if it[0] == "P"] if base["items"] else [None] * len(clouds)
    if base["items"] is not None and len(protos) != len(clouds):
        return "library lists %d point clouds, %d were written" % (len(clouds), len(protos)), "c20-unpack-points"
    cells32, cells64, disp32, disp64 = set(), set(), set(), set()
    parsed = []
    for ci, pl in enumerate(clouds):
        fn = "pc_%d.csv" % ci
        if fn not in ufiles or ("pc_%d.txt" % ci) not in ufiles:
            return "e57-unpack did not write %s / pc_%d.txt" % (fn, ci), "c20-unpack-points"
        txt = ufiles[fn]
        lines = txt.split(b"\n")
        if lines[-1] != b"":
            return "%s does not end with a newline" % fn, "c20-unpack-points"
        lines = lines[:-1]
        if protos[ci] is not None:
            h = csv_header(protos[ci])
            if h is not None and lines[0] + b"\n" != h.encode():
                return "%s header is %r, expected %r" % (fn, lines[0][:100], h[:100]), "c20-unpack-points"
        lib = [] if pl in ("-", "") else [p.split(",") for p in pl.split(";")]
        rows = [l.split(b";") for l in lines[1:]]
        if len(rows) != len(lib):
            return "%s has %d rows, the library returns %d points" % (fn, len(rows), len(lib)), "c20-unpack-points"
        parsed.append((fn, rows, lib))
        for row, p in zip(rows, lib):
            if len(row) != len(p):
                return "%s: a row has %d cells, the point %d values" % (fn, len(row), len(p)), "c20-unpack-points"
            for cell, v in zip(row, p):
                if v[0] == "f":
                    cells32.add(cell); disp32.add(v[1:])
                elif v[0] == "d":
                    cells64.add(cell); disp64.add(v[1:])
    CH = 400
    def batch(kind, toks):
        toks = sorted(toks)
        out = " ".join(core.run_cases(impl, ["%s %s" % (kind, " ".join(toks[i:i + CH])) for i in range(0, len(toks), CH)])).split()
        return dict(zip(toks, out))
    p32 = batch("F32PARSE", {hx(c) for c in cells32})
    p64 = batch("F64PARSE", {hx(c) for c in cells64})
    d32 = batch("F32DISP", disp32)
    d64 = batch("F64DISP", disp64)
    def canon32(h):
        b = int(h, 16)
        return "7fc00000" if (b & 0x7f800000) == 0x7f800000 and (b & 0x7fffff) else h
    def canon64(h):
        b = int(h, 16)
        return "7ff8000000000000" if (b & 0x7ff0000000000000) == 0x7ff0000000000000 and (b & 0xfffffffffffff) else h
    for fn, rows, lib in parsed:
        for ri, (row, p) in enumerate(zip(rows, lib)):
            for cell, v in zip(row, p):
                cnt["csv_values"] += 1
                if v[0] == "f":
                    ok = p32[hx(cell)] == canon32(v[1:])
                elif v[0] == "d":
                    ok = p64[hx(cell)] == canon64(v[1:])
                else:
                    ok = cell.decode("ascii", "replace") == v[1:]
                if not ok:
                    return "%s row %d: cell %r, the library returns %s" % (fn, ri, cell[:40], v), "c20-unpack-points"
        # the model's CSV body with Display given by tables
        t32 = ",".join("%s=%s" % (k, d32[k]) for k in sorted({v[1:] for p in lib for v in p if v[0] == "f"})) or "-"
        t64 = ",".join("%s=%s" % (k, d64[k]) for k in sorted({v[1:] for p in lib for v in p if v[0] == "d"})) or "-"
        ptok = ";".join(",".join(p) for p in lib) or "-"
        mo = core.run_one(core.DRIVER, "CSVB %s %s %s" % (t32, t64, ptok))
        body = b"".join(b";".join(r) + b"\n" for r in rows)
        if mo != hx(body):
            cnt["corr"] += 1
            rep.violation("correspondence-c20", "e57-unpack %s: CSV body differs from the model's csv_body: tool %s... model %s..." % (fn, hx(body)[:80], mo[:80]),
                          dict(kind="unpack", file_hex=base["dev"].hex(), failing="correspondence csv_body vs e57-unpack"), no_input=True)
    # images
    exp = expected_image_files(img_line)
    if exp is None:
        return "the library cannot list the images (%s)" % img_line[:60], "c20-unpack-blobs"
    have = {fn for fn in ufiles if fn.startswith("image_") and not fn.endswith(".txt")}
    if have != set(exp):
        return "image files written %s, expected from the library %s" % (sorted(have), sorted(exp)), "c20-unpack-blobs"
    for fn, (ln, h) in exp.items():
        cnt["blobs"] += 1
        if len(ufiles[fn]) != ln or gen.fnv_hex(ufiles[fn]) != h:
            return "%s: %d bytes written, the library returns %d bytes (content hash %s vs %s)" % (
                fn, len(ufiles[fn]), ln, gen.fnv_hex(ufiles[fn]), h), "c20-unpack-blobs"
    nimg = sum(1 for it in (base["items"] or []) if it[0] == "I")
    if base["items"] is not None:
        # the bytes handed to the writer are the bytes in the files
        k = 0
        for it in base["items"]:
            if it[0] != "I":
                continue
            names = [fn for fn in exp if fn.startswith("image_%d_" % k) and "mask" not in fn]
            masks = [fn for fn in exp if fn.startswith("image_%d_" % k) and "mask" in fn]
            if len(names) != 1 or ufiles[names[0]] != it[2]:
                return "image %d: the extracted bytes are not the bytes that were written" % k, "c20-unpack-blobs"
            if (it[3] is None) != (len(masks) == 0) or (it[3] is not None and ufiles[masks[0]] != it[3]):
                return "image %d: the extracted mask is not the mask that was written" % k, "c20-unpack-blobs"
            k += 1
        for k in range(nimg):
            if ("image_%d.txt" % k) not in ufiles:
                return "image_%d.txt missing" % k, "c20-unpack-blobs"
    if "metadata.txt" not in ufiles:
        return "metadata.txt missing", "c20-unpack-xml"
    return None, None


def run(rep, tier, rng, replay=None):
    ok = core.proof_step(rep, "C20", thorough=(tier == "thorough"))
    rep.level = "proof"   # the MANIFEST text says which parts are partial
    rep.cov["trusted_base"] = core.TRUSTED_COMMON + [
        "oracles of Model/Tools.v (Section variables, instantiated per case with tables of what the real functions returned): "
        "core::num::dec2flt (str::parse::<f32>/<f64>), ryu::Buffer::format(f64), Display of f32/f64; hypothesis H2 (ryu's text parses "
        "back to the same f64 and, as f32, to the stored f32) is checked on every coordinate text of this run; f32 parsing is "
        "cross-checked against an exact rational-arithmetic reference (tools/vlib/xyztext.py)",
        "the library between the tools is represented in the model by xyz_view (simple iterator on the from-xyz prototype, identity pose); "
        "the run compares the whole pipeline of tool binaries with it",
        "argument handling, file system access, process exit status of the tools (exercised, not modelled); anyhow, uuid",
        "roxmltree (XML parsing inside E57Reader::new)"]
    if not ok:
        return
    impl = core.ensure_harness("debug")
    tools = toolsbuild.ensure_tools()
    # extraction cross-check: the case proved by vm_compute in Coq (Proofs/ToolsXyz.v, Example ex_roundtrip / ex_abort)
    ex_in = b"1.5 -0 3e-45 0 128 255 extra\n1 2 3\n\n  -0 -0 -0 +7 08 255  \r\n"
    ex_out = b"1.5 0.0 2.8e-45 0 128 255\n0.0 0.0 0.0 7 8 255\n"
    ex_p = "312e35=3fc00000,2d30=80000000,33652d3435=00000002"
    ex_r = "3ff8000000000000=312e35,0000000000000000=302e30,36b0000000000000=322e38652d3435"
    got = core.run_cases(core.DRIVER, ["XYZRT %s %s %s" % (ex_in.hex(), ex_p, ex_r),
                                       "XYZRT %s %s %s" % (b"1.5 -0 -0 0 0 256\n".hex(), ex_p + ",323536=x", ex_r),
                                       "XYZRT %s %s %s" % (b"1.5\t-0\t-0\t0\t0\t0\n".hex(), ex_p, ex_r)])
    if got != ["ok " + ex_out.hex(), "eInvalid", "ok -"]:
        rep.violation("correspondence-c20", "the extracted model disagrees with the result computed inside Coq (Example ex_roundtrip): %s" % got,
                      dict(kind="extraction", failing="OCaml extraction of Model/Tools.v vs vm_compute"), no_input=True)
    tmp = tempfile.mkdtemp(prefix="e57c20_", dir=os.environ.get("VERIF_TMP", None))
    try:
        # (A)
        files = xyz_files(core.Rng(rng.next()), tier)
        if replay and replay.get("kind") == "xyz":
            files = [dict(data=bytes.fromhex(replay["input_hex"]), domain="in", tag="replay")]
        if not replay or replay.get("kind") == "xyz":
            ca = run_xyz_batch(files, tools, impl, rep, tmp)
        else:
            ca = {}
        # (B), (C)
        if not replay or replay.get("kind") in ("crc", "xmltool", "unpack"):
            ce = run_e57_side(rep, tier, core.Rng(rng.next()), tools, impl, tmp, replay)
        else:
            ce = {}
    finally:
        shutil.rmtree(tmp, ignore_errors=True)
    sizes = {}
    for f in files:
        n = f["data"].count(b"\n")
        k = "0" if n == 0 else "1-9" if n < 10 else "10-99" if n < 100 else "100-999" if n < 1000 else ">=1000"
        sizes[k] = sizes.get(k, 0) + 1
    rep.cov.update(xyz=ca, e57=ce, xyz_file_sizes_in_lines=sizes,
                   traces_validated_against_impl=ca.get("files", 0) * 2 + ce.get("crc_cases", 0) + ce.get("xml_cases", 0),
                   tool_binaries=sorted(tools))
    rep.sample(dict(kind="xyz", input=files[min(20, len(files) - 1)]["data"][:200].decode("utf-8", "replace"),
                    output=(files[min(20, len(files) - 1)].get("out") or b"")[:200].decode("utf-8", "replace")))
    rep.cov["rule"] = (
        "(A) generated XYZ files (0 .. >2 packets of lines; coordinates as decimal texts of f32 values: extremes, subnormals, -0, integers, "
        "exact expansions with many digits, exponent notation, + signs, shifted exponents; all 256 colour values with +/leading zeros; "
        "extra columns; short, blank, whitespace-only and tab-separated lines; leading/trailing spaces, tabs, CR, VT, FF, Unicode spaces; CRLF; "
        "last line without newline; double spaces; malformed numbers; non-finite and non-UTF-8 input as a separate stream) -> e57-from-xyz -> "
        "e57-to-xyz (+ e57-check-crc on the intermediate file). Oracle (property text, exact rational rounding): lines with six parts are kept in "
        "order, coordinates equal as f32/f64 numbers, colours equal; bad numbers abort with non-zero status. Model: xyz_roundtrip/from_xyz of "
        "Model/Tools.v byte for byte, and the points read back raw from the intermediate file. "
        "(B) files written by the crate: intact, every page with single-bit flips, truncations, appended bytes/pages, crafted page sizes; "
        "e57-check-crc status (single file and directory mode) against an independent page validation, validate_crc and the model. "
        "(C) e57-extract-xml stdout and e57-unpack's metadata.xml / pc_i.csv (header, every cell parsed back and compared bitwise with the raw "
        "iterator; body also against the model's csv_body) / image files (against blob() and against the bytes written); on damaged files: "
        "non-zero status or output identical to (on failure: a prefix of) the undamaged output. distinct = distinct input files")
