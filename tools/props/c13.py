"""C13 - normalised colour and intensity lie in [0,1], monotone, never NaN.

Tie: harness (debug and release) against the extracted model (Model/Normalize.v over Base/Floats.v) on
NORM cases (range selection + Range::normalize through the hook e57::verif::normalize) and on the float
layer itself (ARITH, F2S, S2D, I2D, D2I, U8C: Flocq against the hardware).
Direct oracle: the property computed here with exact rational arithmetic (fractions.Fraction)."""
import math, struct
from fractions import Fraction
from vlib import core

TOL = Fraction(1, 2 ** 24)       # the bound of C13_close (absolute)

F64_MAX = 0x7fefffffffffffff
F64_MIN = 0xffefffffffffffff
F32_MAX = 0x7f7fffff
F32_MIN = 0xff7fffff
I64_MIN, I64_MAX = -2 ** 63, 2 ** 63 - 1


def d2b(x):
    return struct.unpack("<Q", struct.pack("<d", x))[0]


def b2d(b):
    return struct.unpack("<d", struct.pack("<Q", b))[0]


def s2b(x):
    return struct.unpack("<I", struct.pack("<f", x))[0]


def b2s(b):
    return struct.unpack("<f", struct.pack("<I", b))[0]


def h64(b):
    return "%016x" % b


def h32(b):
    return "%08x" % b


def is_nan64(b):
    return (b & 0x7ff0000000000000) == 0x7ff0000000000000 and (b & 0x000fffffffffffff) != 0


def finite64(b):
    return (b & 0x7ff0000000000000) != 0x7ff0000000000000


def round_to_f32_bits(b):
    """`f64 as f32` computed independently (exact rational arithmetic, round to nearest even)."""
    if is_nan64(b):
        return 0x7fc00000
    x = b2d(b)
    sign = 0x80000000 if (b >> 63) else 0
    if math.isinf(x):
        return sign | 0x7f800000
    if x == 0:
        return sign
    q = abs(Fraction(x))
    e = max(math.floor(math.log2(q)) - 1, -150)
    # exponent of the unit in the last place: ulp = 2^(max(floor(log2 q), -126) - 23)
    while Fraction(2) ** (e + 1) <= q:
        e += 1
    while Fraction(2) ** e > q:
        e -= 1
    ue = max(e, -126) - 23
    m = q / Fraction(2) ** ue
    n = math.floor(m)
    r = m - n
    if r > Fraction(1, 2) or (r == Fraction(1, 2) and n % 2 == 1):
        n += 1
    val = n * Fraction(2) ** ue
    if val >= Fraction(2) ** 128:
        return sign | 0x7f800000
    if val == 0:
        return sign
    return sign | s2b(float(val))


# ------------------------------------------------------------------ case description

class Case:
    """channel, attribute type (None | ('F',mn,mx) | ('D',mn,mx) | ('S',mn,mx,scale,offset) | ('I',mn,mx)),
    limits (None = structure absent | (lmin, lmax) each None | ('f',bits) ('d',bits) ('s',int) ('i',int)),
    values (f64 bit patterns)."""
    def __init__(self, channel, ty, limits, values, cls):
        self.channel, self.ty, self.limits, self.values, self.cls = channel, ty, limits, values, cls

    def type_tok(self):
        t = self.ty
        if t is None:
            return "-"
        o32 = lambda b: "-" if b is None else h32(b)
        o64 = lambda b: "-" if b is None else h64(b)
        if t[0] == "F":
            return "F/%s/%s" % (o32(t[1]), o32(t[2]))
        if t[0] == "D":
            return "D/%s/%s" % (o64(t[1]), o64(t[2]))
        if t[0] == "S":
            return "S/%d/%d/%s/%s" % (t[1], t[2], h64(t[3]), h64(t[4]))
        return "I/%d/%d" % (t[1], t[2])

    @staticmethod
    def lim_tok(l):
        if l is None:
            return "-"
        if l[0] == "f":
            return "f" + h32(l[1])
        if l[0] == "d":
            return "d" + h64(l[1])
        return "%s%d" % (l[0], l[1])

    def line(self):
        if self.limits is None:
            a, b = "~", "-"
        else:
            a, b = self.lim_tok(self.limits[0]), self.lim_tok(self.limits[1])
        return "NORM %d %s %s %s %s" % (self.channel, self.type_tok(), a, b, " ".join(h64(v) for v in self.values))

    def replay(self):
        return dict(kind="norm", case=self.line(), input_class=self.cls)


def scaled(raw, scale_bits, offset_bits):
    """raw as f64 * scale + offset in binary64 (Python floats are binary64, no fused operations)."""
    try:
        return float(raw) * b2d(scale_bits) + b2d(offset_bits)
    except OverflowError:
        return float("nan")


def expected_range(c):
    """The range the property names: the limits when both are given (of one kind, as the crate's cases
    have it), otherwise the declared range of the attribute type.  Returns None (no attribute, no
    limits), or (lo, hi) as Python floats (possibly NaN/inf/reversed: then the range is invalid)."""
    lm = c.limits or (None, None)
    a, b = lm
    if a is not None and b is not None and a[0] == b[0]:
        k = a[0]
        if k == "d":
            return b2d(a[1]), b2d(b[1])
        if k == "f":
            return b2s(a[1]), b2s(b[1])
        if k == "i":
            return float(a[1]), float(b[1])
        if k == "s" and c.ty is not None and c.ty[0] == "S":
            x, y = scaled(a[1], c.ty[3], c.ty[4]), scaled(b[1], c.ty[3], c.ty[4])
            return pymin(x, y), pymax(x, y)
    t = c.ty
    if t is None:
        return None
    if t[0] == "F":
        return b2s(F32_MIN if t[1] is None else t[1]), b2s(F32_MAX if t[2] is None else t[2])
    if t[0] == "D":
        return b2d(F64_MIN if t[1] is None else t[1]), b2d(F64_MAX if t[2] is None else t[2])
    if t[0] == "I":
        return float(t[1]), float(t[2])
    x, y = scaled(t[1], t[3], t[4]), scaled(t[2], t[3], t[4])
    return pymin(x, y), pymax(x, y)


def pymin(x, y):
    if x != x:
        return y
    if y != y:
        return x
    return y if y < x else x


def pymax(x, y):
    if x != x:
        return y
    if y != y:
        return x
    return y if y > x else x


def range_valid(r):
    lo, hi = r
    return math.isfinite(lo) and math.isfinite(hi) and lo <= hi


# ------------------------------------------------------------------ direct oracle

def direct(c, toks):
    """The property itself on the implementation's answers.  Returns list of (class, description)."""
    bad = []
    if any(t == "P" or t.startswith("CRASH") for t in toks):
        return [("c13-panic", "normalisation panicked")]
    r = expected_range(c)
    if r is None:
        if any(t != "none" for t in toks):
            bad.append(("c13-range-choice", "a channel without attribute and usable limits delivered %s" % toks[0]))
        return bad
    if not range_valid(r):
        # no value may be delivered from an invalid range unless it satisfies the interval claim
        for t in toks:
            if t.startswith("ok:"):
                y = b2s(int(t[3:], 16))
                if y != y or math.isinf(y) or not (0.0 <= y <= 1.0):
                    bad.append(("c13-nan", "invalid range %r delivered %s" % (r, t)))
                    break
        return bad
    lo, hi = r
    L, H = Fraction(lo), Fraction(hi)
    pts = []
    for v, t in zip(c.values, toks):
        if not finite64(v):
            continue
        if not t.startswith("ok:"):
            continue   # an error instead of a value: judged by the correspondence
        yb = int(t[3:], 16)
        y = b2s(yb)
        V = Fraction(b2d(v))
        what = "value %s range [%r, %r] -> %s (%r)" % (h64(v), lo, hi, t, y)
        if y != y or math.isinf(y):
            bad.append(("c13-nan", "NaN or infinite result: " + what)); continue
        if not (0.0 <= y <= 1.0):
            bad.append(("c13-unit-interval", "outside [0,1]: " + what)); continue
        Y = Fraction(y)
        if L == H:
            if Y != 0:
                bad.append(("c13-degenerate", "degenerate range must give 0: " + what))
        else:
            tq = (V - L) / (H - L)
            tq = min(max(tq, Fraction(0)), Fraction(1))
            if abs(Y - tq) > TOL:
                bad.append(("c13-close", "differs from (v-min)/(max-min) by more than 2^-24: " + what))
            if V <= L and Y != 0:
                bad.append(("c13-endpoint-min", "not 0 at/below the minimum: " + what))
            if V >= H and yb != 0x3f800000:
                bad.append(("c13-endpoint-max", "not 1 at/above the maximum: " + what))
        pts.append((V, Y, v))
    pts.sort(key=lambda p: p[0])
    for (v1, y1, b1), (v2, y2, b2) in zip(pts, pts[1:]):
        if y1 > y2:
            bad.append(("c13-monotone", "not monotone: range [%r, %r] values %s < %s give %r > %r" % (lo, hi, h64(b1), h64(b2), float(y1), float(y2))))
            break
    return bad


# ------------------------------------------------------------------ generators

INTERESTING64 = [0x0, 0x8000000000000000, 0x1, 0x8000000000000001, 0x000fffffffffffff, 0x0010000000000000,
                 0x3ff0000000000000, 0xbff0000000000000, 0x3fe0000000000000, 0x406fe00000000000, 0x40efffe000000000,
                 F64_MAX, F64_MIN, 0x7fe0000000000000, 0xffe0000000000000, 0x7fdfffffffffffff, 0x7ff0000000000000, 0xfff0000000000000,
                 0x7ff8000000000000, 0xfff8000000000001, 0x7ff0000000000001, 0x47efffffe0000000, 0xc7efffffe0000000,
                 0x43e0000000000000, 0xc3e0000000000000, 0x4340000000000000, 0x3cb0000000000000, 0x3ff0000000000001]
INTERESTING32 = [0x0, 0x80000000, 0x1, 0x007fffff, 0x00800000, 0x3f800000, 0xbf800000, 0x437f0000, 0x477fff00, F32_MAX, F32_MIN,
                 0x7f800000, 0xff800000, 0x7fc00000, 0x7f800001, 0x3f000000]


def values_for(c, rng, n_rand):
    """Values at, below, above and between the limits, plus specials and random patterns."""
    vs = [0x0, 0x8000000000000000, 0x7ff8000000000000, 0xfff4000000000000, 0x7ff0000000000000, 0xfff0000000000000,
          F64_MAX, F64_MIN, 0x1, 0x8000000000000001, 0x3ff0000000000000, 0x406fe00000000000]
    r = expected_range(c)
    if r is not None:
        lo, hi = r
        for x in (lo, hi):
            if x == x:
                vs.append(d2b(x))
                if math.isfinite(x):
                    vs += [d2b(math.nextafter(x, math.inf)), d2b(math.nextafter(x, -math.inf)), d2b(x + 1.0), d2b(x - 1.0), d2b(x * 2), d2b(x / 2)]
        if math.isfinite(lo) and math.isfinite(hi):
            mid = lo / 2 + hi / 2
            vs += [d2b(mid), d2b(math.nextafter(mid, math.inf))]
            for _ in range(n_rand):
                f = rng.below(1 << 53) / float(1 << 53)
                x = lo * (1 - f) + hi * f
                if x == x:
                    vs.append(d2b(x))
            # integers inside an integer range
            if c.ty is not None and c.ty[0] == "I" and hi - lo <= 1e6:
                for _ in range(n_rand):
                    vs.append(d2b(float(rng.range(int(lo), int(hi)))))
    for _ in range(n_rand):
        vs.append(rng.next())
    out, seen = [], set()
    for v in vs:
        if v not in seen:
            seen.add(v); out.append(v)
    return out


def type_variants(rng, tier):
    F = lambda a, b: ("F", a, b)
    D = lambda a, b: ("D", a, b)
    one, half = 0x3ff0000000000000, 0x3fe0000000000000
    ts = [None,
          F(None, None), F(0, 0x3f800000), F(0, 0x437f0000), F(0xbf800000, 0x3f800000), F(F32_MIN, F32_MAX), F(0, 1), F(0x3f800000, 0x3f800000),
          F(0x3f800000, 0), F(0x7fc00000, 0x3f800000), F(0, 0x7f800000), F(0xff800000, 0x7f800000), F(None, 0x3f800000), F(0x80000000, 0),
          D(None, None), D(0, one), D(0, 0x406fe00000000000), D(0xbff0000000000000, one), D(F64_MIN, F64_MAX), D(0, 1), D(1, 2), D(one, one),
          D(one, 0), D(0x7ff8000000000000, one), D(0, 0x7ff8000000000001), D(0, 0x7ff0000000000000), D(0xfff0000000000000, 0x7ff0000000000000),
          D(None, one), D(0x8000000000000000, 0), D(0xffe0000000000000, 0x7fe0000000000000), D(0xffe0000000000001, 0x7fe0000000000000),
          D(0xffdfffffffffffff, 0x7fe0000000000000), D(0x8000000000000001, F64_MAX), D(F64_MIN, 1), D(0x7feffffffffffffe, F64_MAX), D(0x3ff0000000000000, 0x3ff0000000000001),
          ("I", 0, 255), ("I", 0, 65535), ("I", 0, 1), ("I", 0, 0), ("I", 7, 7), ("I", -2048, 2047), ("I", I64_MIN, I64_MAX), ("I", 0, 2 ** 53 + 1),
          ("I", I64_MAX - 1, I64_MAX), ("I", 10, 0), ("I", I64_MIN, I64_MIN + 1), ("I", -1, 0), ("I", 0, 1023),
          ("S", 0, 255, d2b(1 / 255.0), 0), ("S", 0, 4095, d2b(0.001), d2b(100.0)), ("S", -100, 100, d2b(-0.5), d2b(3.0)), ("S", 0, 255, 0, d2b(5.0)),
          ("S", 0, 255, 0x7ff8000000000000, 0), ("S", 0, 255, one, 0x7ff8000000000000), ("S", 0, 255, 0x7ff0000000000000, 0), ("S", 1, 255, 0xfff0000000000000, 0),
          ("S", 0, 255, one, 0x7ff0000000000000), ("S", I64_MIN, I64_MAX, d2b(1e300), 0), ("S", I64_MIN, I64_MAX, one, 0), ("S", 0, 1, 1, 0), ("S", 0, 3, 1, 0x8000000000000000),
          ("S", -3, 3, d2b(1e-320), 0), ("S", 5, 5, one, 0), ("S", 10, 0, one, 0), ("S", 0, 10, 0xbff0000000000000, 0), ("S", 0, 0, 0x8000000000000000, 0),
          ("S", 1, 2, F64_MAX, 0), ("S", -2, 2, 0x7fd0000000000000, 0), ("S", 0, 2 ** 53 + 1, one, half)]
    n = 10 if tier == "quick" else 300
    for _ in range(n):
        k = rng.below(4)
        if k == 0:
            ts.append(F(rng.choice(INTERESTING32 + [None, rng.below(1 << 32)]), rng.choice(INTERESTING32 + [None, rng.below(1 << 32)])))
        elif k == 1:
            ts.append(D(rng.choice(INTERESTING64 + [None, rng.next()]), rng.choice(INTERESTING64 + [None, rng.next()])))
        elif k == 2:
            a, b = sorted([rand_i64(rng), rand_i64(rng)])
            ts.append(("I", a, b) if rng.chance(9, 10) else ("I", b, a))
        else:
            a, b = sorted([rand_i64(rng), rand_i64(rng)])
            ts.append(("S", a, b, rng.choice(INTERESTING64 + [rng.next(), d2b(0.001), d2b(-0.01)]), rng.choice(INTERESTING64 + [rng.next(), 0, 0])))
    return ts


def rand_i64(rng):
    k = rng.below(5)
    if k == 0:
        return rng.range(-3, 300)
    if k == 1:
        return rng.range(-70000, 70000)
    if k == 2:
        return rng.choice([I64_MIN, I64_MAX, I64_MIN + 1, I64_MAX - 1, 2 ** 53, 2 ** 53 + 1, -2 ** 53 - 1, 2 ** 62])
    if k == 3:
        return rng.range(-2 ** 40, 2 ** 40)
    return rng.range(I64_MIN, I64_MAX)


def limit_variants(ty, rng, tier):
    """(class name, limits) for an attribute type."""
    d = lambda b: ("d", b)
    f = lambda b: ("f", b)
    one = 0x3ff0000000000000
    out = [("absent", None), ("both-none", (None, None)),
           ("only-min", (d(0), None)), ("only-max", (None, d(one))), ("only-min-int", (("i", 0), None)),
           ("double", (d(0), d(one))), ("double-255", (d(0), d(0x406fe00000000000))), ("double-neg", (d(0xc059000000000000), d(0x4059000000000000))),
           ("double-equal", (d(one), d(one))), ("double-equal-zero", (d(0x8000000000000000), d(0))), ("double-zero-rev", (d(0), d(0x8000000000000000))),
           ("double-reversed", (d(one), d(0))),
           ("double-nan-min", (d(0x7ff8000000000000), d(one))), ("double-nan-max", (d(0), d(0xfff8000000000000))), ("double-nan-both", (d(0x7ff8000000000000), d(0x7ff8000000000000))),
           ("double-inf", (d(0), d(0x7ff0000000000000))), ("double-neginf", (d(0xfff0000000000000), d(0))), ("double-inf-both", (d(0xfff0000000000000), d(0x7ff0000000000000))),
           ("double-extreme", (d(F64_MIN), d(F64_MAX))), ("double-overflow-width", (d(0xffe0000000000000), d(0x7fe0000000000001))),
           ("double-just-finite-width", (d(0xffe0000000000000), d(0x7fdfffffffffffff))), ("double-width-rounds-to-inf", (d(0xffe0000000000000), d(0x7fe0000000000000))),
           ("double-subnormal-width", (d(0), d(1))), ("double-subnormal-width2", (d(0x0010000000000000), d(0x0010000000000003))), ("double-ulp-width", (d(one), d(one + 1))),
           ("double-huge-near", (d(0x7feffffffffffff0), d(F64_MAX))), ("double-tiny-to-huge", (d(1), d(F64_MAX))),
           ("single", (f(0), f(0x3f800000))), ("single-255", (f(0), f(0x437f0000))), ("single-extreme", (f(F32_MIN), f(F32_MAX))), ("single-equal", (f(0x40000000), f(0x40000000))),
           ("single-reversed", (f(0x3f800000), f(0))), ("single-nan", (f(0x7fc00000), f(0x3f800000))), ("single-inf", (f(0), f(0x7f800000))), ("single-subnormal", (f(0), f(1))),
           ("integer", (("i", 0), ("i", 255))), ("integer-16", (("i", 0), ("i", 65535))), ("integer-neg", (("i", -2048), ("i", 2047))), ("integer-equal", (("i", 9), ("i", 9))),
           ("integer-reversed", (("i", 9), ("i", 1))), ("integer-extreme", (("i", I64_MIN), ("i", I64_MAX))), ("integer-collapse", (("i", I64_MAX - 1), ("i", I64_MAX))),
           ("integer-2^53", (("i", 0), ("i", 2 ** 53 + 1))),
           ("scaled", (("s", 0), ("s", 255))), ("scaled-neg", (("s", -10), ("s", 10))), ("scaled-equal", (("s", 4), ("s", 4))), ("scaled-reversed", (("s", 9), ("s", 1))),
           ("scaled-extreme", (("s", I64_MIN), ("s", I64_MAX))),
           ("mixed-double-single", (d(0), f(0x3f800000))), ("mixed-int-double", (("i", 0), d(one))), ("mixed-scaled-int", (("s", 0), ("i", 9))), ("mixed-single-int", (f(0), ("i", 1)))]
    n = 4 if tier == "quick" else 60
    for _ in range(n):
        k = rng.below(4)
        if k == 0:
            out.append(("random-double", (d(rng.choice(INTERESTING64 + [rng.next()])), d(rng.choice(INTERESTING64 + [rng.next()])))))
        elif k == 1:
            out.append(("random-single", (f(rng.choice(INTERESTING32 + [rng.below(1 << 32)])), f(rng.choice(INTERESTING32 + [rng.below(1 << 32)])))))
        elif k == 2:
            a, b = sorted([rand_i64(rng), rand_i64(rng)])
            out.append(("random-integer", (("i", a), ("i", b))))
        else:
            a, b = sorted([rand_i64(rng), rand_i64(rng)])
            out.append(("random-scaled", (("s", a), ("s", b))))
    # ordered random doubles (valid ranges of every magnitude)
    for _ in range(n):
        e = rng.range(1, 2046)
        a = (rng.below(2) << 63) | (e << 52) | rng.below(1 << 52)
        b = (rng.below(2) << 63) | (rng.range(max(1, e - 3), min(2046, e + 3)) << 52) | rng.below(1 << 52)
        x, y = sorted([b2d(a), b2d(b)])
        out.append(("random-ordered-double", (d(d2b(x)), d(d2b(y)))))
    return out


def gen_cases(rng, tier):
    cases = []
    n_rand = 4 if tier == "quick" else 12
    types = type_variants(rng, tier)
    for ti, ty in enumerate(types):
        lims = limit_variants(ty, rng, tier)
        for (lname, lm) in lims:
            chans = [0, 1, 2, 3] if (tier == "thorough" or ti < 12) else [rng.below(4), (ti + len(lname)) % 4]
            for ch in sorted(set(chans)):
                tname = "none" if ty is None else ty[0]
                c = Case(ch, ty, lm, [], "type=%s limits=%s" % (tname, lname))
                c.values = values_for(c, rng, n_rand)
                cases.append(c)
    return cases


def float_layer_cases(rng, tier):
    """The float layer against the hardware."""
    lines = []
    pool = INTERESTING64 + [d2b(0.1), d2b(0.2), d2b(3.0), d2b(1 / 3.0), d2b(255.0), d2b(1e308), d2b(-1e308), d2b(5e-324), d2b(2.2250738585072014e-308),
                            0x36a0000000000000, 0x369fffffffffffff, 0x36a0000000000001, 0x3690000000000000, 0x3810000000000000, 0x380fffffffffffff,
                            0x47efffffefffffff, 0x47effffff0000000, 0x47effffff0000001, 0x3ff0000010000000, 0x3ff0000030000000, 0x3ff0000010000001]
    n = 300 if tier == "quick" else 20000
    rnd = lambda: rng.choice(pool) if rng.chance(1, 3) else (rng.next() if rng.chance(1, 2) else d2b(b2d((rng.next() & 0x800fffffffffffff) | (rng.range(1023 - 60, 1023 + 60) << 52))))
    for op in ("add", "sub", "mul", "div", "min", "max", "lt", "le", "eq", "gt"):
        for a in pool[:24]:
            for b in pool[:24]:
                if tier == "thorough" or rng.chance(1, 3):
                    lines.append("ARITH %s %s %s" % (op, h64(a), h64(b)))
        for _ in range(n):
            lines.append("ARITH %s %s %s" % (op, h64(rnd()), h64(rnd())))
    for op in ("sqrt", "neg", "abs", "nan", "fin", "inf"):
        for a in pool:
            lines.append("ARITH %s %s" % (op, h64(a)))
        for _ in range(n // 4):
            lines.append("ARITH %s %s" % (op, h64(rnd())))
    for a in pool[:20]:
        for b in pool[:20]:
            for c in pool[:20]:
                if tier == "thorough" or rng.chance(1, 8):
                    lines.append("ARITH clamp %s %s %s" % (h64(a), h64(b), h64(c)))
    for _ in range(n):
        lines.append("ARITH clamp %s %s %s" % (h64(rnd()), h64(rnd()), h64(rnd())))
    f2s = list(pool)
    for _ in range(n * 4):
        k = rng.below(4)
        if k == 0:
            f2s.append(rng.next())
        elif k == 1:   # around the binary32 range, exact ties of binary32 rounding
            m = rng.below(1 << 23)
            e = rng.range(1023 - 160, 1023 + 130)
            f2s.append((rng.below(2) << 63) | (e << 52) | (m << 29) | rng.choice([0, 1 << 28, (1 << 28) + 1, (1 << 28) - 1, 1, (1 << 29) - 1]))
        elif k == 2:
            f2s.append(d2b(rng.below(1 << 53) / float(1 << 53)))
        else:
            f2s.append(d2b(b2d(rng.next() & 0x800fffffffffffff | (rng.range(1023 - 150, 1023 - 120) << 52))))
    for i in range(0, len(f2s), 16):
        lines.append("F2S " + " ".join(h64(v) for v in f2s[i:i + 16]))
    s2d = INTERESTING32 + [rng.below(1 << 32) for _ in range(n * 2)]
    for i in range(0, len(s2d), 16):
        lines.append("S2D " + " ".join(h32(v) for v in s2d[i:i + 16]))
    ints = [0, 1, -1, 255, I64_MIN, I64_MAX, 2 ** 53, 2 ** 53 + 1, 2 ** 53 + 2, 2 ** 53 + 3, -2 ** 53 - 1, 2 ** 62 + 2 ** 9, 2 ** 62 + 2 ** 9 + 1, I64_MAX - 511, I64_MAX - 512, I64_MAX - 1024]
    ints += [rand_i64(rng) for _ in range(n * 2)]
    for i in range(0, len(ints), 16):
        lines.append("I2D " + " ".join(str(v) for v in ints[i:i + 16]))
    d2i = pool + [rnd() for _ in range(n)]
    for i in range(0, len(d2i), 16):
        lines.append("D2I " + " ".join(h64(v) for v in d2i[i:i + 16]))
    u8 = INTERESTING32 + [s2b(k / 255.0) for k in range(256)] + [rng.below(1 << 32) for _ in range(n)] + [s2b(rng.below(1 << 24) / float(1 << 24)) for _ in range(n)]
    for i in range(0, len(u8), 16):
        lines.append("U8C " + " ".join(h32(v) for v in u8[i:i + 16]))
    return lines


# ------------------------------------------------------------------ the check

def run(rep, tier, rng, replay=None):
    ok = core.proof_step(rep, "C13", thorough=(tier == "thorough"))
    rep.cov["trusted_base"] = core.TRUSTED_COMMON + [
        "Flocq 4.1.0 (IEEE-754 binary32/binary64 formalisation) and the standard library's axiomatisation of the reals it rests on "
        "(classic, functional_extensionality_dep, sig_not_dec, sig_forall_dec); tied to the hardware's arithmetic by the ARITH/F2S/S2D/I2D/D2I/U8C cases of this run",
        "hook e57::verif::normalize (cfg e57_verif): range selection of the channel + Range::normalize; normalize_value's disabled branch is `value as f32` (F2S cases)",
        "the stored value is given to the normaliser as the f64 the simple iterator computes from the raw record value (that conversion belongs to C05)"]
    if not ok:
        return
    dbg = core.ensure_harness("debug")
    rel = core.ensure_harness("release")
    if replay and replay.get("kind") in ("norm", "float-layer"):
        line = replay["case"]
        a = core.run_one(dbg, line); b = core.run_one(rel, line); m = core.run_one(core.DRIVER, line)
        print("debug:   " + a); print("release: " + b); print("model:   " + m)
        if replay["kind"] == "norm":
            c = parse_case(line)
            for cls, desc in direct(c, a.split()) + direct(c, b.split()):
                rep.violation(cls, desc, replay)
        if not (a == b == m):
            rep.violation("correspondence-c13", "model/implementation differ on %s" % line[:100], replay, no_input=True)
        return
    # extraction cross-check: results proved by vm_compute inside Coq (Proofs/NormalizeRange.v: ex_0_255, ex_full_range,
    # ex_subnormal, mixed_channel_uses_type_range, ex_scaled_negative, ex_float_layer) against the extracted OCaml
    xc = [("NORM 0 - d0000000000000000 d406fe00000000000 4060000000000000", "ok:3f008081"),
          ("NORM 0 - dffefffffffffffff d7fefffffffffffff 0000000000000000 7fefffffffffffff ffefffffffffffff", "ok:3f000000 ok:3f800000 ok:00000000"),
          ("NORM 0 - d0000000000000000 d0000000000000003 0000000000000001 0000000000000003", "ok:3eaaaaab ok:3f800000"),
          ("NORM 0 I/0/255 i0 d3ff0000000000000 3ff0000000000000", "ok:3b808081"),
          ("NORM 0 S/-100/100/bfe0000000000000/4008000000000000 s0 s10 4008000000000000 c000000000000000", "ok:3f800000 ok:00000000"),
          ("ARITH add 3fb999999999999a 3fc999999999999a", "3fd3333333333334"),
          ("F2S 3fd5555555555555", "3eaaaaab"), ("I2D 9007199254740993", "4340000000000000"),
          ("ARITH clamp 3ff0000000000000 7ff8000000000000 3ff0000000000000", "P")]
    got = core.run_cases(core.DRIVER, [c for c, _ in xc], shards=1)
    for (c, want), g in zip(xc, got):
        if g != want:
            rep.violation("correspondence-c13", "the extracted model disagrees with the result computed inside Coq by vm_compute on %s: %s instead of %s" % (c, g, want),
                          dict(kind="extraction", failing="OCaml extraction of Base/Floats.v, Model/Normalize.v vs vm_compute", case=c), no_input=True)
    cases = gen_cases(rng, tier)
    lines = [c.line() for c in cases]
    oa = core.run_cases(dbg, lines)
    ob = core.run_cases(rel, lines)
    om = core.run_cases(core.DRIVER, lines)
    n_dir = n_corr = 0
    classes, outcome = {}, {}
    paths = dict(finite_width=0, halved=0, degenerate=0, invalid=0, none=0)
    for c, a, b, m in zip(cases, oa, ob, om):
        rep.count(len(c.values))
        rep.distinct((c.type_tok(), c.cls, c.channel))
        classes[c.cls] = classes.get(c.cls, 0) + 1
        r = expected_range(c)
        if r is None:
            paths["none"] += 1
        elif not range_valid(r):
            paths["invalid"] += 1
        elif r[0] == r[1]:
            paths["degenerate"] += 1
        elif math.isinf(r[1] - r[0]):
            paths["halved"] += 1
        else:
            paths["finite_width"] += 1
        for t in a.split():
            k = t.split(":")[0]
            outcome[k] = outcome.get(k, 0) + 1
        bad = direct(c, a.split())
        if b != a:
            bad += direct(c, b.split())
        for cls, desc in bad:
            n_dir += 1
            rep.violation(cls, "%s [%s] case: %s" % (desc, c.cls, c.line()[:160]), c.replay())
        if not (a == b == m) and not bad:
            n_corr += 1
            ta, tb, tm = a.split(), b.split(), m.split()
            i = next((i for i in range(max(len(ta), len(tb), len(tm))) if not (i < len(ta) and i < len(tb) and i < len(tm) and ta[i] == tb[i] == tm[i])), 0)
            g = lambda t: t[i] if i < len(t) else "?"
            rep.violation("correspondence-c13", "model/implementation differ [%s] value #%d %s: debug=%s release=%s model=%s case: %s"
                          % (c.cls, i, h64(c.values[i]) if i < len(c.values) else "?", g(ta), g(tb), g(tm), c.line()[:200]),
                          dict(c.replay(), failing="correspondence Range selection / normalize model vs implementation"), no_input=True)
    # ---- 8-bit colours as the bundled tools compute them: (c * 255.0) as u8
    c8 = Case(1, ("I", 0, 255), None, [d2b(float(k)) for k in range(256)], "u8")
    o8 = core.run_one(dbg, c8.line()).split()
    u8line = "U8C " + " ".join(t[3:] if t.startswith("ok:") else "7fc00000" for t in o8)
    for binary in (dbg, rel):
        got = core.run_one(binary, u8line).split()
        rep.count(256)
        if got != [str(k) for k in range(256)]:
            k = next(i for i in range(256) if i >= len(got) or got[i] != str(i))
            n_dir += 1
            rep.violation("c13-u8-exact", "8-bit colour %d does not survive normalisation and (c*255.0) as u8: got %s" % (k, got[k] if k < len(got) else "?"),
                          dict(kind="norm", case=c8.line(), input_class="u8"))
    # ---- float layer against the hardware, and the disabled path (`value as f32`)
    fl = float_layer_cases(rng, tier)
    fa = core.run_cases(dbg, fl); fb = core.run_cases(rel, fl); fm = core.run_cases(core.DRIVER, fl)
    n_float = 0
    for line, a, b, m in zip(fl, fa, fb, fm):
        toks = line.split()
        n_float += max(1, len(toks) - 1) if toks[0] != "ARITH" else 1
        flagged = False
        if toks[0] == "F2S":
            for v, t in zip(toks[1:], a.split()):
                want = h32(round_to_f32_bits(int(v, 16)))
                if t != want:
                    n_dir += 1; flagged = True
                    rep.violation("c13-disabled", "`%s as f32` gave %s, correctly rounded is %s" % (v, t, want), dict(kind="float-layer", case="F2S " + v))
                    break
        if not (a == b == m) and not flagged:
            n_corr += 1
            rep.violation("correspondence-c13", "float layer: model/hardware differ on %s: debug=%s release=%s model=%s" % (line[:120], a[:80], b[:80], m[:80]),
                          dict(kind="float-layer", case=line, failing="correspondence Base/Floats.v vs Rust f64/f32 arithmetic"), no_input=True)
    rep.count(n_float)
    rep.cov.update(norm_cases=len(cases), float_layer_evaluations=n_float, input_classes=classes, range_paths=paths, outcomes_impl=outcome,
                   direct_failures=n_dir, correspondence_failures=n_corr, traces_validated_against_impl=len(cases) + len(fl))
    mid = cases[len(cases) // 3]
    rep.sample(dict(kind="NORM", case=mid.line()[:300], impl=oa[len(cases) // 3][:300]))
    rep.sample(dict(kind="float layer", case=fl[0], impl=fa[0]))
    rep.cov["rule"] = ("attribute types (absent; Single/Double with and without declared min/max; Integer; ScaledInteger incl. zero, negative, NaN, infinite scale/offset and i64 extremes) "
                       "x limit settings (structure absent, both missing, one missing, equal, -0/+0, reversed, NaN, +-inf, f64::MIN..MAX, width overflowing to inf, width just finite, subnormal and one-ulp widths, "
                       "Single/Integer/ScaledInteger limits incl. i64 extremes and limits collapsing in f64, mixed kinds, ScaledInteger limits on non-ScaledInteger attributes, random) x 4 channels (decoy records/limits on the other channels) "
                       "x values: +-0, NaN, +-inf, +-MAX, subnormals, each limit and its neighbours, +-1, x2, /2, midpoint, random points inside, random bit patterns. "
                       "Direct oracle with exact rationals: no panic, not NaN/inf, in [0,1], within 2^-24 of clamp((v-min)/(max-min)), monotone over the sorted values, 0 at/below min, 1.0 at/above max, 0 for a degenerate range, "
                       "(c*255.0) as u8 = v for the 256 8-bit colours, `as f32` correctly rounded. Correspondence: debug = release = extracted model, bit-identical, NaN canonicalised. "
                       "distinct = distinct (type, limit class, channel)")


def parse_case(line):
    t = line.split()
    ch = int(t[1])
    p = t[2].split("/")
    o = lambda s: None if s == "-" else int(s, 16)
    if p[0] == "-":
        ty = None
    elif p[0] in ("F", "D"):
        ty = (p[0], o(p[1]), o(p[2]))
    elif p[0] == "S":
        ty = ("S", int(p[1]), int(p[2]), int(p[3], 16), int(p[4], 16))
    else:
        ty = ("I", int(p[1]), int(p[2]))
    def lim(s):
        if s in ("-", "~"):
            return None
        return (s[0], int(s[1:], 16)) if s[0] in "fd" else (s[0], int(s[1:]))
    limits = None if t[3] == "~" else (lim(t[3]), lim(t[4]))
    return Case(ch, ty, limits, [int(v, 16) for v in t[5:]], "replay")
