"""C15 - an interrupted write is never mistaken for a complete file."""
import os
from vlib import core, gen, crash


def gen_programs(rng, tier):
    """programs: dict(items=[...], nofin=bool, tag=str)"""
    P = crash.SMALL_PROTOS
    pts = lambda p, n: gen.rand_points(rng, p, n)
    progs = [
        dict(tag="empty", items=[]),
        dict(tag="blob-empty+blob-to-page-end", items=[("B", b""), ("B", rng.bytes(1020 - 48 - 16 - 16 - 16))]),
        dict(tag="image+mask,pointcloud", items=[("I", "p", rng.bytes(700), rng.bytes(5)), ("P", P[0], pts(P[0], 3))]),
        dict(tag="pointcloud,blob-over-page,image", items=[("P", P[1], pts(P[1], 5)), ("B", rng.bytes(1021)), ("I", "v", rng.bytes(3), None)]),
        dict(tag="unfinalized: blob,pointcloud", nofin=True, items=[("B", rng.bytes(300)), ("P", P[2], pts(P[2], 4))]),
        dict(tag="unfinalized: dropped pointcloud writer", nofin=True, items=[("B", rng.bytes(5)), ("PD", P[0], pts(P[0], 9))]),
        dict(tag="unfinalized: dropped image writer", nofin=True, items=[("ID", "s", rng.bytes(1100), rng.bytes(64))]),
        dict(tag="dropped sub-writers, finalized", items=[("PD", P[3], pts(P[3], 2)), ("B", rng.bytes(957)), ("ID", "c", rng.bytes(60), None)]),
    ]
    # the second public entry point of the top-level finalize, and writers that are used on after it:
    # the first successful finalize is the commit; every later add_* / finalize must be refused and write nothing
    progs += [
        dict(tag="finalize_customized_xml", finx=True, items=[("B", rng.bytes(40)), ("P", P[0], pts(P[0], 4))]),
        dict(tag="go on after finalize_customized_xml", xfin=True,
             items=[("P", P[0], pts(P[0], 6)), ("FINX",), ("P", P[1], pts(P[1], 9)), ("B", rng.bytes(30)), ("FIN",)]),
        dict(tag="go on after finalize", xfin=True,
             items=[("B", rng.bytes(1000)), ("P", P[2], pts(P[2], 3)), ("FIN",), ("I", "s", rng.bytes(50), rng.bytes(3)), ("P", P[0], pts(P[0], 2)), ("FINX",), ("FIN",)]),
        dict(tag="finalize twice through the customized entry", xfin=True, items=[("I", "p", rng.bytes(20), None), ("FINX",), ("FINX",), ("B", rng.bytes(5))]),
    ]
    n_rand = 12 if tier == "quick" else 192
    for i in range(n_rand):
        nofin = rng.chance(1, 5)
        items = [crash.rand_item(rng, allow_dropped=True) for _ in range(rng.range(1, 3))]
        prog = dict(tag="random", nofin=nofin, items=items)
        if not nofin:
            c = rng.below(6)
            if c < 2:
                prog["finx"] = True
            elif c < 4:
                # commit in the middle (either entry point), more calls and another finalize behind it
                more = [crash.rand_item(rng) for _ in range(rng.range(1, 2))]
                prog = dict(tag="random-go-on", xfin=True,
                            items=items + [(rng.choice(["FIN", "FINX"]),)] + more + [(rng.choice(["FIN", "FINX"]),)])
        progs.append(prog)
    return progs


def classify_points(points, logmark, nwrites, nofin, finlog=None):
    """(n, cut) -> 'unfinalized' | 'before-finalize-call' | 'before-header-write' | 'header-write-torn' | 'after'.
    The commit is the final header write of the FIRST successful top-level finalize: write number finlog - 1
    (finlog = log length when that call returned; without later calls that is the last-but-one write, Drop
    rewrites the page once more)"""
    out = {}
    hw = finlog - 1 if finlog is not None else nwrites - 2
    for (n, cut) in points:
        if nofin:
            out[(n, cut)] = "unfinalized"
        elif n < logmark or (n == logmark and cut == 0):
            out[(n, cut)] = "before-finalize-call"
        elif n < hw or (n == hw and cut == 0):
            out[(n, cut)] = "before-header-write"
        elif n == hw:
            out[(n, cut)] = "header-write-torn"
        else:
            out[(n, cut)] = "after"
    return out


ORDER = ["unfinalized", "before-finalize-call", "before-header-write", "header-write-torn", "after"]


def check_program(rep, prog, impl, stats, rng, only_image=None, model_sample=60):
    text = crash.prog_text(prog)
    rdict = dict(kind="crash-program", items=[crash.item_tok(i) for i in prog["items"]], nofin=bool(prog.get("nofin")),
                 finx=bool(prog.get("finx")), xfin=bool(prog.get("xfin")))
    a = crash.parse_cw(core.run_one(impl, crash.cw_line(prog, flags=("log", "dump"))))
    m_raw = core.run_one(core.DRIVER, crash.cw_line(prog, flags=("log", "dump"), xml=a["xml"] or None))
    rep.count(1)
    if a["crash"] or "P" in a["outs"] or "dropP" in a["outs"]:
        rep.violation("c15-panic", "the writer panicked on a valid program: %s" % " ".join(a["outs"])[:200], rdict)
        return
    parts = crash.split_outs(prog, a["outs"])
    if parts is None or any(o.startswith("e") or o.startswith("new:") for o in parts[0]):
        raise core.InfraError("C15 generator produced a program the writer rejects: %s -> %s" % (text[:200], a["outs"]))
    after_commit = parts[1]
    log, nofin = a["log"], bool(prog.get("nofin"))
    if crash.apply_log(log) != a["dev"]:
        raise core.InfraError("replaying the recorded write log does not reproduce the device")
    W = len(log)
    logmark = a["logmark"] if a["logmark"] is not None else W
    final = a["dev"]
    stats["log_lengths"].append(W)
    direct_bad = False

    # ---- every prefix x every cut position, deduplicated
    points = crash.crash_points(log)
    if only_image is not None:
        points = sorted(set([tuple(only_image), (W, 0)]))
    cls = classify_points(points, logmark, W, nofin, a["finlog"])
    distinct = {}        # bytes -> [points]
    for pt, img in crash.incremental_images(log, points):
        distinct.setdefault(img, []).append(pt)
    stats["images_total"] += len(points)
    stats["images_distinct"] += len(distinct)
    imgs = list(distinct.keys())
    bops = crash.blob_ops(a["outs"]) if not nofin else []
    prelude = []
    lines = ["CRD - - %s %s" % (img.hex() if img else "-", " ".join(bops)) for img in imgs]
    # an empty device: the hex token would be missing, `-` is not hex: unhex gives an empty vector
    res = core.run_cases(impl, lines, prelude=prelude)
    ref_line = core.run_one(impl, "CRD - - %s %s" % (final.hex() if final else "-", " ".join(bops)))
    ref_segs, _ = crash.split_crd(ref_line)
    rep.count(len(lines))
    if not nofin and not ref_segs[0].startswith("open:ok"):
        rep.violation("c15-complete-file-rejected", "the completed file is not accepted by the reader: %s" % ref_line[:200], rdict)
        return
    accepted = eq_final = 0
    for img, line in zip(imgs, res):
        pts = distinct[img]
        first = min(pts, key=lambda p: ORDER.index(cls[p]))   # the earliest class this image belongs to
        c = cls[first]
        stats["by_class"][c] = stats["by_class"].get(c, 0) + 1
        segs, _ = crash.split_crd(line)
        r2 = dict(rdict, image=list(first), image_class=c, image_len=len(img))
        if img == final and not nofin:
            eq_final += 1
        if crash.seg_panics(segs) or line.startswith("CRASH"):
            direct_bad = True
            rep.violation("c15-panic", "the reader panicked on the crash image (writes complete %d, next cut at %d; %s) of [%s]: %s" %
                          (first[0], first[1], c, text[:120], line[:160]), r2)
            continue
        ok = segs[0].startswith("open:ok")
        if not ok:
            stats["rejected_by"][segs[0]] = stats["rejected_by"].get(segs[0], 0) + 1
            continue
        accepted += 1
        if img != final:
            stats["accepted_not_final"] += 1
        if c == "unfinalized":
            direct_bad = True
            rep.violation("c15-unfinalized-accepted", "the writer was dropped without finalize, yet the reader accepts the device after %d writes + %d bytes of [%s]: %s" %
                          (first[0], first[1], text[:120], line[:160]), r2)
            continue
        if c in ("before-finalize-call", "before-header-write"):
            direct_bad = True
            rep.violation("c15-accepted-before-finalize", "the reader accepts an image from %s (writes complete %d of %d, next cut at %d; finalize was called after write %d) of [%s]: %s" %
                          ("before the top-level finalize call" if c == "before-finalize-call" else "before the final header write",
                           first[0], W, first[1], logmark, text[:120], line[:160]), r2)
            continue
        # accepted: same listing, every read an error or the completed file's result
        bad = None
        if len(segs) != len(ref_segs) or segs[0] != ref_segs[0]:
            bad = "lists [%s], the completed file lists [%s]" % (segs[0], ref_segs[0])
        else:
            for s, r in zip(segs[1:], ref_segs[1:]):
                if s.startswith("pc ") or s.startswith("img "):
                    if s != r:
                        bad = "descriptor [%s] differs from the completed file's [%s]" % (s[:100], r[:100])
                        break
                elif not crash.read_seg_ok(s, r):
                    bad = "a read returned [%s], the completed file gives [%s]" % (s[:120], r[:120])
                    break
        if bad:
            direct_bad = True
            rep.violation("c15-partial-data-accepted", "accepted crash image (writes complete %d of %d, next cut at %d) of [%s]: %s" % (first[0], W, first[1], text[:100], bad), r2)
    stats["accepted"] += accepted
    stats["equal_final"] += eq_final
    if not nofin and accepted == 0:
        rep.violation("c15-complete-file-rejected", "no image of [%s] is accepted, not even the completed file" % text[:150], rdict)

    # ---- the commit is terminal: calls after the first successful top-level finalize are refused and the device
    #      keeps the committed file (Drop rewrites identical bytes)
    if a["finlog"] is not None and not direct_bad:
        committed = crash.apply_log(log, a["finlog"])
        not_refused = [t for t in after_commit if t != "eInvalid"]
        if committed != final or not_refused:
            direct_bad = True
            stats["commit_not_terminal"] = stats.get("commit_not_terminal", 0) + 1
            rep.violation("c15-commit-not-terminal",
                          "after the top-level finalize had returned ok (%d writes) the writer %s; the device after Drop (%d writes) %s the committed file: [%s] -> %s" %
                          (a["finlog"], "accepted more calls (%s)" % " ".join(not_refused)[:60] if not_refused else "refused all further calls", W,
                           "differs from" if committed != final else "equals", text[:120], " ".join(a["outs"])[:100]), rdict)
    if after_commit:
        stats["calls_after_commit"] = stats.get("calls_after_commit", 0) + len(after_commit)

    # ---- correspondence: the write log (positions, bytes, order), results, device
    if not crash.raw_eq(a["raw"], m_raw.rstrip()):
        ma = crash.parse_cw(m_raw)
        what = "results" if not crash.outs_eq(a["outs"], ma["outs"]) else "device summary"
        if ma["log"] is not None and ma["log"] != log:
            k = next((i for i, (x, y) in enumerate(zip(log, ma["log"])) if x != y), min(len(log), len(ma["log"])))
            what = "write log (lengths %d / %d, first difference at write %d: impl pos %s, model pos %s)" % (
                len(log), len(ma["log"]), k, log[k][0] if k < len(log) else "-", ma["log"][k][0] if k < len(ma["log"]) else "-")
        stats["corr_bad"] += 1
        if not direct_bad:
            rep.violation("correspondence-c15", "model/implementation differ on the device trace of a writer program: %s; impl=%s | model=%s" %
                          (what, a["raw"].split(" log=")[0][:160], m_raw.split(" log=")[0][:160]),
                          dict(rdict, failing="correspondence CWLOG (write log of the writer model vs recording device)"), no_input=True)
    stats["traces"] += 1

    # ---- correspondence on images: the model's reader_open against E57Reader::new
    final_xml_h = gen.fnv_hex(bytes.fromhex(a["xml"])) if a["xml"] else None
    keyed = sorted(imgs, key=lambda b: min(distinct[b]))
    torn = [b for b in keyed if cls[min(distinct[b])] == "header-write-torn"]
    sample = set(torn[:49] + torn[-4:] + keyed[:3] + keyed[-3:])
    rest = [b for b in keyed if b not in sample]
    while rest and len(sample) < model_sample:
        sample.add(rest.pop(rng.below(len(rest))))
    sample = [b for b in sample if b]
    olines = ["COPEN - - " + b.hex() for b in sample]
    oa = core.run_cases(impl, olines)
    om = core.run_cases(core.DRIVER, olines)
    rep.count(len(olines))
    stats["open_compared"] += len(olines)
    for b, x, y in zip(sample, oa, om):
        good = x == y
        if not good and y.startswith("ok ") and x.startswith("eInvalid") and x.split(" | ")[1:] == y.split(" | ")[1:]:
            # the model stops at the XML bytes; the real reader goes on to parse them
            xh = y.split(" xml=")[1].split()[0]
            good = xh != final_xml_h
            stats["open_model_ok_xml_rejected"] += 1 if good else 0
        if not good:
            stats["corr_bad"] += 1
            if not direct_bad:
                pt = min(distinct[b])
                rep.violation("correspondence-c15", "model/implementation differ on opening a crash image (writes complete %d, cut %d): impl=%s model=%s" % (pt[0], pt[1], x[:120], y[:120]),
                              dict(rdict, image=list(pt), failing="correspondence COPEN on crash images (reader_open vs E57Reader::new)"), no_input=True)
                break
    return a


def xml_prefix_check(rep, impl, xmls, stats):
    """roxmltree rejects the empty document and the proper prefixes a torn length field can select"""
    lines, meta = [], []
    for x in xmls:
        n = len(x) // 2
        lens = sorted(set([0] + [n % (256 ** j) for j in range(8) if n % (256 ** j) < n]))
        lines.append("CXMLPFX %s %s" % (x, ",".join(map(str, lens)))); meta.append((x, lens))
    if xmls:
        # every prefix that ends before the root element is closed (the writer's text ends with "</e57Root>\n":
        # the prefix without that newline is a complete document, and equal to the document for every reader)
        small = min(xmls, key=len)
        core_len = len(bytes.fromhex(small).rstrip())
        stats["xml_trailing_whitespace"] = len(small) // 2 - core_len
        lines.append("CXMLPFX %s %s" % (small, ",".join(map(str, range(core_len))))); meta.append((small, "all"))
        lines.append("CXML " + " ".join(xmls)); meta.append((None, "full"))
    res = core.run_cases(impl, lines)
    rep.count(len(lines))
    for (x, lens), r in zip(meta, res):
        if lens == "full":
            if set(r.split()) != {"ok"}:
                raise core.InfraError("roxmltree rejects the writer's own XML: " + r[:100])
            continue
        n = int(r.split("n=")[1].split()[0]) if "n=" in r else 0
        stats["xml_prefixes"] += n
        acc = r.split("acc=")[1].strip() if "acc=" in r else "?"
        if acc or "panics=0" not in r:
            rep.violation("c15-xml-prefix-accepted", "roxmltree accepts (or panics on) a proper prefix of the writer's XML: lengths %s of %d (%s)" % (acc[:80], len(x) // 2, r[:60]),
                          dict(kind="xml-prefix", xml=x, lengths=acc))


def run(rep, tier, rng, replay=None):
    ok = True
    if not os.environ.get("C15_SKIP_PROOF"):
        ok = core.proof_step(rep, "C15", thorough=(tier == "thorough"))
    rep.cov["trusted_base"] = core.TRUSTED_COMMON + [
        "crash model: writes reach the device in issue order; a crash leaves the first n writes and a prefix of write n+1 (torn write), nothing else",
        "the XML text is taken from the implementation's file and given to the writer model as an input (XML layer: C04)",
        "roxmltree rejects the empty document and proper prefixes of the writer's XML (tested directly: CXMLPFX), outside the model",
        "crash images are built by tools/vlib/crash.py from the recorded write log (checked: the full replay reproduces the device)"]
    if not ok:
        return
    impl = core.ensure_harness("debug")
    stats = dict(log_lengths=[], images_total=0, images_distinct=0, accepted=0, equal_final=0, accepted_not_final=0, by_class={}, rejected_by={},
                 corr_bad=0, traces=0, open_compared=0, open_model_ok_xml_rejected=0, xml_prefixes=0, xml_trailing_whitespace=0)
    only = None
    if replay and replay.get("kind") == "crash-program":
        progs = [dict(tag="replay", nofin=replay.get("nofin", False), finx=replay.get("finx", False), xfin=replay.get("xfin", False),
                      items=[crash.parse_item(t) for t in replay["items"]])]
        only = replay.get("image")
    elif replay and replay.get("kind") == "xml-prefix":
        xml_prefix_check(rep, impl, [replay["xml"]], stats)
        return
    else:
        progs = gen_programs(rng, tier)
    xmls = []
    for prog in progs:
        a = check_program(rep, prog, impl, stats, rng, only_image=only, model_sample=60 if tier == "quick" else 40)
        rep.distinct(gen.fnv_hex(crash.prog_text(prog).encode()))
        if a and a["xml"]:
            xmls.append(a["xml"])
    xml_prefix_check(rep, impl, xmls, stats)
    rep.cov["exhaustive"] = True
    rep.cov.update(programs=len(progs), program_tags=[p["tag"] for p in progs][:12], log_lengths=stats["log_lengths"][:40],
                   images_total=stats["images_total"], images_distinct=stats["images_distinct"],
                   images_accepted=stats["accepted"], images_equal_to_completed_file=stats["equal_final"],
                   images_accepted_but_not_the_completed_file=stats["accepted_not_final"],
                   distinct_images_by_class=stats["by_class"], rejected_by=stats["rejected_by"],
                   enforced="stronger form: every image from before the last-but-one write (the final header write of page 0) is rejected, "
                            "which includes every image from before the top-level finalize call (logmark)",
                   open_results_compared_with_model=stats["open_compared"], model_ok_but_xml_rejected_by_roxmltree=stats["open_model_ok_xml_rejected"],
                   xml_prefixes_tested=stats["xml_prefixes"], xml_trailing_whitespace_bytes=stats["xml_trailing_whitespace"], correspondence_failures=stats["corr_bad"],
                   traces_validated_against_impl=stats["traces"],
                   programs_finalize_customized_xml=sum(1 for p in progs if p.get("finx") or any(i[0] == "FINX" for i in p["items"])),
                   programs_going_on_after_finalize=sum(1 for p in progs if p.get("xfin")),
                   calls_after_commit_all_refused=stats.get("calls_after_commit", 0), commit_not_terminal=stats.get("commit_not_terminal", 0))
    rep.sample(dict(kind="crash program", text=crash.prog_text(progs[min(2, len(progs) - 1)])[:200], log_length=stats["log_lengths"][min(2, len(progs) - 1)] if stats["log_lengths"] else 0))
    rep.cov["rule"] = ("small writer programs (no item, empty blob, blob ending on a page boundary, blob crossing a page, images with and without mask, point clouds with a few points, "
                       "1-3 sections, writer dropped without finalize, point-cloud/image writer dropped without its finalize; the top-level finalize through finalize() or through "
                       "finalize_customized_xml(Ok); writers used on after a successful top-level finalize: more add_* and finalize calls through both entry points, which must be refused "
                       "and write nothing) on a recording device; for each program EVERY prefix of the "
                       "write log and for the cut write every cut position (writes longer than 64 bytes: cuts 0..48, every 97th byte, the last 3) is replayed on an empty device, identical "
                       "images deduplicated, and the real reader run on each (open, list point clouds and images, read every point cloud raw, every image blob, every blob of the completed file). "
                       "Oracle: no panic; images of an unfinalized writer and images from before the final header write are rejected; an accepted image lists what the completed file lists and "
                       "every read is an error or the completed file's result. Correspondence: the model writer's write log (positions, bytes, order), results and device equal the recorded ones; "
                       "the model's reader_open agrees with E57Reader::new on sampled images (all torn header writes near the header fields). distinct = distinct programs")
