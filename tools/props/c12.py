"""C12 - bit-packed integers: exact width, bit order, decode at any alignment."""
from vlib import core, gen


def parse_out(line):
    d = {}
    for t in line.split():
        if "=" in t:
            k, v = t.split("=", 1)
            d[k] = v
    return d


def gen_cases(rng, tier):
    cases = []   # (type_tok, kind, cuts, value tokens, width)
    nvals_list = [1, 2, 3, 5, 8, 9] if tier == "quick" else [1, 2, 3, 4, 5, 7, 8, 9, 11, 16, 17]
    for w in range(0, 65):
        for (mn, mx) in gen.int_ranges_for_width(w, rng):
            if tier == "quick" and rng.chance(1, 2) and w not in (0, 1, 7, 8, 9, 31, 32, 33, 63, 64):
                continue
            kind = "S" if rng.chance(1, 3) else "I"
            for n in nvals_list:
                if tier == "quick" and not rng.chance(1, 2):
                    continue
                vals = gen.boundary_values(mn, mx, rng, n)
                nbytes = (w * n + 7) // 8
                # all single cuts of short streams, else random multi-cuts
                cutsets = []
                if nbytes <= 6:
                    cutsets = [[c] for c in range(0, nbytes + 1)]
                    cutsets.append([1] * nbytes)
                else:
                    for _ in range(3):
                        k = rng.range(1, 4)
                        cs, left = [], nbytes
                        for _ in range(k):
                            c = rng.range(0, max(0, left)); cs.append(c); left -= c
                        cutsets.append(cs)
                    cutsets.append([1] * nbytes)
                    cutsets.append([0, 0, nbytes - 1, 0])
                for cs in cutsets:
                    cases.append((gen.type_token(kind, mn, mx), kind, cs, [gen.value_token(kind, v) for v in vals], w))
    for kind, specials in (("F", gen.SPECIAL_F32), ("D", gen.SPECIAL_F64)):
        size = 4 if kind == "F" else 8
        for n in (1, 2, 5):
            for rep in range(8):
                vals = [rng.choice(specials) if rng.chance(1, 2) else rng.below(1 << (8 * size)) for _ in range(n)]
                nbytes = size * n
                for cs in ([[c] for c in range(0, nbytes + 1, 1 if n == 1 else 3)] + [[1] * nbytes]):
                    cases.append((kind, kind, cs, [gen.value_token(kind, v) for v in vals], 8 * size))
    return cases


def gen_raw(rng, tier):
    bw, br = [], []
    for _ in range(400 if tier == "quick" else 20000):
        ops = []
        for _ in range(rng.range(1, 25)):
            c = rng.below(10)
            if c < 6:
                bits = rng.range(0, 64)
                n = (bits + 7) // 8
                data = bytearray(rng.bytes(8))
                # as serialize_integer does: 8 source bytes, no bits above the width
                v = int.from_bytes(data, "little") & ((1 << bits) - 1)
                ops.append("b%d:%s" % (bits, v.to_bytes(8, "little").hex()))
            elif c < 7:
                ops.append("y" + rng.bytes(rng.choice([0, 1, 4, 8])).hex())
            elif c < 8:
                ops.append("g")
            elif c < 9:
                ops.append("n")
            else:
                ops.append("G")
        ops.append("G")
        bw.append(" ".join(ops))
    for _ in range(400 if tier == "quick" else 20000):
        ops = []
        for _ in range(rng.range(1, 30)):
            c = rng.below(10)
            if c < 3:
                ops.append("a" + rng.bytes(rng.choice([0, 1, 2, 3, 8, 9, 17])).hex())
            elif c < 9:
                ops.append("e%d" % rng.choice([0, 1, 3, 7, 8, 9, 15, 16, 17, 31, 32, 33, 57, 63, 64] if rng.chance(2, 3) else list(range(65))))
            else:
                ops.append("v")
        br.append(" ".join(ops))
    return bw, br


def run(rep, tier, rng, replay=None):
    ok = core.proof_step(rep, "C12", thorough=(tier == "thorough"))
    rep.cov["trusted_base"] = core.TRUSTED_COMMON + [
        "hooks e57::verif::{dtype_write, dtype_bit_size, unpack} forward to the crate-private functions (unpack repeats the type dispatch of QueueReader::parse_byte_streams)"]
    if not ok:
        return
    impl = core.ensure_harness("debug")
    impl_rel = core.ensure_harness("release")
    if replay:
        cases = [(replay["type"], replay["type"][0], replay["cuts"], replay["values"], None)]
    else:
        cases = gen_cases(rng, tier)
    lines = ["%s c%s %s" % (t, ",".join(map(str, cs)), " ".join(vals)) for (t, k, cs, vals, w) in cases]
    o_impl = core.run_cases(impl, ["BITS " + l for l in lines])
    o_rel = core.run_cases(impl_rel, ["BITS " + l for l in lines])
    o_model = core.run_cases(core.DRIVER, ["BITS " + l for l in lines])
    o_spec = core.run_cases(core.DRIVER, ["BITSPEC " + l for l in lines])
    rep.count(len(lines))
    widths, phases = set(), set()
    n_dir = n_corr = 0
    for i, (t, k, cs, vals, w) in enumerate(cases):
        rep.distinct((t, tuple(cs), len(vals)))
        a, s = parse_out(o_impl[i]), parse_out(o_spec[i])
        if w is not None:
            widths.add(w)
            for j in range(len(vals)):
                phases.add((w * j) % 8)
        # direct oracle: exact width, specified stream bytes, decode returns the encoded values
        bad = None
        if a.get("w") != s.get("w"):
            bad = "bit width %s, specification says %s" % (a.get("w"), s.get("w"))
        elif a.get("stream") != s.get("stream"):
            bad = "stream bytes %s, specification says %s" % (a.get("stream"), s.get("stream"))
        elif a.get("w") != "0" and (a.get("out") is None or a["out"].split(",")[:len(vals)] != vals):
            bad = "decoded %s from values %s" % (a.get("out", o_impl[i])[:200], ",".join(vals)[:200])
        if bad:
            n_dir += 1
            rep.violation("bit-codec", "type %s cuts %s: %s" % (t, cs, bad), dict(kind="bits", type=t, cuts=cs, values=vals, impl=o_impl[i][:500]))
        elif o_impl[i] != o_model[i] or o_impl[i] != o_rel[i]:
            n_corr += 1
            rep.violation("correspondence-bits", "model/implementation (or debug/release) differ for type %s cuts %s values %s: impl=%s model=%s release=%s" %
                          (t, cs, vals[:6], o_impl[i][:160], o_model[i][:160], o_rel[i][:160]),
                          dict(kind="bits", type=t, cuts=cs, values=vals, failing="correspondence bit layer (theorems C12_*)"), no_input=True)
    rep.sample(dict(kind="codec case", case="BITS " + lines[len(lines) // 3][:200], impl=o_impl[len(lines) // 3][:200]))
    rep.cov["widths_covered"] = len(widths)
    rep.cov["bit_phases_covered"] = sorted(phases)
    rep.cov["codec_cases"] = len(lines)
    rep.cov["direct_failures"] = n_dir
    rep.cov["correspondence_failures"] = n_corr
    if not replay:
        bw, br = gen_raw(rng, tier)
        for kind, ls in (("BW", bw), ("BR", br)):
            a = core.run_cases(impl, [kind + " " + l for l in ls])
            m = core.run_cases(core.DRIVER, [kind + " " + l for l in ls])
            rep.count(len(ls))
            for i, l in enumerate(ls):
                rep.distinct((kind, l))
                if a[i] != m[i]:
                    rep.violation("correspondence-" + kind.lower(), "%s ops [%s]: impl=%s model=%s" % (kind, l[:200], a[i][:200], m[i][:200]),
                                  dict(kind=kind, ops=l, failing="correspondence %s model vs implementation" % kind), no_input=True)
                    break
            rep.sample(dict(kind=kind + " raw ops", ops=ls[0][:200], impl=a[0][:200]))
    rep.cov["rule"] = ("grid: every width 0..64 with ranges at 2^w-1, 2^(w-1) and between, minima 0/negative/i64::MIN/near i64::MAX, scaled and plain integers, "
                       "value sequences of several lengths (so that every bit phase 0..7 occurs as a start position), boundary and random values, every single cut "
                       "position of short streams and multi-cuts with empty chunks for longer ones; singles and doubles incl. NaN payloads, -0, subnormals. "
                       "Each case: implementation (debug, release) vs extracted model (byte stream, decoded values) vs extracted independent codec. "
                       "Plus random raw add_bits/add_bytes/get_*_bytes and append/extract sequences through the hooks. distinct = (type, cuts, length) / op strings.")
