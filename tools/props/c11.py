"""C11 - page layer: file payload always equals the logical stream written."""
import itertools
from vlib import core, crc

W_SIZES = [0, 1, 3, 4, 1019, 1020, 1021, 2039, 2040, 2041]
SEEKS = [0, 1, 4, 100, 1019, 1020, 1023, 1024, 1025, 1028, 2043, 2044, 2047, 2048, 2049, 3072, 5000]
R_SIZES = [0, 1, 3, 4, 5, 1019, 1020, 1021, 2040, 2041, 4096]


def wbytes(k, n):
    return bytes(((k * 37 + i * 7) % 251) + 1 for i in range(n))


def pw_case(ops, fault="-", full=0):
    toks = []
    k = 0
    for o in ops:
        if o[0] == "w":
            toks.append("w" + wbytes(k, o[1]).hex()); k += 1
        elif o[0] == "s":
            toks.append("s%d" % o[1])
        else:
            toks.append(o[0])
    return "%s %d %s" % (fault, full, " ".join(toks))


def show_ops(ops):
    return " ".join("%s%s" % (o[0], o[1] if len(o) > 1 else "") for o in ops)


def split_out(line):
    if " | " not in line:
        return [line], {}
    a, b = line.split(" | ", 1)
    kv = dict(x.split("=", 1) for x in b.split() if "=" in x)
    return a.split(), kv


def spec_view(line):
    r, kv = split_out(line)
    return (tuple(r), kv.get("len"), kv.get("h"))


def classify_w(ops, impl, spec):
    """Class of a direct-oracle failure, for the known-findings matcher."""
    ri, _ = split_out(impl)
    rejected = any(o[0] == "s" and i < len(ri) and ri[i].startswith("eInvalid") for i, o in enumerate(ops))
    if rejected:
        return "writer-history-with-rejected-seek"
    return "writer-history"


def gen_writer_histories(rng, tier):
    alpha = [("w", n) for n in W_SIZES] + [("s", p) for p in SEEKS] + [("f",), ("a",), ("p",), ("z",)]
    small = [("w", n) for n in (1, 1019, 1020, 1021)] + [("s", p) for p in (0, 4, 1019, 1020, 1024, 2048, 5000)] + [("f",), ("a",), ("z",)]
    hist = []
    depth_full = 2 if tier == "quick" else 3
    for d in range(1, depth_full + 1):
        for t in itertools.product(alpha, repeat=d):
            hist.append(list(t))
    d_small = 3 if tier == "quick" else 4
    for t in itertools.product(small, repeat=d_small):
        hist.append(list(t))
    exhaustive = len(hist)
    nrand = 1500 if tier == "quick" else 60000
    for _ in range(nrand):
        n = rng.range(4, 40 if tier == "quick" else 200)
        ops = []
        size = 0
        for _ in range(n):
            c = rng.below(10)
            if c < 5:
                k = rng.choice(W_SIZES) if rng.chance(2, 3) else rng.range(0, 2500)
                if size + k > 12000:
                    k = rng.range(0, 8)
                ops.append(("w", k)); size += k
            elif c < 8:
                if rng.chance(1, 2):
                    p = rng.choice(SEEKS)
                else:
                    page = rng.range(0, size // 1020 + 1)
                    p = page * 1024 + rng.choice([0, 1, 3, 500, 1016, 1019, 1020, 1023])
                ops.append(("s", p))
            else:
                ops.append((rng.choice(["f", "a", "p", "z"]),))
        hist.append(ops)
    # every history ends with the observations
    return [h + [("p",), ("z",)] for h in hist], exhaustive


def gen_reader_cases(rng, tier):
    cases = []
    logs = [wbytes(1, 1020), wbytes(2, 2040), wbytes(3, 3060 + 1020)]
    devs = [crc.paginate(l) for l in logs]
    alpha = [("s", p) for p in (0, 1, 1019, 1020, 1023, 1024, 1027, 2047, 2048, 3000, 4096, 9999)] + \
            [("r", n) for n in (0, 1, 1020, 1021)] + [("x", n) for n in (0, 1, 4, 1020, 1021, 2041, 5000)] + [("a",)]
    depth = 2 if tier == "quick" else 3
    for d in range(1, depth + 1):
        for t in itertools.product(alpha, repeat=d):
            cases.append((1, list(t)))
    exhaustive = len(cases)
    for _ in range(600 if tier == "quick" else 30000):
        di = rng.below(len(devs))
        ops = []
        for _ in range(rng.range(3, 30)):
            c = rng.below(10)
            if c < 3:
                ops.append(("s", rng.range(0, len(devs[di]) + 10) if rng.chance(1, 2) else rng.choice([0, 1019, 1020, 1023, 1024, 2044, 2047, 2048])))
            elif c < 6:
                ops.append(("r", rng.choice(R_SIZES)))
            elif c < 9:
                ops.append(("x", rng.choice(R_SIZES) if rng.chance(2, 3) else rng.range(0, 3000)))
            else:
                ops.append(("a",))
        cases.append((di, ops))
    return devs, cases, exhaustive


def pr_ops(ops):
    return " ".join("%s%s" % (o[0], o[1] if len(o) > 1 else "") for o in ops)


def shrink(ops, still_fails):
    """Greedy removal of operations while the predicate keeps failing."""
    cur = list(ops)
    changed = True
    while changed:
        changed = False
        for i in range(len(cur)):
            cand = cur[:i] + cur[i + 1:]
            if cand and still_fails(cand):
                cur = cand; changed = True
                break
    return cur


def run(rep, tier, rng, replay=None):
    ok = core.proof_step(rep, "C11", thorough=(tier == "thorough"))
    rep.cov["trusted_base"] = core.TRUSTED_COMMON + [
        "the CRC of the page layer is the model's table-driven CRC-32C (proved equal to the bitwise definition in C07)",
        "device operations beyond u64 range are not modelled (positions are unbounded N)"]
    rep.assumptions = ["in-memory device; writes reach it in issue order", "page size 1024 on the writer side"]
    if not ok:
        return
    impl = core.ensure_harness("debug")
    impl_rel = core.ensure_harness("release")

    # ---------------- writer histories
    if replay:
        hists, exhaustive = [[tuple(o) for o in replay["ops"]]], 0
    else:
        hists, exhaustive = gen_writer_histories(rng, tier)
    lines = [pw_case(h) for h in hists]
    o_impl = core.run_cases(impl, ["PW " + l for l in lines])
    o_rel = core.run_cases(impl_rel, ["PW " + l for l in lines])
    o_model = core.run_cases(core.DRIVER, ["PW " + l for l in lines])
    o_spec = core.run_cases(core.DRIVER, ["PWS " + l.split(" ", 2)[2] for l in lines])
    rep.count(len(lines))
    rep.cov["writer_histories"] = len(lines)
    rep.cov["writer_histories_exhaustive_part"] = exhaustive
    kinds = {}
    for h in hists:
        key = tuple(o[0] for o in h)
        rep.distinct(("w", show_ops(h)))
        for o in h:
            kinds[o[0]] = kinds.get(o[0], 0) + 1
    rep.cov["writer_op_distribution"] = kinds
    rep.sample(dict(kind="writer history", ops=show_ops(hists[len(hists) // 2]), impl=o_impl[len(hists) // 2][:200]))
    rejected = sum(1 for x in o_impl if "eInvalid" in x)
    rep.cov["writer_histories_with_rejected_seek"] = rejected

    def direct_fails(ops):
        l = pw_case(ops)
        a = core.run_one(impl, "PW " + l)
        s = core.run_one(core.DRIVER, "PWS " + l.split(" ", 2)[2])
        return spec_view(a) != spec_view(s)

    def model_differs(ops):
        l = pw_case(ops)
        return core.run_one(impl, "PW " + l) != core.run_one(core.DRIVER, "PW " + l)

    n_direct = n_corr = 0
    reported = set()
    for i, h in enumerate(hists):
        if spec_view(o_impl[i]) != spec_view(o_spec[i]):
            n_direct += 1
            cls = classify_w(h, o_impl[i], o_spec[i])
            if cls in reported:
                continue
            small = shrink(h, direct_fails) if len(h) <= 60 else h
            cls = classify_w(small, core.run_one(impl, "PW " + pw_case(small)), "")
            reported.add(cls)
            rep.violation(cls, "page writer: device/results differ from the logical-stream specification for history [%s]" % show_ops(small),
                          dict(kind="writer-history", ops=small,
                               impl=core.run_one(impl, "PW " + pw_case(small, full=0)),
                               spec=core.run_one(core.DRIVER, "PWS " + pw_case(small).split(" ", 2)[2])))
        elif o_impl[i] != o_model[i] or o_rel[i] != o_impl[i]:
            n_corr += 1
            if "corr" in reported:
                continue
            reported.add("corr")
            which = "debug and release builds differ" if o_rel[i] != o_impl[i] else "model and implementation differ"
            small = shrink(h, model_differs) if (len(h) <= 60 and o_rel[i] == o_impl[i]) else h
            # search the neighbourhood for a failure of the property itself
            found = None
            for var in neighbourhood(small):
                if direct_fails(var):
                    found = var; break
            if found:
                cls = classify_w(found, core.run_one(impl, "PW " + pw_case(found)), "")
                rep.violation(cls, "page writer: specification violated for history [%s] (found from a model disagreement)" % show_ops(found),
                              dict(kind="writer-history", ops=found))
            else:
                rep.violation("correspondence-writer", "%s on history [%s]; theorem C11_writer no longer speaks about this code (impl: %s / model: %s)" %
                              (which, show_ops(small), core.run_one(impl, "PW " + pw_case(small))[:150], core.run_one(core.DRIVER, "PW " + pw_case(small))[:150]),
                              dict(kind="writer-history", ops=small, failing="correspondence PagedWriter model vs implementation (theorem C11_writer)"),
                              no_input=True)
    rep.cov["writer_direct_failures"] = n_direct
    rep.cov["writer_correspondence_failures"] = n_corr

    # ---------------- reader histories
    if replay and replay.get("kind") != "reader-history":
        rep.cov["rule"] = "replay"
        return
    devs, cases, r_exh = gen_reader_cases(rng, tier)
    lines = ["- 1024 %s %s" % (devs[di].hex(), pr_ops(ops)) for di, ops in cases]
    r_impl = core.run_cases(impl, ["PR " + l for l in lines])
    r_model = core.run_cases(core.DRIVER, ["PR " + l for l in lines])
    r_spec = core.run_cases(core.DRIVER, ["PRS " + l.split(" ", 2)[2] for l in lines])
    rep.count(len(lines))
    rep.cov["reader_histories"] = len(lines)
    rep.cov["reader_histories_exhaustive_part"] = r_exh
    for di, ops in cases:
        rep.distinct(("r", di, pr_ops(ops)))
    rep.sample(dict(kind="reader history", device_pages=len(devs[cases[-1][0]]) // 1024, ops=pr_ops(cases[-1][1]), impl=r_impl[-1][:200]))
    for i, (di, ops) in enumerate(cases):
        a = r_impl[i].split(" | ")[0]
        if a != r_spec[i]:
            if rep.violation("reader-history", "page reader: results differ from the logical stream for [%s] on a %d-page file: impl=%s spec=%s" %
                             (pr_ops(ops), len(devs[di]) // 1024, a[:200], r_spec[i][:200]),
                             dict(kind="reader-history", device=devs[di].hex(), ops=ops)):
                break
        elif r_impl[i] != r_model[i]:
            if rep.violation("correspondence-reader", "model and implementation differ on reader history [%s]: impl=%s model=%s" %
                             (pr_ops(ops), r_impl[i][:200], r_model[i][:200]),
                             dict(kind="reader-history", device=devs[di].hex(), ops=ops,
                                  failing="correspondence PagedReader model vs implementation (theorem C11_reader)"), no_input=True):
                break
    rep.cov["rule"] = ("writer histories over {write_all(n), physical_seek(p), flush, align, physical_position, physical_size} with n,p on and around "
                       "page boundaries: exhaustive to the stated depth over the boundary alphabet, random beyond (each followed by position, size, drop); "
                       "reader histories over {seek_physical, read, read_exact, align} likewise. Each history is run on the implementation (debug and release), "
                       "the extracted model (results, device bytes, operation count, write log) and the extracted specification (results, device bytes). "
                       "distinct = distinct operation sequences; all are non-trivial (at least one operation plus observations)")
    rep.cov["exhaustive"] = False
    rep.cov["traces_validated_against_impl"] = len(hists) + len(cases)


def neighbourhood(ops):
    yield ops
    for i in range(len(ops) + 1):
        for extra in (("z",), ("p",), ("f",), ("w", 1), ("w", 1020)):
            yield ops[:i] + [extra] + ops[i:]
    for i, o in enumerate(ops):
        if len(o) > 1:
            for d in (-1, 1, 4, -4, 1020, 1024):
                if o[1] + d >= 0:
                    yield ops[:i] + [(o[0], o[1] + d)] + ops[i + 1:]
