"""C01 - raw point data survives write -> read exactly."""
from vlib import core, gen


def gen_programs(rng, tier):
    """programs: list of item lists; item = ('B', bytes) | ('P', proto, points)"""
    progs = []
    n_small = 260 if tier == "quick" else 6000
    residues = list(range(0, 1020, 7)) if tier == "quick" else list(range(1020))
    # (a) residue sweep: one blob of chosen length before a small point cloud
    for res in residues:
        proto = gen.rand_proto(rng, small=True)
        pts = gen.rand_points(rng, proto, rng.choice([0, 1, 2, 3, 9, 40]))
        # blob section occupies 16 + L bytes then alignment; start of next section = 48 + 16 + pad4(L)
        L = (res - 64) % 1020
        progs.append([("B", rng.bytes(L)), ("P", proto, pts)])
    # (b) random mixes
    for _ in range(n_small):
        items = []
        for _ in range(rng.range(1, 4)):
            c = rng.below(10)
            if c < 3:
                items.append(("B", rng.bytes(rng.choice([0, 1, 3, 4, 5, 1000, 1003, 1004, 1019, 1020, 1021, 2040]) if rng.chance(1, 2) else rng.range(0, 2500))))
            else:
                proto = gen.rand_proto(rng, small=rng.chance(1, 2))
                pts = gen.rand_points(rng, proto, rng.choice([0, 1, 2, 5, 17, 64, 120]))
                items.append(("P", proto, pts))
        if not any(i[0] == "P" for i in items):
            proto = gen.rand_proto(rng, small=True)
            items.append(("P", proto, gen.rand_points(rng, proto, 3)))
        progs.append(items)
    # (c) packet-capacity boundaries: k*cap + {-1, 0, 1}
    n_cap = 8 if tier == "quick" else 80
    for i in range(n_cap):
        # wide prototypes reach the packet capacity with few points (the list-based model is
        # quadratic in the stream length, not in the number of records)
        proto = [("x", "D"), ("y", "D"), ("z", "D"), ("sr", "D"), ("sa", "D"), ("se", "D"), ("in", "D"),
                 ("r", "D"), ("g", "D"), ("b", "D"), ("ts", "D"),
                 ("row", gen.type_tok(rng, ("I",), w=64)), ("col", gen.type_tok(rng, ("I",), w=rng.choice([1, 3, 11, 13, 33]))),
                 ("rc", gen.type_tok(rng, ("I",), w=rng.choice([0, 5, 7, 63]))), ("ri", gen.type_tok(rng, ("I",), w=rng.choice([2, 9, 31])))]
        proto = proto[:rng.range(12, len(proto))] if rng.chance(1, 2) else proto
        if ("rc" in [n for n, _ in proto]) != ("ri" in [n for n, _ in proto]):
            proto = [(n, t) for n, t in proto if n not in ("rc", "ri")]
        if ("row" in [n for n, _ in proto]) != ("col" in [n for n, _ in proto]):
            proto = [(n, t) for n, t in proto if n not in ("row", "col")]
        cap = gen.proto_capacity(proto)
        k = 1 if (tier == "quick" or i % 3) else 2
        count = k * cap + rng.choice([-1, 0, 1])
        progs.append([("B", rng.bytes(rng.range(0, 1100))), ("P", proto, gen.rand_points(rng, proto, count))])
    # (d) sub-byte prototypes with very few points: every byte stream still holds a partial byte at finalize,
    #     so non-final flushes emit no packet at all and the last packet carries everything
    for w in range(1, 8):
        mn, mx = rng.choice(gen.int_ranges_for_width(w, rng))
        t = "I/%d/%d" % (mn, mx)
        for count in (1, 2, 3, 5, 7, 8, 9):
            if w * count > 16 and count not in (8, 9):
                continue
            proto = [("x", t), ("y", t), ("z", t)]
            if rng.chance(1, 2):
                proto.append(("row", "I/5/5")); proto.append(("col", "I/0/%d" % ((1 << rng.range(1, 3)) - 1)))
            progs.append([("P", proto, gen.rand_points(rng, proto, count))])
    return progs


def item_tok(it, model=False):
    if it[0] == "B":
        return "B:" + it[1].hex()
    if it[0] == "I":
        # image: ("I", kinds, data, mask[, data2, mask2]); binary-wise a blob per data and per mask
        pairs = [(it[2 + 2 * k], it[3 + 2 * k]) for k in range(len(it[1]))]
        if model:
            return " ".join("B:" + d.hex() + ("" if m is None else " B:" + m.hex()) for d, m in pairs)
        return "I:%s:%s" % (it[1], ":".join("%s:%s" % (d.hex(), "-" if m is None else m.hex()) for d, m in pairs))
    return "P:%s:%s" % (gen.proto_tok(it[1]), gen.points_tok(it[2]))


def flat_items(items):
    """items as the binary model sees them (an image is one or two blobs)"""
    out = []
    for it in items:
        if it[0] == "I":
            for k in range(len(it[1])):
                out.append(("B", it[2 + 2 * k]))
                if it[3 + 2 * k] is not None:
                    out.append(("B", it[3 + 2 * k]))
        else:
            out.append(it)
    return out


def parse_fw(line):
    """'outs | summary # rb # rb ... xml=...' -> (outs, summary, [readbacks], xml)"""
    xml = ""
    if " xml=" in line:
        line, xml = line.split(" xml=", 1)
        xml = xml.split(" ")[0]
    parts = line.split(" # ")
    head = parts[0]
    outs, summary = (head.split(" | ", 1) + [""])[:2] if " | " in head else (head, "")
    return outs.split(), summary.strip(), [p.strip() for p in parts[1:]], xml


def expected_readback(it):
    if it[0] == "B":
        return "bl ok n=%d h=%s" % (len(it[1]), gen.fnv_hex(it[1]))
    txt = gen.points_tok(it[2])
    s = "pc n=%d end=none h=%s" % (len(it[2]), gen.fnv_hex(txt.encode()))
    if len(txt) <= 1500:
        s += " pts=" + txt
    return s


def strip_xml(line):
    return line.split(" xml=")[0].rstrip()


def check_programs(rep, progs, tag, classify=None, src_chunks=None):
    """Runs writer programs on implementation (debug + release) and model; checks the
    property directly on the implementation (read-back equals input) and the
    correspondence (results, every device byte, operation count, write log, read-back)."""
    impl = core.ensure_harness("debug")
    impl_rel = core.ensure_harness("release")
    lines = ["- " + " ".join(item_tok(i) for i in items) for items in progs]
    mlines = ["- " + " ".join(item_tok(i, model=True) for i in items) for items in progs]
    # src_chunks[i] = n: in the debug-profile run every blob / image source hands out at most n bytes per read
    # (the release-profile run and the model get the whole data at once: all three must agree)
    ft = lambda i: "-s%d" % src_chunks[i] if src_chunks and src_chunks[i] else "-"
    o_impl = core.run_cases(impl, ["FW " + ft(i) + l[1:] for i, l in enumerate(lines)])
    o_rel = core.run_cases(impl_rel, ["FW " + l for l in lines])
    xmls = [parse_fw(o)[3] for o in o_impl]
    o_model = core.run_cases(core.DRIVER, ["FW %s X:%s" % (l, x) for l, x in zip(mlines, xmls)])
    rep.count(len(lines))
    n_dir = n_corr = 0
    for i, items in enumerate(progs):
        outs, summary, rbs, xml = parse_fw(o_impl[i])
        bad = None
        if "P" in outs or "dropP" in outs or o_impl[i].startswith("CRASH"):
            bad = "a writer call panicked: %s" % " ".join(outs)[:200]
        elif any(o.startswith("e") for o in outs):
            bad = "a writer call on a valid program returned an error: %s" % " ".join(outs)[:200]
        elif len(rbs) != len(flat_items(items)):
            bad = "the finalized file could not be read back (%s)" % (rbs[:1],)
        else:
            for k, it in enumerate(flat_items(items)):
                exp = expected_readback(it)
                if rbs[k] != exp:
                    bad = "item %d read back as [%s], written [%s]" % (k, rbs[k][:160], exp[:160])
                    break
        if bad:
            n_dir += 1
            cls = classify(items, bad) if classify else tag + "-roundtrip"
            rep.violation(cls, bad + (" [sources hand out at most %d bytes per read]" % src_chunks[i] if src_chunks and src_chunks[i] else ""),
                          dict(kind="writer-program", items=[item_tok(x) for x in items], src_chunk=(src_chunks[i] if src_chunks else None)))
        elif strip_xml(o_impl[i]) != o_model[i].rstrip() or strip_xml(o_rel[i]) != strip_xml(o_impl[i]):
            n_corr += 1
            which = "debug/release" if strip_xml(o_rel[i]) != strip_xml(o_impl[i]) else "model/implementation"
            rep.violation("correspondence-" + tag, "%s differ on a writer program (file bytes, results, device operations or read-back): impl=%s | model=%s" %
                          (which, strip_xml(o_impl[i])[:200], o_model[i][:200]),
                          dict(kind="writer-program", items=[item_tok(x) for x in items], src_chunk=(src_chunks[i] if src_chunks else None),
                               failing="correspondence file-level writer/reader model vs implementation"), no_input=True)
    return o_impl, n_dir, n_corr


def run(rep, tier, rng, replay=None):
    ok = core.proof_step(rep, "C01", thorough=(tier == "thorough"))
    rep.cov["trusted_base"] = core.TRUSTED_COMMON + [
        "the XML text is taken from the implementation's file and given to the model as an input in this property (the XML layer is modelled under C04)",
        "roxmltree parses the crate's own XML (the read-back goes through E57Reader::new)"]
    if not ok:
        return
    if replay and replay.get("kind") == "wapi-calls":
        from props import c10
        return c10.run(rep, tier, rng, replay)
    if replay:
        progs = [[("B", bytes.fromhex(t[2:])) if t.startswith("B:") else
                  ("P", [tuple(x.split("=", 1)) for x in t.split(":")[1].split(",")],
                   [p.split(",") for p in t.split(":")[2].split(";")] if len(t.split(":")) > 2 and t.split(":")[2] else [])
                  for t in replay["items"]]]
    else:
        progs = gen_programs(rng, tier)
    o_impl, n_dir, n_corr = check_programs(rep, progs, "c01")
    residues, widths, caps = set(), set(), 0
    for i, items in enumerate(progs):
        outs = parse_fw(o_impl[i])[0]
        for o in outs:
            if o.startswith("p") and ":" in o and o[1] != "?":
                off = int(o[1:].split(":")[0])
                residues.add((off - 4 * (off // 1024)) % 1020)
        for it in items:
            if it[0] == "P":
                for _, t in it[1]:
                    widths.add(gen.tok_width(t))
                if len(it[2]) > 1000:
                    caps += 1
        rep.distinct(gen.fnv_hex(" ".join(item_tok(x) for x in items).encode()))
    # API-level programs in which a call is REJECTED in between (theorem C01_api_roundtrip speaks of the accepted calls):
    # the rejected-finalize families of the writer-API slice, judged by its independent read-back oracle
    # (points read back = accepted points, bit for bit).  Skipped in a replay of a file-level program.
    n_api = 0
    if not replay:
        try:
            from props import c10
            from vlib import wapi
            api_cases = [(l, c) for l, c in c10.gen_order_cases(core.Rng(rng.next()), tier) if l.startswith("order:rejected-")]
            api_outs = wapi.run_all([c for _, c in api_cases], {})
            rep.count(len(api_cases))
            n_api = len(api_cases)
            for (label, calls), o in zip(api_cases, api_outs):
                bad = wapi.direct_check(calls, o)
                if bad:
                    n_dir += 1
                    rep.violation("c01-api-roundtrip", "%s [%s]" % (bad[0][1], label),
                                  dict(kind="wapi-calls", calls=[wapi.call_tok(c) for c in calls], label=label, replay_with="./tools/check C10 --replay <this file>"))
                    break
        except ImportError as e:                      # the generator is another slice's; C01 runs without it
            rep.cov["api_level_programs_unavailable"] = str(e)[:200]
    rep.cov["api_level_programs_with_rejected_calls"] = n_api
    rep.cov.update(programs=len(progs), section_start_residues_mod_1020=len(residues), widths_covered=len(widths),
                   programs_at_packet_capacity=caps, direct_failures=n_dir, correspondence_failures=n_corr,
                   traces_validated_against_impl=len(progs))
    rep.sample(dict(kind="writer program", items=[item_tok(x)[:120] for x in progs[len(progs) // 2]], impl=strip_xml(o_impl[len(progs) // 2])[:300]))
    rep.cov["rule"] = ("writer programs: blobs and point clouds interleaved; preceding content swept over residues modulo 1020; prototypes over all record names x "
                       "{single,double,integer,scaled integer} x the width grid 0..64 (min=max, full range, negative minima); point counts 0,1,2,.. and k*capacity+{-1,0,1}. "
                       "Each program: implementation (debug+release) writes, finalizes, reads back; direct oracle: read-back equals input bit for bit; "
                       "correspondence: extracted model produces the same file byte for byte, the same results, device operation count and write log, and the same read-back. "
                       "Plus the API-level call sequences in which a point-cloud or image finalize is REJECTED, repaired and repeated with more points in between "
                       "(independent read-back oracle: points read back = accepted points). distinct = distinct program texts")
