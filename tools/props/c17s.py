"""C17, simple iterator part: sessions on one reader that mix raw iteration, simple iteration
(random option masks, early termination), blobs and XML, on intact and damaged files.
Called from c17.py:   stats = c17s.simple_sessions(rep, rng, tier)            (replay: c17s.replay_session(rep, replay))
Case kind SESS2 (harness/src/ext_simple.rs, ocaml/drv_simple.ml).  Direct oracle: the final operation
returns after any history what it returns on a freshly opened reader.  Correspondence: extracted model
(theorems simple_history_independent / after_partial_simple of Proofs/SimpleSessions.v) = implementation."""
from vlib import core, gen, crc
from props import c01, c05

PROTOS = [
    [("x", "D"), ("y", "D"), ("z", "D"), ("cis", "I/0/2"), ("in", "I/0/2047")],
    [("sr", "D"), ("sa", "D"), ("se", "D"), ("sis", "I/0/2"), ("r", "I/0/255"), ("g", "I/0/255"), ("b", "I/0/255"), ("ici", "I/0/1")],
    [("x", "F"), ("y", "F"), ("z", "F"), ("sr", "S/0/100000/3f50624dd2f1a9fc/0000000000000000"), ("sa", "F"), ("se", "F"),
     ("in", "F"), ("iin", "I/0/1"), ("row", "I/0/7"), ("col", "I/-3/3")],
    [("x", "I/-100/100"), ("y", "I/5/5"), ("z", "S/0/1/3ff0000000000000/0000000000000000"), ("ts", "D")],
]
POSES = ["-", "3fe6a09e667f3bcd,0000000000000000,0000000000000000,3fe6a09e667f3bcd,3ff0000000000000,4000000000000000,4008000000000000",
         "3fe0000000000000,3fe0000000000000,3fe0000000000000,3fe0000000000000,0000000000000000,0000000000000000,0000000000000000"]


def tame_points(rng, proto, n):
    pts = gen.rand_points(rng, proto, n)
    for p in pts:
        for j, (nm, ty) in enumerate(proto):
            if ty == "D" and nm in ("sa", "se"):
                p[j] = "d%016x" % c05.rand_angle(rng)
            elif ty == "D" and nm != "ts":
                p[j] = "d%016x" % c05.rand_f64(rng, tame=True)
    return pts


def make_files(rng, impl, nfiles):
    files = []
    for k in range(nfiles):
        items = []
        for j in range(rng.range(3, 5)):
            if rng.chance(1, 4):
                items.append(("B", rng.bytes(rng.choice([0, 3, 700, 1100]))))
            else:
                p = rng.choice(PROTOS)
                items.append(("P", p, tame_points(rng, p, rng.choice([0, 1, 7, 40, 90]))))
        if not any(i[0] == "P" for i in items):
            items.append(("P", PROTOS[0], tame_points(rng, PROTOS[0], 9)))
        if not any(i[0] == "B" for i in items):
            items.append(("B", rng.bytes(55)))
        o = core.run_one(impl, "FW - " + " ".join(c01.item_tok(i) for i in items) + " DUMP")
        outs = o.split(" | ")[0].split()
        dev = bytes.fromhex(o.split(" dev=")[1].split()[0].strip())
        ops = ["X"]
        for it, r in zip(items, outs[1:]):
            if it[0] == "P" and r.startswith("p") and "?" not in r:
                off, n = r[1:].split(":")
                types = ",".join(t for _, t in it[1])
                named = ",".join("%s=%s" % (nm, c05.full_type(t)) for nm, t in it[1])
                ops.append("R:%s:%s:%s:%s" % (off, n, types, rng.choice(["all", "0", "1", "3"])))
                for _ in range(4):
                    mask = rng.choice([61, 63, 0, rng.below(64)])
                    lim = rng.choice(["all", "all", "0", "1", "3", "8"])
                    extra = ":~:~:%s" % rng.choice(POSES) if rng.chance(1, 2) else ""
                    ops.append("S:%s:%s:%s:%d:%s%s" % (off, n, named, mask, lim, extra))
                # descriptors that lie: more records than stored, an offset inside the section
                ops.append("S:%s:%d:%s:%d:all" % (off, int(n) + 5, named, rng.below(64)))
                ops.append("S:%d:%s:%s:61:all" % (int(off) + 8, n, named))
            elif it[0] == "B" and r.startswith("b"):
                off, n = r[1:].split(":")
                ops.append("B:%s:%s" % (off, n))
                ops.append("B:%s:%d" % (off, int(n) + 40))
        files.append(dict(dev=dev, ops=ops))
    return files


def variants(rng, f):
    """intact; a page with a broken checksum; damage inside the binary sections on resealed pages; a truncated file"""
    dev = f["dev"]
    out = [("intact", dev)]
    npages = len(dev) // 1024
    xoff = int.from_bytes(dev[24:32], "little")
    xlog = xoff - 4 * (xoff // 1024)
    # pages that hold neither the header nor XML: the reader opens, operations fail half-way
    data_pages = list(range(1, xoff // 1024)) or [rng.below(npages)]
    for _ in range(3):
        d = bytearray(dev)
        pg = rng.choice(data_pages)
        d[pg * 1024 + rng.below(1024)] ^= 1 << rng.below(8)
        out.append(("bad-checksum-page-%d" % pg, bytes(d)))
    for _ in range(2):
        log = bytearray(crc.strip(dev))
        pos = rng.range(48, max(49, xlog - 1))
        log[pos] ^= rng.range(1, 255)
        d = crc.paginate(bytes(log))[:len(dev)]
        if len(d) == len(dev):
            out.append(("resealed-damage-at-%d" % pos, d))
    # a section cut short: the bytes of the last data pages before the XML replaced by zeros, resealed
    log = bytearray(crc.strip(dev))
    cut = rng.range(max(48, xlog // 2), max(49, xlog - 1))
    log[cut:xlog] = bytes(xlog - cut)
    d = crc.paginate(bytes(log))[:len(dev)]
    if len(d) == len(dev):
        out.append(("truncated-sections-from-%d" % cut, d))
    return out


def run_model(lines, prelude, trig, impl):
    """model results; simple iteration needs Rust's libm by table: `trig-miss` answers extend it"""
    outs = [None] * len(lines)
    keys = [set() for _ in lines]
    todo = list(range(len(lines)))
    rounds = 0
    while todo and rounds < 4:
        rounds += 1
        res = core.run_cases(core.DRIVER, [lines[i] + (" " + trig.tok(keys[i]) if keys[i] else "") for i in todo], prelude=prelude)
        again = []
        for i, o in zip(todo, res):
            outs[i] = o
            if o.startswith("trig-miss "):
                ks = set(o.split()[1:])
                keys[i] |= ks
                trig.need |= ks
                again.append(i)
        trig.fill(impl)
        todo = again
    return outs, rounds


def check_sessions(rep, prelude, sessions, devs):
    impl = core.ensure_harness("debug")
    trig = c05.Trig()
    cases = []
    for (name, hist, final, _) in sessions:
        cases.append("SESS2 - @%s %s %s" % (name, " ".join(hist), final))
        cases.append("SESS2 - @%s %s" % (name, final))
    a = core.run_cases(impl, cases, prelude=prelude)
    m, rounds = run_model(cases, prelude, trig, impl)
    rep.count(len(cases))
    n_dir = n_corr = 0
    for i, (name, hist, final, vname) in enumerate(sessions):
        rep.distinct(("s2", name, tuple(hist), final))
        with_hist, fresh = a[2 * i], a[2 * i + 1]
        r1 = with_hist.split(" # ")[-1] if "open:ok" in with_hist else with_hist
        r2 = fresh.split(" # ")[-1] if "open:ok" in fresh else fresh
        rp = dict(kind="session2", file=devs[name].hex(), history=hist, final=final)
        if r1 in ("P", "new:P") or " end=P " in r1 or with_hist.startswith("CRASH"):
            n_dir += 1
            rep.violation("history-panic", "a read operation panicked after history %s" % [h[:40] for h in hist], rp)
        elif r1 != r2:
            n_dir += 1
            rep.violation("history-dependence", "operation %s returned [%s] after history %s but [%s] on a fresh reader (file variant %s)" %
                          (final[:60], r1[:150], [h[:40] for h in hist], r2[:150], vname), rp)
        elif a[2 * i] != m[2 * i] or a[2 * i + 1] != m[2 * i + 1]:
            n_corr += 1
            j = 2 * i if a[2 * i] != m[2 * i] else 2 * i + 1
            sa, sm = a[j].split(" # "), m[j].split(" # ")
            k = next((k for k in range(min(len(sa), len(sm))) if sa[k] != sm[k]), min(len(sa), len(sm)))
            rep.violation("correspondence-c17", "model/implementation differ on a reader session with simple iteration (variant %s, operation %d): impl=%s model=%s" %
                          (vname, k, (sa[k] if k < len(sa) else "")[:200], (sm[k] if k < len(sm) else "")[:200]),
                          dict(rp, failing="correspondence reader sessions with simple iteration (theorem simple_history_independent)"), no_input=True)
    return dict(simple_sessions=len(sessions), simple_session_direct_failures=n_dir, simple_session_correspondence_failures=n_corr,
                simple_session_cases=len(cases), simple_session_model_rounds=rounds, simple_session_sample=(cases[0][:30] + " ... " + " ".join(cases[0].split()[3:])[:300], a[0][:300]))


def simple_sessions(rep, rng, tier):
    """random sessions; returns a dict of counters for the evidence (also merged into rep.cov)"""
    impl = core.ensure_harness("debug")
    files = make_files(core.Rng(rng.next()), impl, 5 if tier == "quick" else 12)
    nh = 30 if tier == "quick" else 300
    prelude, sessions, devs, kinds = [], [], {}, {}
    vi = 0
    for f in files:
        for (vname, dev) in variants(rng, f):
            name = "w%d" % vi; vi += 1
            prelude.append("BASE %s %s" % (name, dev.hex()))
            devs[name] = dev
            kinds[vname.split("-")[0]] = kinds.get(vname.split("-")[0], 0) + 1
            sops = [o for o in f["ops"] if o.startswith("S:")]
            for _ in range(nh):
                hist = [rng.choice(f["ops"]) for _ in range(rng.range(1, 5))]
                # the simple iterator is in the history or is the final operation
                final = rng.choice(sops) if rng.chance(2, 3) or not any(h.startswith("S:") for h in hist) else rng.choice(f["ops"])
                sessions.append((name, hist, final, vname))
    st = check_sessions(rep, prelude, sessions, devs)
    st["simple_session_file_variants"] = kinds
    rep.cov.update(st)
    rep.cov["rule_simple_sessions"] = ("as the raw sessions, with operations S (simple iteration of a point cloud given by descriptor under a random option mask, "
                                       "complete or abandoned after 0/1/3/8 points, poses, descriptors that lie) mixed with raw iteration, blobs and XML; files intact / bad checksum page / "
                                       "damage in the binary sections on resealed pages / sections zeroed from some offset on; every session on implementation and extracted model; "
                                       "the final operation also on a fresh reader")
    return st


def replay_session(rep, replay):
    dev = bytes.fromhex(replay["file"])
    st = check_sessions(rep, ["BASE r " + replay["file"]], [("r", replay["history"], replay["final"], "replay")], {"r": dev})
    rep.cov.update(st)
    return st
