"""./tools/check X99 : the differential check of the XML parser model (see props/xmlp.py); tools/check
derives the seed from the digits of the property id, hence this numeric alias."""
from props.xmlp import run  # noqa: F401
