"""C17 - read operations are independent of what was read before."""
from vlib import core, gen, crc
from props import c01


def make_files(rng, impl):
    files = []
    protos = [
        [("x", "F"), ("y", "F"), ("z", "F"), ("in", "I/0/2047")],
        [("x", "D"), ("y", "D"), ("z", "D"), ("r", "I/0/255"), ("g", "I/0/255"), ("b", "I/0/255")],
        [("sr", "S/0/100000/3f50624dd2f1a9fc/0000000000000000"), ("sa", "F"), ("se", "F"), ("row", "I/0/7"), ("col", "I/-3/3"), ("ts", "D")],
        [("x", "I/-100/100"), ("y", "I/5/5"), ("z", "S/0/1/3ff0000000000000/0000000000000000")],
    ]
    for k in range(4):
        items = []
        for j in range(rng.range(3, 6)):
            if rng.chance(1, 3):
                items.append(("B", rng.bytes(rng.choice([0, 3, 700, 1100, 2100]))))
            else:
                p = rng.choice(protos)
                items.append(("P", p, gen.rand_points(rng, p, rng.choice([0, 1, 7, 40, 90]))))
        if not any(i[0] == "P" for i in items):
            items.append(("P", protos[0], gen.rand_points(rng, protos[0], 9)))
        if not any(i[0] == "B" for i in items):
            items.append(("B", rng.bytes(55)))
        # a zero-length blob in every file: its extraction reads only the section header, so it shows
        # whether the operation really starts with its own seek
        items.insert(rng.range(0, len(items)), ("B", b""))
        o = core.run_one(impl, "FW - " + " ".join(c01.item_tok(i) for i in items) + " DUMP")
        outs = o.split(" | ")[0].split()
        dev = bytes.fromhex(o.split(" dev=")[1].strip())
        ops = ["X"]
        for it, r in zip(items, outs[1:]):
            if it[0] == "P" and r.startswith("p") and "?" not in r:
                off, n = r[1:].split(":")
                types = ",".join(t for _, t in it[1])
                for lim in ("all", "0", "1", "3"):
                    ops.append("R:%s:%s:%s:%s" % (off, n, types, lim))
                # a descriptor that lies about the record count / points into nowhere
                ops.append("R:%s:%d:%s:all" % (off, int(n) + 5, types))
                ops.append("R:%d:%s:%s:all" % (int(off) + 8, n, types))
            elif it[0] == "B" and r.startswith("b"):
                off, n = r[1:].split(":")
                ops.append("B:%s:%s" % (off, n))
                ops.append("B:%s:%d" % (off, int(n) + 40))
                ops.append("B:%s:0" % off)          # zero-length descriptor on any blob section
        files.append(dict(dev=dev, ops=ops))
    return files


def variants(rng, f):
    """intact; one page with a broken checksum; a damaged section on a resealed page"""
    dev = f["dev"]
    out = [("intact", dev)]
    npages = len(dev) // 1024
    for _ in range(2):
        d = bytearray(dev)
        pg = rng.below(npages)
        d[pg * 1024 + rng.below(1024)] ^= 1 << rng.below(8)
        out.append(("bad-checksum-page-%d" % pg, bytes(d)))
    for _ in range(2):
        log = bytearray(crc.strip(dev))
        # damage the binary sections only: the XML text is outside the binary model (C08 covers it)
        xoff = int.from_bytes(dev[24:32], "little")
        xlog = xoff - 4 * (xoff // 1024)
        pos = rng.range(48, max(49, xlog - 1))
        log[pos] ^= rng.range(1, 255)
        d = crc.paginate(bytes(log))[:len(dev)]
        if len(d) == len(dev):
            out.append(("resealed-damage-at-%d" % pos, d))
    return out


def run(rep, tier, rng, replay=None):
    ok = core.proof_step(rep, "C17", thorough=(tier == "thorough"))
    rep.cov["trusted_base"] = core.TRUSTED_COMMON + ["point-cloud descriptors are handed to the reader as PointCloud values built by the harness (public fields)"]
    if not ok:
        return
    impl = core.ensure_harness("debug")
    files = make_files(core.Rng(rng.next()), impl)
    prelude, sessions = [], []   # sessions: (name, [history ops], final op)
    nh = 40 if tier == "quick" else 1500
    vi = 0
    kinds = {}
    for f in files:
        for (vname, dev) in variants(rng, f):
            name = "v%d" % vi; vi += 1
            prelude.append("BASE %s %s" % (name, dev.hex()))
            kinds[vname.split("-")[0]] = kinds.get(vname.split("-")[0], 0) + 1
            for _ in range(nh):
                hist = [rng.choice(f["ops"]) for _ in range(rng.range(1, 6))]
                final = rng.choice(f["ops"])
                sessions.append((name, hist, final, vname))
    if replay and replay.get("kind") == "session2":
        from props import c17s
        c17s.replay_session(rep, replay)
        return
    if replay:
        prelude = ["BASE r " + replay["file"]]
        sessions = [("r", replay["history"], replay["final"], "replay")]
    cases = []
    for (name, hist, final, _) in sessions:
        cases.append("SESS - @%s %s %s" % (name, " ".join(hist), final))
        cases.append("SESS - @%s %s" % (name, final))
    a = core.run_cases(impl, cases, prelude=prelude)
    m = core.run_cases(core.DRIVER, cases, prelude=prelude)
    rep.count(len(cases))
    n_dir = n_corr = 0
    for i, (name, hist, final, vname) in enumerate(sessions):
        rep.distinct((name, tuple(hist), final))
        with_hist, fresh = a[2 * i], a[2 * i + 1]
        r1 = with_hist.split(" # ")[-1] if "open:ok" in with_hist else with_hist
        r2 = fresh.split(" # ")[-1] if "open:ok" in fresh else fresh
        if "P" == r1 or with_hist.startswith("CRASH"):
            n_dir += 1
            rep.violation("history-panic", "a read operation panicked after history %s" % hist, dict(kind="session", history=hist, final=final))
        elif r1 != r2:
            n_dir += 1
            dev = [p for p in prelude if p.startswith("BASE %s " % name)][0].split(" ", 2)[2]
            rep.violation("history-dependence", "operation %s returned [%s] after history %s but [%s] on a fresh reader (file variant %s)" %
                          (final[:50], r1[:150], [h[:30] for h in hist], r2[:150], vname),
                          dict(kind="session", file=dev, history=hist, final=final))
        elif a[2 * i] != m[2 * i] or a[2 * i + 1] != m[2 * i + 1]:
            n_corr += 1
            dev = [p for p in prelude if p.startswith("BASE %s " % name)][0].split(" ", 2)[2]
            rep.violation("correspondence-c17", "model/implementation differ on a reader session (variant %s): impl=%s model=%s" % (vname, a[2 * i][-200:], m[2 * i][-200:]),
                          dict(kind="session", file=dev, history=hist, final=final, failing="correspondence reader sessions (theorem C17_history_independent)"), no_input=True)
    rep.cov.update(sessions=len(sessions), file_variants=kinds, direct_failures=n_dir, correspondence_failures=n_corr,
                   traces_validated_against_impl=len(cases))
    rep.sample(dict(kind="session", case=cases[0][:40] + " ... " + " ".join(cases[0].split()[3:])[:300], impl=a[0][:300]))
    # sessions that include the simple iterator (slice "simple": SESS2 case kind, model of PointCloudReaderSimple)
    if not replay:
        from props import c17s
        c17s.simple_sessions(rep, core.Rng(rng.next()), tier)
    rep.cov["rule"] = ("files with several point clouds and blobs, intact / one page with a broken checksum / a damaged section on resealed pages; random histories of 1-5 read "
                       "operations (XML, raw iteration complete or stopped after 0/1/3 points, descriptors that lie about the record count or point into a section, blobs, "
                       "blobs longer than stored) followed by a final operation; the final operation is also run on a freshly opened reader and must return the same; "
                       "every session also runs on the extracted model. distinct = distinct (file variant, history, final operation)")
