"""C03 - the reader decodes every well-formed file whatever legal layout was chosen.

Direct leg (needs no implementation-shaped model): random scenes x random legal layouts are
encoded by the EXTRACTED independent encoder (FileSpec.spec_encode_file) and read by the REAL
crate: open, list the point clouds from the XML, read each with the raw iterator, read every
blob.  The reader must return the XML as encoded, the prototypes as encoded, exactly
recordCount points with exactly the encoded values, and exactly the blob bytes.
Correspondence leg: the extracted reader model on the same files gives the same results."""
from vlib import core, gen, specgen
from props import c01


def gen_files(rng, tier):
    """list of (entries, names, xml_seed)"""
    files = []
    n_tiny, n_small, n_big = (170, 110, 10) if tier == "quick" else (6000, 4000, 300)
    for size, n in (("tiny", n_tiny), ("small", n_small), ("big", n_big)):
        for _ in range(n):
            entries = specgen.rand_file(rng, size)
            names = [specgen.record_names(rng, len(e[2])) for e in entries if e[0] == "P"]
            files.append((entries, names, rng.next()))
    # section starts swept over residues modulo 1020 (a blob of chosen length before a tiny vector)
    for res in (range(0, 1020, 12) if tier == "quick" else range(1020)):
        types, pts = specgen.rand_scene(rng, "tiny")
        L = (res - 64) % 1020
        entries = [("B", 0, rng.bytes(L)), ("P", 0, types, pts, specgen.rand_layout(rng, types, len(pts), "random")), ("X",)]
        files.append((entries, [specgen.record_names(rng, len(types))], rng.next()))
    return files


def spec_line(entries, xml):
    return "SPECENC %s %s" % (xml.hex(), " ".join(specgen.entry_tok(e) for e in entries))


def expected_rd(entries, offs, xml):
    """what the harness's RD prints when the reader is right"""
    pcs = [(e, o) for e, o in zip(entries, offs) if e[0] == "P"]
    out = "ok xml=%s pcs=%d" % (gen.fnv_hex(xml), len(pcs))
    for e, off in pcs:
        txt = gen.points_tok(e[3])
        s = "n=%d end=none h=%s" % (len(e[3]), gen.fnv_hex(txt.encode()))
        if len(txt) <= 1500:
            s += " pts=" + txt
        out += " # pc %d %d %s # %s" % (off, len(e[3]), ",".join(specgen.shown_type(t) for t in e[2]), s)
    return out


def sess_ops(entries, offs, with_pcs):
    ops = ["X"]
    for e, off in zip(entries, offs):
        if e[0] == "B":
            ops.append("B:%d:%d" % (off, len(e[2])))
        elif e[0] == "P" and with_pcs:
            ops.append("R:%d:%d:%s:all" % (off, len(e[3]), ",".join(specgen.bare_type(t) for t in e[2])))
    return ops


def expected_sess(entries, offs, xml, with_pcs):
    out = ["open:ok", "xml=" + gen.fnv_hex(xml)]
    for e, off in zip(entries, offs):
        if e[0] == "B":
            out.append("ok n=%d h=%s" % (len(e[2]), gen.fnv_hex(e[2])))
        elif e[0] == "P" and with_pcs:
            txt = gen.points_tok(e[3])
            s = "n=%d end=none h=%s" % (len(e[3]), gen.fnv_hex(txt.encode()))
            if len(txt) <= 1500:
                s += " pts=" + txt
            out.append(s)
    return " # ".join(out)


def coq_bytes(b):
    return "[" + "; ".join(str(x) for x in b) + "]"


def coq_type(t):
    if t == "F":
        return "TSingle"
    if t == "D":
        return "TDouble"
    p = t.split("/")
    return "(%s (%s) (%s))" % ("TInteger" if p[0] == "I" else "TScaled", p[1], p[2])


def coq_value(v):
    k, a = v[0], v[1:]
    if k == "f":
        return "VSingle %d" % int(a, 16)
    if k == "d":
        return "VDouble %d" % int(a, 16)
    return "%s (%s)" % ("VScaled" if k == "s" else "VInteger", a)


def crosscheck_extraction(rep, entries, xml, filehex):
    """the same layout evaluated inside Coq by vm_compute must give the bytes the extracted encoder gave"""
    import os, subprocess, tempfile
    defs, fl = [], []
    for k, e in enumerate(entries):
        if e[0] == "X":
            fl.append("FXml")
        elif e[0] == "B":
            fl.append("FBlob %s %d" % (coq_bytes(e[2]), e[1]))
        else:
            n = len(e[2])
            defs.append("Definition proto%d : list dtype := [%s]." % (k, "; ".join(coq_type(t) for t in e[2])))
            defs.append("Definition pts%d : list (list rvalue) := [%s]." % (k, "; ".join("[" + "; ".join(coq_value(v) for v in p) + "]" for p in e[3])))
            for i in range(n):
                defs.append("Definition s%d_%d := spec_stream_bytes (nth %d proto%d TSingle) (column %d pts%d)." % (k, i, i, k, i, k))
            pos = [0] * n
            pk = []
            for p in e[4]:
                if p[0] == "I":
                    pk.append("SIndex %d" % p[1])
                elif p[0] == "G":
                    pk.append("SIgnored %d" % p[1])
                else:
                    ch = []
                    for i, c in enumerate(p[1]):
                        ch.append("slice %d %d s%d_%d" % (pos[i], c, k, i))
                        pos[i] += c
                    pk.append("SData [%s]" % "; ".join(ch))
            fl.append("FPc proto%d pts%d [%s] %d" % (k, k, "; ".join(pk), e[1]))
    text = ("From E57 Require Import Base.Prelude Model.Record Spec.BitSpec Spec.FormatSpec Spec.FileSpec.\nOpen Scope N_scope.\n"
            + "\n".join(defs) + "\nDefinition fl : file_layout := [%s].\n" % "; ".join(fl)
            + "Definition x : list N := %s.\nDefinition expected : list N := %s.\n" % (coq_bytes(xml), coq_bytes(bytes.fromhex(filehex)))
            + "Eval vm_compute in (file_layout_ok fl, bytes_eqb (spec_encode_file fl x) expected).\n")
    tmp = tempfile.mkdtemp(prefix="e57x_")
    try:
        path = os.path.join(tmp, "Cross.v")
        open(path, "w").write(text)
        rc, out, err = core.sh(["coqc", "-Q", os.path.join(core.COQ, "theories"), "E57", path], timeout=600)
    finally:
        import shutil
        shutil.rmtree(tmp, ignore_errors=True)
    if "(true, true)" not in out.replace("\n", " "):
        rep.violation("extraction-mismatch", "spec_encode_file evaluated by vm_compute differs from the extracted OCaml code: %s" % (out + err)[-300:],
                      dict(kind="extraction", coq=text[:4000]), no_input=True)
        return False
    return True



def classify(exp, got):
    if got.startswith("CRASH") or got.startswith("open:P") or " P" in got or "new:P" in got or "end=P" in got:
        return "c03-panic"
    if got.startswith("open:e"):
        return "c03-open"
    ge, gg = exp.split(" # "), got.split(" # ")
    if ge[0] != gg[0]:
        return "c03-xml"
    for a, b in zip(ge[1:], gg[1:]):
        if a != b:
            if a.startswith("pc "):
                return "c03-prototype"
            if a.startswith("ok n="):
                return "c03-blob"
            return "c03-points"
    return "c03-points"


def place_batch(files, variants):
    """(xml, offs) per file; with `variants` the XML is a structural variant (comments, processing instructions,
    prefixed E57 namespace) rendered by the EXTRACTED Spec/XmlRender.render under choices derived from a seed
    (attribute order, quotes, blanks in tags, self-closing, CDATA or escaped text, character references,
    declaration, byte order mark).  The XML states offsets that depend on its own length: iterate to the fixpoint."""
    n = len(files)
    xl = [0] * n
    done = [None] * n
    tags = [[] for _ in range(n)]
    for rnd in range(10):
        todo = [i for i in range(n) if done[i] is None]
        if not todo:
            break
        docs = {}
        for i in todo:
            entries, names, seed = files[i]
            st, end = specgen.starts(entries, xl[i])
            offs = [specgen.phys_of_log(s) for s in st]
            xml = specgen.make_xml(entries, offs, names, core.Rng(seed))
            if variants[i]:
                xml, tags[i] = specgen.tree_variant(xml, core.Rng(seed ^ 0x5eed))
            docs[i] = (xml, offs)
        rl = [i for i in todo if variants[i]]
        if rl:
            out = core.run_cases(core.DRIVER, ["XMLRENDER %s %d" % (docs[i][0].hex(), 1 + files[i][2] % 1000003) for i in rl])
            for i, o in zip(rl, out):
                if o.startswith("r "):
                    docs[i] = (bytes.fromhex(o[2:].strip()), docs[i][1])
                    if "rendered" not in tags[i]:
                        tags[i] = tags[i] + ["rendered"]
                else:
                    tags[i] = [t for t in tags[i] if t != "rendered"] + ["render-refused:" + o[:20]]
        for i in todo:
            xml, offs = docs[i]
            if len(xml) == xl[i]:
                done[i] = (xml, offs)
            elif variants[i] and 0 < xl[i] - len(xml) <= 256 and rnd > 0:
                # the rendering choices depend on the digits of the offsets, so the length need not settle:
                # fill up to the length the offsets were computed for with blanks behind the root element
                done[i] = (xml + b"\n" * (xl[i] - len(xml)), offs)
            else:
                xl[i] = len(xml) + (64 if variants[i] else 0)
    if any(d is None for d in done):
        raise core.InfraError("XML length did not reach a fixpoint")
    return done, tags



def corner_cases():
    """deterministic files with the XML BEFORE the binary sections and a section as the very last thing of the
    file, its end exactly on the logical end of the file (= end of the last page payload):
    - a compressed vector without records and packets (data offset = physical size of the file), with one point,
      with an index packet and an empty data packet;
    - a compressed vector whose last data packet has raw length 1, 2, 3 (and 0) mod 4, so that the reader's
      alignment after the packet lands exactly on the end of the file - and, as control, 4 bytes before it;
      one-page and multi-page files; a last packet of one stream and of several; a FIRST packet whose padded
      end is exactly an interior page-payload boundary;
    - a blob of length 0, 1, 2, 3 mod 4 as the last section ending exactly at the logical end."""
    out = []

    def place_last(entries, names, cls, min_pages=1):
        fixed = sum(specgen.entry_len(e, 0) for e in entries if e[0] != "X")
        st0, _ = specgen.starts(entries, 0)
        natural = len(specgen.make_xml(entries, [specgen.phys_of_log(x) + 10 ** 6 for x in st0], names))
        pages = min_pages
        while pages * 1020 - 48 - fixed < natural + 8 or (pages * 1020 - 48 - fixed) % 4:
            pages += 1
        target = pages * 1020 - 48 - fixed
        st, end = specgen.starts(entries, target)
        assert end == pages * 1020, (end, pages)
        offs = [specgen.phys_of_log(x) for x in st]
        xml = specgen.make_xml(entries, offs, names)
        xml = xml + b"\n" * (target - len(xml))
        out.append((entries, xml, offs, spec_line(entries, xml), None, dict(names=names, prefix=None, pair=None, cls=cls)))

    for types, pts, packets in ((["F"], [], []), (["F"], [["f3f800000"]], [("D", [4])]), (["I/5/5", "D"], [], [("I", 16), ("D", [0, 0])])):
        place_last([("X",), ("P", 0, types, pts, packets)], [["cartesianX", "cartesianY"][:len(types)]], "c03-empty-vector-at-file-end")
    byte = "I/0/255"
    for k in (1, 2, 3, 4, 5, 6, 7):                       # raw length of the last packet = 8 + k: all residues mod 4
        pts = [["i%d" % (17 * j % 256)] for j in range(k)]
        for slack in (0, 4):                              # 4 = control: four spare bytes behind the packet
            for min_pages in (1, 3):
                place_last([("X",), ("P", slack, [byte], pts, [("D", [k])])], [["intensity"]], "c03-section-at-file-end", min_pages)
    # several packets, the last one short; two streams in the last packet (raw = 6 + 4 + 1 + 2 = 13)
    pts = [["i%d" % j, "i%d" % (1000 + j)] for j in range(5)]
    place_last([("X",), ("P", 0, [byte, "I/0/65535"], pts, [("D", [4, 8]), ("G", 8), ("D", [1, 2])])], [["intensity", "rowIndex"]], "c03-section-at-file-end")
    # a section of more than one page whose last packet ends the file: 2500 one-byte values in packets of 997 bytes
    # (raw 1005 = 1 mod 4) and a last packet of raw length 8 + 506 = 2 mod 4
    pts = [["i%d" % (j % 251)] for j in range(2500)]
    place_last([("X",), ("P", 0, [byte], pts, [("D", [997]), ("D", [997]), ("D", [506])])], [["intensity"]], "c03-section-at-file-end")
    # the FIRST packet's padded end exactly on an interior page-payload boundary (alignment onto a page boundary that
    # is not the end of the file): blob before the vector sized so that section start + 32 + padded packet = 2040
    for k in (1, 2, 3):
        pts = [["i%d" % (j % 256)] for j in range(k + 3)]
        first = 8 + k + specgen.pad4(8 + k)
        blob_len = 2040 - 48 - 16 - 32 - first
        ents = [("B", 0, bytes((7 * j) % 256 for j in range(blob_len))), ("P", 0, [byte], pts, [("D", [k]), ("D", [3])]), ("X",)]
        assert specgen.entry_len(ents[0], 0) == 16 + blob_len and (48 + 16 + blob_len + 32 + first) == 2040
        names = [["intensity"]]
        xml, offs, end = specgen.place(ents, names, None)
        out.append((ents, xml, offs, spec_line(ents, xml), None, dict(names=names, prefix=None, pair=None, cls="c03-packet-ends-at-page-boundary")))
    # a blob as the last section, ending exactly at the logical end
    for L in (0, 1, 2, 3, 4, 1019, 1021):
        place_last([("X",), ("B", 0, bytes((3 * j + L) % 256 for j in range(L)))], [], "c03-blob-at-file-end")
    return out


def process(rep, impl, impl_rel, cases, acc, allow_cross):
    """one batch: cases = [(entries | None, xml, offs, SPECENC line, replay | None, extra)];
    extra = dict(names=, prefix=, pair=) (pair: files of the same scene in different renderings)"""
    stats, widths, residues, pads = acc["stats"], acc["widths"], acc["residues"], acc["pads"]
    enc = core.run_cases(core.DRIVER, [c[3] for c in cases])
    rep.count(len(cases))
    rd_lines, sess_lines, sess_small, meta = [], [], [], []
    for i, (entries, xml, offs, line, rp, extra) in enumerate(cases):
        o = enc[i]
        if o.startswith("CRASH") or o.startswith("driver-"):
            stats["driver_crashes"] += 1
            rep.violation("c03-driver-crash", "the model driver died on a layout (%s): %s" % (o[:60], line[:200]),
                          dict(kind="spec-file", spec_line=line, xml=xml.hex(), offs=offs), no_input=True)
            continue
        if not o.startswith("ok "):
            stats["illegal"] += 1
            rep.violation("c03-generator", "the generator produced a layout the specification calls illegal (%s): %s" % (o[:60], line[:200]),
                          dict(kind="spec-file", spec_line=line, xml=xml.hex(), offs=offs), no_input=True)
            continue
        f = dict(t.split("=", 1) for t in o.split()[1:])
        if [int(x) for x in f["offs"].split(",")] != list(offs):
            rep.violation("c03-offsets", "placement computed by the generator differs from spec_layout_offsets: %s vs %s" % (offs, f["offs"]),
                          dict(kind="spec-file", spec_line=line, xml=xml.hex(), offs=offs), no_input=True)
            continue
        if f["followed"] == "0":
            # a compressed vector followed by nothing at all at the end of the last page (the reader once failed
            # on an empty one there, /repo 2adadd6): read like every other file
            stats["unfollowed"] += 1
        stats["files"] += 1
        stats["bytes"] += int(f["len"])
        filehex = f["file"]
        exp_rd = expected_rd(entries, offs, xml) if entries else rp["expected_rd"]
        exp_se = expected_sess(entries, offs, xml, False) if entries else rp["expected_sess"]
        ops = sess_ops(entries, offs, False) if entries else rp["ops"]
        ops_all = sess_ops(entries, offs, True) if entries else rp["ops_all"]
        exp_meta = specgen.expected_dump(entries, offs, extra["names"], extra.get("prefix")) if entries else rp.get("expected_meta")
        rd_lines.append("RD - " + filehex)
        sess_lines.append("SESS - %s %s" % (filehex, " ".join(ops)))
        small = int(f["len"]) <= 40 * 1024
        sess_small.append("SESS - %s %s" % (filehex, " ".join(ops_all)) if small else None)
        meta.append(dict(line=line, xml=xml, offs=list(offs), exp_rd=exp_rd, exp_se=exp_se, ops=ops, ops_all=ops_all, filehex=filehex,
                         exp_meta=exp_meta, pair=(extra or {}).get("pair"), cls=(extra or {}).get("cls")))
        if entries:
            pos = [k for k, e in enumerate(entries) if e[0] == "X"][0]
            stats["xml_first" if pos == 0 and len(entries) > 1 else "xml_last" if pos == len(entries) - 1 else "xml_middle"] += 1
            for e, off in zip(entries, offs):
                if e[0] == "X":
                    continue
                residues.add(specgen.log_of_phys(off) % 1020)
                pads.add(e[1])
                if e[0] == "P":
                    pk = e[4]
                    stats["packets"] += len(pk)
                    stats["index"] += sum(1 for p in pk if p[0] == "I")
                    stats["ignored"] += sum(1 for p in pk if p[0] == "G")
                    stats["empty_chunks"] += sum(sum(1 for c in p[1] if c == 0) for p in pk if p[0] == "D")
                    stats["empty_data_packets"] += sum(1 for p in pk if p[0] == "D" and sum(p[1]) == 0)
                    stats["nondata_first"] += 1 if pk and pk[0][0] != "D" else 0
                    stats["nondata_last"] += 1 if pk and pk[-1][0] != "D" else 0
                    stats["max_packets"] += sum(1 for p in pk if specgen.packet_len(p, len(e[2])) >= 65000)
                    stats["zero_points"] += 1 if not e[3] else 0
                    for t in e[2]:
                        widths.add(gen.tok_width(t))
                        stats["zero_width_records"] += 1 if gen.tok_width(t) == 0 else 0
            rep.distinct(gen.fnv_hex(line.encode()))
            # extraction is checked, not trusted: a few small layouts are evaluated inside Coq as well
            if allow_cross and acc["cross"] < 3 and len(filehex) <= 2 * 3072 and any(e[0] == "P" and e[3] and len(e[4]) > 1 for e in entries):
                crosscheck_extraction(rep, entries, xml, filehex)
                acc["cross"] += 1
    # ---- direct leg: the real reader
    a_rd = core.run_cases(impl, rd_lines)
    a_rd_rel = core.run_cases(impl_rel, rd_lines)
    a_se = core.run_cases(impl, sess_lines)
    a_meta = [o.split(" ;; ")[0] for o in core.run_cases(impl, ["RNEW " + m["filehex"] for m in meta])]
    failed = set()
    for k, m in enumerate(meta):
        for got, exp, what in ((a_rd[k], m["exp_rd"], "open + point clouds"), (a_rd_rel[k], m["exp_rd"], "open + point clouds (release build)"),
                               (a_se[k], m["exp_se"], "XML + blobs")):
            if got != exp:
                acc["n_dir"] += 1
                failed.add(k)
                cls = m["cls"] or classify(exp, got)
                rep.violation(cls, "the reader does not return what the specification-driven encoder encoded (%s): expected [%s] got [%s]; layout %s" %
                              (what, exp[:220], got[:220], m["line"][m["line"].index(" ", 8):][:300]),
                              dict(kind="spec-file", spec_line=m["line"], xml=m["xml"].hex(), offs=m["offs"], file=m["filehex"],
                                   expected_rd=m["exp_rd"], expected_sess=m["exp_se"], ops=m["ops"], ops_all=m["ops_all"]))
                break
        # everything the reader exposes (record NAMES, types with defaults, counts, guids, blobs, extensions) is as encoded
        if k not in failed and m["exp_meta"] is not None and a_meta[k] != m["exp_meta"]:
            acc["n_dir"] += 1
            failed.add(k)
            ge, gg = m["exp_meta"].split(), a_meta[k].split()
            diff = next(("%s != %s" % (a, b) for a, b in zip(ge, gg) if a != b), "length %d != %d" % (len(ge), len(gg)))
            rep.violation(m["cls"] or "c03-metadata", "the metadata the reader exposes is not what was encoded (first difference: expected %s); XML %s" %
                          (diff[:200], m["xml"][:400].decode(errors="replace").replace("\n", " ")),
                          dict(kind="spec-file", spec_line=m["line"], xml=m["xml"].hex(), offs=m["offs"], file=m["filehex"],
                               expected_rd=m["exp_rd"], expected_sess=m["exp_se"], ops=m["ops"], ops_all=m["ops_all"], expected_meta=m["exp_meta"]))
    # metamorphic: the same scene in two renderings gives the same dump (modulo section offsets and the prefix list)
    by_pair = {}
    for k, m in enumerate(meta):
        if m["pair"] is not None:
            by_pair.setdefault(m["pair"], []).append(k)
    for ks in by_pair.values():
        for k in ks[1:]:
            acc["pairs"] += 1
            if specgen.mask_dump(a_meta[k]) != specgen.mask_dump(a_meta[ks[0]]) and k not in failed and ks[0] not in failed:
                acc["n_dir"] += 1
                rep.violation("c03-metadata", "two renderings of the same XML tree are read as different metadata: [%s] vs [%s]" % (a_meta[ks[0]][:300], a_meta[k][:300]),
                              dict(kind="spec-file", spec_line=meta[k]["line"], xml=meta[k]["xml"].hex(), offs=meta[k]["offs"], file=meta[k]["filehex"],
                                   expected_rd=meta[k]["exp_rd"], expected_sess=meta[k]["exp_se"], ops=meta[k]["ops"], ops_all=meta[k]["ops_all"],
                                   expected_meta=meta[k]["exp_meta"]))
    # ---- correspondence leg: the extracted reader model on the same files (small files: the list-based model is slow on long streams)
    idx = [k for k, l in enumerate(sess_small) if l is not None]
    m_se = core.run_cases(core.DRIVER, [sess_small[k] for k in idx])
    a_se2 = core.run_cases(impl, [sess_small[k] for k in idx])
    rep.count(len(idx))
    for j, k in enumerate(idx):
        if m_se[j] != a_se2[j] and k not in failed:
            acc["n_corr"] += 1
            rep.violation("correspondence-c03", "reader model and implementation differ on a specification-encoded file: impl=[%s] model=[%s]" % (a_se2[j][:200], m_se[j][:200]),
                          dict(kind="spec-file", spec_line=meta[k]["line"], xml=meta[k]["xml"].hex(), offs=meta[k]["offs"],
                               expected_rd=meta[k]["exp_rd"], expected_sess=meta[k]["exp_se"], ops=meta[k]["ops"], ops_all=meta[k]["ops_all"],
                               failing="correspondence reader model vs implementation"), no_input=True)
    acc["read"] += len(meta)
    acc["corr"] += len(idx)
    if meta and acc["sample"] is None:
        mid = len(meta) // 2
        acc["sample"] = dict(kind="spec-encoded file", layout=meta[mid]["line"][meta[mid]["line"].index(" ", 8):][:300], reader=a_rd[mid][:300])


def run(rep, tier, rng, replay=None):
    ok = core.proof_step(rep, "C03", thorough=(tier == "thorough"))
    rep.cov["trusted_base"] = core.TRUSTED_COMMON + [
        "Spec/FileSpec.v + Spec/FormatSpec.v + Spec/BitSpec.v + Spec/PageSpec.v: my reading of ASTM E2807 (tested on every run of C02 against the bundled libE57Format files)",
        "the XML text of the generated files is produced by tools/vlib/specgen.py in the crate's own lexical style (lexical variants belong to the XML specification); placement arithmetic recomputed in Python and cross-checked against the extracted spec_layout_offsets on every file",
        "roxmltree parses the XML of the generated files"]
    if not ok:
        return
    specgen.big_stack()
    impl = core.ensure_harness("debug")
    impl_rel = core.ensure_harness("release")
    acc = dict(stats=dict(files=0, illegal=0, driver_crashes=0, unfollowed=0, packets=0, index=0, ignored=0, empty_chunks=0, empty_data_packets=0,
                          nondata_first=0, nondata_last=0, xml_first=0, xml_middle=0, xml_last=0, zero_points=0, zero_width_records=0,
                          max_packets=0, bytes=0),
               widths=set(), residues=set(), pads=set(), cross=0, xml_variants={}, pairs=0, n_dir=0, n_corr=0, read=0, corr=0, sample=None)
    if replay and replay.get("kind") == "spec-file":
        process(rep, impl, impl_rel, [(None, bytes.fromhex(replay["xml"]), replay["offs"], replay["spec_line"], replay, None)], acc, False)
    else:
        process(rep, impl, impl_rel, corner_cases(), acc, False)
        files = gen_files(rng, tier)
        batch = 400
        for b in range(0, len(files), batch):
            chunk = files[b:b + batch]
            variants = [(seed >> 7) % 5 < 3 for _, _, seed in chunk]       # 3 of 5 files get a variant XML
            # the first variant files of the batch are also encoded with the plain XML of the same scene (metamorphic leg)
            twins = [i for i, v in enumerate(variants) if v][:24]
            chunk = chunk + [chunk[i] for i in twins]
            variants = variants + [False] * len(twins)
            pair = {i: b + j for j, i in enumerate(twins)}
            pair.update({len(chunk) - len(twins) + j: b + j for j in range(len(twins))})
            placed, tags = place_batch(chunk, variants)
            cases = []
            for i, ((entries, names, seed), (xml, offs)) in enumerate(zip(chunk, placed)):
                pre = next((t.split("=", 1)[1] for t in tags[i] if t.startswith("prefix=")), None)
                cases.append((entries, xml, offs, spec_line(entries, xml), None, dict(names=names, prefix=pre, pair=pair.get(i))))
            for t in tags:
                for x in t:
                    key = x.split(":")[0].split("=")[0]
                    acc["xml_variants"][key] = acc["xml_variants"].get(key, 0) + 1
            process(rep, impl, impl_rel, cases, acc, True)
    rep.cov.update(acc["stats"])
    rep.cov.update(widths_covered=len(acc["widths"]), section_start_residues_mod_1020=len(acc["residues"]), distinct_pads=len(acc["pads"]),
                   layouts_cross_checked_by_vm_compute=acc["cross"], xml_variants=acc["xml_variants"], rendering_pairs_compared=acc["pairs"], direct_failures=acc["n_dir"], correspondence_failures=acc["n_corr"],
                   correspondence_files=acc["corr"], traces_validated_against_impl=acc["read"] + acc["corr"])
    if acc["sample"]:
        rep.sample(acc["sample"])
    rep.cov["rule"] = ("random scenes (all record data types, widths 0..64, zero-width records, 0 points) x random LEGAL layouts (packet payloads from 1 byte to the 64 KiB limit, "
                       "unequal chunking per record, values straddling packets, empty chunks, data packets of empty chunks only, records finishing early, index/ignored packets "
                       "at every position including first and last) x file layouts (blobs interleaved, section order, XML before/between/after the sections, extra padding, "
                       "section starts swept over residues modulo 1020), encoded by the extracted spec_encode_file and read by the real crate (debug + release): "
                       "XML, the FULL metadata dump the reader exposes (record names, types with defaults explicit, counts, guids, blob references, extensions), every value, every blob byte must be as encoded; "
                       "the same scene in plain and variant rendering must give the same dump; the extracted reader model must agree with the crate on the same files; "
                       "three small layouts are also evaluated by vm_compute inside Coq and compared with the extracted encoder. "
                       "The XML of 3 of 5 files is a variant: comments / processing instructions between elements, the E57 namespace bound to a prefix, default-valued "
                       "type attributes omitted, then rendered by the extracted Spec/XmlRender.render under random choices (attribute order, quote style, blanks in tags, "
                       "self-closing, CDATA or escaped text, character references, declaration, byte order mark); the oracle is unchanged. distinct = distinct layouts")
