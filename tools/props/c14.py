"""C14 - bounds and default limits written by the writer are exact."""
from vlib import core, gen, wapi

SCALES = ["3ff0000000000000", "3f50624dd2f1a9fc", "bf50624dd2f1a9fc", "c000000000000000", "3fb999999999999a", "0000000000000000", "7fefffffffffffff"]
OFFSETS = ["0000000000000000", "4059000000000000", "c024000000000000", "8000000000000000", "fff0000000000000"]
F64_POOL = [0x0, 0x8000000000000000, 0x3ff0000000000000, 0xbff0000000000000, 0x7ff0000000000000, 0xfff0000000000000, 0x1, 0x8000000000000001,
            0x7fefffffffffffff, 0xffefffffffffffff, 0x400921fb54442d18, 0xc00921fb54442d18, 0x3fb999999999999a, 0x4341c37937e08000]
F32_POOL = [0x0, 0x80000000, 0x3f800000, 0xbf800000, 0x7f800000, 0xff800000, 0x1, 0x80000001, 0x7f7fffff, 0xff7fffff, 0x40490fdb, 0x3dcccccd]
INT_RANGES = [(0, 255), (-128, 127), (0, 1), (-5, -5), (0, 65535), (-(1 << 31), (1 << 31) - 1), (wapi.I64_MIN, wapi.I64_MAX), (wapi.I64_MIN, wapi.I64_MIN + 10),
              (wapi.I64_MAX - 10, wapi.I64_MAX), (-(1 << 53) - 3, (1 << 53) + 3), (1000, 1000000)]


def coord_type(rng, allow_int=True):
    k = rng.choice(["F", "D", "I", "S"] if allow_int else ["F", "D", "S"])
    if k in ("F", "D"):
        return k
    mn, mx = rng.choice(INT_RANGES)
    if k == "I":
        return "I/%d/%d" % (mn, mx)
    return "S/%d/%d/%s/%s" % (mn, mx, rng.choice(SCALES), rng.choice(OFFSETS))


def lim_type(rng):
    k = rng.below(6)
    if k == 0:
        return "F"
    if k == 1:
        return "F/%08x/%08x" % (rng.choice(F32_POOL), rng.choice(F32_POOL))
    if k == 2:
        return rng.choice(["D", "D/-/3ff0000000000000", "D/0000000000000000/-", "D/bff0000000000000/3ff0000000000000", "D/7ff8000000000000/7ff0000000000000"])
    mn, mx = rng.choice(INT_RANGES)
    if k == 3:
        return "S/%d/%d/%s/%s" % (mn, mx, rng.choice(SCALES), rng.choice(OFFSETS))
    return "I/%d/%d" % (mn, mx)


def value_pool(t, nan=False):
    k = wapi.type_kind(t)
    if k == "F":
        return ["f%08x" % b for b in F32_POOL + ([0x7fc00000, 0xffc00001] if nan else [])]
    if k == "D":
        return ["d%016x" % b for b in F64_POOL + ([0x7ff8000000000000, 0xfff0000000000001] if nan else [])]
    mn, mx = wapi.type_range(t)
    vals = sorted(set(v for v in (mn, mx, mn + 1, mx - 1, 0, -1, 1, (mn + mx) // 2, (1 << 53) + 1, -(1 << 53) - 1) if mn <= v <= mx))
    return [("i%d" if k == "I" else "s%d") % v for v in vals]


def gen_point_seq(rng, proto, pattern, n, nan=False):
    pools = [value_pool(t, nan) for _, t in proto]
    if pattern == "empty":
        return []
    if pattern == "constant":
        p = [rng.choice(pl) for pl in pools]
        return [list(p) for _ in range(n)]
    if pattern == "staggered":
        # the extremes of axis k sit at positions k mod n (max) and (k+1) mod n (min); the rest is mid-range
        pts = []
        for i in range(n):
            p = []
            for k, ((_, t), pl) in enumerate(zip(proto, pools)):
                order = sorted(pl, key=lambda v: wapi.to_f64(t, v)) if not any(wapi.to_f64(t, v) != wapi.to_f64(t, v) for v in pl) else pl
                if i == k % n:
                    p.append(order[-1])
                elif i == (k + 1) % n:
                    p.append(order[0])
                else:
                    p.append(order[len(order) // 2])
            pts.append(p)
        return pts
    return [[rng.choice(pl) for pl in pools] for _ in range(n)]


def build_proto(rng, groups, dup=False):
    proto = []
    if "C" in groups:
        t = coord_type(rng)
        proto += [("x", t if rng.chance(1, 2) else coord_type(rng)), ("y", t), ("z", coord_type(rng))]
    if "S" in groups:
        proto += [("sr", coord_type(rng)), ("sa", coord_type(rng, False)), ("se", coord_type(rng, False))]
    if "RC" in groups:
        proto += [("row", "I/%d/%d" % rng.choice(INT_RANGES)), ("col", "I/%d/%d" % rng.choice(INT_RANGES))]
    if "RT" in groups:
        proto += [("rc", "I/%d/%d" % rng.choice(INT_RANGES)), ("ri", "I/%d/%d" % rng.choice(INT_RANGES))]
    if "K" in groups:
        proto += [("r", lim_type(rng)), ("g", lim_type(rng)), ("b", lim_type(rng))]
    if "I" in groups:
        proto += [("in", lim_type(rng))]
    if dup and proto:
        n, t = rng.choice(proto)
        proto.append((n, coord_type(rng, n not in ("sa", "se")) if n in ("x", "y", "z", "sr", "sa", "se") else t))
    if rng.chance(1, 3):
        for i in range(len(proto) - 1, 0, -1):
            j = rng.below(i + 1)
            proto[i], proto[j] = proto[j], proto[i]
    if all(wapi.type_width(t) == 0 for _, t in proto):
        proto.append(("ts", "D"))
    return proto


def gen_cases(rng, tier):
    cases = []
    subsets = []
    for m in range(64):
        g = [x for i, x in enumerate(["C", "S", "RC", "RT", "K", "I"]) if m >> i & 1]
        if "C" in g or "S" in g:
            subsets.append(g)
    reps = 1 if tier == "quick" else 12
    patterns = [("empty", 0), ("single", 1), ("constant", 4), ("random", 2), ("random", 7), ("staggered", 3), ("staggered", 9)]
    for g in subsets:
        for _ in range(reps):
            for pat, n in patterns:
                proto = build_proto(rng, g)
                pts = gen_point_seq(rng, proto, pat, n)
                calls = [("NEW", "g"), ("PC", "pc", proto)] + [("PT", p) for p in pts] + [("PFIN",), ("PDROP",), ("FIN",)]
                cases.append(("%s:%s" % ("+".join(g), pat), calls))
    # NaN in the data (outside the property's quantifier: only panic, read-back and correspondence are judged on those axes)
    for _ in range(40 if tier == "quick" else 600):
        proto = build_proto(rng, rng.choice(subsets))
        pts = gen_point_seq(rng, proto, "random", rng.range(1, 6), nan=True)
        cases.append(("nan:random", [("NEW", "g"), ("PC", "pc", proto)] + [("PT", p) for p in pts] + [("PFIN",), ("PDROP",), ("FIN",)]))
    # rejected points whose bounded attributes are more extreme than every accepted point: the bounds are
    # those of the points added, a rejected call leaves no trace (the offending value comes last, or first)
    for g in subsets:
        for bad_last in (True, False):
            proto = [(n, t) for n, t in build_proto(rng, g) if n != "ts"]
            proto = proto + [("ts", "D")] if bad_last else [("ts", "D")] + proto
            k_bad = len(proto) - 1 if bad_last else 0
            pools = [sorted(value_pool(t), key=lambda v, t=t: wapi.to_f64(t, v)) for _, t in proto]
            mid = [pl[len(pl) // 2] for pl in pools]
            calls = [("NEW", "g"), ("PC", "pc", proto), ("PT", list(mid))]
            for pick in (0, -1):
                q = [pl[pick] for pl in pools]
                q[k_bad] = rng.choice(["i0", "f00000000", "s1"])
                calls.append(("PT", q))
                if rng.chance(1, 2):
                    calls.append(("PT", q[:-1]))
            calls += [("PT", list(mid)), ("PFIN",), ("PDROP",), ("FIN",)]
            cases.append(("%s:rejected-extreme" % "+".join(g), calls))
    # extension records whose LOCAL name is intensity / colorRed / colorGreen / colorBlue (another type than the
    # standard record) before, after and without the standard record: the default limits come from the
    # standard record only (none when it is absent)
    xyz = [("x", "D"), ("y", "D"), ("z", "D")]
    ux = lambda nm: ("u", "e1", nm)
    std_in, std_rgb = [("in", "I/0/255")], [("r", "I/0/255"), ("g", "I/0/1023"), ("b", "I/10/20")]
    ext_in = [(ux("intensity"), "I/0/7")]
    ext_rgb = [(ux("colorRed"), "I/0/7"), (ux("colorGreen"), "I/0/7"), (ux("colorBlue"), "I/0/7")]
    shapes = [("ext-intensity-before", ext_in + xyz + std_in), ("ext-intensity-after", xyz + std_in + ext_in),
              ("ext-intensity-alone", xyz + ext_in), ("ext-intensity-float-std", ext_in + xyz + [("in", "F/00000000/3f800000")]),
              ("ext-color-before", ext_rgb + xyz + std_rgb), ("ext-color-after", xyz + std_rgb + ext_rgb),
              ("ext-color-alone", xyz + ext_rgb), ("ext-color-mixed", xyz + [ext_rgb[0], std_rgb[0], ext_rgb[1], std_rgb[1], std_rgb[2], ext_rgb[2]]),
              ("ext-red-only-before", [ext_rgb[0]] + xyz + std_rgb), ("ext-both", ext_in + ext_rgb + xyz + std_in + std_rgb)]
    for label, proto in shapes:
        for n in (0, 2):
            pts = gen_point_seq(rng, proto, "random", n)
            calls = [("NEW", "g"), ("EXT", "e1", "http://e.example/1"), ("PC", "pc", proto)] + [("PT", p) for p in pts] + [("PFIN",), ("PDROP",), ("FIN",)]
            cases.append(("limits:" + label, calls))
    # a rejected finalize (incomplete limits of one kind) must not lose the limits of the other kind
    cases += wapi.rejected_limits_cases(rng)
    # duplicate attribute names, several clouds per file, rejected points in between, limit overrides
    for _ in range(40 if tier == "quick" else 600):
        calls = [("NEW", "g")]
        for k in range(rng.range(1, 3)):
            proto = build_proto(rng, rng.choice(subsets), dup=rng.chance(1, 2))
            calls.append(("PC", "pc%d" % k, proto))
            if rng.chance(1, 2) and any(n == "in" for n, _ in proto):
                calls.append(("PSET", "ilim", rng.choice(["i0/i100", "d0000000000000000/d3ff0000000000000", "-", "i1/-", "f00000000/f3f800000", "s-5/s5"])))
            if rng.chance(1, 2) and any(n == "r" for n, _ in proto):
                calls.append(("PSET", "clim", rng.choice(["i0/i255/i0/i255/i0/i255", "-", "i0/i255/-/i255/i0/i255", "f00000000/f3f800000/d0000000000000000/d3ff0000000000000/i0/s9"])))
            for p in gen_point_seq(rng, proto, "random", rng.range(0, 6)):
                if rng.chance(1, 5):
                    q = list(p)
                    q[rng.below(len(q))] = rng.choice(["i%d" % (1 << 62), "f00000000", "d0000000000000000", "s77"])
                    calls.append(("PT", q))
                calls.append(("PT", p))
            calls += [("PFIN",), ("PDROP",)]
        calls.append(("FIN",))
        cases.append(("mixed:multi", calls))
    return cases


def run(rep, tier, rng, replay=None):
    ok = core.proof_step(rep, "C14", thorough=(tier == "thorough"))
    rep.cov["trusted_base"] = core.TRUSTED_COMMON + [
        "Rust's Display for f64/f32 is an oracle (harness FDISPLAY, checked to be plain text that parses back); the model generates the whole file itself (XmlGen.gen_root), the XML bytes are borrowed from the implementation only for sequences with a float text missing from the table (counted: xml_borrowed_fallback)",
        "bounds and limits are observed through E57Reader after the XML round trip (Rust's float Display / FromStr: exact for finite values, NaN payloads canonicalised)",
        "expected minima / maxima are computed with Python floats (IEEE-754 doubles; int -> float conversion rounds to nearest even; multiply then add, no fused operation)",
        "Flocq 4.1.0 as the definition of IEEE-754 arithmetic in the model (Base/Floats.v)"]
    if not ok:
        return
    if replay and replay.get("kind") == "wapi-calls":
        cases = [("replay", wapi.calls_of_tokens(replay["calls"]))]
    else:
        cases = gen_cases(rng, tier)
    tie_stats = {}
    outs = wapi.run_all([c for _, c in cases], tie_stats)
    rep.count(len(cases))
    n_dir = n_corr = 0
    fams, types_seen, npoints = {}, set(), 0
    for (label, calls), o in zip(cases, outs):
        fams[label.split(":")[1]] = fams.get(label.split(":")[1], 0) + 1
        toks = [wapi.call_tok(c) for c in calls]
        rep.distinct(gen.fnv_hex(" ".join(toks).encode()))
        for c in calls:
            if c[0] == "PC":
                for n, t in c[2]:
                    types_seen.add((n if isinstance(n, str) else "ext", wapi.type_kind(t)))
            elif c[0] == "PT":
                npoints += 1
        bad = wapi.direct_check(calls, o)
        if bad:
            n_dir += 1
            seen = set()
            for cls, text in bad:
                if cls in seen:
                    continue
                seen.add(cls)
                rep.violation("c14-" + cls, "%s [%s]" % (text, label), dict(kind="wapi-calls", calls=toks, label=label, impl=o["impl"].split(" | xml=")[0][:1500]))
            continue
        diff = wapi.compare_model(o)
        if diff:
            n_corr += 1
            rep.violation("correspondence-c14", "%s [%s]" % (diff, label),
                          dict(kind="wapi-calls", calls=toks, label=label, failing="correspondence writer API model vs implementation (bounds, limits)",
                               impl=o["impl"].split(" | xml=")[0][:1500], model=o["model"][:1500]), no_input=True)
    fd_bad = tie_stats.pop("_fd_bad", [])
    if fd_bad:
        rep.violation("float-oracle", "Rust's Display/parse of a float does not satisfy the oracle hypotheses: %r" % (fd_bad[:2],), dict(kind="float-oracle", bad=[list(x) for x in fd_bad]), no_input=True)
    rep.cov.update(tie_stats)
    rep.cov.update(sequences=len(cases), point_patterns=fams, attribute_type_pairs=len(types_seen), points_added=npoints,
                   direct_failures=n_dir, correspondence_failures=n_corr, traces_validated_against_impl=len(cases))
    mid = len(cases) // 2
    rep.sample(dict(kind="call sequence", label=cases[mid][0], calls=[wapi.call_tok(c)[:90] for c in cases[mid][1]][:12], impl=outs[mid]["impl"].split(" | xml=")[0][:500]))
    rep.cov["rule"] = ("every subset of the attribute groups {Cartesian, spherical, row/column, return, colour, intensity} that contains coordinates (48) x point patterns "
                       "{empty, single, constant, random, extremes of different axes at different positions}; attribute types over single, double, integer and scaled integer "
                       "(scales negative, zero, tiny, huge; offsets negative, -0, -inf; ranges up to the full i64 range and beyond 2^53); values from pools of extremes "
                       "(+-0, denormals, +-max, +-inf, range ends); plus rejected points more extreme than every accepted one, NaN data, duplicate attribute names, several clouds per file, rejected points in between, complete and "
                       "incomplete limit overrides. Direct oracle: bounds read back through the real reader equal min/max computed independently over the accepted points "
                       "(as real values; present exactly for the groups of the prototype; absent fields for empty clouds), every point within them, limits = declared range of "
                       "the attribute type or the complete override. Correspondence: device bytes, results, and the reader's bounds/limits/prototype/points against the extracted "
                       "state machine's descriptors (bit patterns, NaN canonicalised). distinct = distinct call sequences")
