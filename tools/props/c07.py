"""C07 - corrupted pages never yield data; CRC is CRC-32C in both backends."""
from vlib import core, gen, crc
from props import c01

# witnesses proved in Coq (Proofs/CrcBurst.v), as xor patterns relative to the start of a page:
# positions are bit indices in the page (byte = i // 8); lsb: bit i % 8, msb: bit 7 - i % 8
STRADDLE_LSB = [8137, 8140, 8142, 8143, 8145, 8146, 8151, 8152, 8155, 8157, 8158, 8159, 8161, 8163, 8164, 8165, 8166, 8168]
STRADDLE_MSB = [8129, 8130, 8131, 8132, 8133, 8134, 8136, 8137, 8139, 8141, 8142, 8147, 8152, 8153, 8155, 8157, 8158, 8160]
BURST32_MSB = [1, 2, 6, 8, 11, 13, 15, 16, 17, 18, 22, 23, 24, 25, 26, 27, 28, 29, 31, 32]


def patch_of_bits(page, bits, msb=False):
    """bit positions inside page -> {byte position in file: xor mask}"""
    d = {}
    for i in bits:
        pos = page * 1024 + i // 8
        m = 1 << ((7 - i % 8) if msb else (i % 8))
        d[pos] = d.get(pos, 0) ^ m
    return {k: v for k, v in d.items() if v}


def dev_tok(name, patch):
    return "@" + name + "".join("^%d:%02x" % (k, v) for k, v in sorted(patch.items()))


def is_errorish(o):
    return o.startswith("e") or o.startswith("new:e") or o.startswith("open:e")


def op_ok(alt, base):
    """altered result must be an error, or identical; a partly successful iteration must be a prefix"""
    if alt == base or is_errorish(alt):
        return True
    if alt.startswith("n=") and " end=e" in alt and base.startswith("n="):
        ap = alt.split(" pts=")[1] if " pts=" in alt else ""
        bp = base.split(" pts=")[1] if " pts=" in base else None
        n = int(alt[2:].split()[0])
        if n == 0:
            return True
        return bp is not None and (bp == ap or bp.startswith(ap + ";"))
    return False


def make_bases(rng, impl):
    """small files written by the implementation itself, with their descriptors"""
    progs = []
    proto1 = [("x", "F"), ("y", "F"), ("z", "F"), ("in", "I/0/2047")]
    progs.append([("B", rng.bytes(37)), ("P", proto1, gen.rand_points(rng, proto1, 12))])
    proto2 = [("x", "D"), ("y", "D"), ("z", "D"), ("r", "I/0/255"), ("g", "I/0/255"), ("b", "I/0/255")]
    progs.append([("P", proto2, gen.rand_points(rng, proto2, 30)), ("B", rng.bytes(700)), ("P", proto1, gen.rand_points(rng, proto1, 5))])
    proto3 = [("sr", "S/0/100000/3f50624dd2f1a9fc/0000000000000000"), ("sa", "F"), ("se", "F"), ("row", "I/0/7"), ("col", "I/-3/3")]
    progs.append([("B", rng.bytes(1100)), ("P", proto3, gen.rand_points(rng, proto3, 20)), ("B", b"")])
    # a file whose data pages hold neither the header nor XML: damage there leaves open() intact, so the
    # session reaches the read operations; sections share pages and one spans several pages; the long blob's
    # content looks like a blob section header at every 4-aligned position, so that bytes served from a wrong
    # page are accepted by the section parsers and show up as wrong data rather than as an error
    proto4 = [("x", "F"), ("y", "F"), ("z", "F"), ("r", "I/0/255"), ("g", "I/0/255"), ("b", "I/0/255")]
    progs.append([("B", rng.bytes(990)), ("B", rng.bytes(100)), ("B", bytes([0, 1, 1, 1]) * 625), ("P", proto4, gen.rand_points(rng, proto4, 40)), ("B", rng.bytes(64))])
    bases = []
    for k, items in enumerate(progs):
        line = "- " + " ".join(c01.item_tok(i) for i in items) + " DUMP"
        o = core.run_one(impl, "FW " + line)
        outs = o.split(" | ")[0].split()
        dev = bytes.fromhex(o.split(" dev=")[1].strip())
        ops = ["X"]
        tail = []
        for it, r in zip(items, outs[1:]):
            if it[0] == "P" and r.startswith("p"):
                off, n = r[1:].split(":")
                types = ",".join(t for _, t in it[1])
                ops.append("R:%s:%s:%s:all" % (off, n, types))
                tail.append("R:%s:%s:%s:2" % (off, n, types))
            elif it[0] == "B" and r.startswith("b"):
                off, n = r[1:].split(":")
                ops.append("B:%s:%s" % (off, n))
        # everything once, then partial reads, then everything again on the same reader
        seq = ops + tail + ops[1:]
        if k == 3:
            # back and forth: an operation that fails is followed by one that re-reads the page cached before the failure
            body = ops[1:]
            seq = ops + body[::-1] + [body[1], body[2], body[1], body[3], body[2], body[4], body[3], body[0], body[2], body[0]] + tail
        bases.append(dict(name="f%d" % k, dev=dev, ops=seq))
    return bases


def continued_iteration(rep, tier, rng, impl, replay=None):
    """(iv) ONE iterator that goes on after an error (harness kind CONT): every point it yields after a failure must
    still be the point of the unaltered file at that position.  The file puts the end of a non-final data packet
    exactly on the end of a page (blob of 408 bytes, then XYZ doubles: 504 + 2 * 65028 = 128 * 1020), the layout in
    which a reader that has moved on past a failed page finds a well-formed packet header next."""
    proto = [("x", "D"), ("y", "D"), ("z", "D")]
    n = 9000
    sd = replay["seed"] if replay else rng.next()
    r2 = core.Rng(sd)
    items = [("B", r2.bytes(408)), ("P", proto, gen.rand_points(r2, proto, n))]
    o = core.run_one(impl, "FW - " + " ".join(c01.item_tok(i) for i in items) + " DUMP")
    outs = o.split(" | ")[0].split()
    dev = bytes.fromhex(o.split(" dev=")[1].strip())
    pdesc = [x for x in outs if x.startswith("p")][0]
    off, cnt = pdesc[1:].split(":")
    # where do the data packets end in the logical stream?
    log = crc.strip(dev)
    lo = int(off) - 4 * (int(off) // 1024)
    pos = lo + 32
    ends = []
    while pos + 4 <= len(log) and log[pos] == 1 and len(ends) < 8:
        ln = int.from_bytes(log[pos + 2:pos + 4], "little") + 1
        pos += ln
        ends.append(pos)
    at_page_end = [e for e in ends[:-1] if e % 1020 == 0]
    rep.cov["continued_iteration_layout"] = dict(packets=len(ends), packet_ends=ends[:5], non_final_packet_ends_on_a_page_end=bool(at_page_end))
    pages = set()
    for e in ends[:-1]:
        pg = e // 1020
        pages.update([pg - 2, pg - 1, pg, pg + 1])
    for _ in range(6 if tier == "quick" else 60):
        pages.add(r2.range(2, len(dev) // 1024 - 2))
    patches = []
    if replay:
        patches = [{int(k): v for k, v in replay["patch"].items()}]
    else:
        for pg in sorted(x for x in pages if 1 <= x < len(dev) // 1024 - 1):
            for inpage in (0, 511, 1019, 1021):
                patches.append({pg * 1024 + inpage: 1 << r2.below(8)})
    types = ",".join(t for _, t in proto)
    prelude = ["BASE c " + dev.hex()]
    base = core.run_cases(impl, ["CONT @c %s %s %s 3" % (off, cnt, types)], prelude=prelude)[0].split(",")
    res = core.run_cases(impl, ["CONT %s %s %s %s 3" % (dev_tok("c", pt), off, cnt, types) for pt in patches], prelude=prelude)
    rep.count(len(patches))
    n_after = 0
    for pt, line in zip(patches, res):
        rep.distinct(("cont", tuple(sorted(pt.items()))))
        toks = line.split(",")
        k, bad, failed = 0, None, False
        for t in toks:
            if t.startswith("o"):
                if failed:
                    n_after += 1
                if k >= len(base) or base[k] != t:
                    bad = "point %d yielded %s differs from the unaltered file's" % (k, "AFTER an error of the same iterator" if failed else "before any error")
                    break
                k += 1
            elif t.startswith("e") or t.startswith("open:e") or t.startswith("new:e"):
                failed = True
            elif t == "P" or t.endswith(":P"):
                bad = "panic while iterating an altered file"
                break
        if bad:
            if rep.violation("c07-continued-iteration", "altered file (patch %s), one raw iterator continued after errors: %s (results %s)" %
                             (sorted(pt.items()), bad, ",".join(x if not x.startswith("o") else "o" for x in toks[-8:])),
                             dict(kind="continued", seed=sd, patch={str(k2): v for k2, v in pt.items()})):
                break
    rep.cov["continued_iteration"] = dict(altered_files=len(patches), points_yielded_after_an_error=n_after)


def run(rep, tier, rng, replay=None):
    ok = core.proof_step(rep, "C07", thorough=(tier == "thorough"))
    rep.cov["trusted_base"] = core.TRUSTED_COMMON + [
        "the optional crc32c crate is not modelled: its agreement with the model's CRC-32C is tested on the payloads of this run",
        "roxmltree (XML parsing inside E57Reader::new)"]
    if not ok:
        return
    impl = core.ensure_harness("debug")
    impl_hw = core.ensure_harness("debug", ("crc32c",))
    if replay and replay.get("kind") == "continued":
        continued_iteration(rep, tier, rng, impl, replay)
        return

    # ---- (i) CRC of both backends against the model, on random and structured payloads
    payloads = [b"", b"\x00", b"\xff" * 1020, bytes(range(256)) * 3, b"123456789"]
    for i in range(0, 1020, 97):
        for b in (1, 0x80):
            p = bytearray(1020); p[i] = b; payloads.append(bytes(p))
    for _ in range(150 if tier == "quick" else 3000):
        payloads.append(rng.bytes(rng.range(0, 1020)))
    cl = [p.hex() for p in payloads]
    a = core.run_cases(impl, ["CRCPAGE " + x for x in cl])
    h = core.run_cases(impl_hw, ["CRCPAGE " + x for x in cl])
    m = core.run_cases(core.DRIVER, ["CRC " + (p + bytes(1020 - len(p))).hex() for p in payloads])
    rep.count(len(cl))
    rep.cov["crc_payloads"] = len(cl)
    for i, p in enumerate(payloads):
        rep.distinct(("crc", gen.fnv_hex(p)))
        ref = str(crc.crc32c(p + bytes(1020 - len(p)))) if len(p) else "0"
        if len(p) == 0:
            continue
        if a[i] != m[i] or h[i] != m[i]:
            rep.violation("crc-backend", "checksum of a %d-byte payload: built-in %s, crc32c feature %s, CRC-32C model %s" % (len(p), a[i], h[i], m[i]),
                          dict(kind="crc", payload=p.hex()))
            break

    # ---- (ii) files written by both backends are identical
    progs = c01.gen_programs(core.Rng(rng.next()), "quick")[:40]
    lines = ["- " + " ".join(c01.item_tok(i) for i in items) for items in progs]
    fa = core.run_cases(impl, ["FW " + l for l in lines])
    fh = core.run_cases(impl_hw, ["FW " + l for l in lines])
    rep.count(len(lines))
    for i in range(len(lines)):
        if fa[i] != fh[i]:
            rep.violation("crc-backend-files", "the two CRC backends write different files: %s vs %s" % (fa[i][:150], fh[i][:150]),
                          dict(kind="writer-program", items=[c01.item_tok(x) for x in progs[i]]))
            break

    # ---- (ii-b) page sizes other than 1024: validate_crc, raw_xml and the page reader accept any page size the
    #      header states, so the checksum is computed over payloads whose length is not a multiple of four
    ps_cases, ps_meta = [], []
    r2 = core.Rng(rng.next())
    for ps in [52, 53, 54, 55, 64, 100, 513, 515, 1021, 1022, 1023, 1025, 1026, 1027, 2048, 4099] + [r2.range(52, 3000) for _ in range(8 if tier == "quick" else 80)]:
        pay = ps - 4
        npages = r2.range(2, 4)
        log = bytearray(r2.bytes(npages * pay))
        # header: signature, version 1.0, physical length, XML offset/length inside page 1, page size
        xml_log_off = pay + r2.range(0, max(0, pay - 20))
        xml_len = r2.range(1, 16)
        phys_xml_off = xml_log_off + 4 * (xml_log_off // pay)
        log[0:48] = b"ASTM-E57" + (1).to_bytes(4, "little") + (0).to_bytes(4, "little") + (npages * ps).to_bytes(8, "little") + \
            phys_xml_off.to_bytes(8, "little") + xml_len.to_bytes(8, "little") + ps.to_bytes(8, "little")
        dev = bytearray()
        for p in range(npages):
            pl = bytes(log[p * pay:(p + 1) * pay])
            dev += pl + crc.crc32c(pl).to_bytes(4, "big")
        want_xml = bytes(log[xml_log_off:xml_log_off + xml_len])
        variants = [("intact", bytes(dev))]
        for p in range(npages):
            for back in (1, 2, 3, 4, 5):       # the last payload bytes of each page
                d2 = bytearray(dev); d2[p * ps + pay - back] ^= 1 << r2.below(8); variants.append(("flip-last-%d" % back, bytes(d2)))
            d2 = bytearray(dev); d2[p * ps + r2.below(pay)] ^= 1 << r2.below(8); variants.append(("flip-random", bytes(d2)))
        for kind, d in variants:
            # the flip may hit the header's page-size field itself: then the file describes another page size; skip those
            if d[40:48] != bytes(dev[40:48]) or d[0:8] != b"ASTM-E57":
                continue
            ps_cases += ["VCRC - " + d.hex(), "RAWXML - " + d.hex(), "PR - %d %s s0 x%d s%d x%d" % (ps, d.hex(), pay, ps, pay)]
            ps_meta.append((ps, kind, want_xml, d))
    pa = core.run_cases(impl, ps_cases)
    ph = core.run_cases(impl_hw, ps_cases)
    pm = core.run_cases(core.DRIVER, ps_cases)
    rep.count(len(ps_cases))
    rep.cov["other_page_size_cases"] = len(ps_cases)
    for k, (ps, kind, want_xml, d) in enumerate(ps_meta):
        v, x, pr = pa[3 * k], pa[3 * k + 1], pa[3 * k + 2]
        rep.distinct(("ps", ps, kind, gen.fnv_hex(d)))
        bad = None
        if kind == "intact":
            if v != "ok %d" % ps:
                bad = "validate_crc rejects an intact file with page size %d (%s)" % (ps, v)
            elif x != "ok n=%d h=%s" % (len(want_xml), gen.fnv_hex(want_xml)):
                bad = "raw_xml of an intact file with page size %d returns %s" % (ps, x)
        else:
            if not v.startswith("e"):
                bad = "validate_crc accepts a file with page size %d after a %s alteration (%s)" % (ps, kind, v)
            elif x.startswith("ok") and x != "ok n=%d h=%s" % (len(want_xml), gen.fnv_hex(want_xml)):
                bad = "raw_xml returns altered bytes (page size %d, %s)" % (ps, kind)
        if bad:
            rep.violation("crc-other-page-size", bad, dict(kind="crc-page-size", page_size=ps, alteration=kind, file=d.hex()))
            break
        for j in range(3):
            if pa[3 * k + j] != pm[3 * k + j] or pa[3 * k + j] != ph[3 * k + j]:
                which = "model/implementation" if pa[3 * k + j] != pm[3 * k + j] else "built-in CRC/crc32c feature"
                if rep.violation("correspondence-c07", "%s differ on %s with page size %d (%s): impl=%s other=%s" % (
                        which, ps_cases[3 * k + j].split()[0], ps, kind, pa[3 * k + j][:120], (pm if pa[3 * k + j] != pm[3 * k + j] else ph)[3 * k + j][:120]),
                        dict(kind="crc-page-size", page_size=ps, alteration=kind, file=d.hex(), failing="correspondence on page sizes other than 1024"), no_input=True):
                    break

    # ---- (iii) alterations
    bases = make_bases(core.Rng(rng.next()), impl)
    prelude = ["BASE %s %s" % (b["name"], b["dev"].hex()) for b in bases]
    alts = []   # (base index, patch dict, kind)
    for bi, b in enumerate(bases):
        npages = len(b["dev"]) // 1024
        # exhaustive single-bit flips (quick: first two bases)
        if tier == "thorough" or bi < 2:
            for pg in range(npages):
                for i in range(8192):
                    alts.append((bi, patch_of_bits(pg, [i]), "1bit"))
        elif bi == 3:
            # data pages 1..3 of the file with XML-free data pages: every 2nd bit (thorough: all, above)
            for pg in range(1, min(4, npages)):
                for i in range(pg % 2, 8192, 2):
                    alts.append((bi, patch_of_bits(pg, [i]), "1bit"))
        n2 = 400 if tier == "quick" else 20000
        for _ in range(n2):
            pg = rng.below(npages)
            k = rng.choice([2, 3])
            bits = set()
            while len(bits) < k:
                bits.add(rng.choice([rng.below(8192), rng.range(8100, 8191)]))
            alts.append((bi, patch_of_bits(pg, sorted(bits)), "%dbit" % k))
        for _ in range(n2):
            pg = rng.below(npages)
            span = rng.range(2, 32)
            inside_crc = rng.chance(1, 8)
            a0 = rng.range(8160, 8192 - span) if inside_crc else rng.range(0, 8160 - span)
            bits = {a0, a0 + span - 1} | {a0 + rng.below(span) for _ in range(rng.range(0, span))}
            alts.append((bi, patch_of_bits(pg, sorted(bits)), "burst-lsb"))
            span = rng.range(2, 31)
            a0 = rng.range(0, 8160 - span)
            bits = {a0, a0 + span - 1} | {a0 + rng.below(span) for _ in range(rng.range(0, span))}
            alts.append((bi, patch_of_bits(pg, sorted(bits), msb=True), "burst-msb31"))
        for _ in range(100 if tier == "quick" else 3000):
            pg = rng.below(npages)
            pos = pg * 1024 + rng.below(1024)
            n = rng.range(1, 40)
            alts.append((bi, {min(pos + j, len(b["dev"]) - 1): rng.range(1, 255) for j in range(n)}, "overwrite"))
        # the format-level witnesses proved in Coq
        for pg in range(npages):
            alts.append((bi, patch_of_bits(pg, STRADDLE_LSB), "straddle-lsb"))
            alts.append((bi, patch_of_bits(pg, STRADDLE_MSB, msb=True), "straddle-msb"))
            alts.append((bi, patch_of_bits(pg, BURST32_MSB, msb=True), "burst32-msb"))
    if replay and replay.get("kind") == "alteration":
        alts = [(replay["base"], {int(k): v for k, v in replay["patch"].items()}, replay["alt_kind"])]
    # baseline
    base_out = []
    for b in bases:
        base_out.append(dict(
            sess=core.run_cases(impl, ["SESS - @%s %s" % (b["name"], " ".join(b["ops"]))], prelude=prelude)[0],
            vcrc=core.run_cases(impl, ["VCRC - @%s" % b["name"]], prelude=prelude)[0],
            rawxml=core.run_cases(impl, ["RAWXML - @%s" % b["name"]], prelude=prelude)[0],
            open=core.run_cases(impl, ["OPEN - @%s" % b["name"]], prelude=prelude)[0]))
        if not base_out[-1]["vcrc"].startswith("ok") or "open:ok" not in base_out[-1]["sess"]:
            raise core.InfraError("baseline file does not read: %s" % base_out[-1])
    cases = []
    for bi, patch, kind in alts:
        tok = dev_tok(bases[bi]["name"], patch)
        cases += ["SESS - %s %s" % (tok, " ".join(bases[bi]["ops"])), "VCRC - " + tok, "RAWXML - " + tok, "OPEN - " + tok]
    out = core.run_cases(impl, cases, prelude=prelude)
    # the model on a sample (every case in the replay / every 5th otherwise), the other backend on a sample
    step = 1 if len(alts) < 50 else 5
    sample_idx = [i for i in range(len(cases)) if (i // 4) % step == 0]
    out_m = core.run_cases(core.DRIVER, [cases[i] for i in sample_idx], prelude=prelude)
    out_h = core.run_cases(impl_hw, [cases[i] for i in sample_idx], prelude=prelude)
    rep.count(len(cases))
    kinds = {}
    n_dir = 0
    for ai, (bi, patch, kind) in enumerate(alts):
        kinds[kind] = kinds.get(kind, 0) + 1
        rep.distinct((bi, tuple(sorted(patch.items()))))
        sess, vcrc, rawxml, opn = out[4 * ai:4 * ai + 4]
        bo = base_out[bi]
        bad = None
        if any(x.startswith("CRASH") or x == "P" or " P" in x.split(" pts=")[0] for x in (sess, vcrc, rawxml, opn)):
            bad = "a read operation panicked on an altered file"
        if not bad and not vcrc.startswith("e"):
            bad = "validate_crc accepts an altered file (%s)" % vcrc
        if not bad and not (rawxml == bo["rawxml"] or rawxml.startswith("e")):
            bad = "raw_xml returns different data without an error"
        if not bad and not (opn.split(" ops=")[0] == bo["open"].split(" ops=")[0] or opn.startswith("e")):
            bad = "open hands out different header/XML data without an error: %s (unaltered: %s)" % (opn[:120], bo["open"][:120])
        if not bad:
            aops, bops = sess.split(" # "), bo["sess"].split(" # ")
            if not is_errorish(aops[0]):
                for j in range(min(len(aops), len(bops))):
                    if not op_ok(aops[j], bops[j]):
                        bad = "read operation %d (%s) on the altered file returned [%s], on the unaltered file [%s]" % (
                            j, (["open"] + bases[bi]["ops"])[j][:40], aops[j][:150], bops[j][:150])
                        break
        if bad:
            n_dir += 1
            pos = sorted(patch)[0]
            in_header = kind == "1bit" and pos < 48
            cls = {"straddle-lsb": "crc-burst-straddles-checksum-boundary", "straddle-msb": "crc-burst-straddles-checksum-boundary",
                   "burst32-msb": "crc-burst32-msb-first-order"}.get(kind, "altered-file-header-bytes" if in_header else "alteration-" + kind)
            rep.violation(cls, "%s alteration of file %s at byte(s) %s: %s" % (kind, bases[bi]["name"], sorted(patch)[:6], bad),
                          dict(kind="alteration", base=bi, patch={str(k): v for k, v in patch.items()}, alt_kind=kind,
                               file=bases[bi]["dev"].hex(), ops=bases[bi]["ops"]))
    n_corr = 0
    skipped = 0
    model_open = {ci // 4: out_m[k] for k, ci in enumerate(sample_idx) if ci % 4 == 3}
    for k, ci in enumerate(sample_idx):
        # a collision that alters the XML text: UTF-8 decoding and XML parsing are outside the binary model
        mo = model_open.get(ci // 4, "")
        if ci % 4 in (0, 3) and mo.startswith("ok") and " xml=" in mo and \
           mo.split(" xml=")[1].split()[0] != base_out[alts[ci // 4][0]]["open"].split(" xml=")[1].split()[0]:
            skipped += 1
            continue
        if out[ci] != out_m[k] or out[ci] != out_h[k]:
            n_corr += 1
            bi, patch, kind = alts[ci // 4]
            which = "model/implementation" if out[ci] != out_m[k] else "built-in CRC/crc32c feature"
            if rep.violation("correspondence-c07", "%s differ on %s with %s alteration at %s: impl=%s other=%s" %
                             (which, cases[ci].split()[0], kind, sorted(patch)[:4], out[ci][:160], (out_m[k] if out[ci] != out_m[k] else out_h[k])[:160]),
                             dict(kind="alteration", base=bi, patch={str(k2): v for k2, v in patch.items()}, alt_kind=kind,
                                  failing="correspondence reader model vs implementation on altered files (theorems C07_never_serves, C07_alteration)"),
                             no_input=True):
                break
    continued_iteration(rep, tier, rng, impl)
    rep.cov.update(alterations=len(alts), alteration_kinds=kinds, base_files=[dict(name=b["name"], pages=len(b["dev"]) // 1024, ops=b["ops"]) for b in bases],
                   single_bit_flips_exhaustive_on=[b["name"] for i, b in enumerate(bases) if tier == "thorough" or i < 2],
                   direct_failures=n_dir, correspondence_failures=n_corr, unsupported_skips_xml_altered_by_collision=skipped, model_sample=len(sample_idx),
                   traces_validated_against_impl=len(sample_idx))
    rep.sample(dict(kind="alteration", case=cases[4 * (len(alts) // 2)][:200], impl=out[4 * (len(alts) // 2)][:300]))
    rep.cov["rule"] = ("(i) CRC of random/structured payloads: built-in, crc32c-feature build and model; (ii) files of 40 writer programs identical under both backends; "
                       "(iii) small files written by the crate x {every single-bit flip of every page (exhaustive on the files listed), sampled 2- and 3-bit flips, bursts up to 32 bits "
                       "inside payload or checksum (CRC bit order) and up to 31 bits (MSB-first order), random overwrites, the Coq witnesses for straddling / MSB-32 bursts}; on each altered "
                       "file one reader runs XML, raw iteration of every point cloud, every blob, partial iterations, and everything again; plus validate_crc, raw_xml, open. "
                       "Oracle: every operation fails or equals the unaltered result (a partly consumed iteration must be a prefix); validate_crc must fail. "
                       "Every 5th altered file is also run on the extracted model and on the crc32c build. (iv) a file whose non-final data packet ends exactly on a page end, pages around every packet end altered: ONE raw iterator goes on after errors (up to 3), every point it yields must be the unaltered file's point at that position (direct oracle on the implementation only: the model does not describe an iterator after its first error). distinct = distinct (file, byte patch)")
