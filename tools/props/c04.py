"""C04 - all metadata survives write -> read unchanged (writer side: slice "xg").

Every case is a whole writer program restricted to metadata (token language: harness/src/ext_xg.rs).
  implementation   METAW  : the program on the real writer API, the XML of the finalized file, what the real
                            reader reports for the file (read-back dump), roxmltree's tree of the XML
  model            METAWM : the file_meta value of the program, Model/XmlGen.gen_root (bytes), Spec/MetaTree.tree_of
compared
  gen_root bytes        = XML of the file, byte for byte                      (correspondence, writer model)
  tree_of               = roxmltree's tree of the XML                          (correspondence, abstract tree)
  read-back dump        = dump of the program's metadata                       (the direct oracle of C04)
Float texts are an oracle (harness FDISPLAY: Rust's Display); section offsets, record counts, bounds and
blob offsets are taken from the read-back (they belong to the writer-API model, C10/C14)."""
import os, re, struct
from vlib import core, gen

# ---------------------------------------------------------------- token helpers

def S(s):
    """string token"""
    if isinstance(s, str):
        s = s.encode("utf-8")
    return "=" + s.hex()


def unS(t):
    return bytes.fromhex(t[1:])


def f64bits(x):
    return struct.unpack("<Q", struct.pack("<d", x))[0]


def f32bits(x):
    return struct.unpack("<I", struct.pack("<f", x))[0]


F64_POOL = sorted(set(
    [0x0, 0x8000000000000000, 0x1, 0x8000000000000001, 0x000fffffffffffff, 0x0010000000000000, 0x7fefffffffffffff, 0xffefffffffffffff,
     0x7ff0000000000000, 0xfff0000000000000, 0x7ff8000000000000, 0xfff8000000000000, 0x7ff0000000000001, 0xfff8000000000123, 0x7fffffffffffffff,
     0x3fd3333333333334, 0x3fd5555555555555, 0x400921fb54442d18, 0x4005bf0a8b145769, 0x4340000000000001, 0x433fffffffffffff, 0x3cb0000000000000,
     0x3ff0000000000001, 0xbfefffffffffffff, 0x4415af1d78b58c40, 0x44b52d02c7e14af6]
    + [f64bits(float("1e%d" % k)) for k in (-323, -308, -300, -100, -20, -7, -6, -5, -4, -1, 0, 1, 2, 5, 15, 16, 17, 20, 21, 22, 23, 100, 300, 308)]
    + [f64bits(-float("1e%d" % k)) for k in (-7, 0, 21, 308)]
    + [f64bits(x) for x in (0.1, 0.2, 0.3, 1.5, -2.25, 123456.789, 1.7976931348623157e308, 2.2250738585072014e-308, 4.9e-324,
                            9007199254740993.0, 0.30000000000000004, 5e-324, 1.2345678901234567, 12345678901234567.0, 1e21 + 1e5, 299792458.0)]))
F32_POOL = sorted(set(
    [0x0, 0x80000000, 0x1, 0x007fffff, 0x00800000, 0x7f7fffff, 0xff7fffff, 0x7f800000, 0xff800000, 0x7fc00000, 0xffc00000, 0x7f800001, 0xffc00123,
     0x3f800001, 0x3eaaaaab, 0x40490fdb, 0x4b800001]
    + [f32bits(float("1e%d" % k)) for k in (-45, -38, -20, -7, -5, -1, 0, 1, 7, 8, 9, 20, 21, 38)]
    + [f32bits(x) for x in (0.1, 0.2, 1.5, -2.25, 16777217.0, 3.4028235e38, 1.17549435e-38, 1.2345678)]))
I64_MIN, I64_MAX = -(1 << 63), (1 << 63) - 1
I64_POOL = [0, 1, -1, 2, 7, 9, 10, 11, 99, 100, 101, 255, 256, -128, 65535, 1 << 31, (1 << 31) - 1, -(1 << 31), (1 << 32), (1 << 53) + 1,
            10 ** 18, 10 ** 18 - 1, -10 ** 18, I64_MIN, I64_MIN + 1, I64_MAX, I64_MAX - 1, 1234567890123456789, -987654321098765432]
U32_POOL = [0, 1, 2, 9, 10, 640, 1920, 65535, 65536, (1 << 31) - 1, 1 << 31, (1 << 32) - 2, (1 << 32) - 1, 1000000000, 4000000000]

DANGEROUS = ["<", "&", ">", "]]>", "]]", "]", "\"", "'", " ", "  ", "\t", "\n", "\n\n", "&amp;", "&lt;", "&#13;", "&#xD;", "<![CDATA[", "]]]]><![CDATA[>",
             "<!--", "-->", "<?", "?>", "</", "/>", "é", "ß", "€", "中", "퟿", "", "�", "\u0085", " ",
             "\U0001F600", "\U00010000", "\U0010FFFD", "=", "%", "\\", "\x7f"]


def build_string_pool():
    pool, cls = [], []
    def add(s, c):
        pool.append(s); cls.append(c)
    add("", "empty")
    for w in (" ", "   ", "\n", "\t", " \n\t ", "\n \n"):
        add(w, "whitespace-only")
    for s in (" a", "a ", " a ", "\ta\n", "\na", "a\n"):
        add(s, "leading/trailing-space")
    for d in DANGEROUS:
        add(d, "alone:" + repr(d))
        add(d + "abc", "start:" + repr(d))
        add("abc" + d, "end:" + repr(d))
        add("ab" + d + "cd", "middle:" + repr(d))
        add(d + d, "double:" + repr(d))
    for s in ("]]]>", "]]]]>", "]]>]]>", "]>", "]]>>", ">]]", "]]&gt;", "]] >", "]]]", "a]]>b]]>c", "]]>]]", "]]]]>>", "x]]", "]]>" * 40,
              "<a type=\"String\"><![CDATA[x]]></a>", "</guid>", "<?xml version=\"1.0\"?>", "&unknown;", "&#0;", "a&b<c>d\"e'f"):
        add(s, "cdata/markup-mix")
    add("A" * 5000, "long")
    add(("€]]>&<" * 300), "long")
    add("{3F2504E0-4F89-11D3-9A0C-0305E82C3301}", "plain")
    add("Some name", "plain")
    add("x", "plain")
    return pool, cls


STRING_POOL, STRING_CLASS = build_string_pool()

# URLs: attribute values (escaped & < > " TAB LF, never CR)
URL_POOL = ["http://www.example.com/ext", "", "u", "http://a&b", "a<b", "a>b", "a\"b", "a'b", "a\tb", "a\nb", " lead", "trail ", "a  b", "\t", "\n", "&amp;", "&#10;",
            "&lt;", "http://www.libe57.org/E57_NOR_surface_normals.txt", "urn:€:\U0001F600", "]]>", "a&b<c>d\"e'f\tg\nh", "http://x/" + "y" * 300]


class Gen:
    """random metadata programs; every choice from rng; records which value classes were used"""
    def __init__(self, rng):
        self.rng = rng
        self.used_strings = set()
        self.used_f64 = set()
        self.used_f32 = set()
        self.kinds = {}

    def note(self, k):
        self.kinds[k] = self.kinds.get(k, 0) + 1

    def string(self):
        i = self.rng.below(len(STRING_POOL))
        self.used_strings.add(i)
        return S(STRING_POOL[i])

    def guid(self):
        # identifiers also range over the pool, but mostly look like GUIDs
        if self.rng.chance(1, 2):
            return self.string()
        return S("{%08X-%04X}" % (self.rng.below(1 << 32), self.rng.below(1 << 16)))

    def f64(self):
        b = self.rng.choice(F64_POOL) if self.rng.chance(5, 6) else self.rng.next()
        self.used_f64.add(b)
        return "%016x" % b

    def f32(self):
        b = self.rng.choice(F32_POOL) if self.rng.chance(5, 6) else self.rng.below(1 << 32)
        self.used_f32.add(b)
        return "%08x" % b

    def i64(self):
        return self.rng.choice(I64_POOL) if self.rng.chance(4, 5) else self.rng.range(I64_MIN, I64_MAX)

    def u32(self):
        return self.rng.choice(U32_POOL) if self.rng.chance(4, 5) else self.rng.below(1 << 32)

    def dt(self):
        return "%s:%d" % (self.f64(), self.rng.below(2))

    def tr(self):
        if self.rng.chance(1, 4):
            return ":".join(["%016x" % f64bits(x) for x in (1.0, 0.0, 0.0, 0.0, 0.0, 0.0, 0.0)])
        return ":".join(self.f64() for _ in range(7))

    def opt(self, f):
        """Option-typed setter argument: mostly Some"""
        return f() if self.rng.chance(4, 5) else "-"

    def int_range(self):
        r = self.rng
        c = r.below(6)
        if c == 0:
            return (I64_MIN, I64_MAX)
        if c == 1:
            a = self.i64(); return (a, a)
        a, b = self.i64(), self.i64()
        return (min(a, b), max(a, b))

    # maxima that decide the value of a prototype element without minimum (record.rs: `max < 0.0`):
    # negative, positive, -0.0, +0.0, NaN of both signs, -inf, the negative numbers next to -0.0 and to -inf/NaN
    ONLY_MAX64 = [0xbff0000000000000, 0x3ff0000000000000, 0x8000000000000000, 0x0, 0x7ff8000000000000, 0xfff8000000000000, 0xfff0000000000000,
                  0x8000000000000001, 0xffefffffffffffff, 0xfff0000000000001, 0xc05edd3c07ee0b0b, 0x7ff0000000000000]
    ONLY_MAX32 = [0xbf800000, 0x3f800000, 0x80000000, 0x0, 0x7fc00000, 0xffc00000, 0xff800000, 0x80000001, 0xff7fffff, 0xff800001, 0xc2f6e9e0, 0x7f800000]

    @staticmethod
    def fval(tok):
        """the float a bit-pattern token denotes (8 hex digits: f32, 16: f64)"""
        return struct.unpack("<f", struct.pack("<I", int(tok, 16)))[0] if len(tok) == 8 else struct.unpack("<d", struct.pack("<Q", int(tok, 16)))[0]

    def float_limits(self, draw, only_max):
        """(min, max) tokens: all four presence patterns; a lone maximum is mostly taken from the list of decisive
        values.  The writer rejects NaN limits and minimum > maximum (eaf8fc6): most draws respect that, one in
        twelve does not (the rejected call is dropped from the model's program)."""
        strict = not self.rng.chance(1, 12)
        def num():
            for _ in range(50):
                t = draw()
                if not strict or self.fval(t) == self.fval(t):
                    return t
            return "%0*x" % (16 if only_max is self.ONLY_MAX64 else 8, 0)
        c = self.rng.below(5)
        if c == 0:
            return "-", "-"
        if c == 1:
            return num(), "-"                      # only a minimum
        if c == 2:
            a, b = num(), num()
            if strict and self.fval(a) > self.fval(b):
                a, b = b, a
            return a, b
        if self.rng.chance(3, 4):                   # only a maximum (two of five draws)
            b = self.rng.choice(only_max)
            fmt = "%016x" if only_max is self.ONLY_MAX64 else "%08x"
            if not strict or self.fval(fmt % b) == self.fval(fmt % b):
                (self.used_f64 if only_max is self.ONLY_MAX64 else self.used_f32).add(b)
                self.note("only-max:" + fmt % b)
                return "-", fmt % b
        return "-", num()

    def dtype(self, allowed="FDSI"):
        k = self.rng.choice(allowed)
        if k == "F":
            return "F/%s/%s" % self.float_limits(self.f32, self.ONLY_MAX32)
        if k == "D":
            return "D/%s/%s" % self.float_limits(self.f64, self.ONLY_MAX64)
        mn, mx = self.int_range()
        if k == "S":
            return "S/%d/%d/%s/%s" % (mn, mx, self.f64(), self.f64())
        return "I/%d/%d" % (mn, mx)

    def lim(self):
        k = self.rng.below(4)
        if k == 0:
            return "f" + self.f32()
        if k == 1:
            return "d" + self.f64()
        return ("s%d" if k == 2 else "i%d") % self.i64()

    def ext_name(self):
        r = self.rng
        first = "abcdefghijklmnopqrstuvwyzABCDEFGHIJKLMNOPQRSTUVWYZ_"     # no x/X: never starts with "xml"
        rest = first + "xX0123456789-_"
        return r.choice(first) + "".join(r.choice(rest) for _ in range(r.choice([0, 1, 2, 5, 12, 40])))

    def value_for(self, ty):
        p = ty.split("/")
        if p[0] == "F":
            return "f" + self.f32()
        if p[0] == "D":
            return "d" + self.f64()
        mn, mx = int(p[1]), int(p[2])
        v = self.rng.choice([mn, mx, (mn + mx) // 2, min(mn + 1, mx)])
        return ("s" if p[0] == "S" else "i") + str(v)

    def prototype(self, exts):
        r = self.rng
        recs = []
        coord = r.choice(["c", "s", "cs"])
        if "c" in coord:
            for n in ("x", "y", "z"):
                recs.append((n, self.dtype()))
            if r.chance(1, 3):
                recs.append(("cis", "I/0/2"))
        if "s" in coord:
            recs.append(("sr", self.dtype()))
            recs.append(("sa", self.dtype("FDS")))
            recs.append(("se", self.dtype("FDS")))
            if r.chance(1, 3):
                recs.append(("sis", "I/0/2"))
        if r.chance(1, 2):
            recs.append(("in", self.dtype()))
            if r.chance(1, 2):
                recs.append(("iin", "I/0/1"))
        if r.chance(1, 2):
            for n in ("r", "g", "b"):
                recs.append((n, self.dtype()))
            if r.chance(1, 2):
                recs.append(("ici", "I/0/1"))
        if r.chance(1, 3):
            recs.append(("row", self.dtype("I")))
        if r.chance(1, 3):
            recs.append(("col", self.dtype("I")))
        if r.chance(1, 3):
            recs.append(("rc", self.dtype("I"))); recs.append(("ri", self.dtype("I")))
        if r.chance(1, 3):
            recs.append(("ts", self.dtype()))
            if r.chance(1, 2):
                recs.append(("its", "I/0/1"))
        for _ in range(r.below(3) if exts else 0):
            ns = r.choice(exts)
            nm = self.ext_name()
            recs.append(("u.%s.%s" % (ns.encode().hex(), nm.encode().hex()), self.dtype()))
        # shuffle (order of the prototype is metadata too) but keep it valid: any order is accepted
        for i in range(len(recs) - 1, 0, -1):
            j = r.below(i + 1)
            recs[i], recs[j] = recs[j], recs[i]
        # at least one record with a non-empty range
        if all(t.split("/")[0] in "SI" and int(t.split("/")[1]) == int(t.split("/")[2]) for _, t in recs):
            recs[0] = (recs[0][0], "D/-/-") if recs[0][0] not in ("cis", "sis", "iin", "ici", "its", "row", "col", "rc", "ri") else recs[0]
            if all(t.split("/")[0] in "SI" and int(t.split("/")[1]) == int(t.split("/")[2]) for _, t in recs):
                recs = [(n, ("D/-/-" if n in ("x", "y", "z", "sr", "sa", "se") else t)) for n, t in recs]
        return recs

    def pointcloud(self, exts):
        r = self.rng
        recs = self.prototype(exts)
        cmds = [["PC", self.guid(), str(len(recs))] + ["%s~%s" % (n, t) for n, t in recs]]
        setters = []
        for kw in ("PN", "PD", "PSV", "PSM", "PSS", "PSH", "PSW", "PSF"):
            if r.chance(1, 2):
                setters.append([kw, self.opt(self.string)])
        if r.chance(1, 2):
            if r.chance(1, 6):
                setters.append(["POG", "-"])
            else:
                n = r.choice([0, 1, 1, 2, 3])
                setters.append(["POG", str(n)] + [self.guid() for _ in range(n)])
        if r.chance(1, 2):
            setters.append(["PT", self.opt(self.tr)])
        for kw in ("PAS", "PAE"):
            if r.chance(1, 2):
                setters.append([kw, self.opt(self.dt)])
        for kw in ("PTE", "PHU", "PAP"):
            if r.chance(1, 2):
                setters.append([kw, self.opt(self.f64)])
        c = r.below(4)
        if c == 0:
            setters.append(["PIL", "-"])
        elif c == 1:
            setters.append(["PIL", "+", self.lim(), self.lim()])
        c = r.below(4)
        if c == 0:
            setters.append(["PCL", "-"])
        elif c == 1:
            setters.append(["PCL", "+"] + [self.lim() for _ in range(6)])
        # a setter called twice: the last call wins
        if setters and r.chance(1, 4):
            kw = r.choice(["PN", "PD", "PSV"])
            setters.append([kw, self.opt(self.string)])
        points = [["PP", str(len(recs))] + [self.value_for(t) for _, t in recs] for _ in range(r.choice([0, 0, 1, 2, 3]))]
        body = setters + points
        for i in range(len(body) - 1, 0, -1):
            j = r.below(i + 1)
            body[i], body[j] = body[j], body[i]
        self.note("pc")
        return cmds + body + [["PE"]]

    def image(self):
        r = self.rng
        cmds = [["IMG", self.guid()]]
        body = []
        for kw in ("IN", "ID", "IG", "ISV", "ISM", "ISS"):
            if r.chance(1, 2):
                body.append([kw, self.string() if kw != "IG" else self.guid()])
        if r.chance(1, 2):
            body.append(["IT", self.tr()])
        if r.chance(1, 2):
            body.append(["IA", self.dt()])
        def blobargs():
            return [r.choice(["p", "j"]), S(r.bytes(r.choice([0, 1, 3, 17, 40]))), S(r.bytes(r.choice([0, 2, 9]))) if r.chance(1, 2) else "-",
                    str(self.u32()), str(self.u32())]
        has_vr = r.chance(1, 2)
        proj = r.choice(["-", "IPH", "ISP", "ICY"]) if has_vr else r.choice(["IPH", "ISP", "ICY"])
        if has_vr:
            a = blobargs()
            body.append(["IVR"] + a)
            self.note("image:visual" + ("+mask" if a[2] != "-" else ""))
        if proj != "-":
            a = blobargs()
            nf = {"IPH": 5, "ISP": 2, "ICY": 4}[proj]
            body.append([proj] + a + [self.f64() for _ in range(nf)])
            self.note("image:" + proj + ("+mask" if a[2] != "-" else ""))
        for i in range(len(body) - 1, 0, -1):
            j = r.below(i + 1)
            body[i], body[j] = body[j], body[i]
        return cmds + body + [["IE"]]

    def program(self, size=None):
        r = self.rng
        cmds = [["G", self.guid() if r.chance(1, 2) else S("file-guid")]]
        if cmds[0][1] == "=":
            cmds[0][1] = S("g")          # the empty file GUID is a separate case (finalize fails)
        exts, head = [], []
        for _ in range(r.choice([0, 0, 1, 1, 2, 3])):
            ns = self.ext_name()
            if ns.lower() in [e.lower() for e in exts]:
                continue
            exts.append(ns)
            url = r.choice(URL_POOL)
            # distinct URLs, different from the E57 namespace (see the probes for the other case)
            head.append(["X", S(ns), S(url + ("#%d" % len(exts) if len(exts) > 1 else ""))])
        if r.chance(1, 2):
            head.append(["CM", self.opt(self.string)])
        if r.chance(1, 2):
            head.append(["CR", self.opt(self.dt)])
        items = []
        n_items = size if size is not None else r.choice([0, 1, 1, 2, 2, 3])
        for _ in range(n_items):
            c = r.below(7)
            if c < 3:
                items.append(self.pointcloud(exts))
            elif c < 6:
                items.append(self.image())
            else:
                items.append([["BLOB", S(r.bytes(r.choice([0, 1, 5, 1019, 1021])))]])
        # CM / CR may also be set after the sections were written
        late = []
        if r.chance(1, 5):
            late.append(["CM", self.opt(self.string)])
        if r.chance(1, 5):
            late.append(["CR", self.opt(self.dt)])
        for i in range(len(items) - 1, 0, -1):
            j = r.below(i + 1)
            items[i], items[j] = items[j], items[i]
        for it in items:
            cmds += it
        return cmds[:1] + head + cmds[1:] + late + [["FIN"]]


# ---------------------------------------------------------------- running one batch

FALLIBLE = {"G", "X", "BLOB", "PC", "PP", "PE", "IMG", "IVR", "IPH", "ISP", "ICY", "IE", "FIN"}


def prog_line(cmds):
    return " ".join(t for c in cmds for t in c)


def successful_part(cmds, results):
    """drop the commands that failed on the implementation (and the sub-writer commands of a failed add_*)"""
    out, k, skip = [], 0, None
    for c in cmds:
        kw = c[0]
        if skip and kw.startswith(skip) and kw not in ("PC",):
            continue
        skip = None
        if kw in FALLIBLE:
            r = results[k] if k < len(results) else "missing"
            k += 1
            if r != "o":
                if kw == "PC":
                    skip = "P"
                elif kw == "IMG":
                    skip = "I"
                if kw != "FIN":
                    continue
        out.append(c)
    return out


def floats_of_program(cmds):
    s64, s32 = set(), set()
    def lim(t):
        if t[0] == "f":
            s32.add(t[1:])
        elif t[0] == "d":
            s64.add(t[1:])
    for c in cmds:
        kw = c[0]
        if kw in ("CR", "PAS", "PAE", "IA"):
            if c[1] != "-":
                s64.add(c[1].split(":")[0])
        elif kw in ("PT", "IT"):
            if c[1] != "-":
                s64.update(c[1].split(":"))
        elif kw in ("PTE", "PHU", "PAP"):
            if c[1] != "-":
                s64.add(c[1])
        elif kw in ("PIL", "PCL"):
            for t in c[2:]:
                if t != "-":
                    lim(t)
        elif kw == "PC":
            for rec in c[3:]:
                p = rec.split("~")[1].split("/")
                if p[0] == "F":
                    s32.update(x for x in p[1:] if x != "-")
                elif p[0] == "D":
                    s64.update(x for x in p[1:] if x != "-")
                elif p[0] == "S":
                    s64.update(p[3:5])
        elif kw in ("IPH", "ISP", "ICY"):
            s64.update(c[6:])
    return s64, s32


def parse_back(back):
    """read-back dump -> (pcs, imgs): lists of dicts key -> value"""
    toks = back.split(" ")
    pcs, imgs, cur = [], [], None
    for t in toks:
        if t == "PC":
            cur = {}; pcs.append(cur)
        elif t == "IMG":
            cur = {}; imgs.append(cur)
        elif cur is not None and ":" in t and "~" not in t:
            k, v = t.split(":", 1)
            cur.setdefault(k, v)
    return pcs, imgs


PLAIN_FLOAT = set(b"0123456789.-infNa")


class Fdisplay:
    """oracle table: Rust's Display of float bit patterns, asked from the harness once per pattern.
    The two assumptions the theorems make about the oracle are validated on every pattern:
    the text is plain (digits . - inf NaN: hypothesis f64_ok/f32_ok of gen_is_render) and Rust's parse
    gives the bit pattern back, NaN up to payload (hypothesis float_oracle_ok of extract_tree_of)."""
    def __init__(self, impl):
        self.impl, self.t64, self.t32, self.bad = impl, {}, {}, []

    def ensure(self, s64, s32):
        for kind, pkind, want, tab, nan, width in (("FDISPLAY", "FPARSE", s64, self.t64, "7ff8000000000000", 64),
                                                   ("FDISPLAY32", "FPARSE32", s32, self.t32, "7fc00000", 32)):
            miss = sorted(x for x in want if x not in tab)
            lines = [kind + " " + " ".join(miss[i:i + 200]) for i in range(0, len(miss), 200)]
            outs = core.run_cases(self.impl, lines) if lines else []
            texts = []
            for i, o in enumerate(outs):
                for b, t in zip(miss[i * 200:(i + 1) * 200], o.split(" ")):
                    tab[b] = t[1:]
                    texts.append((b, t))
            plines = [pkind + " " + " ".join(t for _, t in texts[i:i + 200]) for i in range(0, len(texts), 200)]
            pouts = core.run_cases(self.impl, plines) if plines else []
            for i, o in enumerate(pouts):
                for (b, t), back in zip(texts[i * 200:(i + 1) * 200], o.split(" ")):
                    v = int(b, 16)
                    is_nan = (v >> 52) & 0x7ff == 0x7ff and v & ((1 << 52) - 1) if width == 64 else (v >> 23) & 0xff == 0xff and v & ((1 << 23) - 1)
                    want_back = nan if is_nan else b
                    raw = bytes.fromhex(t[1:])
                    if back != want_back or not raw or not set(raw) <= PLAIN_FLOAT:
                        self.bad.append((kind, b, raw.decode("latin-1"), back))


def crate_version():
    txt = open(os.path.join(core.REPO, "Cargo.toml")).read()
    return re.search(r'^version\s*=\s*"([^"]+)"', txt, re.M).group(1)


def first_diff(a, b):
    ta, tb = a.split(" "), b.split(" ")
    for i in range(max(len(ta), len(tb))):
        x = ta[i] if i < len(ta) else "<end>"
        y = tb[i] if i < len(tb) else "<end>"
        if x != y:
            key = x.split(":", 1)[0] if ":" in x and "~" not in x else ("proto" if "~" in x else x.split(" ")[0])
            return i, key, x, y
    return None


def evaluate(impl, fd, version, progs):
    """progs: list of command lists.  Returns per program a dict with the raw outputs and the verdicts."""
    outs = core.run_cases(impl, ["METAW " + prog_line(p) for p in progs])
    res = []
    want64, want32 = set(), set()
    for p, o in zip(progs, outs):
        parts = o.split(" | ")
        d = dict(prog=p, raw=o, ok=False)
        if len(parts) != 4:
            d["crash"] = o[:300]
            res.append(d); continue
        d.update(results=parts[0].split(","), xml=parts[1], back=parts[2], tree=parts[3], ok=True)
        s64, s32 = floats_of_program(p)
        if not parts[2].startswith(("err", "P", "-")):
            pcs, imgs = parse_back(parts[2].replace("XMLDIFF ", ""))
            for pc in pcs:
                for k in ("cb", "sb"):
                    if pc.get(k, "-") != "-":
                        s64.update(x for x in pc[k].split(",") if x != "-")
            d["pcs"], d["imgs"] = pcs, imgs
        d["s64"], d["s32"] = s64, s32
        want64 |= s64; want32 |= s32
        res.append(d)
    fd.ensure(want64, want32)
    mlines, midx = [], []
    for i, d in enumerate(res):
        if not d["ok"]:
            continue
        if d["xml"] == "-" and d["results"][-1] not in ("eInvalid",):
            continue
        if d["back"].startswith(("err", "P")):
            continue
        good = successful_part(d["prog"], d["results"])
        orc = ["ORACLE", "LV", S(version)]
        orc += ["d%s=%s" % (b, fd.t64[b]) for b in sorted(d["s64"])]
        orc += ["f%s=%s" % (b, fd.t32[b]) for b in sorted(d["s32"])]
        for pc in d.get("pcs", []):
            orc += ["PCO", pc["off"], pc["rec"], pc["cb"], pc["sb"], pc["ib"]]
        for im in d.get("imgs", []):
            vr = im["vr"].split(",") if im["vr"] != "-" else None
            pr = im["pr"].split(",") if im["pr"] != "-" else None
            def off(t):
                return "-" if t == "-" else t.split("/")[-2]
            orc += ["IMO", off(vr[0]) if vr else "-", off(vr[1]) if vr else "-", off(pr[1]) if pr else "-", off(pr[2]) if pr else "-"]
        mlines.append("METAWM " + prog_line(good) + " " + " ".join(orc))
        midx.append(i)
    mouts = core.run_cases(core.DRIVER, mlines) if mlines else []
    for i, mo in zip(midx, mouts):
        parts = mo.split(" | ")
        if len(parts) != 4:
            res[i]["model_crash"] = mo[:300]
            continue
        res[i].update(m_xml=parts[0], m_meta=parts[1], m_tree=parts[2], m_hyp=parts[3])
    return res


def judge(d):
    """-> list of (class, description, is_direct)"""
    v = []
    p = prog_line(d["prog"])
    if not d["ok"]:
        return [("c04-harness-crash", "the harness died on a metadata program: " + d.get("crash", ""), True)]
    results = d["results"]
    if "P" in results:
        v.append(("c04-writer-panic", "a writer API call panicked (results %s)" % ",".join(results), True))
        return v
    if d["xml"] == "-":
        if results[-1] == "eInvalid" and d["prog"][0][1] == "=":
            if d.get("m_xml") != "eInvalid":
                v.append(("correspondence-c04", "empty file GUID: implementation finalize -> Invalid, model gen_root -> %s" % d.get("m_xml"), False))
            return v
        v.append(("c04-finalize-failed", "E57Writer::finalize failed (%s) for a metadata program whose calls were accepted" % results[-1], True))
        return v
    if d["back"].startswith(("err", "P")):
        v.append(("c04-file-unreadable", "every writer call succeeded but the reader cannot open the file (%s)" % d["back"], True))
        return v
    if d["back"].startswith("XMLDIFF"):
        v.append(("c04-xml-differs", "E57Reader::xml() differs from the XML section written (raw_xml)", True))
    if "model_crash" in d:
        v.append(("correspondence-c04", "the model driver failed: " + d["model_crash"], False))
        return v
    if "m_xml" not in d:
        return v
    back = d["back"].replace("XMLDIFF ", "")
    direct = None
    if back != d["m_meta"]:
        i, key, x, y = first_diff(d["m_meta"], back)
        direct = key
        v.append(("c04-roundtrip-" + key, "metadata does not come back unchanged: written %s, read back %s (token %d of the dump)" % (x[:120], y[:120], i), True))
    if direct is not None:
        return v            # the property itself fails on this input: that is the finding
    if d["xml"] != d["m_xml"]:
        a = bytes.fromhex(d["xml"])
        b = d["m_xml"].encode() if d["m_xml"][:1] in ("e", "P") else bytes.fromhex(d["m_xml"])
        k = next((j for j in range(min(len(a), len(b))) if a[j] != b[j]), min(len(a), len(b)))
        v.append(("correspondence-c04", "XML of the implementation and gen_root of the model differ at byte %d: impl ...%r model ...%r"
                  % (k, a[max(0, k - 40):k + 40], b[max(0, k - 40):k + 40]), False))
    elif d["tree"] != d["m_tree"]:
        i, key, x, y = first_diff(d["m_tree"], d["tree"])
        v.append(("correspondence-c04-tree", "tree_of of the model differs from roxmltree's tree of the written XML at token %d: model %s roxmltree %s" % (i, x[:80], y[:80]), False))
    return v


# ---------------------------------------------------------------- probes: inputs at the edge of prog_valid

def hexs(s):
    return s.encode().hex()


def probes():
    """(name, program) pairs: deterministic programs on the conditions the writer accepts without complaint"""
    base_pc = ["x~D/-/-", "y~D/-/-", "z~D/-/-"]
    def prog(*cmds):
        return [c.split(" ") for c in cmds]
    P = []
    P.append(("empty-file-guid", prog("G =", "FIN")))
    P.append(("minimal", prog("G " + S("g"), "FIN")))
    P.append(("limits-incomplete", prog("G " + S("g"), "PC %s 4 %s in~D/-/-" % (S("p"), " ".join(base_pc)), "PIL + d3ff0000000000000 -", "PE", "FIN")))
    P.append(("limits-incomplete", prog("G " + S("g"), "PC %s 6 %s r~I/0/255 g~I/0/255 b~I/0/255" % (S("p"), " ".join(base_pc)), "PCL + i0 i255 i0 i255 i0 -", "PE", "FIN")))
    P.append(("default-limits-of-untyped-float-records", prog("G " + S("g"), "PC %s 7 %s in~F/-/3f800000 r~D/-/- g~D/-/- b~D/-/-" % (S("p"), " ".join(base_pc)), "PE", "FIN")))
    P.append(("extension-prefix-starts-with-digit", prog("G " + S("g"), "X %s %s" % (S("0abc"), S("http://e")), "FIN")))
    P.append(("extension-prefix-starts-with-dash", prog("G " + S("g"), "X %s %s" % (S("-a"), S("http://e")), "FIN")))
    P.append(("extension-record-name-starts-with-digit", prog("G " + S("g"), "X %s %s" % (S("ext"), S("http://e")),
              "PC %s 4 %s u.%s.%s~I/0/7" % (S("p"), " ".join(base_pc), hexs("ext"), hexs("0abc")), "PE", "FIN")))
    P.append(("extension-record-with-standard-name", prog("G " + S("g"), "X %s %s" % (S("ext"), S("http://e")),
              "PC %s 4 %s u.%s.%s~I/0/7" % (S("p"), " ".join(base_pc), hexs("ext"), hexs("intensity")), "PE", "FIN")))
    P.append(("extension-record-named-images2D", prog("G " + S("g"), "X %s %s" % (S("ext"), S("http://e")),
              "PC %s 4 %s u.%s.%s~I/0/7" % (S("p"), " ".join(base_pc), hexs("ext"), hexs("images2D")), "PE",
              "IMG " + S("i"), "IVR p =00 - 1 1", "IE", "FIN")))
    P.append(("extension-record-named-data3D-and-prototype", prog("G " + S("g"), "X %s %s" % (S("ext"), S("http://e")),
              "PC %s 5 %s u.%s.%s~I/0/7 u.%s.%s~I/0/7" % (S("p"), " ".join(base_pc), hexs("ext"), hexs("data3D"), hexs("ext"), hexs("prototype")), "PE",
              "PC %s 3 %s" % (S("q"), " ".join(base_pc)), "PE", "FIN")))
    P.append(("extension-record-named-points-guid-name", prog("G " + S("g"), "X %s %s" % (S("ext"), S("http://e")),
              "PC %s 6 %s u.%s.%s~I/0/7 u.%s.%s~I/0/7 u.%s.%s~I/0/7" % (S("p"), " ".join(base_pc), hexs("ext"), hexs("points"), hexs("ext"), hexs("guid"), hexs("ext"), hexs("e57Root")),
              "PN " + S("nm"), "PE", "FIN")))
    P.append(("two-extensions-same-url", prog("G " + S("g"), "X %s %s" % (S("e1"), S("http://e")), "X %s %s" % (S("e2"), S("http://e")),
              "PC %s 4 %s u.%s.%s~I/0/7" % (S("p"), " ".join(base_pc), hexs("e2"), hexs("foo")), "PE", "FIN")))
    P.append(("extension-url-is-e57-namespace", prog("G " + S("g"), "X %s %s" % (S("ext"), S("http://www.astm.org/COMMIT/E57/2010-e57-v1.0")),
              "PC %s 4 %s u.%s.%s~I/0/7" % (S("p"), " ".join(base_pc), hexs("ext"), hexs("foo")), "PE", "FIN")))
    P.append(("extension-url-is-xml-namespace", prog("G " + S("g"), "X %s %s" % (S("ext"), S("http://www.w3.org/XML/1998/namespace")), "FIN")))
    P.append(("extension-url-is-xmlns-namespace", prog("G " + S("g"), "X %s %s" % (S("ext"), S("http://www.w3.org/2000/xmlns/")), "FIN")))
    P.append(("extension-url-empty", prog("G " + S("g"), "X %s =" % S("ext"),
              "PC %s 4 %s u.%s.%s~I/0/7" % (S("p"), " ".join(base_pc), hexs("ext"), hexs("foo")), "PE", "FIN")))
    P.append(("integer-minimum-above-maximum", prog("G " + S("g"), "PC %s 4 %s row~I/5/0" % (S("p"), " ".join(base_pc)), "PE", "FIN")))
    P.append(("scaled-integer-minimum-above-maximum", prog("G " + S("g"), "PC %s 4 %s in~S/5/0/3ff0000000000000/0000000000000000" % (S("p"), " ".join(base_pc)), "PE", "FIN")))
    P.append(("float-minimum-above-maximum", prog("G " + S("g"), "PC %s 3 x~D/4000000000000000/3ff0000000000000 y~D/-/- z~D/-/-" % S("p"), "PE", "FIN")))
    P.append(("float-records-with-only-a-maximum-or-only-a-minimum", prog("G " + S("g"), "X %s %s" % (S("ext"), S("http://e")),
              "PC %s 12 x~D/-/bff0000000000000 y~D/-/3ff0000000000000 z~D/-/8000000000000000 sr~D/-/0000000000000000 sa~D/-/fff0000000000000 se~D/-/8000000000000001 "
              "in~F/-/bf800000 r~F/-/80000000 g~F/-/ff7fffff b~F/-/ff800000 ts~D/c000000000000000/- u.%s.%s~F/40000000/-" % (S("p"), hexs("ext"), hexs("q")),
              "PE", "FIN")))
    P.append(("float-record-with-nan-maximum", prog("G " + S("g"), "PC %s 3 x~D/-/fff8000000000000 y~F/-/7fc00000 z~D/-/-" % S("p"), "PE", "FIN")))
    P.append(("duplicate-record", prog("G " + S("g"), "PC %s 5 %s in~D/-/- in~F/-/-" % (S("p"), " ".join(base_pc)), "PE", "FIN")))
    P.append(("all-pointcloud-strings-empty", prog("G " + S("g"), "CM =", "PC = 3 " + " ".join(base_pc), "PN =", "PD =", "PSV =", "PSM =", "PSS =", "PSH =", "PSW =", "PSF =", "POG 2 = =", "PE", "FIN")))
    P.append(("image-all-strings-empty", prog("G " + S("g"), "IMG =", "IN =", "ID =", "IG =", "ISV =", "ISM =", "ISS =", "IVR p = = 0 0", "IE", "FIN")))
    P.append(("pointcloud-finalized-twice", prog("G " + S("g"), "PC %s 3 %s" % (S("p"), " ".join(base_pc)), "PN " + S("n"), "PE", "PE", "FIN")))
    P.append(("image-finalized-twice", prog("G " + S("g"), "IMG " + S("i"), "IVR p =00 - 1 1", "IE", "IN " + S("later"), "IE", "FIN")))
    P.append(("abandoned-sub-writers", prog("G " + S("g"), "PC %s 3 %s" % (S("p"), " ".join(base_pc)), "PN " + S("n"), "IMG " + S("i"), "IVR p =00 - 1 1", "FIN")))
    P.append(("duplicate-and-invalid-extensions", prog("G " + S("g"), "X %s %s" % (S("ext"), S("u1")), "X %s %s" % (S("ext"), S("u2")), "X %s %s" % (S("xmlfoo"), S("u3")),
              "X = " + S("u4"), "X %s %s" % (S("a.b"), S("u5")), "X %s %s" % (S("EXT"), S("u6")), "FIN")))
    P.append(("image-without-representation", prog("G " + S("g"), "IMG " + S("i"), "IN " + S("n"), "IE", "FIN")))
    P.append(("second-projection-rejected", prog("G " + S("g"), "IMG " + S("i"), "ISP p =00 - 1 1 3ff0000000000000 3ff0000000000000",
              "IPH j =01 - 2 2 3ff0000000000000 3ff0000000000000 3ff0000000000000 3ff0000000000000 3ff0000000000000", "IE", "FIN")))
    return P + decisive_probes()


def decisive_probes():
    """Deterministic programs that put every float-valued piece of metadata on the values at which a reader or
    writer could plausibly special-case it (zero, -0, subnormal, squares that underflow, non-unit, huge, inf, NaN):
    what decides a property must not be left to the random stream.  Always run, whatever the seed."""
    def h(x):
        return "%016x" % (x if isinstance(x, int) else f64bits(x))
    def h32(x):
        return "%08x" % (x if isinstance(x, int) else f32bits(x))
    def prog(*cmds):
        return [c.split(" ") for c in cmds]
    xyz = "x~D/-/- y~D/-/- z~D/-/-"
    Z, NZ, SUB, NSUB, TINY, NTINY = 0.0, 0x8000000000000000, 0x1, 0x8000000000000001, 1e-200, -1e-200
    HUGE, INF, NINF, NAN, NNAN = 1e200, 0x7ff0000000000000, 0xfff0000000000000, 0x7ff8000000000000, 0xfff8000000000000
    P = []
    # ---- poses (rotation w x y z, translation x y z) of a point cloud AND of an image
    poses = [
        ("all-zero", (Z, Z, Z, Z), (Z, Z, Z)),
        ("all-negative-zero", (NZ, NZ, NZ, NZ), (NZ, NZ, NZ)),
        ("all-smallest-subnormal", (SUB, SUB, SUB, SUB), (SUB, SUB, SUB)),
        ("all-negative-subnormal", (NSUB, NSUB, NSUB, NSUB), (NSUB, NSUB, NSUB)),
        ("all-1e-200", (TINY, TINY, TINY, TINY), (TINY, TINY, TINY)),
        ("all-minus-1e-200", (NTINY, NTINY, NTINY, NTINY), (NTINY, NTINY, NTINY)),
        ("w-subnormal-rest-zero", (SUB, Z, Z, Z), (Z, Z, SUB)),
        ("x-1e-200-rest-zero", (Z, TINY, Z, Z), (TINY, Z, Z)),
        ("y-1e-170-rest-negative-zero", (NZ, NZ, 1e-170, NZ), (NZ, 1e-170, NZ)),
        ("z-subnormal-w-zero", (Z, Z, Z, 0x000fffffffffffff), (Z, Z, 0x000fffffffffffff)),
        ("mixed-tiny", (1e-162, -1e-163, 5e-324, 1e-300), (1e-162, -1e-163, 5e-324)),
        ("identity", (1.0, Z, Z, Z), (Z, Z, Z)),
        ("negative-identity", (-1.0, NZ, NZ, NZ), (NZ, NZ, NZ)),
        ("non-unit", (2.0, 3.0, 4.0, 5.0), (-6.5, 7.25, 8e10)),
        ("nearly-unit", (0.5, 0.5, 0.5, 0.5000000000000001), (0.1, 0.2, 0.30000000000000004)),
        ("huge", (HUGE, HUGE, HUGE, HUGE), (HUGE, -HUGE, 1.7976931348623157e308)),
        ("infinite", (INF, NINF, INF, NINF), (INF, NINF, INF)),
        ("nan", (NAN, NNAN, NAN, NAN), (NAN, NNAN, NAN)),
        ("one-nan-one-inf", (1.0, NAN, Z, INF), (Z, NAN, NINF)),
    ]
    for name, q, t in poses:
        tr = ":".join(h(v) for v in q + t)
        P.append(("pose-" + name, prog("G " + S("g"), "PC %s 3 %s" % (S("p"), xyz), "PT " + tr, "PE",
                                       "IMG " + S("i"), "IT " + tr, "IVR p =00 - 1 1", "IE", "FIN")))
    # ---- scalar float metadata: every field takes every value (cyclic assignment)
    vals = [Z, NZ, SUB, NSUB, TINY, NTINY, -1.5, 1.0, 273.15, HUGE, -HUGE, INF, NINF, NAN, NNAN]
    n = len(vals)
    def v(i):
        return h(vals[i % n])
    for i in range(n):
        P.append(("environment-%d" % i, prog("G " + S("g"), "PC %s 3 %s" % (S("p"), xyz),
                                             "PTE " + v(i), "PHU " + v(i + 1), "PAP " + v(i + 2), "PE", "FIN")))
        # image geometry: pinhole (focal, pixel w/h, principal x/y), spherical (pixel w/h), cylindrical (radius, principal y, pixel w/h),
        # with image sizes 0, 1 and large (a reader deriving a default from the size must not replace a stored value)
        w_, h_ = [(0, 0), (1, 1), (4096, 2048), (4294967295, 1)][i % 4]
        P.append(("image-geometry-%d" % i, prog(
            "G " + S("g"),
            "IMG " + S("a"), "IPH j =00 - %d %d %s %s %s %s %s" % (w_, h_, v(i), v(i + 1), v(i + 2), v(i + 3), v(i + 4)), "IE",
            "IMG " + S("b"), "ISP p =00 =01 %d %d %s %s" % (w_, h_, v(i + 5), v(i + 6)), "IE",
            "IMG " + S("c"), "ICY j =00 - %d %d %s %s %s %s" % (w_, h_, v(i + 7), v(i + 8), v(i + 9), v(i + 10)), "IE",
            "FIN")))
        # times: creation, acquisition start/end of a point cloud, acquisition of an image; both values of the atomic flag
        for flag in (0, 1):
            P.append(("times-%d-atomic%d" % (i, flag), prog(
                "G " + S("g"), "CR %s:%d" % (v(i), flag),
                "PC %s 3 %s" % (S("p"), xyz), "PAS %s:%d" % (v(i + 1), 1 - flag), "PAE %s:%d" % (v(i + 2), flag), "PE",
                "IMG " + S("i"), "IA %s:%d" % (v(i + 3), 1 - flag), "IVR p =00 - 1 1", "IE", "FIN")))
    # ---- limits: six (two) pairwise different values, in every value type, set by the caller and derived from the prototype
    col = "r~I/0/255 g~I/0/255 b~I/0/255 in~D/-/-"
    six = [("integer", ["i11", "i22", "i33", "i44", "i55", "i66"], ["i-7", "i77"]),
           ("scaled", ["s-1", "s2", "s-3", "s4", "s-5", "s6"], ["s-9223372036854775808", "s9223372036854775807"]),
           ("double", ["d" + h(x) for x in (0.125, 1.25, -2.5, 3.75, NZ, 1e-200)], ["d" + h(SUB), "d" + h(HUGE)]),
           ("single", ["f" + h32(x) for x in (0.125, 1.25, -2.5, 3.75, 0x80000000, 0x00000001)], ["f" + h32(0x00800000), "f" + h32(0x7f7fffff)]),
           ("mixed", ["i1", "s2", "d" + h(3.0), "f" + h32(4.0), "i-5", "d" + h(-6.0)], ["f" + h32(-1.0), "i1"]),
           ("special-floats", ["d" + h(x) for x in (NINF, INF, Z, NZ, -HUGE, HUGE)], ["d" + h(NINF), "d" + h(INF)])]
    for name, cl, il in six:
        P.append(("limits-" + name, prog("G " + S("g"), "PC %s 7 %s %s" % (S("p"), xyz, col),
                                         "PCL + " + " ".join(cl), "PIL + " + " ".join(il), "PE", "FIN")))
    P.append(("limits-from-prototype-integer", prog("G " + S("g"), "PC %s 7 %s r~I/1/2 g~I/3/4 b~I/5/6 in~I/7/8" % (S("p"), xyz), "PE", "FIN")))
    P.append(("limits-from-prototype-scaled", prog("G " + S("g"), "PC %s 7 %s r~S/1/2/%s/%s g~S/3/4/%s/%s b~S/5/6/%s/%s in~S/7/8/%s/%s"
                                                   % (S("p"), xyz, h(0.5), h(1.0), h(0.25), h(2.0), h(0.125), h(3.0), h(2.0), h(4.0)), "PE", "FIN")))
    P.append(("limits-from-prototype-double", prog("G " + S("g"), "PC %s 7 %s r~D/%s/%s g~D/%s/%s b~D/%s/%s in~D/%s/%s"
                                                   % (S("p"), xyz, h(0.1), h(0.2), h(0.3), h(0.4), h(0.5), h(0.6), h(0.7), h(0.8)), "PE", "FIN")))
    P.append(("limits-from-prototype-single", prog("G " + S("g"), "PC %s 7 %s r~F/%s/%s g~F/%s/%s b~F/%s/%s in~F/%s/%s"
                                                   % (S("p"), xyz, h32(0.1), h32(0.2), h32(0.3), h32(0.4), h32(0.5), h32(0.6), h32(0.7), h32(0.8)), "PE", "FIN")))
    # ---- decimal -> binary conversion at the precision of the field.  7.038531e-26_f32 (0x15ae43fd) is the only
    #      magnitude among the finite f32 values whose shortest decimal text rounds to a different f32 when it is first
    #      parsed as f64 and then narrowed (double rounding: comes back as 0x15ae43fe); it is placed in every Single-typed
    #      position that is written as text: prototype minimum / maximum (alone, both, negative-only maximum, which also
    #      becomes the element text), Single limits, and a Single coordinate (whose f64 widening goes into the bounds)
    DR, NDR = "15ae43fd", "95ae43fd"
    P.append(("limits-single-double-rounding", prog(
        "G " + S("g"), "X %s %s" % (S("ext"), S("http://e")),
        "PC %s 8 x~F/%s/- y~F/%s/- z~F/-/%s in~F/-/%s r~F/%s/%s g~F/%s/%s b~F/%s/- u.%s.%s~F/%s/%s"
        % (S("p"), DR, NDR, DR, NDR, NDR, DR, NDR, DR, DR, "ext".encode().hex(), "q".encode().hex(), NDR, DR),
        "PP 8 f%s f%s f%s f%s f%s f%s f%s f%s" % (DR, NDR, NDR, NDR, DR, NDR, DR, DR), "PE",
        "PC %s 7 %s r~I/0/255 g~I/0/255 b~I/0/255 in~D/-/-" % (S("q"), xyz),
        "PCL + f%s f%s f%s f%s f%s f%s" % (NDR, DR, DR, NDR, NDR, NDR), "PIL + f%s f%s" % (NDR, DR), "PE", "FIN")))
    # the f64 side: values at the edges of the double parse (largest subnormal, 2^-1074, smallest normal, largest finite,
    # 0.1 + 0.2, 2^53 + 2, a 17-digit value) in prototype limits, Double limits and scalar metadata
    edge = [0x000fffffffffffff, 0x0000000000000001, 0x0010000000000000, 0x7fefffffffffffff, 0x3fd3333333333334, 0x4340000000000001, 0x3ff3c0ca428c59fb]
    e = [h(x) for x in edge]
    ne = [h(x | 0x8000000000000000) for x in edge]
    P.append(("limits-double-parse-edges", prog(
        "G " + S("g"), "CR %s:1" % e[4],
        "PC %s 7 x~D/%s/%s y~D/%s/- z~D/-/%s in~D/%s/%s r~D/%s/%s g~D/%s/%s b~D/-/%s"
        % (S("p"), ne[0], e[0], e[1], ne[1], ne[3], e[3], e[2], e[4], ne[5], e[5], ne[6]),
        "PCL + d%s d%s d%s d%s d%s d%s" % (ne[0], e[1], e[2], e[3], e[4], e[6]), "PIL + d%s d%s" % (ne[3], e[5]),
        "PTE " + e[0], "PHU " + e[4], "PAP " + e[3], "PT " + ":".join(e), "PAS %s:0" % e[6], "PE",
        "IMG " + S("i"), "IPH j =00 - 3 2 %s %s %s %s %s" % (e[0], e[1], e[2], e[3], e[4]), "IT " + ":".join(ne), "IE", "FIN")))
    # ---- extension URLs: every character the writer escapes, alone and in sequences that an escaping done in the
    #      wrong order would escape twice or not at all
    urls = ["&", "<", ">", "\"", "'", "\t", "\n", "&amp;", "&lt;", "&gt;", "&quot;", "&#9;", "&#10;", "&#13;", "&amp;lt;", "a&b<c>d\"e'f\tg\nh&amp;&lt;&#38;"]
    P.append(("extension-urls", [["G", S("g")]] + [["X", S("e%d" % k), S("http://x/%d?" % k + u)] for k, u in enumerate(urls)] + [["FIN"]]))
    # ---- strings: the CDATA end marker and markup in every string-valued field of root, point cloud and image
    nasty = ["]]>", "a]]>b]]>", "]]]]><![CDATA[>", "<&>\"'", " lead and trail ", "\n\t ", ""]
    for k, t in enumerate(nasty):
        P.append(("strings-%d" % k, prog(
            "G " + S("g" + t), "CM " + S(t),
            "PC %s 3 %s" % (S(t), xyz), "PN " + S(t), "PD " + S(t), "PSV " + S(t), "PSM " + S(t), "PSS " + S(t), "PSH " + S(t), "PSW " + S(t),
            "PSF " + S(t), "POG 2 %s %s" % (S(t), S("x" + t)), "PE",
            "IMG " + S(t), "IN " + S(t), "ID " + S(t), "IG " + S(t), "ISV " + S(t), "ISM " + S(t), "ISS " + S(t), "IVR p =00 - 1 1", "IE", "FIN")))
    return [("det-" + nm, pr) for nm, pr in P]


# ---------------------------------------------------------------- shrinking

def groups_of(cmds):
    """top-level pieces that can be dropped as a whole"""
    out, i = [], 1
    while i < len(cmds) - 1:
        kw = cmds[i][0]
        j = i + 1
        if kw in ("PC", "IMG"):
            pre = "P" if kw == "PC" else "I"
            while j < len(cmds) and cmds[j][0].startswith(pre) and cmds[j][0] not in ("PC", "IMG"):
                j += 1
        out.append((i, j))
        i = j
    return out


def shrink(cmds, still_fails, budget=120):
    cur = cmds
    changed = True
    while changed and budget > 0:
        changed = False
        for (a, b) in groups_of(cur):
            if budget <= 0:
                break
            cand = cur[:a] + cur[b:]
            budget -= 1
            if still_fails(cand):
                cur, changed = cand, True
                break
        if changed:
            continue
        for i in range(1, len(cur) - 1):
            if budget <= 0:
                break
            if cur[i][0] in ("PC", "IMG", "PE", "IE"):
                continue
            cand = cur[:i] + cur[i + 1:]
            budget -= 1
            if still_fails(cand):
                cur, changed = cand, True
                break
    return cur


# ---------------------------------------------------------------- entry point

def run(rep, tier, rng, replay=None):
    if os.path.exists(os.path.join(core.COQ, "theories", "Props", "C04.v")):
        ok = core.proof_step(rep, "C04", thorough=(tier == "thorough"))
    else:
        # Props/C04.v is assembled by the maintainer from the theorems of the slices xg, xmlp, xe;
        # until it exists only the build is required here
        if os.environ.get("XG_PRIVATE_DRIVER") and os.path.exists(core.DRIVER):
            ok, log = True, ""      # slice development: the driver was built by a private script
        else:
            ok, log = core.ensure_model()
        rep.cov["checker_cmd"] = "Props/C04.v not assembled yet: model build only (theorems of this slice: Proofs/Xg*.v)"
        if not ok:
            rep.violation("proof-build-failed", "the Coq development no longer builds: " + log[-500:],
                          dict(kind="proof", failing="coq build", log=log[-2000:]), no_input=True)
    rep.cov["trusted_base"] = core.TRUSTED_COMMON + [
        "Rust's Display for f64/f32 is an oracle: the model copies the text the harness prints for each bit pattern (FDISPLAY); i64/u64/u32 Display is modelled (Coq decimal conversion) and compared",
        "section offsets, record counts, bounds and blob offsets are taken from the implementation's read-back (writer-API model: C10/C14)",
        "the program -> file_meta mapping of the model side is OCaml glue (ocaml/drv_xg.ml), cross-checked by the read-back comparison",
        "roxmltree 0.20 as the reader's XML parser (tree_of is compared with its tree on every case)"]
    if not ok:
        return
    # XG_HARNESS: a harness built elsewhere (sensitivity experiments on a scratch copy of the crate)
    impl = os.environ.get("XG_HARNESS") or core.ensure_harness("debug")
    fd = Fdisplay(impl)
    version = crate_version()
    g = Gen(rng)
    if replay and replay.get("kind") == "metadata-program":
        named = [("replay", [c.split(" ") for c in replay["commands"]])]
        progs = []
    else:
        named = probes()
        n = 4000 if tier == "quick" else 50000
        progs = [g.program() for _ in range(n)]
        # single-item programs: one point cloud / one image / one blob
        progs += [g.program(size=1) for _ in range(300 if tier == "quick" else 3000)]
    n_direct = n_corr = 0
    stats = dict(programs=0, pointclouds=0, images=0, extensions=0, xml_bytes=0, commands=0, rejected_calls=0)

    seen_classes = set()

    def report(d, name=None):
        nonlocal n_direct, n_corr
        vs = judge(d)
        for cls, desc, direct in vs:
            cmds = d["prog"]
            key = cls if name is None else "c04-probe-" + name
            if key in seen_classes:
                # one replay per class (Report keeps the first); count the others
                if direct:
                    n_direct += 1
                else:
                    n_corr += 1
                continue
            seen_classes.add(key)
            if direct or cls.startswith("correspondence"):
                def fails(c, cls=cls):
                    r = evaluate(impl, fd, version, [c])[0]
                    return any(x[0] == cls for x in judge(r))
                small = shrink(cmds, fails) if len(cmds) > 3 and name is None else cmds
            else:
                small = cmds
            rp = dict(kind="metadata-program", commands=[" ".join(c) for c in small], case="METAW " + prog_line(small),
                      failing=cls, probe=name)
            if direct:
                n_direct += 1
                rep.violation(cls if name is None else "c04-probe-" + name, ("[probe %s] " % name if name else "") + desc, rp)
            else:
                n_corr += 1
                rep.violation(cls, desc, rp, no_input=True)
        return vs

    # probes first (each has its own violation class so that a judged one can be listed as known)
    pres = evaluate(impl, fd, version, [p for _, p in named])
    probe_summary = {}
    for (name, _), d in zip(named, pres):
        vs = report(d, name)
        probe_summary[name] = [c for c, _, _ in vs] or ["holds"]
        rep.count(); rep.distinct(("probe", name))
    B = 1000
    for s in range(0, len(progs), B):
        batch = progs[s:s + B]
        for d in evaluate(impl, fd, version, batch):
            rep.count()
            stats["programs"] += 1
            stats["commands"] += len(d["prog"])
            kws = [c[0] for c in d["prog"]]
            stats["pointclouds"] += kws.count("PC"); stats["images"] += kws.count("IMG"); stats["extensions"] += kws.count("X")
            if d.get("ok") and d["xml"] not in ("-",) and not d["xml"].startswith(("err", "P")):
                stats["xml_bytes"] += len(d["xml"]) // 2
            if d.get("ok"):
                stats["rejected_calls"] += sum(1 for r in d["results"] if r != "o")
            hyp = d.get("m_hyp")
            if hyp:
                stats["hyp_" + hyp] = stats.get("hyp_" + hyp, 0) + 1
                # inside the domain of the theorems the implementation must round-trip: a direct failure there
                # would contradict gen_is_render + parse_render + extract_tree_of (or the tie)
                
            rep.distinct(gen.fnv_hex(" ".join(kws + [t for c in d["prog"] for t in c[1:] if t == "-"]).encode()))
            report(d)
    if tier == "thorough" and progs:
        # the release profile must produce the same files
        rel = core.ensure_harness("release")
        sample = progs[:3000]
        a = core.run_cases(impl, ["METAW " + prog_line(p) for p in sample])
        b = core.run_cases(rel, ["METAW " + prog_line(p) for p in sample])
        for p, x, y in zip(sample, a, b):
            if x != y:
                rep.violation("c04-debug-release-differ", "debug and release builds give different results for a metadata program",
                              dict(kind="metadata-program", commands=[" ".join(c) for c in p]))
                break
    if fd.bad:
        k, b, t, back = fd.bad[0]
        rep.violation("float-oracle-assumption", "Rust's Display/parse of the float %s (%s): text %r parses back to %s - the oracle hypotheses of the theorems "
                      "(plain text, parse inverts Display) do not hold" % (b, k, t, back), dict(kind="float", bits=b, text=t, parsed=back), no_input=True)
    # extraction cross-check: the digest of gen_root on the example value, proved by vm_compute inside Coq
    # (Proofs/XgRender.v, Example xg_example_digest), must be what the extracted OCaml code computes
    self_out = core.run_one(core.DRIVER, "XGSELF")
    rep.count()
    if self_out != "3141 2242033640 true true":
        n_corr += 1
        rep.violation("extraction-mismatch", "gen_root on the example value: extracted code gives %s, Coq proves 3141 2242033640 true true" % self_out,
                      dict(kind="extraction", failing="OCaml extraction of Model/XmlGen.v vs vm_compute"), no_input=True)
    # integer printing: Rust's Display against the model's decimal conversion
    ints = sorted(set(I64_POOL + [rng.range(I64_MIN, I64_MAX) for _ in range(300)] + [10 ** k for k in range(19)] + [-(10 ** k) for k in range(19)]
                      + [(1 << 64) - 1, 1 << 63, (1 << 64) - 2, 10 ** 19] + [rng.below(1 << 64) for _ in range(100)]))
    il = [" ".join(str(x) for x in ints[i:i + 100]) for i in range(0, len(ints), 100)]
    ia = core.run_cases(impl, ["IDISPLAY " + l for l in il])
    im = core.run_cases(core.DRIVER, ["XGDISPLAY " + l for l in il])
    rep.count(len(ints))
    for l, x, y in zip(il, ia, im):
        if x != y:
            n_corr += 1
            k = next(j for j, (p, q) in enumerate(zip(x.split(" "), y.split(" "))) if p != q)
            rep.violation("correspondence-c04", "integer Display differs for %s: Rust %s model %s" % (l.split(" ")[k], x.split(" ")[k], y.split(" ")[k]),
                          dict(kind="integer-display", value=l.split(" ")[k]), no_input=True)
            break
    used = {}
    for i in g.used_strings:
        c = STRING_CLASS[i].split(":")[0]
        used[c] = used.get(c, 0) + 1
    rep.cov.update(stats, probes=probe_summary, string_pool=len(STRING_POOL), strings_used=len(g.used_strings), string_classes_used=used,
                   f64_patterns_used=len(g.used_f64), f32_patterns_used=len(g.used_f32), item_kinds=g.kinds,
                   float_display_table=len(fd.t64) + len(fd.t32), float_oracle_assumptions_validated=len(fd.t64) + len(fd.t32) - len(fd.bad), integers_compared=len(ints),
                   direct_failures=n_direct, correspondence_failures=n_corr,
                   traces_validated_against_impl=stats["programs"] + len(named))
    if progs:
        mid = progs[len(progs) // 2]
        rep.sample(dict(kind="metadata program", commands=[" ".join(c)[:100] for c in mid][:12]))
    rep.cov["rule"] = ("metadata programs on the real writer API: file GUID, coordinate metadata, creation time, 0-3 extensions (URLs from a pool with & < > \" ' TAB LF, "
                       "spaces, non-ASCII), 0-3 items (point clouds with random valid prototypes incl. extension records and Single/Double/ScaledInteger/Integer types with independent "
                       "minimum/maximum, every PointCloudWriter setter present/absent/None independently, 0-3 points, custom or removed limits; images with every ImageWriter setter, "
                       "visual reference and/or one of pinhole/spherical/cylindrical, png/jpeg, with/without mask; blobs), strings from a pool with every dangerous sequence "
                       "alone/start/middle/end/doubled, floats from the special-value pool or random bits, integers at the type extremes. Compared per program: XML bytes model = "
                       "implementation; tree_of = roxmltree tree; read-back dump = program metadata. Probes: deterministic programs on conditions the writer accepts silently. "
                       "distinct = distinct (command sequence, None-pattern)")
