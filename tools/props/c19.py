"""C19 - copying a file through the library is lossless and writing is deterministic."""
import glob, os
from vlib import core, gen
from props import c01

STD = {"CartesianX", "CartesianY", "CartesianZ", "CartesianInvalidState", "SphericalRange", "SphericalAzimuth", "SphericalElevation",
       "SphericalInvalidState", "Intensity", "IsIntensityInvalid", "ColorRed", "ColorGreen", "ColorBlue", "IsColorInvalid",
       "RowIndex", "ColumnIndex", "ReturnCount", "ReturnIndex", "TimeStamp", "IsTimeStampInvalid"}


def unhs(t):
    return bytes.fromhex(t[1:]).decode("utf-8", "replace") if t.startswith("=") else None


def parse_content(c):
    """content string of ext_copy.rs -> dict(root tokens, exts, pcs=[dict], ims=[dict])"""
    toks = c.split(" ")
    i = 0
    root = {}
    while i < len(toks) and not toks[i].startswith("ext="):
        k, _, v = toks[i].partition("=")
        root[k] = v
        i += 1
    n = int(toks[i][4:]); i += 1
    exts = toks[i:i + n]; i += n
    npc = int(toks[i][4:]); i += 1
    pcs = []
    for _ in range(npc):
        assert toks[i] == "pc", toks[i:i + 3]
        i += 1
        d = {}
        while i < len(toks) and toks[i] not in ("pc",) and not toks[i].startswith("ims="):
            k, _, v = toks[i].partition("=")
            if k == "proto":
                k2 = int(v)
                d["proto"] = toks[i + 1:i + 1 + k2]
                i += 1 + k2
                continue
            d[k] = v
            i += 1
        pcs.append(d)
    nim = int(toks[i][4:]); i += 1
    ims = []
    for _ in range(nim):
        assert toks[i] == "im", toks[i:i + 3]
        i += 1
        d = {}
        while i < len(toks) and toks[i] != "im" and not toks[i].startswith("pts=") and not toks[i].startswith("blobs="):
            k, _, v = toks[i].partition("=")
            d[k] = v
            i += 1
        ims.append(d)
    pts = [t[4:] for t in toks[i:] if t.startswith("pts=")]
    blobs = [t[6:] for t in toks[i:] if t.startswith("blobs=")]
    return dict(root=root, exts=exts, pcs=pcs, ims=ims, pts=pts, blobs=blobs)


def valid_name(s):
    if s is None or s == "" or s.lower().startswith("xml"):
        return False
    if s[0].isdigit() or s[0] == "-":
        return False
    return all((ch.isascii() and ch.isalnum()) or ch in "_-" for ch in s)


def type_bits(t):
    k = t.split(":")
    if k[0] == "S":
        return 32
    if k[0] == "D":
        return 64
    mn, mx = int(k[1]), int(k[2])
    return (mx - mn).bit_length() if mx > mn else 0


def follows_rules(proto, ext_prefixes):
    """the writer's documented prototype rules (validate_prototype, Extension::validate_prototype, capacity)"""
    names = [p.split("/")[0] for p in proto]
    types = {p.split("/")[0]: p.split("/")[1] for p in proto}

    def has(n):
        return n in names

    def is_int(n, lo=None, hi=None):
        k = types[n].split(":")
        return k[0] == "I" and (lo is None or (int(k[1]) == lo and int(k[2]) == hi))
    for grp in (("CartesianX", "CartesianY", "CartesianZ"), ("SphericalAzimuth", "SphericalElevation", "SphericalRange"),
                ("ColorRed", "ColorGreen", "ColorBlue"), ("ReturnCount", "ReturnIndex")):
        c = sum(1 for g in grp if has(g))
        if c not in (0, len(grp)):
            return False
    if not has("CartesianX") and not has("SphericalAzimuth"):
        return False
    if has("CartesianInvalidState") and not (has("CartesianX") and is_int("CartesianInvalidState", 0, 2)):
        return False
    if has("SphericalInvalidState") and not (has("SphericalAzimuth") and is_int("SphericalInvalidState", 0, 2)):
        return False
    for n in ("SphericalAzimuth", "SphericalElevation"):
        if has(n) and types[n].startswith("I:"):
            return False
    if has("IsColorInvalid") and not (has("ColorRed") and is_int("IsColorInvalid", 0, 1)):
        return False
    for n in ("ReturnCount", "ReturnIndex", "RowIndex", "ColumnIndex"):
        if has(n) and not types[n].startswith("I:"):
            return False
    if has("IsIntensityInvalid") and not (has("Intensity") and is_int("IsIntensityInvalid", 0, 1)):
        return False
    if has("IsTimeStampInvalid") and not (has("TimeStamp") and is_int("IsTimeStampInvalid", 0, 1)):
        return False
    if len(set(names)) != len(names):          # the same attribute (namespace AND name) twice
        return False
    for p in proto:
        n, t = p.split("/")
        k = t.split(":")
        if k[0] in ("I", "SI") and int(k[1]) > int(k[2]):
            return False
        if k[0] in ("S", "D"):                 # float limits: numbers with minimum <= maximum
            import struct
            vals = []
            for h in k[1:3]:
                if h != "-":
                    v = struct.unpack(">f" if k[0] == "S" else ">d", bytes.fromhex(h))[0]
                    if v != v:
                        return False
                    vals.append(v)
            if len(vals) == 2 and vals[0] > vals[1]:
                return False
        if n.startswith("U:"):
            _, ns, nm = n.split(":")
            if not valid_name(unhs(ns)) or not valid_name(unhs(nm)) or unhs(ns) not in ext_prefixes:
                return False
    bits = sum(type_bits(p.split("/")[1]) for p in proto)
    if bits == 0:
        return False
    n = len(proto)
    if 65535 - (6 + 2 * n + n + 500) < 0 or ((65535 - (6 + 2 * n + n + 500)) * 8) // bits == 0:
        return False
    return True


PC_SETTABLE = ["guid", "rec", "proto", "og", "name", "desc", "tr", "as", "ae", "sv", "sm", "ss", "hw", "sw", "fw", "temp", "hum", "pres"]
IM_SETTABLE = ["guid", "tr", "pcg", "name", "desc", "acq", "sv", "sm", "ss"]


def strip_offsets(v):
    """image representation token: blob offsets depend on the file layout, lengths and properties do not"""
    import re
    return re.sub(r"@\d+\+", "@+", re.sub(r",(\d+)\+(\d+),", r",+\2,", v))


def compare_original(a, b):
    """A (original) vs B (copy): everything the writer API lets a caller set, the raw points, the blob bytes.
    Not compared: library version, file offsets, bounds (derived by the writer from the points, C14),
    limits when the original has none (the writer then stores the type's range, C14)."""
    diffs = []
    for k in ("fmt", "guid", "cre", "crd"):
        if a["root"].get(k) != b["root"].get(k):
            diffs.append("root.%s: %s -> %s" % (k, a["root"].get(k), b["root"].get(k)))
    if a["exts"] != b["exts"]:
        diffs.append("extensions: %s -> %s" % (a["exts"], b["exts"]))
    if len(a["pcs"]) != len(b["pcs"]) or len(a["ims"]) != len(b["ims"]):
        return diffs + ["number of point clouds/images: %d/%d -> %d/%d" % (len(a["pcs"]), len(a["ims"]), len(b["pcs"]), len(b["ims"]))]
    for i, (pa, pb) in enumerate(zip(a["pcs"], b["pcs"])):
        for k in PC_SETTABLE:
            va, vb = pa.get(k), pb.get(k)
            if k == "guid" and va == "-" and vb == "=":
                continue      # the writer API cannot leave the GUID unset
            if va != vb:
                diffs.append("pc%d.%s: %s -> %s" % (i, k, str(va)[:120], str(vb)[:120]))
        for k in ("il", "cl"):
            if pa.get(k) != "-" and pa.get(k) != pb.get(k) and "-" not in pa.get(k, "").split(","):
                diffs.append("pc%d.%s: %s -> %s" % (i, k, pa.get(k), pb.get(k)))
    for i, (ia, ib) in enumerate(zip(a["ims"], b["ims"])):
        for k in IM_SETTABLE:
            va, vb = ia.get(k), ib.get(k)
            if k == "guid" and va == "-" and vb == "=":
                continue
            if va != vb:
                diffs.append("im%d.%s: %s -> %s" % (i, k, str(va)[:120], str(vb)[:120]))
        for k in ("vr", "pj"):
            if strip_offsets(ia.get(k, "")) != strip_offsets(ib.get(k, "")):
                diffs.append("im%d.%s: %s -> %s" % (i, k, ia.get(k), ib.get(k)))
    if a["pts"] != b["pts"]:
        diffs.append("raw points: %s -> %s" % (a["pts"], b["pts"]))
    if a["blobs"] != b["blobs"]:
        diffs.append("image payloads: %s -> %s" % (a["blobs"], b["blobs"]))
    return diffs


def compare_copies(b, c):
    """B (copy) vs C (copy of the copy): everything, offsets excepted"""
    diffs = compare_original(b, c)
    for i, (pb, pc) in enumerate(zip(b["pcs"], c["pcs"])):
        for k in ("cb", "sb", "ib", "il", "cl"):
            if pb.get(k) != pc.get(k):
                diffs.append("pc%d.%s: %s -> %s" % (i, k, pb.get(k), pc.get(k)))
    if b["root"].get("lib") != c["root"].get("lib"):
        diffs.append("library version: %s -> %s" % (b["root"].get("lib"), c["root"].get("lib")))
    return diffs


def gather_files(rep, rng, tier, impl):
    """[(label, file bytes)]"""
    files = []
    # (a) files of the C01 generator (all data types and widths, blobs between point clouds)
    progs = c01.gen_programs(core.Rng(rng.next()), "quick")
    rng2 = core.Rng(rng.next())
    sel = [progs[rng2.below(len(progs))] for _ in range(60 if tier == "quick" else 400)]
    outs = core.run_cases(impl, ["FW - " + " ".join(c01.item_tok(i) for i in items) + " DUMP" for items in sel])
    for items, o in zip(sel, outs):
        if " dev=" in o:
            files.append(("writer-program", bytes.fromhex(o.split(" dev=")[1].strip())))
    # (a2) images with one or two representations (visual reference and/or one projection), each with and
    #      without a mask, between blobs and point clouds (the shapes of C19_copy_idempotent with images)
    rng3 = core.Rng(rng.next())
    img_lines = []
    for kinds in ("v", "p", "s", "c", "vp", "vs", "vc"):
        for masks in range(1 << len(kinds)):
            it = ["I", kinds]
            for k in range(len(kinds)):
                it.append(bytes(rng3.below(256) for _ in range(rng3.range(0, 40))))
                it.append(bytes(rng3.below(256) for _ in range(rng3.range(0, 9))) if (masks >> k) & 1 else None)
            around = progs[rng3.below(len(progs))]
            items = list(around[:1]) + [("B", b"\x07" * rng3.range(0, 5)), tuple(it)] + list(around[1:2])
            img_lines.append("FW - " + " ".join(c01.item_tok(i) for i in items) + " DUMP")
    for o in core.run_cases(impl, img_lines):
        if " dev=" in o:
            files.append(("writer-program-images", bytes.fromhex(o.split(" dev=")[1].strip())))
    # (b) rich metadata programs of the C04 generator, when that slice is present
    try:
        from props import c04
        g = c04.Gen(core.Rng(rng.next()))
        lines = []
        for _ in range(60 if tier == "quick" else 600):
            lines.append("METAWDEV " + c04.prog_line(g.program()))
        outs = core.run_cases(impl, lines)
        for o in outs:
            if " | " in o and not o.startswith("unknown-kind"):
                res, dev = o.split(" | ", 1)
                if res.split(",")[-1] == "o" and dev.strip():
                    files.append(("metadata-program", bytes.fromhex(dev.strip())))
    except Exception as e:            # the generator is another slice's; C19 runs without it
        rep.cov["metadata_programs_unavailable"] = str(e)[:200]
    # (b2) prototypes only foreign producers write: float attributes with ONLY a minimum or ONLY a maximum,
    #      integers at the full 64-bit range, scaled integers with unusual scale/offset (METAWDEV token language of slice xg)
    try:
        hx = lambda t: "=" + t.encode().hex()
        one_sided = [
            ["x~D/c059000000000000/-", "y~D/-/4059000000000000", "z~D/-/-"],
            ["x~F/c2c80000/-", "y~F/-/42c80000", "z~F/c2c80000/42c80000", "in~F/-/3f800000"],
            ["x~D/-/-", "y~D/-/-", "z~D/-/-", "in~D/0000000000000000/-", "ts~D/-/7fefffffffffffff"],
            ["x~S/-9223372036854775808/9223372036854775807/3f50624dd2f1a9fc/0000000000000000", "y~S/-5/5/bff0000000000000/4024000000000000", "z~S/0/0/3ff0000000000000/0000000000000000",
             "row~I/-9223372036854775808/9223372036854775807", "col~I/7/7"],
        ]
        # attributes of extensions that share a LOCAL name: with each other (two namespaces) and with a standard
        # attribute; the reader reports them as distinct, the copy must be accepted and keep them apart
        hn = lambda t: t.encode().hex()
        shared = [
            ["x~D/-/-", "y~D/-/-", "z~D/-/-", "u.%s.%s~I/0/10" % (hn("ext1"), hn("quality")), "u.%s.%s~I/0/255" % (hn("ext2"), hn("quality"))],
            ["x~D/-/-", "y~D/-/-", "z~D/-/-", "in~F/-/-", "u.%s.%s~I/0/100" % (hn("ext1"), hn("intensity"))],
            ["u.%s.%s~I/0/7" % (hn("ext2"), hn("rowIndex")), "x~D/-/-", "y~D/-/-", "z~D/-/-", "row~I/0/9", "u.%s.%s~S/0/7/3ff0000000000000/0000000000000000" % (hn("ext1"), hn("rowIndex"))],
        ]
        ext_cmds = ["X", hx("ext1"), hx("http://a.example/1"), "X", hx("ext2"), hx("http://a.example/2")]
        lines = []
        for recs in one_sided + shared:
            cmds = ["G", hx("copy-guid")] + (ext_cmds if recs in shared else []) + ["PC", hx("pc-guid"), str(len(recs))] + recs
            for k in range(3):
                vals = []
                for r in recs:
                    ty = r.split("~")[1]
                    if ty.startswith("D"):
                        vals.append("d%016x" % (0x3ff0000000000000 + k))
                    elif ty.startswith("F"):
                        vals.append("f%08x" % (0x3f800000 + k))
                    elif ty.startswith("S"):
                        lo, hi = int(ty.split("/")[1]), int(ty.split("/")[2])
                        vals.append("s%d" % (lo if k == 0 else hi if k == 1 else (lo + hi) // 2))
                    else:
                        lo, hi = int(ty.split("/")[1]), int(ty.split("/")[2])
                        vals.append("i%d" % (lo if k == 0 else hi if k == 1 else (lo + hi) // 2))
                cmds += ["PP", str(len(vals))] + vals
            cmds += ["PE", "FIN"]
            lines.append("METAWDEV " + " ".join(cmds))
        outs = core.run_cases(impl, lines)
        for o in outs:
            if " | " in o and not o.startswith("unknown-kind"):
                res, dev = o.split(" | ", 1)
                if res.split(",")[-1] == "o" and dev.strip():
                    files.append(("foreign-style-prototype", bytes.fromhex(dev.strip())))
                else:
                    rep.cov.setdefault("foreign_style_programs_rejected", []).append(res[:80])
        # shared local names on files the writer did NOT shape: the program uses placeholder names of the same
        # length, the XML text is renamed afterwards (a foreign producer writes such names directly)
        import re as _re
        from props import xe as _xe
        renames = [
            (["x~D/-/-", "y~D/-/-", "z~D/-/-", "u.%s.%s~I/0/10" % (hn("ext1"), hn("quality")), "u.%s.%s~I/0/255" % (hn("ext2"), hn("qualitz"))],
             [(b"ext2:qualitz", b"ext2:quality")]),
            (["x~D/-/-", "y~D/-/-", "z~D/-/-", "in~F/-/-", "u.%s.%s~I/0/100" % (hn("ext1"), hn("intensitz"))],
             [(b"ext1:intensitz", b"ext1:intensity")]),
            (["u.%s.%s~I/0/7" % (hn("ext2"), hn("rowIndez")), "x~D/-/-", "y~D/-/-", "z~D/-/-", "row~I/0/9"],
             [(b"ext2:rowIndez", b"ext2:rowIndex")]),
        ]
        lines = []
        for recs, _ in renames:
            cmds = ["G", hx("copy-guid")] + ext_cmds + ["PC", hx("pc-guid"), str(len(recs))] + recs
            vals = []
            for r in recs:
                ty = r.split("~")[1]
                vals.append("d3ff8000000000000" if ty.startswith("D") else "f3f000000" if ty.startswith("F") else "i3")
            cmds += ["PP", str(len(vals))] + vals + ["PP", str(len(vals))] + vals + ["PE", "FIN"]
            lines.append("METAWDEV " + " ".join(cmds))
        for (recs, subs), o in zip(renames, core.run_cases(impl, lines)):
            if " | " in o and o.split(" | ")[0].split(",")[-1] == "o":
                base = bytes.fromhex(o.split(" | ", 1)[1].strip())
                def edit(xml, subs=subs):
                    for a, b in subs:
                        xml = xml.replace(a, b)
                    return xml
                files.append(("foreign-style-shared-local-name", _xe.replace_xml(base, edit)))
            else:
                rep.cov.setdefault("foreign_style_programs_rejected", []).append(o.split(" | ")[0][:80])
        # the same idea on files the writer did NOT shape: take files whose float attributes declare both limits and
        # remove one of the two attributes from the XML text (a producer may omit either), reseal
        import re
        from props import xe
        both = [["x~D/c059000000000000/4059000000000000", "y~D/c059000000000000/4059000000000000", "z~D/c059000000000000/4059000000000000",
                 "in~F/00000000/3f800000"]]
        lines = []
        for recs in both:
            cmds = ["G", hx("copy-guid"), "PC", hx("pc-guid"), str(len(recs))] + recs
            cmds += ["PP", "4", "d3ff0000000000000", "d4000000000000000", "dc000000000000000", "f3f000000", "PE", "FIN"]
            lines.append("METAWDEV " + " ".join(cmds))
        for o in core.run_cases(impl, lines):
            if " | " in o and o.split(" | ")[0].split(",")[-1] == "o":
                base = bytes.fromhex(o.split(" | ", 1)[1].strip())
                for attr in (b"minimum", b"maximum"):
                    for nth in (0, 1, 3):          # which Float element loses the attribute
                        def edit(xml, attr=attr, nth=nth):
                            ms = list(re.finditer(rb'<(cartesian[XYZ]|intensity) type="Float"[^>]*?( ' + attr + rb'="[^"]*")', xml))
                            if len(ms) <= nth:
                                return xml
                            m = ms[nth]
                            return xml[:m.start(2)] + xml[m.end(2):]
                        files.append(("foreign-style-one-sided-limit", xe.replace_xml(base, edit)))
    except Exception as e:
        rep.cov["foreign_style_programs_unavailable"] = str(e)[:200]
    # (c) the bundled files (foreign producers)
    for f in sorted(glob.glob(os.path.join(core.REPO, "testdata", "*.e57"))):
        if os.path.getsize(f) <= (800_000 if tier == "quick" else 50_000_000):
            files.append(("bundled:" + os.path.basename(f), open(f, "rb").read()))
    return files


def run(rep, tier, rng, replay=None):
    ok = core.proof_step(rep, "C19", thorough=(tier == "thorough"))
    rep.cov["trusted_base"] = core.TRUSTED_COMMON + [
        "the copy program (harness/src/ext_copy.rs) uses every setter of the writer API with what the reader reports",
        "bounds and default limits are excluded from the original-vs-copy comparison (they are derived by the writer, C14); file offsets and the library version string are excluded everywhere"]
    if not ok:
        return
    impl = core.ensure_harness("release")
    if replay and replay.get("kind") == "file":
        files = [("replay", bytes.fromhex(replay["file"]))]
    else:
        files = gather_files(rep, rng, tier, impl)
    prelude = ["BASE f%d %s" % (i, b.hex()) for i, (_, b) in enumerate(files)]
    # run in batches so that the prelude stays small
    outs, det = [], []
    B = 8
    for s in range(0, len(files), B):
        chunk = files[s:s + B]
        pre = ["BASE g%d %s" % (i, b.hex()) for i, (_, b) in enumerate(chunk)]
        outs += core.run_cases(impl, ["COPY @g%d" % i for i in range(len(chunk))], prelude=pre, shards=1, timeout=1200)
        det += core.run_cases(impl, ["DETERM @g%d" % i for i in range(len(chunk))], prelude=pre, shards=1, timeout=1200)
    rep.count(2 * len(files))
    stats = dict(copied=0, unreadable=0, outside_rules=0, by_source={})
    for (label, data), o, d in zip(files, outs, det):
        src = label.split(":")[0]
        stats["by_source"][src] = stats["by_source"].get(src, 0) + 1
        rep.distinct(gen.fnv_hex(data))
        parts = o.split(" ;; ")
        status = parts[0]
        replay_d = dict(kind="file", label=label, file=data.hex() if len(data) <= 400_000 else "", path=label)
        if status.startswith("open:"):
            stats["unreadable"] += 1       # not a readable file: outside the property
            continue
        a = parse_content(parts[1][2:])
        exts = {unhs(e.split(",")[0]) for e in a["exts"]}
        rules_ok = all(follows_rules(pc["proto"], exts) for pc in a["pcs"])
        readable = all(p.split("/")[1] == "none" for p in a["pts"]) and all("e" not in bl and "P" not in bl for bl in a["blobs"])
        if status.startswith("copy1:"):
            if not rules_ok or not readable:
                stats["outside_rules"] += 1
                continue
            rep.violation("c19-copy-fails", "copying a readable file whose prototypes follow the writer's rules failed: %s (%s)" % (status, label), replay_d)
            continue
        if "P" in status.split(":")[-1:] or status.startswith("open1") or status.startswith("copy2") or status.startswith("open2"):
            rep.violation("c19-copy-unreadable", "the copy (or the copy of the copy) cannot be read or copied again: %s (%s)" % (status, label), replay_d)
            continue
        stats["copied"] += 1
        b = parse_content(parts[2][2:])
        c = parse_content(parts[3][2:])
        d1 = compare_original(a, b)
        if d1 and readable:
            rep.violation("c19-copy-differs", "content of the copy differs from the original (%s): %s" % (label, "; ".join(d1)[:600]), replay_d)
        d2 = compare_copies(b, c)
        if d2:
            rep.violation("c19-copy-not-idempotent", "copying the copy changes the content (%s): %s" % (label, "; ".join(d2)[:600]), replay_d)
        if not d.startswith("same"):
            rep.violation("c19-nondeterministic", "writing the same content twice gives different files or fails: %s (%s)" % (d[:100], label), replay_d)
    rep.cov.update(files=len(files), **stats, traces_validated_against_impl=len(files))
    if files:
        mid = len(files) // 2
        rep.sample(dict(kind="copy", source=files[mid][0], result=outs[mid][:400], determinism=det[mid][:80]))
    rep.cov["rule"] = ("files from the writer-program generator of C01 (all record types and widths, blobs between point clouds), rich metadata programs of the C04 generator "
                       "(every optional field, all image representations, extensions) and the bundled files of other producers are copied through the real library "
                       "(reader -> every writer setter -> file), the copy is copied again, and the same content is written twice: the copy must exist whenever the file is "
                       "readable and its prototypes follow the writer's documented rules (checked by an independent Python predicate), content(copy) = content(original) on "
                       "everything the API can set + raw points + payload bytes, content(copy of copy) = content(copy) on everything, and the two files written from the same "
                       "content are byte-identical. distinct = distinct input files")
