"""XE - correspondence of the XML extraction model (Model/XmlExtract.v) with the crate's from_node /
vec_from_document / root_from_document functions as E57Reader::new runs them.  Not a registered property;
the C04 / C18 / C03 checks import `differential`, `confirm_refutations`, `witness_trees`.
By hand:  NO_MAKE=1 ./tools/check XE [--tier thorough]   or   python3 tools/props/xe.py [quick|thorough] [seed]."""
import os, sys
if __name__ == "__main__":
    sys.path.insert(0, os.path.dirname(os.path.dirname(os.path.abspath(__file__))))
from vlib import core, xegen

CORPUS = os.path.join(core.VERIF, "corpus", "XE")


def result_class(res):
    return res.split(" ", 1)[0]


def compare(xmls, profile="debug"):
    """runs harness and model on the documents; returns list of (impl result, model result, tree class)"""
    impl = core.ensure_harness(profile)
    outs = core.run_cases(impl, ["XEXTRACT " + x.hex() for x in xmls])
    mlines, parts = [], []
    for x, o in zip(xmls, outs):
        p = o.split(" ;; ")
        if len(p) != 3:
            parts.append((o, None, None)); mlines.append("ECHO bad")
            continue
        parts.append(tuple(p))
        # the XML bytes go to the model too: it applies the nesting-depth check of E57Reader::new (Model/XmlDepth.v)
        mlines.append("XEXTRACTM X=" + x.hex() + " " + p[1] + " ;; " + p[2])
    mouts = core.run_cases(core.DRIVER, mlines)
    res = []
    for (r, orc, tree), m in zip(parts, mouts):
        tc = "tree" if tree and tree.startswith("D ") else (tree or "crash")
        res.append((r, m, tc))
    return res


def depth_docs():
    """documents around the nesting limit of E57Reader::new (256 elements): exactly at, above, far above; depth hidden in
    CDATA / comments / processing instructions / quoted attribute values (must not count); unbalanced and unterminated tags"""
    NS = "http://www.astm.org/COMMIT/E57/2010-e57-v1.0"
    def doc(inner):
        return ('<?xml version="1.0" encoding="UTF-8"?>\n<e57Root type="Structure" xmlns="%s"><formatName type="String">F</formatName>'
                '<guid type="String">g</guid><versionMajor type="Integer">1</versionMajor>%s</e57Root>' % (NS, inner)).encode()
    def nest(k, leaf=""):
        return "".join("<n%d>" % i for i in range(k)) + leaf + "".join("</n%d>" % i for i in reversed(range(k)))
    def opens(k):
        return "".join("<n%d>" % i for i in range(k))
    out = []
    for k in (1, 100, 254, 255, 256, 257, 300, 1000, 20000):
        out.append((doc(nest(k)), ["depth:%d" % (k + 1)]))
    deep = nest(400)
    out += [(doc("<x><![CDATA[%s]]></x>" % deep), ["depth:hidden-in-cdata"]),
            (doc("<x a='%s' b=\"%s\"/>" % (deep, deep)), ["depth:hidden-in-attribute-values"]),
            (doc("<x a='%s'/>" % deep.replace("<", "&lt;")), ["depth:escaped-in-attribute-value"]),
            (doc("<!--%s-->" % deep), ["depth:hidden-in-comment"]),
            (doc("<?pi %s?>" % deep), ["depth:hidden-in-pi"]),
            (doc(nest(255, "<![CDATA[<a><b>]]>")), ["depth:256+cdata"]),
            (doc(nest(254, "<a/>" * 1000)), ["depth:256-self-closing-siblings"]),
            (doc(nest(254, "<a></a>" * 1000)), ["depth:256-empty-siblings"]),
            (doc(nest(255, "<a></a>")), ["depth:257-empty-leaf"]),
            (doc(nest(255, "<a/>")), ["depth:256-self-closing-leaf"]),
            (doc(nest(255, "<a b='>'/>")), ["depth:gt-in-quotes"]),
            (doc(nest(254, "<a b='/'>x</a>")), ["depth:256-slash-before-quote"]),
            (doc(nest(255, "<a b='/'>x</a>")), ["depth:257-slash-before-quote"]),
            (doc(nest(255, "<a b='x'/ >")), ["depth:malformed-self-close"]),
            (doc(opens(255) + "</x>" * 5 + opens(5)), ["depth:unbalanced-closes-256"]),
            (doc(opens(255) + "</x>" * 5 + opens(6)), ["depth:unbalanced-closes-257"]),
            (doc(opens(254) + "<unterminated a='"), ["depth:unterminated-256"]),
            (doc(opens(255) + "<unterminated a='"), ["depth:unterminated-257"]),
            (doc("</a>" * 300 + nest(255)), ["depth:saturating-closes-first"]),
            (("<!DOCTYPE x [" + "<!ELEMENT a (b)>" * 300 + "]>").encode() + doc(nest(10)), ["depth:doctype-declarations"])]
    # start tags with quoted attribute values that contain "/>", ">", "&lt;" and the other quote, in SINGLE and in
    # double quotes, just below / at / above the limit: a scanner that mishandles one kind of quote miscounts them
    def qopens(k, style):
        SQ, DQ = chr(39), chr(34)
        a = {"single": "a=S/>S b=Sx>yS c=S&lt;z/>S d=SDS", "double": "a=D/>D b=Dx>yD c=D&lt;z/>D d=DSD",
             "mixed": "a=S/>S b=DS/>D c=SD/>S"}[style].replace("S", SQ).replace("D", DQ)
        return "".join("<n%d %s>" % (i, a) for i in range(k))
    def closes(k):
        return "".join("</n%d>" % i for i in reversed(range(k)))
    for style in ("single", "double", "mixed"):
        for k in (254, 255, 256, 299):
            out.append((doc(qopens(k, style) + closes(k)), ["depth:%d-quoted-%s" % (k + 1, style)]))
    # the really deep probe in the single-quote form (short tags: the model driver's stack is finite too)
    out.append((doc(("<n a=%s/>%s>" % (chr(39), chr(39))) * 20000 + "</n>" * 20000), ["depth:20001-quoted-single"]))
    return out


def corpus_docs():
    docs = []
    if os.path.isdir(CORPUS):
        for f in sorted(os.listdir(CORPUS)):
            if f.endswith(".xml"):
                docs.append((open(os.path.join(CORPUS, f), "rb").read(), ["corpus:" + f]))
    return docs


def field(res, key, occurrence=0):
    """value of the `key=` token of a canonical dump (n-th occurrence)"""
    vals = [t[len(key) + 1:] for t in res.split(" ") if t.startswith(key + "=")]
    return vals[occurrence] if len(vals) > occurrence else None


def hx(s):
    return "=" + s.encode().hex()


# The former counterexamples of property C18 (Proofs/XeRefute.v) as XML: with the repairs of the crate the variant is
# read exactly like the base document: (finding class, base file, variant file, predicate on (base result, variant result)).
REFUTATIONS = [
    ("foreign-same-local-name", "w_base", "w_same_name", lambda b, v: b == v and field(v, "guid") == hx("real")),
    ("foreign-first-child-of-leaf", "w_base", "w_before_text", lambda b, v: b == v and field(v, "guid") == hx("real")),
    ("foreign-first-child-of-leaf", "w_base", "w_comment_before_text", lambda b, v: b == v and field(v, "guid") == hx("real")),
    ("foreign-first-child-of-leaf", "w_bad_number", "w_bad_number_hidden", lambda b, v: b == "E:Invalid" and v == "E:Invalid"),
    ("foreign-descendant-capture", "w_data3d", "w_data3d_captured", lambda b, v: b == v and field(v, "pcs") == "0"),
    ("foreign-descendant-capture", "w_limits", "w_limits_captured", lambda b, v: b == v and field(v, "il") == "I:1,I:2"),
]
# positive examples of Props/C18.v on the real reader
POSITIVE = [
    ("inert-insertion", "w_base_reg", "w_inert", lambda b, v: b == v),
    ("extension-record", "w_proto_std", "w_proto_ext",
     lambda b, v: " proto=2 ColorRed/I:0:255 ColorBlue/I:0:255 " in b and
                  " proto=3 ColorRed/I:0:255 U:%s:%s/I:-5:5 ColorBlue/I:0:255 " % (hx("ext"), hx("quality")) in v),
    ("extension-record-std-name", "w_proto_std", "w_proto_ext_std_name",
     lambda b, v: " proto=2 U:%s:%s/I:-5:5 CartesianX/I:0:255 " % (hx("ext"), hx("cartesianX")) in v),
]


WITNESSES = ["w_base", "w_same_name", "w_before_text", "w_comment_before_text", "w_bad_number", "w_bad_number_hidden", "w_data3d",
             "w_data3d_captured", "w_limits", "w_limits_captured", "w_base_reg", "w_inert", "w_proto_std", "w_proto_ext", "w_proto_ext_std_name"]


def witness_trees(profile="debug"):
    """the Coq terms the C18 theorems are stated about are exactly roxmltree's trees of corpus/XE/<name>.xml.
    returns the names for which this fails"""
    impl = core.ensure_harness(profile)
    xs = [open(os.path.join(CORPUS, w + ".xml"), "rb").read() for w in WITNESSES]
    a = core.run_cases(impl, ["XMLTREE " + x.hex() for x in xs], shards=1)
    b = core.run_cases(core.DRIVER, ["XEWIT " + w for w in WITNESSES], shards=1)
    return [w for w, x, y in zip(WITNESSES, a, b) if x != y]


def confirm_refutations(profile="debug"):
    """runs the witnesses of the C18 theorems on the real reader.
    returns [(class, base, variant, holds_on_impl, base result, variant result)]"""
    impl = core.ensure_harness(profile)
    out = []
    for cls, b, v, pred in REFUTATIONS + POSITIVE:
        xb = open(os.path.join(CORPUS, b + ".xml"), "rb").read()
        xv = open(os.path.join(CORPUS, v + ".xml"), "rb").read()
        rb, rv = core.run_cases(impl, ["XMETA " + xb.hex(), "XMETA " + xv.hex()], shards=1)
        out.append((cls, b, v, bool(pred(rb, rv)), rb, rv))
    return out


def differential(rng, n, tier="quick", profile="debug", batch=4000):
    """generates n documents, compares implementation and model.
    returns dict(cases, disagreements=[(xml, impl, model, mutations)], classes, mutations, trees)"""
    stats = dict(cases=0, disagreements=[], classes={}, mutations={}, trees={}, distinct=set())
    docs = corpus_docs() + depth_docs()
    done = 0
    while done < n or docs:
        while len(docs) < batch and done + len(docs) < n:
            docs.append(xegen.gen_document(rng))
        cur, docs = docs[:batch], docs[batch:]
        if not cur:
            break
        res = compare([d for d, _ in cur], profile)
        for (xml, muts), (r, m, tc) in zip(cur, res):
            stats["cases"] += 1
            c = result_class(r)
            stats["classes"][c] = stats["classes"].get(c, 0) + 1
            stats["trees"][tc] = stats["trees"].get(tc, 0) + 1
            for mu in (muts or ["none"]):
                stats["mutations"][mu] = stats["mutations"].get(mu, 0) + 1
            stats["distinct"].add(hash(r))
            if r != m:
                stats["disagreements"].append((xml, r, m, muts))
        done += len(cur)
    return stats


def wrap_xml(xml):
    """a minimal file around an XML section (48-byte header + XML, sealed pages)"""
    from vlib import crc
    log = bytearray(b"ASTM-E57") + (1).to_bytes(4, "little") + (0).to_bytes(4, "little") + bytes(8) + (48).to_bytes(8, "little") + len(xml).to_bytes(8, "little") + (1024).to_bytes(8, "little") + xml
    npages = (len(log) + 1019) // 1020
    log[16:24] = (npages * 1024).to_bytes(8, "little")
    return crc.paginate(bytes(log))


def differential_files(rng, files, profile="debug", with_depth=True):
    """E57Reader::new on arbitrary FILE bytes vs Model/ReaderFull.reader_new (file layer, UTF-8 check, depth check, XML
    parser model, extractors; float parsing from the implementation's oracle table).
    files: list of bytes.  with_depth: the nesting-depth documents of depth_docs() (quoted attribute values in both quote
    styles around the limit of 256, one 20001-deep probe per quote style) are appended, the very deep ones each in a process
    of its own so that a stack overflow is attributed to that input only.
    returns dict(cases, classes, unsupported, disagreements=[(file, impl, model)])"""
    impl = core.ensure_harness(profile)
    files = list(files)
    probes = []
    if with_depth:
        for xml, tag in depth_docs():
            (probes if len(xml) > 100000 else files).append(wrap_xml(xml))
    outs = core.run_cases(impl, ["RNEW " + f.hex() for f in files])
    for f in probes:
        outs.append(core.run_cases(impl, ["RNEW " + f.hex()], shards=1)[0])
    files = files + probes
    mlines, parts = [], []
    for f, o in zip(files, outs):
        p = o.split(" ;; ")
        if len(p) != 2:
            # the process died (abort, stack overflow): the model still says what the reader should have answered
            parts.append(("PROCESS-DIED " + o[:80], "=30:0000000000000000:00000000"))
            mlines.append("RNEWM =30:0000000000000000:00000000 ;; " + f.hex())
            continue
        parts.append((p[0], p[1]))
        mlines.append("RNEWM " + p[1] + " ;; " + f.hex())
    mouts = core.run_cases(core.DRIVER, mlines)
    st = dict(cases=len(files), classes={}, unsupported=0, disagreements=[])
    for f, (r, _), m in zip(files, parts, mouts):
        c = result_class(r)
        st["classes"][c] = st["classes"].get(c, 0) + 1
        if m == "UNSUPPORTED":
            st["unsupported"] += 1
            if r == "PANIC" or r.startswith("PROCESS-DIED"):
                st["disagreements"].append((f, r, m))
        elif r != m:
            st["disagreements"].append((f, r, m))
    return st


def replace_xml(file_bytes, fn):
    """file written by the real writer (XML section last) -> the same file with fn(xml) as its XML section, resealed"""
    from vlib import crc
    log = bytearray(crc.strip(file_bytes))
    xoff = int.from_bytes(log[24:32], "little"); xlen = int.from_bytes(log[32:40], "little")
    lo = xoff - 4 * (xoff // 1024)
    new = fn(bytes(log[lo:lo + xlen]))
    log = log[:lo] + new
    log[32:40] = len(new).to_bytes(8, "little")
    npages = (len(log) + 1019) // 1020
    log[16:24] = (npages * 1024).to_bytes(8, "little")
    return crc.paginate(bytes(log))


BAD_NUMBERS = [b"NaN", b"inf", b"-inf", b"1e999", b"-1e999", b"", b"-1", b"-0", b"18446744073709551616", b"9223372036854775808",
               b"-9223372036854775809", b"4294967296", b"1e-400", b"0x10", b" 5", b"99999999999999999999999999", b"+5", b"1.5"]


def mutate_xml_text(rng, xml):
    """XML-level mutations of a writer-produced XML text (bytes)"""
    import re
    k = rng.below(9)
    if k == 0:      # a number in element text
        ms = list(re.finditer(rb'(type="(?:Float|Integer|ScaledInteger)"[^>]*>)([^<]*)(<)', xml))
        if ms:
            m = rng.choice(ms); return xml[:m.start(2)] + rng.choice(BAD_NUMBERS) + xml[m.end(2):]
    if k == 1:      # a number in an attribute
        ms = list(re.finditer(rb'(minimum|maximum|scale|offset|fileOffset|recordCount|length)="([^"]*)"', xml))
        if ms:
            m = rng.choice(ms); return xml[:m.start(2)] + rng.choice(BAD_NUMBERS + [str(rng.below(5000)).encode(), str(2 ** 63 - 1).encode()]) + xml[m.end(2):]
    if k == 2:      # swap a type attribute
        ms = list(re.finditer(rb'type="([A-Za-z]*)"', xml))
        if ms:
            m = rng.choice(ms); return xml[:m.start(1)] + rng.choice([b"Float", b"Integer", b"String", b"Structure", b"Vector", b"ScaledInteger", b"CompressedVector", b"Blob", b""]) + xml[m.end(1):]
    if k in (3, 4):  # duplicate / remove a one-line element
        ms = list(re.finditer(rb'<([A-Za-z0-9:]+) [^<>]*?(?:/>|>[^<]*(?:<!\[CDATA\[.*?\]\]>)?[^<]*</\1>)\n', xml, re.S))
        if ms:
            m = rng.choice(ms)
            return xml[:m.start()] + (m.group(0) * 2 if k == 3 else b"") + xml[m.end():]
    if k == 5:
        return re.sub(rb'recordCount="[0-9]*"', b'recordCount="' + rng.choice([b"18446744073709551615", b"0", b"9223372036854775807", str(rng.below(10 ** 6)).encode()]) + b'"', xml, count=1)
    if k == 6:
        ms = list(re.finditer(rb'fileOffset="([0-9]*)"', xml))
        if ms:
            m = rng.choice(ms); return xml[:m.start(1)] + str(rng.below(20000)).encode() + xml[m.end(1):]
    if k == 7:      # precision / extra attribute
        ms = list(re.finditer(rb'precision="single"', xml))
        if ms:
            m = rng.choice(ms); return xml[:m.start()] + rng.choice([b'precision="double"', b'precision="half"', b'']) + xml[m.end():]
    # byte damage
    i = rng.below(max(1, len(xml)))
    return xml[:i] + bytes([rng.choice([0xff, 0x3c, 0x26, 0x00, 0x80])]) + xml[i + 1:]


def differential_depth_files(profile="debug"):
    """the depth documents as complete files: E57Reader::new vs Model/ReaderFull.reader_new (RNEW / RNEWM)"""
    return differential_files(None, [], profile, with_depth=True)


def run(rep, tier, rng, replay=None):
    rep.cov["trusted_base"] = core.TRUSTED_COMMON + [
        "roxmltree's tree is taken from the implementation side (dumped by the harness) and given to the model",
        "Rust's str::parse::<f64/f32> is an oracle: its results on the texts of the document are given to the model as a table"]
    rep.cov["rule"] = ("for every generated XML document: E57Reader::new on a file carrying exactly these XML bytes and "
                       "XmlExtract.extract_all on roxmltree's tree of them give the same error variant or the same canonical dump of all metadata")
    if not os.environ.get("NO_MAKE"):
        ok, log = core.ensure_model()
        if not ok:
            rep.violation("proof-build-failed", log[-500:], dict(kind="proof", log=log[-2000:]), no_input=True)
            return
    if replay and replay.get("kind") == "xml":
        xml = bytes.fromhex(replay["xml"])
        (r, m, tc), = compare([xml])
        rep.count()
        if r != m:
            rep.violation("correspondence-xe", "impl: %s | model: %s" % (r[:300], m[:300]), dict(kind="xml", xml=xml.hex()), no_input=True)
        return
    n = 15000 if tier == "quick" else 120000
    bad = witness_trees()
    rep.cov["witness_terms_equal_roxmltree_trees"] = len(WITNESSES) - len(bad)
    if bad:
        rep.violation("correspondence-xe-witness", "the Coq witness terms %s are not roxmltree's trees of corpus/XE/*.xml" % bad,
                      dict(kind="witness", names=bad), no_input=True)
    conf = confirm_refutations()
    rep.cov["witnesses_on_real_reader"] = [dict(cls=c, base=b, variant=v, as_proved=h) for c, b, v, h, _, _ in conf]
    for c, b, v, h, rb, rv in conf:
        rep.count()
        if not h:
            # the real reader no longer behaves as the theorem about the model says: the model (or the theorem) is stale
            rep.violation("correspondence-xe-witness", "witness %s/%s (%s): the real reader gives %s | %s" % (b, v, c, rb[:200], rv[:200]),
                          dict(kind="xml", xml=open(os.path.join(CORPUS, v + ".xml"), "rb").read().hex()), no_input=True)
    st = differential(rng, n, tier)
    rep.count(st["cases"])
    for k in st["distinct"]:
        rep.distinct(k)
    rep.cov["result_classes"] = st["classes"]
    rep.cov["mutation_kinds"] = st["mutations"]
    rep.cov["tree_classes"] = st["trees"]
    rep.cov["traces_validated_against_impl"] = st["cases"]
    for xml, r, m, muts in st["disagreements"][:3]:
        rep.sample(dict(xml=xml.decode("utf-8", "replace")[:400], impl=r[:200], model=m[:200], mutations=muts))
    if st["disagreements"]:
        xml, r, m, muts = min(st["disagreements"], key=lambda d: len(d[0]))
        rep.violation("correspondence-xe", "%d disagreements; smallest: mutations=%s impl: %s | model: %s" % (len(st["disagreements"]), muts, r[:300], m[:300]),
                      dict(kind="xml", xml=xml.hex()), no_input=True)


if __name__ == "__main__":
    tier = sys.argv[1] if len(sys.argv) > 1 else "quick"
    seed = int(sys.argv[2]) if len(sys.argv) > 2 else int(os.environ.get("VERIF_SEED", "1"))
    os.chdir(core.VERIF)
    rep = core.Report("XE", tier, seed)
    os.environ.setdefault("NO_MAKE", "1")
    run(rep, tier, core.Rng(seed * 1000003 + 57), None)
    print("cases=%d classes=%s trees=%s" % (rep.cov["evaluations"], rep.cov.get("result_classes"), rep.cov.get("tree_classes")))
    sys.exit(rep.finish())
