"""XE - correspondence of the XML extraction model (Model/XmlExtract.v) with the crate's from_node /
vec_from_document / root_from_document functions as E57Reader::new runs them.  Not a registered property;
the C04 / C18 / C03 checks import `differential`.  By hand:  NO_MAKE=1 ./tools/check XE   (needs the one-line
change to tools/check named in the slice report) or  python3 tools/props/xe.py [quick|thorough] [seed]."""
import os, sys
if __name__ == "__main__":
    sys.path.insert(0, os.path.dirname(os.path.dirname(os.path.abspath(__file__))))
from vlib import core, xegen

CORPUS = os.path.join(core.VERIF, "corpus", "XE")


def result_class(res):
    return res.split(" ", 1)[0]


def compare(xmls, profile="debug"):
    """runs harness and model on the documents; returns list of (impl result, model result, tree class)"""
    impl = core.ensure_harness(profile)
    outs = core.run_cases(impl, ["XEXTRACT " + x.hex() for x in xmls])
    mlines, parts = [], []
    for o in outs:
        p = o.split(" ;; ")
        if len(p) != 3:
            parts.append((o, None, None)); mlines.append("ECHO bad")
            continue
        parts.append(tuple(p))
        mlines.append("XEXTRACTM " + p[1] + " ;; " + p[2])
    mouts = core.run_cases(core.DRIVER, mlines)
    res = []
    for (r, orc, tree), m in zip(parts, mouts):
        tc = "tree" if tree and tree.startswith("D ") else (tree or "crash")
        res.append((r, m, tc))
    return res


def corpus_docs():
    docs = []
    if os.path.isdir(CORPUS):
        for f in sorted(os.listdir(CORPUS)):
            if f.endswith(".xml"):
                docs.append((open(os.path.join(CORPUS, f), "rb").read(), ["corpus:" + f]))
    return docs


def differential(rng, n, tier="quick", profile="debug", batch=4000):
    """generates n documents, compares implementation and model.
    returns dict(cases, disagreements=[(xml, impl, model, mutations)], classes, mutations, trees)"""
    stats = dict(cases=0, disagreements=[], classes={}, mutations={}, trees={}, distinct=set())
    docs = corpus_docs()
    done = 0
    while done < n or docs:
        while len(docs) < batch and done + len(docs) < n:
            docs.append(xegen.gen_document(rng))
        cur, docs = docs[:batch], docs[batch:]
        if not cur:
            break
        res = compare([d for d, _ in cur], profile)
        for (xml, muts), (r, m, tc) in zip(cur, res):
            stats["cases"] += 1
            c = result_class(r)
            stats["classes"][c] = stats["classes"].get(c, 0) + 1
            stats["trees"][tc] = stats["trees"].get(tc, 0) + 1
            for mu in (muts or ["none"]):
                stats["mutations"][mu] = stats["mutations"].get(mu, 0) + 1
            stats["distinct"].add(hash(r))
            if r != m:
                stats["disagreements"].append((xml, r, m, muts))
        done += len(cur)
    return stats


def run(rep, tier, rng, replay=None):
    rep.cov["trusted_base"] = core.TRUSTED_COMMON + [
        "roxmltree's tree is taken from the implementation side (dumped by the harness) and given to the model",
        "Rust's str::parse::<f64/f32> is an oracle: its results on the texts of the document are given to the model as a table"]
    rep.cov["rule"] = ("for every generated XML document: E57Reader::new on a file carrying exactly these XML bytes and "
                       "XmlExtract.extract_all on roxmltree's tree of them give the same error variant or the same canonical dump of all metadata")
    if not os.environ.get("NO_MAKE"):
        ok, log = core.ensure_model()
        if not ok:
            rep.violation("proof-build-failed", log[-500:], dict(kind="proof", log=log[-2000:]), no_input=True)
            return
    if replay and replay.get("kind") == "xml":
        xml = bytes.fromhex(replay["xml"])
        (r, m, tc), = compare([xml])
        rep.count()
        if r != m:
            rep.violation("correspondence-xe", "impl: %s | model: %s" % (r[:300], m[:300]), dict(kind="xml", xml=xml.hex()), no_input=True)
        return
    n = 4000 if tier == "quick" else 120000
    st = differential(rng, n, tier)
    rep.count(st["cases"])
    for k in st["distinct"]:
        rep.distinct(k)
    rep.cov["result_classes"] = st["classes"]
    rep.cov["mutation_kinds"] = st["mutations"]
    rep.cov["tree_classes"] = st["trees"]
    rep.cov["traces_validated_against_impl"] = st["cases"]
    for xml, r, m, muts in st["disagreements"][:3]:
        rep.sample(dict(xml=xml.decode("utf-8", "replace")[:400], impl=r[:200], model=m[:200], mutations=muts))
    if st["disagreements"]:
        xml, r, m, muts = min(st["disagreements"], key=lambda d: len(d[0]))
        rep.violation("correspondence-xe", "%d disagreements; smallest: mutations=%s impl: %s | model: %s" % (len(st["disagreements"]), muts, r[:300], m[:300]),
                      dict(kind="xml", xml=xml.hex()), no_input=True)


if __name__ == "__main__":
    tier = sys.argv[1] if len(sys.argv) > 1 else "quick"
    seed = int(sys.argv[2]) if len(sys.argv) > 2 else int(os.environ.get("VERIF_SEED", "1"))
    os.chdir(core.VERIF)
    rep = core.Report("XE", tier, seed)
    os.environ.setdefault("NO_MAKE", "1")
    run(rep, tier, core.Rng(seed * 1000003 + 57), None)
    print("cases=%d classes=%s trees=%s" % (rep.cov["evaluations"], rep.cov.get("result_classes"), rep.cov.get("tree_classes")))
    sys.exit(rep.finish())
