"""C06 - blobs and image payloads round-trip byte-exactly."""
from vlib import core, gen
from props import c01


def gen_programs(rng, tier):
    progs = []
    lengths = sorted(set(list(range(0, 40)) + list(range(990, 1060)) + list(range(2020, 2060)) + list(range(3040, 3100))
                         + (list(range(0, 3101, 1)) if tier == "thorough" else list(range(0, 3101, 53)))))
    small_proto = [("x", "F"), ("y", "F"), ("z", "F")]
    for L in lengths:
        items = []
        # preceding content of varying length so that the section starts at varying residues
        c = rng.below(4)
        if c == 0:
            items.append(("B", rng.bytes(rng.range(0, 1100))))
        elif c == 1:
            items.append(("P", small_proto, gen.rand_points(rng, small_proto, rng.range(0, 30))))
        data = bytes((i * 31 + L) % 256 for i in range(L)) if rng.chance(1, 2) else rng.bytes(L)
        if rng.chance(1, 3):
            kind = rng.choice(["v", "p", "s", "c"])
            mask = rng.bytes(rng.choice([0, 1, 5, 64, 1019, 1021])) if rng.chance(1, 2) else None
            items.append(("I", kind, data, mask))
        else:
            items.append(("B", data))
        c = rng.below(4)
        if c == 0:
            items.append(("B", rng.bytes(rng.range(0, 300))))
        elif c == 1:
            items.append(("P", small_proto, gen.rand_points(rng, small_proto, rng.range(0, 10))))
        elif c == 2:
            items.append(("I", rng.choice(["v", "p", "s", "c"]), rng.bytes(rng.range(0, 50)), None))
        progs.append(items)
    # start-residue sweep: a first blob of every length 0, 4, .. 1100 puts the start of the next section on every
    # 4-aligned in-page offset (255 of them, the 16-byte section header straddles the page checksum at 1008/1012/1016);
    # the section that follows is a plain blob, then an image with data and mask
    for k, pre in enumerate(range(0, 1104, 4)):
        kind = "vpsc"[k % 4]
        progs.append([("B", rng.bytes(pre)), ("B", rng.bytes(rng.range(17, 60))),
                      ("I", kind, rng.bytes(rng.range(1, 40)), rng.bytes(rng.range(1, 30)) if k % 3 else None)])
        progs.append([("B", rng.bytes(pre)), ("I", kind, rng.bytes(rng.range(20, 50)), rng.bytes(rng.range(20, 50)))])
    # images with BOTH a visual reference and a projection, every mask combination: each descriptor (data and mask of
    # each representation) must lead to its own data and a mask must be reported exactly where one was written
    for proj in "psc":
        for mv in (False, True):
            for mp in (False, True):
                progs.append([("I", "v" + proj, rng.bytes(rng.range(1, 300)), rng.bytes(rng.range(1, 40)) if mv else None,
                               rng.bytes(rng.range(1, 300)), rng.bytes(rng.range(1, 40)) if mp else None),
                              ("I", proj, rng.bytes(rng.range(1, 200)), rng.bytes(7) if not mp else None)])
    # several images in one file: each descriptor must lead to its own data
    for _ in range(20 if tier == "quick" else 400):
        items = []
        for _ in range(rng.range(2, 5)):
            items.append(("I", rng.choice(["v", "p", "s", "c"]), rng.bytes(rng.range(0, 1500)), rng.bytes(rng.range(0, 200)) if rng.chance(1, 2) else None))
        progs.append(items)
    return progs


def run(rep, tier, rng, replay=None):
    ok = core.proof_step(rep, "C06", thorough=(tier == "thorough"))
    rep.cov["trusted_base"] = core.TRUSTED_COMMON + [
        "the XML text is taken from the implementation's file and given to the model (XML layer: C04); image blob descriptors are read back through roxmltree"]
    if not ok:
        return
    if replay and replay.get("kind") == "writer-program":
        progs = [[("B", bytes.fromhex(t[2:])) if t.startswith("B:") else
                  tuple(["I", t.split(":")[1]] + [None if x == "-" else bytes.fromhex(x) for x in t.split(":")[2:]]) if t.startswith("I:") else
                  ("P", [tuple(x.split("=", 1)) for x in t.split(":")[1].split(",")],
                   [p.split(",") for p in t.split(":")[2].split(";")] if len(t.split(":")) > 2 and t.split(":")[2] else [])
                  for t in replay["items"]]]
        chunks = [replay.get("src_chunk")]
    else:
        progs = gen_programs(rng, tier)
        # every second program reads its blob / image data from a source that hands out few bytes per read
        chunks = [[None, 1, None, 7, None, 10, None, 1000, None, 4095, None, 4097][k % 12] for k in range(len(progs))]
    o_impl, n_dir, n_corr = c01.check_programs(rep, progs, "c06", src_chunks=chunks)
    rep.cov["programs_with_short_reading_sources"] = sum(1 for c in chunks if c)
    res1020, res4 = set(), set()
    for items in progs:
        for it in c01.flat_items(items):
            if it[0] == "B":
                res1020.add(len(it[1]) % 1020); res4.add(len(it[1]) % 4)
        rep.distinct(gen.fnv_hex(" ".join(c01.item_tok(x) for x in items).encode()))
    # ---- crafted descriptors and section headers: Ok implies exactly the descriptor's length
    impl = core.ensure_harness("debug")
    base_items = [("B", rng.bytes(700)), ("B", rng.bytes(1500)), ("P", [("x", "F"), ("y", "F"), ("z", "F")], gen.rand_points(rng, [("x", "F"), ("y", "F"), ("z", "F")], 8)), ("B", rng.bytes(3))]
    o = core.run_one(impl, "FW - " + " ".join(c01.item_tok(i) for i in base_items) + " DUMP")
    dev = bytearray(bytes.fromhex(o.split(" dev=")[1].strip()))
    outs = o.split(" | ")[0].split()
    descs = [tuple(map(int, x[1:].split(":"))) for x in outs if x.startswith("b")]
    from vlib import crc
    cases, names = [], []
    flen = len(dev)
    for (off, ln) in descs:
        for (o2, l2) in [(off, ln), (off, ln + 1), (off, max(0, ln - 1)), (off, ln + 16), (off, ln + 17), (off, flen), (off, 2 ** 63), (off, 2 ** 64 - 1),
                         (off + 4, ln), (off + 16, ln), (flen - 4, 1), (flen, 0), (flen + 5, 0), (1020, 1), (1023, 4), (0, 10), (off, 0)]:
            cases.append("BLOBRD - @b %d %d" % (o2, l2)); names.append((o2, l2, "plain"))
    # crafted section header lengths (resealed)
    prelude = ["BASE b " + bytes(dev).hex()]
    extra_prelude = []
    for k, (off, ln) in enumerate(descs[:2]):
        for j, sl in enumerate([0, 1, ln - 1, ln, 2 ** 64 - 1, 2 ** 64 - 16, 2 ** 64 - 17, 2 ** 63]):
            d2 = bytearray(dev)
            log = bytearray(crc.strip(bytes(d2)))
            lo = off - 4 * (off // 1024)
            log[lo + 8:lo + 16] = (sl % 2 ** 64).to_bytes(8, "little")
            d2 = crc.paginate(bytes(log))
            nm = "h%d_%d" % (k, j)
            extra_prelude.append("BASE %s %s" % (nm, d2.hex()))
            for l2 in (ln, ln + 17, 2 ** 64 - 1, 1):
                cases.append("BLOBRD - @%s %d %d" % (nm, off, l2)); names.append((off, l2, "header-length=%d" % sl))
    a = core.run_cases(impl, cases, prelude=prelude + extra_prelude)
    m = core.run_cases(core.DRIVER, cases, prelude=prelude + extra_prelude)
    rep.count(len(cases))
    for i, c in enumerate(cases):
        rep.distinct(("desc", c))
        o2, l2, what = names[i]
        bad = None
        if a[i] == "P" or a[i].startswith("CRASH"):
            bad = "blob extraction panicked"
        elif a[i].startswith("ok") and ("mismatch" in a[i] or int(a[i].split("n=")[1].split()[0]) != l2):
            bad = "blob extraction returned %s for a descriptor of length %d" % (a[i], l2)
        if bad:
            n_dir += 1
            rep.violation("blob-descriptor", "%s (offset %d, length %d, %s)" % (bad, o2, l2, what), dict(kind="blob-descriptor", case=c, offset=o2, length=l2, what=what))
        elif a[i] != m[i]:
            n_corr += 1
            rep.violation("correspondence-c06", "model/implementation differ on %s (%s): impl=%s model=%s" % (c[:60], what, a[i], m[i]),
                          dict(kind="blob-descriptor", case=c, failing="correspondence Blob::read model vs implementation"), no_input=True)
    # ---- extraction into a target of fixed capacity (its write returns Ok(0) once full): the call must return -
    #      an error when the blob does not fit, the exact bytes when it does (direct oracle on the implementation only)
    scases, snames = [], []
    for (off, ln) in descs:
        for cap in sorted({0, 1, max(0, ln - 1), ln, ln + 1, ln // 2, 4096, 4097}):
            scases.append("BLOBRDS - @b %d %d %d" % (off, ln, cap)); snames.append((off, ln, cap))
    plain = {(o2, l2): a[i] for i, (o2, l2, what) in enumerate(names) if what == "plain"}
    sres = core.run_cases(impl, scases, prelude=prelude)
    rep.count(len(scases))
    for c, (off, ln, cap), r in zip(scases, snames, sres):
        rep.distinct(("fixed-target", c))
        bad = None
        if r == "HANG":
            bad = "blob extraction into a full target does not return (no result after 20 s)"
        elif r == "P" or r.startswith("CRASH"):
            bad = "blob extraction into a fixed-capacity target panicked"
        elif r.startswith("ok"):
            ref = plain.get((off, ln), "")
            if cap < ln:
                bad = "blob extraction reports success although the target holds only %d of %d bytes (%s)" % (cap, ln, r)
            elif "n=%d filled=%d " % (ln, ln) not in r + " " or (ref.startswith("ok") and r.split("h=")[1] != ref.split("h=")[1]):
                bad = "blob extraction into a target of capacity %d returned %s, into a Vec %s" % (cap, r, ref)
        if bad:
            n_dir += 1
            rep.violation("blob-fixed-target", "%s (offset %d, length %d, capacity %d)" % (bad, off, ln, cap),
                          dict(kind="blob-fixed-target", case=c, offset=off, length=ln, capacity=cap))
            break
    rep.cov["fixed_capacity_target_cases"] = len(scases)
    rep.cov.update(programs=len(progs), blob_length_residues_mod_1020=len(res1020), blob_length_residues_mod_4=len(res4),
                   crafted_descriptor_cases=len(cases), direct_failures=n_dir, correspondence_failures=n_corr,
                   traces_validated_against_impl=len(progs) + len(cases))
    rep.sample(dict(kind="writer program", items=[c01.item_tok(x)[:80] for x in progs[len(progs) // 2]], impl=c01.strip_xml(o_impl[len(progs) // 2])[:300]))
    rep.sample(dict(kind="crafted descriptor", case=cases[5], impl=a[5]))
    rep.cov["rule"] = ("writer programs with a blob or image payload of every listed length (all residues mod 4; residues mod 1020 as counted), random/patterned contents, "
                       "0-1 sections before and after, a sweep of the start of a blob / image section over all 255 aligned in-page offsets, all four image kinds with and without mask, several images per file; read back through the descriptors the reader reports; "
                       "plus crafted descriptors (past the end, into other sections, into checksum bytes, lengths near 2^64) and crafted section header lengths on resealed files: "
                       "Ok implies exactly the requested length. Implementation (debug+release) vs extracted model byte for byte. distinct = distinct programs / descriptor cases")
