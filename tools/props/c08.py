"""C08 - reading untrusted bytes never panics."""
import re
from vlib import core, tot


def panic_entries(t):
    return [p.split("@")[0] for p in t["panics"]]


def run(rep, tier, rng, replay=None):
    ok = core.proof_step(rep, "C08", thorough=(tier == "thorough"))
    rep.cov["trusted_base"] = core.TRUSTED_COMMON + [
        "roxmltree (XML parsing) and the descriptor extraction (`from_node` functions) are not modelled: for the theorems the point cloud and blob "
        "descriptors are universally quantified inputs; in the tie the model is given the descriptors the implementation extracted; panics inside "
        "those layers are still caught by the direct oracle (every call runs under catch_unwind)",
        "std (Vec, VecDeque, String::from_utf8, io::copy, Read::read_exact) and stack depth are not modelled",
        "the model's prototype limits are unbounded integers; the theorems assume they are i64 values (C08_no_panic_raw_wide_refuted shows the hypothesis is needed in the model; Rust's type gives it)"]
    if not ok:
        return
    res = tot.explore(rep, tier, rng, replay)
    muts = res["muts"]
    n_pan = n_corr = n_prof = n_skip = n_model = n_hang = 0
    kinds, classes, entries = {}, {}, {}
    for i, m in enumerate(muts):
        kinds[m["kind"]] = kinds.get(m["kind"], 0) + 1
        rep.distinct((m["kind"], m["base"], tot.gen.fnv_hex(m["phys"])))
        td, tr = res["tot"]["debug"][i], res["tot"]["release"][i]
        rep.count(2)
        if td.get("hang") or tr.get("hang"):
            n_hang += 1         # a call that does not return is C09's finding (c09-call-does-not-return); nothing to compare here
            continue
        bad = None
        for prof, t in (("debug", td), ("release", tr)):
            if t["crash"]:
                bad = (prof, "the process died (abort / allocation failure / stack overflow): %s" % (t["raw"] or "")[:160], ["process"])
            elif t["panics"] or re.search(r"[:=]P( |$)", t["raw"]):
                bad = (prof, "panic in %s" % "; ".join(t["panics"])[:400], panic_entries(t))
            if bad:
                break
        if bad:
            n_pan += 1
            for e in bad[2]:
                e0 = re.sub(r"\d+", "", e.split("[")[0])
                entries[e0] = entries.get(e0, 0) + 1
            rep.violation("c08-panic", "%s profile, %s mutation of %s (%d bytes): %s" % (bad[0], m["kind"], m["base"], len(m["phys"]), bad[1]),
                          dict(kind="file", file=m["phys"].hex(), mutation=m["kind"], base=m["base"], entry=bad[2], profile=bad[0]))
            continue
        # result classes
        for s in td["sections"]:
            key = s.split(" | ")[0].split()[0].split(":")[0] + ":" + (re.search(r"(ok|e[A-Z]\w+|end=\w+)", s) or [""])[0] if s else ""
            classes[key] = classes.get(key, 0) + 1
        if tot.strip_meter(td["raw"]) != tot.strip_meter(tr["raw"]):
            n_prof += 1
            ds, rs = td["raw"].split(" # "), tr["raw"].split(" # ")
            diff = next(((a, b) for a, b in zip(ds, rs) if tot.strip_meter(a) != tot.strip_meter(b)), (td["raw"][-200:], tr["raw"][-200:]))
            rep.violation("c08-profile-difference", "debug and release builds disagree on a %s mutation of %s (wrapping arithmetic reached?): debug [%s] release [%s]" %
                          (m["kind"], m["base"], tot.strip_meter(diff[0])[:200], tot.strip_meter(diff[1])[:200]),
                          dict(kind="file", file=m["phys"].hex(), mutation=m["kind"], base=m["base"]))
            continue
        if res["model"][i] is not None:
            n_model += 1
            st, detail = tot.compare(td, res["model"][i])
            if st == "xml_layer_not_modelled":
                n_skip += 1
            elif st == "mismatch":
                n_corr += 1
                rep.violation("correspondence-c08", "model and implementation differ on a %s mutation of %s: %s" % (m["kind"], m["base"], detail),
                              dict(kind="file", file=m["phys"].hex(), mutation=m["kind"], base=m["base"],
                                   failing="correspondence reader model vs implementation on mutated files (theorems C08_no_panic_*)"), no_input=True)
    # descriptors that do not come from the XML
    fr = res["free"]
    n_free = len(fr["lines"])
    for i, line in enumerate(fr["lines"]):
        rep.count(2)
        od, orl, om = fr["out"]["debug"][i], fr["out"]["release"][i], fr["model"][i]
        rep.distinct(("free", line[-120:]))
        if od.startswith("HANG") or orl.startswith("HANG"):
            n_hang += 1
            continue
        if any(o.startswith("CRASH") or " # PANICS " in o or re.search(r"[: ]P( |$)", o) for o in (od, orl)):
            n_pan += 1
            rep.violation("c08-panic", "panic with a descriptor given through the API (%s): %s" % (fr["notes"][i], (od + " || " + orl)[-300:]),
                          dict(kind="free-descriptor", case=line, note=fr["notes"][i]))
        elif tot.comparable_free(od) != om or tot.comparable_free(orl) != om:
            n_corr += 1
            rep.violation("correspondence-c08", "model and implementation differ on %s ... (%s): debug [%s] release [%s] model [%s]" %
                          (line.split()[0], fr["notes"][i], tot.comparable_free(od)[:150], tot.comparable_free(orl)[:150], om[:150]),
                          dict(kind="free-descriptor", case=line, note=fr["notes"][i],
                               failing="correspondence raw iteration / blob model vs implementation for descriptors outside what XML can express"), no_input=True)
    # XML-dependent results: E57Reader::new against the full reader model of slice xe (file layer + XML parser + extractors)
    xml_cmp = dict(cases=0, unsupported=0, disagreements=0, classes={})
    try:
        from props import xe
        files = [m["phys"] for m in muts if (m["kind"].startswith("xml-") or m["base"] == "crafted") and 0 < len(m["phys"]) <= tot.MODEL_MAX_BYTES]
        if files and not replay:
            st = xe.differential_files(core.Rng(rng.next()), files)
            xml_cmp = dict(cases=st["cases"], unsupported=st["unsupported"], disagreements=len(st["disagreements"]), classes=st["classes"])
            rep.count(st["cases"])
            for f, r, mo in st["disagreements"][:3]:
                n_corr += 1
                rep.violation("correspondence-c08", "E57Reader::new and the full reader model (XML layer included) differ on an XML-mutated file: impl [%s] model [%s]" % (r[:160], mo[:160]),
                              dict(kind="file", file=f.hex(), failing="correspondence E57Reader::new vs Model/ReaderFull.reader_new (slice xe) on XML-mutated files"), no_input=True)
    except ImportError:
        pass
    # the large bundled files, implementation only
    for i, m in enumerate(res["big"]["muts"]):
        rep.count(2)
        for prof in ("debug", "release"):
            t = tot.parse_tot(res["big"]["out"][prof][i])
            if t["crash"] or t["panics"]:
                n_pan += 1
                rep.violation("c08-panic", "%s profile, bundled file %s: %s" % (prof, m["base"], "; ".join(t["panics"])[:300] or "process died"),
                              dict(kind="testdata", name=m["base"]))
    rep.cov.update(mutants=len(muts), mutation_kinds=kinds, base_files=[dict(name=b.name, bytes=len(b.phys), origin=b.origin, point_clouds=len(b.cv), blobs=len(b.blobs)) for b in res["bases"]],
                   simple_iterator_option_vectors=res["masks"], free_descriptor_cases=n_free, large_bundled_files=[m["base"] for m in res["big"]["muts"]],
                   result_classes=dict(sorted(classes.items(), key=lambda kv: -kv[1])[:40]), panicking_inputs=n_pan, panic_entry_points=entries,
                   debug_release_differences=n_prof, calls_that_did_not_return_left_to_C09=n_hang, xml_layer_compared_with_full_reader_model=xml_cmp, model_runs=n_model, xml_layer_not_modelled=n_skip, correspondence_failures=n_corr,
                   traces_validated_against_impl=n_model + n_free)
    if muts:
        k = len(muts) // 2
        rep.sample(dict(kind=muts[k]["kind"], base=muts[k]["base"], impl=tot.strip_meter(res["out"]["debug"][k])[:400], model=(res["model"][k] or "")[:300]))
    rep.cov["rule"] = ("base files: written by the crate (all record types, zero-width records, several sections, images with masks, multi-page data) and the bundled test files; "
                       "mutations with page checksums re-sealed: every header field, every numeric field of compressed-vector section headers, packet headers, stream lengths and blob headers "
                       "set to {0,1,3,4,2^16-1,2^16,2^31,2^32-1,2^63,2^64-1, true+-1, ...}, packet types, reserved bytes, payload bit flips; XML text edits (numbers -> NaN/inf/1e999/huge/negative/empty/garbage, "
                       "min>max, scale 0/NaN/negative, type swaps, attributes and lines removed/duplicated, recordCount and fileOffset anywhere incl. checksum bytes, zero-width prototypes, foreign extensions, "
                       "truncated / invalid XML); unsealed damage, truncation at every page and mid-page, extensions; hand-built files on particular guards; descriptors passed through the API "
                       "(min>max, empty, wrong arity, offsets and lengths up to 2^64-1). Every file: E57Reader::new, validate_crc, raw_xml, all getters, raw iterator and simple iterator under the listed "
                       "option vectors to the first Err/None, every blob - debug (overflow checks) and release, each call under catch_unwind. Oracle: no panic, no abort, debug = release; "
                       "correspondence: the extracted model gives the same result class, values (FNV of all point values / bytes) and device operation count for every binary entry point. "
                       "distinct = distinct (mutation kind, base, file hash)")
