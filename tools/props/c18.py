"""C18 - unknown extension content never alters standard content.

Proof step: Props/C18.v (positive theorems for namespaced attributes and for inserted elements that use no
looked-up local name and do not precede a leading text; refutations of the full statement; extension records).
Tie: the XML-extraction correspondence of props/xe.py (documents -> E57Reader::new vs extracted extract_all),
the witness terms of the theorems against roxmltree's trees, the witnesses on the real reader.
Direct oracle on the real reader (base document vs variant built by construction, one class per variant):
  (a) foreign insertions = the hypotheses of C18_foreign_inert (any local name, any position)  -> dumps must be equal
  (b) namespaced attributes on any element, also inside prototypes             -> dumps must be equal
  (c) extension records in prototypes (unique and standard local names)        -> U:<prefix>:<name>/<type> at its place, rest equal
  (w) writer side: real-writer programs with extension records (also with standard local names) inserted at every
      prototype position -> what is read back about the standard content equals the report without them
  (d) the three formerly known shapes (same local name before the standard sibling, first child of a leaf / inside its
      text, descendant capture), generated on random documents: since the repairs of the crate the dump must not change;
      a recurrence is reported under the old class name.
      (Since /repo cec9560 images2D is looked up among the children of e57Root, so a captured copy of images2D
      no longer changes the dump; the generator still produces it, data3D and the limit values are still captured.)"""
import os, re, struct
from vlib import core, xegen
from props import xe

PFX = "c18"
URI = "urn:c18:foreign"
ATTR_LOCALS = ["type", "fileOffset", "recordCount", "minimum", "maximum", "scale", "offset", "precision", "length",
               "allowHeterogeneousChildren", "foo"]
INERT_NAMES = ["note", "meta", "Guid", "GUID", "data3d", "readius", "versionMinor", "x1", "pointsX", "e57root", "vectorchild",
               "type", "minimum", "Name", "images2d", "poses", "W", "prototypes", "intensityLimit", "vectorChildren"]


def lookup_names():
    """the local names the reader looks up (the pool for same-name insertions)"""
    return set(xegen.STD_NAMES) - {"versionMinor"}


# ----------------------------------------------------------------------------- rendering (deterministic)

def pretty_ids(root):
    """elements that get a newline after the start tag and after every child: those whose children (in the BASE
    document) are all elements.  Decided on the base so that an insertion never adds text in front of a leaf's text."""
    return {id(n) for n in xegen.elements(root) if n[3] and all(c[0] == "e" for c in n[3])}


def render(n, pretty, out):
    if n[0] == "t":
        out.append("<![CDATA[" + n[1].replace("]]>", "]]]]><![CDATA[>") + "]]>" if n[2] else xegen.esc_text(n[1]))
    elif n[0] == "c":
        out.append("<!--" + n[1] + "-->")
    elif n[0] == "p":
        out.append("<?" + n[1] + (" " + n[2] if n[2] is not None else "") + "?>")
    else:
        s = "<" + n[1]
        for a in n[2]:
            s += " " + a[0] + '="' + xegen.esc_attr(a[1], '"') + '"'
        out.append(s + ">")
        nl = id(n) in pretty
        if nl:
            out.append("\n")
        for c in n[3]:
            render(c, pretty, out)
            if nl:
                out.append("\n")
        out.append("</" + n[1] + ">")


def render_doc(root, pretty):
    out = ['<?xml version="1.0" encoding="UTF-8"?>\n']
    render(root, pretty, out)
    out.append("\n")
    return "".join(out).encode("utf-8")


# ----------------------------------------------------------------------------- base documents

def base_tree(rng):
    xegen._noise[0] = 10 ** 12
    root, prefixes = xegen.gen_tree(rng)
    root[2] = [a for a in root[2] if a[0] != "xmlns:" + PFX] + [["xmlns:" + PFX, URI]]
    return root


def under_prototype(root):
    """ids of the prototype elements (no insertion directly among their children)"""
    return {id(n) for n in xegen.elements(root) if n[1].split(":")[-1] == "prototype"}


def positions(root):
    """(parent, index) for every insertion position of C18_foreign_inert: any element that is not a prototype, any index
    (also in front of a leading text node)"""
    proto = under_prototype(root)
    out = []
    for n in xegen.elements(root):
        if id(n) in proto:
            continue
        for i in range(len(n[3]) + 1):
            out.append((n, i))
    return out


# ----------------------------------------------------------------------------- inserted content

def inert_name(rng, lookup):
    """local name of an inserted foreign element: since the repairs of the crate ANY name, also the standard ones"""
    c = rng.below(4)
    if c == 0:
        return rng.choice(sorted(lookup))
    return rng.choice(INERT_NAMES) if c <= 2 else "n%d" % rng.below(1000)


def inert_subtree(rng, lookup, typ, depth=0, default_ns=False):
    """a foreign element none of whose elements has a looked-up local name.  typ: value of an unqualified `type`
    attribute (None = absent)."""
    local = inert_name(rng, lookup)
    attrs = []
    c = rng.below(4) if depth == 0 else 0
    if default_ns:
        name = local
    elif c <= 1:
        name = PFX + ":" + local                       # prefix registered at the root
    elif c == 2:
        name = "zz:" + local; attrs.append(["xmlns:zz", "urn:c18:local"])     # declared on the element itself
    else:
        name = local; attrs.append(["xmlns", "urn:c18:default"]); default_ns = True
    if typ is not None:
        attrs.append(["type", typ])
    for a in ("fileOffset", "recordCount", "length", "minimum", "maximum", "precision"):
        if rng.chance(1, 5):
            attrs.append([a, rng.choice(["0", "48", "5", "single", "x"])])
    ch = []
    k = rng.below(5) if depth < 3 else rng.below(2)
    if k == 1:
        ch = [xegen.T(rng.choice(["real", "1", "NaN", "guid", " "]), rng.chance(1, 3))]
    elif k >= 2:
        for _ in range(rng.range(1, 3)):
            if rng.chance(1, 5):
                ch.append(rng.choice([["c", " c "], ["p", "pi", "v"], xegen.T("txt")]))
            else:
                ch.append(inert_subtree(rng, lookup, rng.choice([None] + xegen.TYPES), depth + 1, default_ns))
    return xegen.E(name, attrs, ch)


def f64bits(s):
    return "%016x" % struct.unpack(">Q", struct.pack(">d", float(s)))[0]


def f32bits(s):
    return "%08x" % struct.unpack(">I", struct.pack(">f", float(s)))[0]


def extension_record(rng, local, kind, prefix=PFX):
    """(element, expected dump token)"""
    nm = "U:=%s:=%s" % (prefix.encode().hex(), local.encode().hex())
    if kind == 0:
        mn = rng.choice(["0.5", "-2", "1000", None]); mx = rng.choice(["8", "1e3", None])
        attrs = [["type", "Float"]] + ([["precision", "double"]] if rng.chance(1, 2) else [])
        attrs += [["minimum", mn]] if mn else []
        attrs += [["maximum", mx]] if mx else []
        tok = "D:%s:%s" % (f64bits(mn) if mn else "-", f64bits(mx) if mx else "-")
    elif kind == 1:
        mn = rng.choice(["0.5", "-2", None]); mx = rng.choice(["8", "0.25", None])
        attrs = [["type", "Float"], ["precision", "single"]]
        attrs += [["minimum", mn]] if mn else []
        attrs += [["maximum", mx]] if mx else []
        tok = "S:%s:%s" % (f32bits(mn) if mn else "-", f32bits(mx) if mx else "-")
    elif kind == 2:
        mn = rng.choice([-5, 0, -2 ** 63]); mx = rng.choice([5, 255, 2 ** 63 - 1])
        attrs = [["type", "Integer"], ["minimum", str(mn)], ["maximum", str(mx)]]
        tok = "I:%d:%d" % (mn, mx)
    else:
        mn = rng.choice([-1000, 0]); mx = rng.choice([1000, 65535])
        sc = rng.choice(["0.001", "1", "0.5"]); off = rng.choice(["0", "-2.5", "100"])
        attrs = [["type", "ScaledInteger"], ["minimum", str(mn)], ["maximum", str(mx)], ["scale", sc], ["offset", off]]
        tok = "SI:%d:%d:%s:%s" % (mn, mx, f64bits(sc), f64bits(off))
    return xegen.E(prefix + ":" + local, attrs, [xegen.T("0")] if rng.chance(1, 2) else []), nm + "/" + tok


# ----------------------------------------------------------------------------- the run

class Batch:
    """variants collected for one harness run: (class, base index, variant xml, expected dump or None=equal to base, note)"""
    def __init__(self):
        self.items = []

    def add(self, cls, bi, xml, expect, note):
        self.items.append((cls, bi, xml, expect, note))


KNOWN = ("foreign-same-local-name", "foreign-first-child-of-leaf", "foreign-descendant-capture")
VIOL = {"inert": "c18-foreign-element-alters-standard-content", "attr": "c18-foreign-attribute-alters-standard-content",
        "extrec": "c18-extension-record"}


def build_variants(rng, root, bi, base_dump, lookup, batch, exhaustive, budget, stats):
    pretty = pretty_ids(root)
    pos = positions(root)
    # ---- (a) inert insertions
    if exhaustive:
        chosen = [(p, i, t) for (p, i) in pos for t in ("Structure", rng.choice([None] + xegen.TYPES))]
        stats["positions_swept_exhaustively"] += len(pos)
    else:
        chosen = [rng.choice(pos) + (rng.choice([None, "Structure"] + xegen.TYPES),) for _ in range(budget)]
        # the containers whose children are enumerated by the reader are always covered
        for n in xegen.elements(root):
            if n[1] in ("data3D", "images2D", "originalGuids", "e57Root"):
                chosen.append((n, rng.below(len(n[3]) + 1) if not (n[3] and n[3][0][0] == "t") else len(n[3]), "Structure"))
        stats["positions_sampled"] += len(chosen)
    for p, i, typ in chosen:
        f = inert_subtree(rng, lookup, typ)
        p[3].insert(i, f)
        batch.add("inert", bi, render_doc(root, pretty), None, "parent=%s index=%d inserted=%s type=%s" % (p[1], i, f[1], typ))
        p[3].pop(i)
        stats["parents"].add(p[1].split(":")[-1])
    # ---- (b) namespaced attributes
    els = xegen.elements(root)
    if exhaustive:
        chosen = [(n, a) for n in els for a in ATTR_LOCALS]
    else:
        chosen = [(rng.choice(els), rng.choice(ATTR_LOCALS)) for _ in range(budget)]
    for n, a in chosen:
        local_decl = n is not root and rng.chance(1, 4)
        add = ([["xmlns:za", "urn:c18:attr"]] if local_decl else []) + [[("za:" if local_decl else PFX + ":") + a, rng.choice(xegen.TYPES + ["0", "48", "-1", "single", "x"])]]
        k = rng.below(len(n[2]) + 1)
        n[2][k:k] = add
        batch.add("attr", bi, render_doc(root, pretty), None, "element=%s attribute=%s" % (n[1], add[-1][0]))
        del n[2][k:k + len(add)]
    # all elements at once
    saved = [(n, list(n[2])) for n in els]
    for n in els:
        n[2] = n[2] + [[PFX + ":" + rng.choice(ATTR_LOCALS), rng.choice(xegen.TYPES + ["7"])]]
    batch.add("attr", bi, render_doc(root, pretty), None, "one namespaced attribute on every element")
    for n, a in saved:
        n[2] = a
    # ---- (c) extension records
    data3d = [n for n in els if n[1] == "data3D"]
    if data3d:
        toks = base_dump.split(" ")
        proto_idx = [k for k, t in enumerate(toks) if t.startswith("proto=")]
        pcs = [c for c in data3d[0][3] if c[0] == "e" and c[1] == "vectorChild"]
        if len(pcs) == len(proto_idx):
            for pi, pc in enumerate(pcs):
                protos = [n for n in xegen.elements(pc) if n[1] == "prototype"]
                if len(protos) != 1 or any(c[0] != "e" for c in protos[0][3]):
                    continue
                pr = protos[0]
                pts = [p for n, p in xegen.elements(pc, True) if n is pr][0]
                idxs = range(len(pr[3]) + 1) if exhaustive else [rng.below(len(pr[3]) + 1) for _ in range(3)]
                # where the extension prefix is declared: at the root (the registered prefix), on the record itself,
                # on prototype / points / the vectorChild, or a second prefix for the registered URI on the prototype
                LEVELS = ["root", "record", "prototype", "points", "vectorChild", "redeclared"]
                for i in idxs:
                    for kind in range(4):
                        for level in (LEVELS if exhaustive else [rng.choice(LEVELS), rng.choice(LEVELS[1:])]):
                            local = rng.choice(xegen.RECORD_NAMES) if rng.chance(1, 2) else rng.choice(["quality", "nor", "x-1", "A_b"]) + str(rng.below(50))
                            prefix = PFX if level == "root" else "c18q" if level == "redeclared" else "c18x"
                            rec, tok = extension_record(rng, local, kind, prefix)
                            decl = None
                            if level != "root":
                                target = {"record": rec, "prototype": pr, "points": pts, "vectorChild": pc, "redeclared": pr}[level]
                                decl = ["xmlns:" + prefix, URI if level == "redeclared" else "urn:c18:local-ext"]
                                target[2].append(decl)
                            pr[3].insert(i, rec)
                            k0 = proto_idx[pi]
                            exp = toks[:k0] + ["proto=%d" % (int(toks[k0][6:]) + 1)] + toks[k0 + 1:k0 + 1 + i] + [tok] + toks[k0 + 1 + i:]
                            batch.add("extrec", bi, render_doc(root, pretty), " ".join(exp), "prototype %d index %d record %s prefix declared at %s" % (pi, i, rec[1], level))
                            pr[3].pop(i)
                            if decl is not None and target is not rec:
                                target[2].remove(decl)
                            stats["extension_record_std_names" if local in xegen.RECORD_NAMES else "extension_record_unique_names"] += 1
                            stats["extension_decl_levels"][level] = stats["extension_decl_levels"].get(level, 0) + 1
    # ---- (d) the known shapes
    proto = under_prototype(root)
    cands = [(n, p) for n, p in xegen.elements(root, True) if p is not None and id(p) not in proto and n[1] in lookup]
    for _ in range(budget if not exhaustive else len(cands)):
        if not cands:
            break
        n, p = rng.choice(cands)
        tw = xegen.clone(n)
        tw[1] = PFX + ":" + n[1]
        for m in xegen.elements(tw):
            if xegen.is_leaf(m) and rng.chance(2, 3):
                m[3] = [xegen.T(rng.choice(["fake", "7", "1", "0.5"]))]
        i = p[3].index(n)
        p[3].insert(i, tw)
        batch.add("foreign-same-local-name", bi, render_doc(root, pretty), None, "%s in front of %s" % (tw[1], n[1]))
        p[3].pop(i)
    leaves = [n for n in xegen.elements(root) if n[3] and n[3][0][0] == "t" and n[3][0][1] != ""]
    for _ in range(budget if not exhaustive else len(leaves)):
        if not leaves:
            break
        n = rng.choice(leaves)
        f = rng.choice([inert_subtree(rng, lookup, None), ["c", " note "], ["p", "pi", "v"]])
        t = n[3][0]
        if len(t[1]) >= 2 and rng.chance(1, 3):
            # inside the text: the text node is split around the inserted node
            k = 1 + rng.below(len(t[1]) - 1)
            n[3][0:1] = [xegen.T(t[1][:k], t[2]), f, xegen.T(t[1][k:], t[2])]
            batch.add("foreign-first-child-of-leaf", bi, render_doc(root, pretty), None, "%s inside the text of %s" % (f[1] if f[0] == "e" else f[0], n[1]))
            n[3][0:3] = [t]
        else:
            n[3].insert(0, f)
            batch.add("foreign-first-child-of-leaf", bi, render_doc(root, pretty), None, "%s as first child of %s" % (f[1] if f[0] == "e" else f[0], n[1]))
            n[3].pop(0)
    targets = [(n, p) for n, p in xegen.elements(root, True) if p is not None and n[1] in
               ("data3D", "images2D", "intensityMinimum", "intensityMaximum", "colorRedMinimum", "colorRedMaximum", "colorGreenMinimum",
                "colorGreenMaximum", "colorBlueMinimum", "colorBlueMaximum")]
    for _ in range(max(2, budget // 4) if not exhaustive else len(targets)):
        if not targets:
            break
        n, p = rng.choice(targets)
        cp = xegen.clone(n)
        if rng.chance(1, 2):
            for m in xegen.elements(cp):
                m[1] = PFX + ":" + m[1].split(":")[-1]
        for m in xegen.elements(cp):
            if xegen.is_leaf(m) and m[3] and rng.chance(1, 2):
                m[3] = [xegen.T(rng.choice(["7", "fake", "0.5"]))]
        if n[1] in ("data3D", "images2D") and cp[3] and rng.chance(1, 2):
            cp[3] = cp[3][:-1]
        wrap = xegen.E(PFX + ":" + inert_name(rng, lookup), [], [cp])
        i = 0 if not (p[3] and p[3][0][0] == "t") else 1
        i = min(i, p[3].index(n))
        p[3].insert(i, wrap)
        batch.add("foreign-descendant-capture", bi, render_doc(root, pretty), None, "wrapped copy of %s earlier in document order" % n[1])
        p[3].pop(i)


def direct_oracle(rep, rng, tier):
    impl = core.ensure_harness("debug")
    lookup = lookup_names()
    n_small, n_large, budget = (16, 80, 50) if tier == "quick" else (80, 600, 120)
    stats = dict(positions_swept_exhaustively=0, positions_sampled=0, parents=set(), extension_record_std_names=0, extension_record_unique_names=0, extension_decl_levels={})
    # base documents that the reader accepts
    trees = []
    tries = 0
    while (sum(1 for t in trees if t[2]) < n_small or sum(1 for t in trees if not t[2]) < n_large) and tries < 40:
        tries += 1
        cand = [base_tree(rng) for _ in range(200)]
        xmls = [render_doc(r, pretty_ids(r)) for r in cand]
        outs = core.run_cases(impl, ["XMETA " + x.hex() for x in xmls])
        for r, x, o in zip(cand, xmls, outs):
            if not o.startswith("OK "):
                continue
            small = len(xegen.elements(r)) <= 90 and " pcs=0 " not in o
            if small and sum(1 for t in trees if t[2]) < n_small:
                trees.append((r, x, True, o))
            elif not small and sum(1 for t in trees if not t[2]) < n_large:
                trees.append((r, x, False, o))
    batch = Batch()
    for bi, (r, x, small, o) in enumerate(trees):
        build_variants(rng, r, bi, o[3:], lookup, batch, small, budget, stats)
    outs = core.run_cases(impl, ["XMETA " + it[2].hex() for it in batch.items])
    counts, changed = {}, {}
    for (cls, bi, xml, expect, note), o in zip(batch.items, outs):
        rep.count()
        counts[cls] = counts.get(cls, 0) + 1
        base = trees[bi][3]
        want = base if expect is None else "OK " + expect
        if o == want:
            continue
        changed[cls] = changed.get(cls, 0) + 1
        vcls = cls if cls in KNOWN else VIOL[cls]
        rep.distinct((vcls, note.split(" ")[0]))
        rep.violation(vcls, "%s: the reader reports different standard content. base: %s | variant: %s" % (note, diff_tokens(want, o)[0][:250], diff_tokens(want, o)[1][:250]),
                      dict(kind="c18-pair", cls=cls, base=trees[bi][1].hex(), variant=xml.hex(), expect=expect, note=note))
    for bi in range(len(trees)):
        rep.distinct(("base", bi))
    rep.cov.update(base_documents=len(trees), small_documents_swept=sum(1 for t in trees if t[2]), exhaustive=True,
                   exhaustive_scope="on the small documents: every allowed position of every element x {type=Structure, random type}, every element x every attribute name, "
                                    "every prototype position x 4 data types, every same-name / leaf / capture candidate",
                   variants_per_class=counts, variants_with_changed_dump_per_class=changed,
                   positions_swept_exhaustively=stats["positions_swept_exhaustively"], positions_sampled=stats["positions_sampled"],
                   parents_of_insertions=sorted(stats["parents"]),
                   extension_record_std_names=stats["extension_record_std_names"], extension_record_unique_names=stats["extension_record_unique_names"],
                   extension_prefix_declared_at=stats["extension_decl_levels"])
    if batch.items:
        it = batch.items[len(batch.items) // 3]
        rep.sample(dict(kind="variant", cls=it[0], note=it[4], xml=it[2].decode("utf-8", "replace")[:300]))


# ----------------------------------------------------------------------------- writer side (metamorphic)

def _hx(t):
    return "=" + t.encode().hex()


def _f32(v):
    return struct.pack(">f", v).hex()


def _f64(v):
    return struct.pack(">d", v).hex()


def _value(rng, typ):
    k = typ.split("/")[0]
    if k == "D":
        return "d" + _f64(rng.choice([0.0, 1.5, -2.0, 100.25]))
    if k == "F":
        return "f" + _f32(rng.choice([0.0, 0.5, 1.0]))
    lo, hi = int(typ.split("/")[1]), int(typ.split("/")[2])
    return ("s" if k == "S" else "i") + str(rng.choice([lo, hi, (lo + hi) // 2]))


WRITER_BASES = [
    # (name, records) - what the writer derives from the prototype: default intensity / colour limits, bounds
    ("xyz", ["x~D/-/-", "y~D/-/-", "z~D/-/-"]),
    ("xyz+intensity-float", ["x~D/-/-", "y~D/-/-", "z~D/-/-", "in~F/%s/%s" % (_f32(0.0), _f32(1.0))]),
    ("xyz+intensity-int", ["x~D/-/-", "y~D/-/-", "z~D/-/-", "in~I/0/65535"]),
    ("xyz+rgb", ["x~D/-/-", "y~D/-/-", "z~D/-/-", "r~I/0/255", "g~I/0/255", "b~I/0/255"]),
    ("xyz+rgb+intensity+row", ["x~F/-/-", "y~F/-/-", "z~F/-/-", "r~I/0/65535", "g~I/0/65535", "b~I/0/65535",
                               "in~S/0/1000/%s/%s" % (_f64(0.001), _f64(0.0)), "row~I/0/99", "col~I/0/99", "ts~D/-/-"]),
    ("spherical+intensity", ["sr~D/-/-", "sa~D/-/-", "se~D/-/-", "in~I/0/255"]),
]
EXT_LOCALS = ["intensity", "colorRed", "colorGreen", "colorBlue", "cartesianX", "rowIndex", "timeStamp", "sphericalRange", "quality"]
EXT_TYPES = ["I/0/7", "I/-5/1000000", "F/%s/%s" % (_f32(-1.0), _f32(7.0)), "D/-/-", "S/1/9/%s/%s" % (_f64(0.5), _f64(3.0))]
NS, NSURL = "ext", "urn:c18:writer-ext"


def _program(records, points):
    prog = ["G", _hx("file"), "X", _hx(NS), _hx(NSURL), "PC", _hx("pc"), str(len(records))] + records
    for pt in points:
        prog += ["PP", str(len(pt))] + pt
    return "METAW " + " ".join(prog + ["PE", "FIN"])


def writer_leg(rep, rng, tier):
    """real-writer programs whose prototype gets extension records (ext:<name>, also with the local names of standard
    records and a different type) inserted at every position: what the reader reports about the standard content of the
    written file must be the report for the program without them"""
    impl = core.ensure_harness("debug")
    ext_tok = lambda local, typ: "u.%s.%s~%s" % (NS.encode().hex(), local.encode().hex(), typ)
    cases = []          # (base name, note, base line index, line, inserted tokens)
    lines = []
    for bname, recs in WRITER_BASES:
        npts = 3
        vals = [[_value(rng, r.split("~")[1]) for r in recs] for _ in range(npts)]
        bi = len(lines); lines.append(_program(recs, vals))
        variants = []
        positions = range(len(recs) + 1)
        for i in positions:
            locs = EXT_LOCALS
            for local in locs:
                variants.append(([(i, local, rng.choice(EXT_TYPES))]))
        # all three colour names (and intensity) at once, in front of / behind / without the standard ones
        for i in (0, len(recs)):
            variants.append([(i, "colorBlue", "I/0/7"), (i, "colorGreen", "I/0/7"), (i, "colorRed", "I/0/7"), (i, "intensity", rng.choice(EXT_TYPES))])
        for ins in variants:
            r2 = list(recs); v2 = [list(v) for v in vals]; toks = []
            for (i, local, typ) in ins:
                t = ext_tok(local, typ); toks.append(t)
                r2.insert(i, t)
                for v in v2:
                    v.insert(i, _value(rng, typ))
            cases.append((bname, "extension records %s at index %d" % (",".join("ext:%s~%s" % (l, t) for _, l, t in ins), ins[0][0]), bi, len(lines), toks))
            lines.append(_program(r2, v2))
    outs = core.run_cases(impl, lines)
    n_changed = 0
    def report(o):
        p = o.split(" | ")
        return (p[0], p[2]) if len(p) >= 3 else (o, "")
    for bname, note, bi, li, toks in cases:
        rep.count()
        bres, bdump = report(outs[bi]); vres, vdump = report(outs[li])
        # the variant's report with the inserted extension records taken out again
        vt = vdump.split(" ")
        for t in toks:
            if t in vt:
                vt.remove(t)
        vt = [("proto:%d" % (int(x[6:]) - len(toks)) if x.startswith("proto:") else x) for x in vt]
        if bres != vres or " ".join(vt) != bdump or not bdump.startswith("ROOT"):
            n_changed += 1
            a, b = diff_tokens(bdump, " ".join(vt))
            rep.violation("c18-writer-extension-record", "writer program %s, %s: the standard content read back differs from the program without them: without [%s] with [%s] (results %s / %s)"
                          % (bname, note, a[:200], b[:200], bres, vres), dict(kind="c18-writer", base=lines[bi], variant=lines[li], tokens=toks, note=note))
        rep.distinct(("writer", bname, note.split(" at ")[0][:40]))
    rep.cov["writer_side"] = dict(base_programs=[b for b, _ in WRITER_BASES], variants=len(cases), changed=n_changed,
                                  extension_local_names=EXT_LOCALS, positions="every index of the prototype")


def diff_tokens(a, b):
    ta, tb = a.split(" "), b.split(" ")
    k = 0
    while k < min(len(ta), len(tb)) and ta[k] == tb[k]:
        k += 1
    return " ".join(ta[max(0, k - 1):k + 4]), " ".join(tb[max(0, k - 1):k + 4])


def run(rep, tier, rng, replay=None):
    ok = core.proof_step(rep, "C18", thorough=(tier == "thorough"))
    rep.cov["trusted_base"] = core.TRUSTED_COMMON + [
        "roxmltree's tree is taken from the implementation side (dumped by the harness) and given to the model",
        "Rust's str::parse::<f64/f32> is an oracle: its results on the texts of the document are given to the model as a table",
        "the theorems are about trees: the namespace declarations an inserted element needs are on the element itself or already in scope (the variants are built that way)",
        "direct oracle: everything E57Reader exposes about the XML content (canonical dump of harness/src/ext_xe.rs); point data and blobs are not read"]
    rep.cov["rule"] = ("base documents (rich, accepted by the reader) x variants built by construction: inert foreign insertions at every allowed position (exhaustive on small documents), "
                       "namespaced attributes on every element, extension records at every prototype position with all four data types -> the reader's dump must be unchanged / changed "
                       "exactly by the reported extension record; the three known shapes are generated too and reported under their known classes when they change the dump. "
                       "Plus the XML-extraction correspondence (implementation vs extracted model) and the witnesses of the theorems on the real reader")
    if not ok:
        return
    if replay and replay.get("kind") == "c18-pair":
        impl = core.ensure_harness("debug")
        b, v = core.run_cases(impl, ["XMETA " + replay["base"], "XMETA " + replay["variant"]], shards=1)
        want = b if replay.get("expect") is None else "OK " + replay["expect"]
        rep.count()
        if v != want:
            cls = replay["cls"]
            rep.violation(cls if cls in KNOWN else VIOL[cls], "%s: base %s | variant %s" % (replay.get("note"), diff_tokens(want, v)[0][:250], diff_tokens(want, v)[1][:250]),
                          dict(replay))
        return
    if replay and replay.get("kind") == "c18-writer":
        impl = core.ensure_harness("debug")
        b, v = core.run_cases(impl, [replay["base"], replay["variant"]], shards=1)
        rep.count()
        bd = b.split(" | ")[2] if len(b.split(" | ")) >= 3 else b
        vt = (v.split(" | ")[2] if len(v.split(" | ")) >= 3 else v).split(" ")
        for t in replay["tokens"]:
            if t in vt:
                vt.remove(t)
        vt = [("proto:%d" % (int(x[6:]) - len(replay["tokens"])) if x.startswith("proto:") else x) for x in vt]
        if " ".join(vt) != bd or b.split(" | ")[0] != v.split(" | ")[0]:
            rep.violation("c18-writer-extension-record", "%s: %s | %s" % (replay.get("note"), *diff_tokens(bd, " ".join(vt))), dict(replay))
        return
    if replay and replay.get("kind") == "xml":
        (r, m, tc), = xe.compare([bytes.fromhex(replay["xml"])])
        rep.count()
        if r != m:
            rep.violation("correspondence-c18", "impl: %s | model: %s" % (r[:300], m[:300]), dict(kind="xml", xml=replay["xml"]), no_input=True)
        return
    # ---- tie
    bad = xe.witness_trees()
    rep.cov["witness_terms_equal_roxmltree_trees"] = len(xe.WITNESSES) - len(bad)
    if bad:
        rep.violation("correspondence-c18", "the Coq witness terms %s are not roxmltree's trees of corpus/XE/*.xml" % bad, dict(kind="witness", names=bad), no_input=True)
    conf = xe.confirm_refutations()
    rep.cov["witnesses_on_real_reader"] = [dict(cls=c, base=b, variant=v, as_proved=h) for c, b, v, h, _, _ in conf]
    for c, b, v, h, rb, rv in conf:
        rep.count()
        if not h:
            rep.violation("correspondence-c18", "witness %s/%s (%s): the real reader gives %s | %s, not what the theorem about the model says" % (b, v, c, rb[:200], rv[:200]),
                          dict(kind="xml", xml=open(os.path.join(xe.CORPUS, v + ".xml"), "rb").read().hex()), no_input=True)
    st = xe.differential(rng, 6000 if tier == "quick" else 60000, tier)
    rep.count(st["cases"])
    rep.cov["traces_validated_against_impl"] = st["cases"]
    rep.cov["correspondence_result_classes"] = st["classes"]
    rep.cov["correspondence_mutation_kinds"] = st["mutations"]
    if st["disagreements"]:
        xml, r, m, muts = min(st["disagreements"], key=lambda d: len(d[0]))
        rep.violation("correspondence-c18", "%d documents on which model and implementation differ; smallest (mutations %s): impl %s | model %s"
                      % (len(st["disagreements"]), muts, r[:300], m[:300]), dict(kind="xml", xml=xml.hex()), no_input=True)
    # ---- direct oracle
    direct_oracle(rep, rng, tier)
    writer_leg(rep, rng, tier)
