"""C10 - the writer API is total and never stores what it cannot represent."""
from vlib import core, gen, wapi

ONE, TWO, HALF = "d3ff0000000000000", "d4000000000000000", "d3fe0000000000000"
EXT_OK = ("ext", "http://example.com/ext")


def std_tail():
    return [("PFIN",), ("PDROP",), ("FIN",)]


def pts_for(rng, proto, n):
    return [("PT", [wapi.rand_value(rng, t) for _, t in proto]) for _ in range(n)]


def seq_pc(rng, proto, npts=3, exts=(EXT_OK,), pre=(), post=()):
    calls = [("NEW", "file-guid")] + [("EXT", a, b) for a, b in exts] + list(pre)
    calls += [("PC", "pc-guid", proto)] + pts_for(rng, proto, npts) + std_tail() + list(post)
    return calls


FULL = [("x", "D"), ("y", "D"), ("z", "D"), ("cis", "I/0/2"), ("sr", "D"), ("sa", "D"), ("se", "D"), ("sis", "I/0/2"),
        ("in", "I/0/255"), ("iin", "I/0/1"), ("r", "I/0/255"), ("g", "I/0/255"), ("b", "I/0/255"), ("ici", "I/0/1"),
        ("row", "I/0/1000"), ("col", "I/0/1000"), ("rc", "I/0/7"), ("ri", "I/0/7"), ("ts", "D"), ("its", "I/0/1")]
S1 = "S/-100/100/3f50624dd2f1a9fc/4059000000000000"


def proto_mutations(rng):
    """(label, function proto -> proto): every documented rule violated, plus legal oddities"""
    muts = []
    for n in wapi.STD_NAMES:
        muts.append(("drop-" + n, lambda p, n=n: [(m, t) for m, t in p if m != n]))
        muts.append(("dup-" + n, lambda p, n=n: p + [(m, t) for m, t in p if m == n][:1]))
    for n, types in (("cis", ["I/0/1", "I/0/3", "I/1/2", "I/-1/2", "F", "D", "S/0/2/3ff0000000000000/0000000000000000"]),
                     ("sis", ["I/0/1", "I/0/3", "D", "S/0/2/3ff0000000000000/0000000000000000"]),
                     ("ici", ["I/0/2", "I/1/1", "F"]), ("iin", ["I/0/2", "I/0/0", "D"]), ("its", ["I/0/2", "I/-1/0", "F"]),
                     ("sa", ["I/0/100", "I/-3/3", S1, "F"]), ("se", ["I/0/100", S1, "F"]), ("sr", ["I/0/100", S1, "F"]),
                     ("rc", ["F", "D", S1, "I/5/5"]), ("ri", ["F", "D", S1, "I/-9223372036854775808/9223372036854775807"]),
                     ("row", ["F", "D", S1, "I/7/7"]), ("col", ["F", "D", S1, "I/-5/-5"]),
                     ("x", ["F", "I/-100/100", S1, "I/0/0", "I/-9223372036854775808/9223372036854775807", "I/5/1"]),
                     ("in", ["F/00000000/3f800000", "D/-/3ff0000000000000", S1, "I/9/3", "F"]),
                     ("r", ["F/00000000/3f800000", "D", S1, "I/0/65535"]), ("ts", ["F", S1, "I/0/100", "I/3/2"])):
        for ty in types:
            muts.append(("retype-%s-%s" % (n, ty.split("/")[0]), lambda p, n=n, ty=ty: [(m, ty if m == n else t) for m, t in p]))
    for label, name in (("ext-ok", ("u", "ext", "attr")), ("ext-unregistered", ("u", "nope", "attr")), ("ext-xml-ns", ("u", "xmlfoo", "attr")),
                        ("ext-XML-name", ("u", "ext", "XMLattr")), ("ext-xMl-name", ("u", "ext", "xMl")), ("ext-empty-ns", ("u", "", "attr")),
                        ("ext-empty-name", ("u", "ext", "")), ("ext-dot", ("u", "ext", "a.b")), ("ext-umlaut", ("u", "ext", "äöü")),
                        ("ext-umlaut-ns", ("u", "ä", "a")), ("ext-space", ("u", "ext", "a b")), ("ext-colon-like", ("u", "ext", "a-b_c9")),
                        ("ext-std-name", ("u", "ext", "cartesianX")), ("ext-axml", ("u", "ext", "axml")), ("ext-xm", ("u", "ext", "xm"))):
        for ty in ("D", "I/0/15", "I/3/3"):
            muts.append((label, lambda p, name=name, ty=ty: p + [(name, ty)]))
    muts.append(("all-zero-width", lambda p: [(m, t if t.startswith("I/0/") and m in ("cis", "sis", "ici", "iin", "its") else "I/4/4") for m, t in p
                                             if m not in ("sa", "se")]))
    muts.append(("reverse", lambda p: list(reversed(p))))
    muts.append(("empty", lambda p: []))
    return muts


def gen_proto_cases(rng, tier):
    cases = []
    muts = proto_mutations(rng)
    bases = [FULL, [("x", "D"), ("y", "D"), ("z", "D")], [("sr", "F"), ("sa", "F"), ("se", "F")],
             [("x", "F"), ("y", "F"), ("z", "F"), ("r", "I/0/255"), ("g", "I/0/255"), ("b", "I/0/255"), ("in", "F/00000000/3f800000")]]
    for b in bases:
        for label, f in muts:
            cases.append(("proto:" + label, seq_pc(rng, f(list(b)), 2)))
    # pairs of mutations on the full prototype
    npairs = 250 if tier == "quick" else 4000
    for _ in range(npairs):
        (l1, f1), (l2, f2) = rng.choice(muts), rng.choice(muts)
        cases.append(("proto2:%s+%s" % (l1, l2), seq_pc(rng, f2(f1(list(FULL))), 1)))
    # flags whose companion is missing, from small bases
    for flag, ty, base in (("cis", "I/0/2", [("sr", "D"), ("sa", "D"), ("se", "D")]), ("sis", "I/0/2", [("x", "D"), ("y", "D"), ("z", "D")]),
                           ("ici", "I/0/1", [("x", "D"), ("y", "D"), ("z", "D")]), ("iin", "I/0/1", [("x", "D"), ("y", "D"), ("z", "D")]),
                           ("its", "I/0/1", [("x", "D"), ("y", "D"), ("z", "D")]), ("rc", "I/0/3", [("x", "D"), ("y", "D"), ("z", "D")]),
                           ("ri", "I/0/3", [("x", "D"), ("y", "D"), ("z", "D")]), ("in", "D", []), ("ts", "D", []), ("row", "I/0/9", [])):
        cases.append(("proto:lonely-" + flag, seq_pc(rng, base + [(flag, ty)], 1)))
    # random legal prototypes (the valid stream of this property)
    for _ in range(60 if tier == "quick" else 1500):
        p = gen.rand_proto(rng, small=rng.chance(1, 2))
        cases.append(("proto:random-legal", seq_pc(rng, p, rng.choice([0, 1, 2, 7]))))
    return cases


def gen_capacity_cases(rng, tier):
    """prototypes at the limits of what fits into one data packet; the sequences with tens of thousands
    of records end without the top-level finalize (their XML alone is megabytes, and the list-based
    page model is quadratic in the file size)"""
    cases = []
    xyz = [("x", "D"), ("y", "D"), ("z", "D")]
    def seq_pc(rng, proto, npts):
        calls = [("NEW", "file-guid"), ("EXT",) + EXT_OK, ("PC", "pc-guid", proto)] + pts_for(rng, proto, npts) + [("PFIN",), ("PDROP",)]
        return calls + ([("FIN",)] if len(proto) <= 2100 else [])
    def filler(n, ty):
        return [(("u", "ext", "a%d" % k), ty) for k in range(n)]
    # n double records: 88 n <= 520232  <=>  n <= 5911
    for n in ((5911, 5912, 6000) if tier == "quick" else (5910, 5911, 5912, 6000)):
        p = xyz + filler(n - 3, "D")
        cases.append(("capacity:doubles-%d" % n, seq_pc(rng, p, (1 if tier == "quick" else 2) if n <= 5911 else 0)))
    # one-bit records: acceptance up to 20809, the subtraction underflows from 21677
    for n in (20808, 20809, 20810, 21675, 21676, 21677, 21678, 30000):
        p = xyz + filler(n - 3, "I/0/1")
        # three doubles add 192 bits: boundary moves; both sides must simply agree and not panic
        cases.append(("capacity:bits-%d" % n, seq_pc(rng, p, 1 if n < 20700 else 0)))
    for n in ((21676, 21677, 25000) if tier == "quick" else (21000, 21676, 21677, 25000)):
        p = [("x", "I/0/1"), ("y", "I/0/1"), ("z", "I/0/1")] + filler(n - 3, "I/7/7")
        cases.append(("capacity:zero-width-%d" % n, seq_pc(rng, p, 2 if n < 21600 else 0)))
    p = [("x", "I/3/3"), ("y", "I/3/3"), ("z", "I/3/3")] + filler(40, "I/7/7")
    cases.append(("capacity:all-zero-width", seq_pc(rng, p, 2)))
    # wide prototype accepted with capacity 1: every point is its own packet
    if tier != "quick":
        p = xyz + filler(5908, "D")
        cases.append(("capacity:one-point-packets", seq_pc(rng, p, 3)))
    p = xyz + filler(2000, "D")
    cases.append(("capacity:two-point-packets", seq_pc(rng, p, 5)))
    return cases


def gen_value_cases(rng, tier):
    cases = []
    # out-of-range integers at every bit phase: a record of width w, the bad point after j good ones
    for w, (mn, mx) in ((1, (0, 1)), (2, (-1, 2)), (3, (0, 7)), (5, (-16, 15)), (7, (0, 100)), (8, (0, 255)), (9, (0, 511)),
                        (12, (-2048, 2047)), (16, (0, 65535)), (33, (0, 1 << 32)), (63, (0, (1 << 63) - 1)), (64, (wapi.I64_MIN, wapi.I64_MAX))):
        ty = "I/%d/%d" % (mn, mx)
        for kind in ("I", "S"):
            t = ty if kind == "I" else "S/%d/%d/3fb999999999999a/c024000000000000" % (mn, mx)
            proto = [("x", t), ("y", t), ("z", t), ("in", t)]
            pre = "i" if kind == "I" else "s"
            bads = [v for v in (mx + 1, mn - 1, mx + 256, mn - 256, wapi.I64_MAX, wapi.I64_MIN, mx + (1 << w), mn + (1 << 62) * 2 - 1)
                    if wapi.I64_MIN <= v <= wapi.I64_MAX and not (mn <= v <= mx)]
            if not bads:
                continue
            for j in (list(range(0, 9)) if tier == "quick" else list(range(0, 17))):
                good = lambda: [pre + str(rng.choice([mn, mx, rng.range(mn, mx)])) for _ in range(4)]
                calls = [("NEW", "g"), ("PC", "pc", proto)]
                calls += [("PT", good()) for _ in range(j)]
                pos = rng.below(4)
                b = good()
                b[pos] = pre + str(rng.choice(bads))
                calls.append(("PT", b))
                calls += [("PT", good()) for _ in range(rng.range(1, 9))]
                calls += std_tail()
                cases.append(("value:out-of-range-w%d" % w, calls))
    # a mistyped value after valid coordinates; wrong arity; mixed
    proto = [("x", "D"), ("y", "D"), ("z", "D"), ("in", "I/0/255"), ("row", "I/0/100"), ("col", "I/0/100")]
    good = [ONE, TWO, HALF, "i7", "i3", "i4"]
    far = ["dc08f400000000000", "d408f400000000000", "d7fe0000000000000", "i255", "i100", "i100"]
    variants = [far[:3] + ["f3f800000"] + far[4:], far[:3] + ["d3ff0000000000000"] + far[4:], far[:3] + ["s5"] + far[4:], far[:3] + ["i256"] + far[4:],
                far[:4] + ["i101", "i100"], far[:5] + ["i-1"], far[:5], far + ["i1"], [], far[:1], ["f3f800000"] + far[1:], far[:2] + ["i1"] + far[3:],
                list(reversed(far))]
    for v in variants:
        calls = [("NEW", "g"), ("PC", "pc", proto), ("PT", good), ("PT", v), ("PT", good), ("PT", v), ("PFIN",), ("PDROP",), ("FIN",)]
        cases.append(("value:mistyped-or-arity", calls))
        calls = [("NEW", "g"), ("PC", "pc", proto), ("PT", v), ("PFIN",), ("PDROP",), ("FIN",)]
        cases.append(("value:only-rejected", calls))
    # full i64 range and its extremes, NaN / infinities / negative zero in floats
    proto = [("x", "I/%d/%d" % (wapi.I64_MIN, wapi.I64_MAX)), ("y", "S/%d/%d/3ff0000000000000/0000000000000000" % (wapi.I64_MIN, wapi.I64_MAX)),
             ("z", "D"), ("row", "I/%d/%d" % (wapi.I64_MIN, wapi.I64_MAX)), ("col", "I/-1/0")]
    pts = [["i%d" % a, "s%d" % b, "d%016x" % c, "i%d" % d, "i%d" % e]
           for a, b, c, d, e in ((wapi.I64_MIN, wapi.I64_MAX, 0x8000000000000000, wapi.I64_MAX, 0), (wapi.I64_MAX, wapi.I64_MIN, 0, wapi.I64_MIN, -1),
                                 (0, -1, 0x7ff0000000000000, -1, 0), (-1, 0, 0xfff0000000000000, 0, -1), (1, 1, 0x7ff8000000000000, 1, 0),
                                 ((1 << 53) + 1, -(1 << 53) - 1, 0x0000000000000001, 5, -1))]
    cases.append(("value:extremes", [("NEW", "g"), ("PC", "pc", proto)] + [("PT", p) for p in pts] + std_tail()))
    # duplicate index attribute whose second record is not an integer: the rule check looks at the first
    # record of a name, the bounds loop at every record (Props/C10.v: C10_err_is_noop_refuted)
    for nm, extra in (("row", []), ("col", []), ("ri", [("rc", "I/0/3")])):
        for ty2, v2 in (("D", "d0000000000000000"), ("F", "f00000000"), ("S/0/9/3ff0000000000000/0000000000000000", "s2")):
            proto = [("x", "D"), ("y", "D"), ("z", "D")] + extra + [(nm, "I/0/9"), (nm, ty2)]
            pt = [ONE, TWO, HALF] + ["i1"] * len(extra) + ["i3", v2]
            cases.append(("value:duplicate-index-mistyped", [("NEW", "g"), ("PC", "pc", proto), ("PT", pt), ("PT", pt)] + std_tail()))
    # min > max: no value can be accepted
    proto = [("x", "D"), ("y", "D"), ("z", "D"), ("in", "I/5/1")]
    cases.append(("value:min-gt-max", [("NEW", "g"), ("PC", "pc", proto), ("PT", [ONE, ONE, ONE, "i3"]), ("PT", [ONE, ONE, ONE, "i5"]),
                                       ("PT", [ONE, ONE, ONE, "i1"])] + std_tail()))
    proto = [("x", "D"), ("y", "D"), ("z", "D"), ("ts", "S/5/1/3ff0000000000000/0000000000000000")]
    cases.append(("value:min-gt-max", [("NEW", "g"), ("PC", "pc", proto), ("PT", [ONE, ONE, ONE, "s3"])] + std_tail()))
    # float limits that are NaN or unordered (repair eaf8fc6): the prototype must be refused; ordered ones
    # (also equal, also -0/+0, also infinities) accepted
    xyz3 = [("x", "D"), ("y", "D"), ("z", "D")]
    for ty in ("D/3ff0000000000000/0000000000000000", "D/7ff8000000000000/-", "D/-/7ff0000000000001", "D/fff8000000000001/3ff0000000000000",
               "F/3f800000/00000000", "F/7fc00000/-", "F/-/ffc00001", "F/7f800000/ff800000",
               "D/3ff0000000000000/3ff0000000000000", "D/8000000000000000/0000000000000000", "D/fff0000000000000/7ff0000000000000",
               "F/00000000/3f800000", "F/80000000/00000000", "F/-/3f800000", "D/0000000000000000/-"):
        for nm in ("in", "ts"):
            v = "f00000000" if ty[0] == "F" else "d0000000000000000"
            cases.append(("value:float-limits", [("NEW", "g"), ("PC", "pc", xyz3 + [(nm, ty)]), ("PT", [ONE, ONE, ONE, v])] + std_tail()))
    cases.append(("value:float-limits", [("NEW", "g"), ("PC", "pc", [("x", "D/4000000000000000/3ff0000000000000"), ("y", "D"), ("z", "D")]),
                                         ("PT", [ONE, ONE, ONE])] + std_tail()))
    # extension records that share a LOCAL name with another record (another namespace, or a standard
    # attribute) are different attributes: must be accepted; the same namespace AND name twice (adjacent,
    # non-adjacent) is a duplicate: must be rejected
    E2 = [("EXT", "ext1", "http://a.example/1"), ("EXT", "ext2", "http://a.example/2")]
    def u(ns, nm):
        return ("u", ns, nm)
    for proto, pt in (
        (xyz3 + [(u("ext1", "quality"), "I/0/10"), (u("ext2", "quality"), "I/0/255")], [ONE, ONE, ONE, "i3", "i200"]),
        (xyz3 + [("in", "I/0/255"), (u("ext1", "intensity"), "I/0/7")], [ONE, ONE, ONE, "i200", "i5"]),
        ([(u("ext1", "intensity"), "I/0/7")] + xyz3 + [("in", "D")], ["i5", ONE, ONE, ONE, HALF]),
        (xyz3 + [(u("ext1", "cartesianX"), "D"), (u("ext2", "rowIndex"), "D"), ("row", "I/0/9")], [ONE, ONE, ONE, TWO, HALF, "i4"]),
        (xyz3 + [(u("ext1", "colorRed"), "I/0/7"), ("r", "I/0/255"), ("g", "I/0/255"), ("b", "I/0/255"), (u("ext2", "colorRed"), "D")],
         [ONE, ONE, ONE, "i1", "i9", "i9", "i9", HALF]),
        (xyz3 + [(u("ext1", "timeStamp"), "I/0/3"), (u("ext1", "isTimeStampInvalid"), "D")], [ONE, ONE, ONE, "i2", HALF]),
    ):
        cases.append(("value:shared-local-name", [("NEW", "g")] + E2 + [("PC", "pc", proto), ("PT", pt), ("PT", pt)] + std_tail()))
    for proto in (
        xyz3 + [(u("ext1", "quality"), "I/0/10"), (u("ext1", "quality"), "I/0/10")],
        xyz3 + [(u("ext1", "quality"), "I/0/10"), (u("ext2", "quality"), "D"), (u("ext1", "quality"), "D")],
        [(u("ext2", "a"), "D")] + xyz3 + [(u("ext1", "a"), "D"), ("in", "D"), (u("ext2", "a"), "I/0/1")],
        xyz3 + [("in", "I/0/255"), (u("ext1", "intensity"), "I/0/7"), ("in", "D")],
    ):
        cases.append(("value:true-duplicate", [("NEW", "g")] + E2 + [("PC", "pc", proto), ("PT", [ONE] * len(proto))] + std_tail()))
    # random prototypes, points valid with probability 2/3, one component damaged otherwise
    for _ in range(150 if tier == "quick" else 4000):
        p = gen.rand_proto(rng, small=rng.chance(2, 3))
        calls = [("NEW", "g"), ("PC", "pc", p)]
        for _ in range(rng.range(1, 12)):
            v = [wapi.rand_value(rng, t) for _, t in p]
            c = rng.below(6)
            if c == 0:
                k = rng.below(len(v))
                v[k] = rng.choice(["f00000000", "d0000000000000000", "i0", "s0", "i%d" % rng.range(wapi.I64_MIN, wapi.I64_MAX), "s%d" % rng.range(-300, 300)])
            elif c == 1:
                v = v[:rng.below(len(v) + 1)] if rng.chance(1, 2) else v + [rng.choice(v)]
            calls.append(("PT", v))
        calls += std_tail()
        cases.append(("value:random", calls))
    return cases


def img_calls(rng, kinds, fin=True, drop=True):
    out = [("IMG", "img-guid")]
    for k in kinds:
        data = rng.bytes(rng.choice([0, 1, 5, 100, 1019, 1100]))
        mask = rng.bytes(rng.range(0, 40)) if rng.chance(1, 2) else None
        fmt = rng.choice(["p", "j"])
        if k == "v":
            out.append(("IVIS", fmt, data, 3, 2, mask))
        elif k == "p":
            out.append(("IPIN", fmt, data, "3/2/3ff8000000000000/3fd0000000000000/3fe0000000000000/3ff0000000000000/4000000000000000", mask))
        elif k == "s":
            out.append(("ISPH", fmt, data, "3/2/3fd0000000000000/3fe0000000000000", mask))
        elif k == "c":
            out.append(("ICYL", fmt, data, "3/2/4004000000000000/3ff0000000000000/3fd0000000000000/3fe0000000000000", mask))
        elif k == "n":
            out.append(("ISET", "name", wapi.hx("an image")))
    if fin:
        out.append(("IFIN",))
    if drop:
        out.append(("IDROP",))
    return out


def gen_order_cases(rng, tier):
    cases = []
    xyz = [("x", "D"), ("y", "D"), ("z", "D")]
    pc = lambda n=2, fin=True: [("PC", "pc", xyz)] + pts_for(rng, xyz, n) + ([("PFIN",)] if fin else []) + [("PDROP",)]
    N = [("NEW", "g")]
    F = [("FIN",)]
    cases.append(("order:plain", N + pc() + F))
    cases.append(("order:finalize-twice", N + pc() + F + F))
    cases.append(("order:finalize-thrice", N + pc() + [("BLOB", rng.bytes(30))] + F + F + F))
    cases.append(("order:blob-after-finalize", N + pc() + F + [("BLOB", rng.bytes(10))] + F))
    cases.append(("order:pc-after-finalize", N + pc() + F + pc(3) + F))
    cases.append(("order:image-after-finalize", N + pc() + F + img_calls(rng, "v") + F))
    cases.append(("order:finalize-empty-twice", N + F + F))
    # the second public entry point of the top-level finalize (identity transformer): the same rules apply after it
    X = [("FINX",)]
    cases.append(("order:customized-finalize", N + pc() + X))
    cases.append(("order:customized-finalize-twice", N + pc() + X + X))
    cases.append(("order:finalize-after-customized-finalize", N + pc() + X + F))
    cases.append(("order:customized-finalize-after-finalize", N + pc() + F + X))
    cases.append(("order:pc-after-customized-finalize", N + pc() + X + pc(3) + F))
    cases.append(("order:blob-after-customized-finalize", N + pc() + X + [("BLOB", rng.bytes(10))] + X))
    cases.append(("order:image-after-customized-finalize", N + pc() + X + img_calls(rng, "v") + F))
    cases.append(("order:setter-after-customized-finalize", N + pc() + X + [("SCM", "late")] + F))
    cases.append(("order:nothing-after-finalize", N + pc() + F + [("SCM", "late")] + F))
    cases.append(("order:abandoned-pc", N + pc(4, fin=False) + pc(2) + F))
    cases.append(("order:abandoned-pc-last", N + pc(2) + pc(5, fin=False) + F))
    cases.append(("order:abandoned-empty-pc", N + pc(0, fin=False) + [("BLOB", rng.bytes(7))] + pc(1) + F))
    cases.append(("order:abandoned-image", N + img_calls(rng, "vp", fin=False) + pc(2) + img_calls(rng, "s") + F))
    cases.append(("order:pc-finalize-twice", N + [("PC", "pc", xyz)] + pts_for(rng, xyz, 2) + [("PFIN",), ("PFIN",), ("PDROP",)] + F))
    cases.append(("order:point-after-pc-finalize", N + [("PC", "pc", xyz)] + pts_for(rng, xyz, 2) + [("PFIN",)] + pts_for(rng, xyz, 2) + [("PDROP",)] + F))
    cases.append(("order:point-after-pc-finalize-refinalize", N + [("PC", "pc", xyz)] + pts_for(rng, xyz, 2) + [("PFIN",)] + pts_for(rng, xyz, 1) + [("PFIN",), ("PDROP",)] + F))
    cases.append(("order:set-after-pc-finalize", N + [("PC", "pc", xyz), ("PSET", "name", wapi.hx("a")), ("PFIN",), ("PSET", "name", wapi.hx("b")), ("PFIN",), ("PDROP",)] + F))
    cases.append(("order:image-finalize-twice", N + img_calls(rng, "v", fin=False, drop=False) + [("IFIN",), ("IFIN",), ("IDROP",)] + F))
    cases.append(("order:image-no-representation", N + [("IMG", "i"), ("IFIN",), ("ISET", "name", wapi.hx("x")), ("IFIN",), ("IDROP",)] + pc(1) + F))
    for a in "psc":
        for b in "psc":
            cases.append(("order:projection-twice", N + img_calls(rng, a + b) + F))
    cases.append(("order:visual-twice", N + img_calls(rng, "vv") + F))
    cases.append(("order:visual-and-projection", N + img_calls(rng, "vpv") + F))
    cases.append(("order:empty-file-guid", [("NEW", "")] + pc() + F + F))
    cases.append(("order:many-sections", N + [("BLOB", rng.bytes(rng.range(0, 2100))) for _ in range(3)] + pc(3) + img_calls(rng, "vs") + pc(0) + [("BLOB", b"")] + F))
    # extension registration
    for ns in ("ext", "xml", "XML", "xMlfoo", "xm", "axml", "", "a.b", "a b", "äü", "a-b_C9", "-", "_", "x" * 300, "a:b", "café", "K", "1abc"):
        calls = N + [("EXT", ns, "http://u/" + ("x" if not ns.isascii() else ns.replace(" ", "")))]
        calls += [("EXT", ns, "http://other")]
        proto = xyz + [(("u", ns, "attr"), "I/0/9")]
        calls += [("PC", "pc", proto), ("PT", [ONE, ONE, TWO, "i4"]), ("PFIN",), ("PDROP",)] + F
        cases.append(("order:extension-name", calls))
    for url in wapi.FORBIDDEN_URLS + ("http://www.w3.org/XML/1998/namespace/", "http://www.astm.org/COMMIT/E57/2010-e57-v1.0/", "http://a?b=1&c=<2>\"'"):
        cases.append(("order:extension-url", N + [("EXT", "e1", url), ("EXT", "e2", url), ("PC", "pc", xyz + [(("u", "e1", "a"), "D"), (("u", "e2", "b"), "D")]),
                                                   ("PT", [ONE, ONE, TWO, HALF, ONE]), ("PFIN",), ("PDROP",)] + F))
    for nm in ("9a", "-a", "a9", "_a", "a-", "0", "-"):
        cases.append(("order:extension-attr-start", N + [("EXT", "ext", "http://u"), ("PC", "pc", xyz + [(("u", "ext", nm), "I/0/9")]),
                                                           ("PT", [ONE, ONE, TWO, "i4"]), ("PFIN",), ("PDROP",)] + F))
    cases.append(("order:extension-after-use", N + [("PC", "pc", xyz + [(("u", "late", "a"), "D")]), ("PDROP",), ("EXT", "late", "u")] + pc(1) + F))
    # setters: complete and incomplete limits, None, override then reset
    proto = xyz + [("in", "I/0/255"), ("r", "I/0/255"), ("g", "I/0/255"), ("b", "I/0/255")]
    for ilim in ("i0/i100", "i5/-", "-/-", "-", "d0000000000000000/d3ff0000000000000", "f00000000/i7"):
        for clim in ("i0/i1/i0/i2/i0/i3", "i0/i1/-/i2/i0/i3", "-"):
            calls = N + [("PC", "pc", proto), ("PSET", "ilim", ilim), ("PSET", "clim", clim)] + pts_for(rng, proto, 2) + [("PFIN",), ("PDROP",)] + F
            cases.append(("order:limits-override", calls))
    calls = N + [("PC", "pc", proto)]
    for f, a in (("name", wapi.hx("cloud")), ("desc", wapi.hx("descr")), ("vendor", wapi.hx("v")), ("model", wapi.hx("m")), ("serial", wapi.hx("s")),
                 ("hw", wapi.hx("1")), ("sw", wapi.hx("2")), ("fw", wapi.hx("3")), ("oguids", wapi.hx("g1") + ";" + wapi.hx("g2")), ("temp", "4034000000000000"),
                 ("hum", "4049000000000000"), ("pres", "40f8bcd000000000"), ("pose", "/".join(["3ff0000000000000", "0000000000000000", "0000000000000000", "0000000000000000",
                                                                                              "3ff0000000000000", "4000000000000000", "4008000000000000"])),
                 ("astart", "41d0000000000000/1"), ("aend", "41d0000000800000/0"), ("name", "-"), ("oguids", "empty"), ("oguids", "-")):
        calls.append(("PSET", f, a))
    calls += pts_for(rng, proto, 1) + [("PFIN",), ("PDROP",), ("SCM", "coord meta"), ("SCR", (0x41d0000000000000, 1))] + F
    cases.append(("order:all-setters", calls))
    # a REJECTED finalize of a sub-writer is a no-op (C10_err_is_noop): incomplete limits set by the caller ->
    # points that leave partial bytes in the bit-packed streams -> finalize (Err), once or twice -> limits
    # repaired (complete, or None) -> more points -> finalize (Ok).  Every point must read back; device
    # bytes equal the model's.  Record widths that are not a multiple of 8 bits.
    for w in (1, 3, 7, 11, 13, 33):
        ty = "I/0/%d" % ((1 << w) - 1)
        for variant in ("intensity", "colour"):
            if variant == "intensity":
                proto = xyz + [("in", ty)]
                field, bad_lims, good_lims = "ilim", ["i0/-", "-/i1"], ["i0/i%d" % ((1 << w) - 1), "-"]
            else:
                proto = xyz + [("r", ty), ("g", ty), ("b", "I/0/%d" % ((1 << (w % 7 + 1)) - 1))]
                field, bad_lims, good_lims = "clim", ["i0/i1/-/i2/i0/i3", "-/i1/i0/i2/i0/-"], ["i0/i1/i0/i2/i0/i3", "-"]
            for nb, na, twice in ((1, 1, False), (3, 2, True), (5, 5, False), (9, 1, False), (2, 4, True), (7, 3, False)):
                def pt():
                    return [ONE, TWO, HALF] + ["i%d" % rng.range(0, wapi.type_range(t)[1]) for _, t in proto[3:]]
                calls = N + [("PC", "pc", proto), ("PSET", field, rng.choice(bad_lims))] + [("PT", pt()) for _ in range(nb)]
                calls += [("PFIN",)] * (2 if twice else 1)
                calls += [("PSET", field, rng.choice(good_lims))] + [("PT", pt()) for _ in range(na)] + [("PFIN",), ("PDROP",)] + F
                cases.append(("order:rejected-finalize-then-points", calls))
    cases += [("order:" + l.split(":", 1)[1], c) for l, c in wapi.rejected_limits_cases(rng)]
    # the same for the image writer: finalize without a representation is rejected, then one is added
    for kinds in ("v", "p", "s", "c", "vp"):
        body = img_calls(rng, kinds, fin=False, drop=False)
        calls = N + [body[0], ("IFIN",)] + ([("IFIN",)] if rng.chance(1, 2) else []) + body[1:] + [("IFIN",), ("IDROP",)] + pc(1) + F
        cases.append(("order:rejected-image-finalize-then-data", calls))
    # random walks over the state machine
    for _ in range(120 if tier == "quick" else 3000):
        calls = [("NEW", rng.choice(["g", "file guid", ""]) if rng.chance(1, 8) else "g")]
        fins = 0
        for _ in range(rng.range(1, 7)):
            c = rng.below(10)
            if c < 2:
                calls.append(("BLOB", rng.bytes(rng.choice([0, 1, 3, 4, 17, 1003, 1020, 1021]))))
            elif c < 6:
                p = gen.rand_proto(rng, small=True)
                if rng.chance(1, 4):
                    _, f = rng.choice(proto_mutations(rng))
                    p = f(p)
                calls.append(("PC", "pc%d" % len(calls), p))
                for _ in range(rng.range(0, 6)):
                    v = [wapi.rand_value(rng, t) for _, t in p]
                    if rng.chance(1, 5) and v:
                        v[rng.below(len(v))] = rng.choice(["i%d" % rng.range(-1000, 1000), "f7fc00000", "d0000000000000000"])
                    calls.append(("PT", v))
                    if rng.chance(1, 12):
                        calls.append(("PFIN",))
                if rng.chance(5, 6):
                    calls.append(("PFIN",))
                calls.append(("PDROP",))
            elif c < 8:
                calls += img_calls(rng, "".join(rng.choice("vpscn") for _ in range(rng.range(0, 3))), fin=rng.chance(5, 6))
            elif c == 8:
                calls.append(("EXT", rng.choice(["ext", "e2", "xmlx", "", "ok_1"]), "http://u"))
            else:
                calls.append(("FINX",) if rng.chance(1, 3) else ("FIN",))
                fins += 1
        if rng.chance(9, 10):
            calls.append(("FINX",) if rng.chance(1, 3) else ("FIN",))
        cases.append(("order:random-walk", calls))
    return cases


def classify(label, cls):
    return "c10-" + cls


def run(rep, tier, rng, replay=None):
    ok = core.proof_step(rep, "C10", thorough=(tier == "thorough"))
    rep.cov["trusted_base"] = core.TRUSTED_COMMON + [
        "Rust's Display for f64/f32 is an oracle (harness FDISPLAY, checked to be plain text that parses back); the model generates the whole file itself (XmlGen.gen_root), the XML bytes are borrowed from the implementation only for sequences with a float text missing from the table (counted: xml_borrowed_fallback)",
        "the reader (E57Reader, roxmltree) is used as the observer of what a finished file contains; the documented rules are re-read independently in tools/vlib/wapi.py",
        "device faults and failing Read sources are not part of this property's model (C16)"]
    if not ok:
        return
    if replay and replay.get("kind") == "wapi-calls":
        cases = [("replay", wapi.calls_of_tokens(replay["calls"]))]
    else:
        cases = gen_proto_cases(rng, tier) + gen_capacity_cases(rng, tier) + gen_value_cases(rng, tier) + gen_order_cases(rng, tier)
    tie_stats = {}
    outs = wapi.run_all([c for _, c in cases], tie_stats)
    rep.count(len(cases))
    n_dir = n_corr = 0
    labels, result_classes, rejected_calls, accepted_calls = {}, {}, 0, 0
    for (label, calls), o in zip(cases, outs):
        fam = label.split(":")[0] + ":" + label.split(":")[1].split("-")[0] if ":" in label else label
        labels[fam] = labels.get(fam, 0) + 1
        res = wapi.split_out(o["impl"])[0]
        for r in res:
            k = r if r.startswith("e") or r in ("o", "P", "-") else "o"
            result_classes[k] = result_classes.get(k, 0) + 1
        rejected_calls += sum(1 for r in res if r.startswith("e"))
        accepted_calls += sum(1 for r in res if r == "o" or r.startswith("b"))
        toks = [wapi.call_tok(c) for c in calls]
        rep.distinct(gen.fnv_hex(" ".join(toks).encode()))
        bad = wapi.direct_check(calls, o)
        if bad:
            n_dir += 1
            seen = set()
            for cls, text in bad:
                if cls in seen:
                    continue
                seen.add(cls)
                rep.violation(classify(label, cls), "%s [%s]" % (text, label), dict(kind="wapi-calls", calls=toks, label=label, impl=o["impl"].split(" | xml=")[0][:1500]))
            continue
        diff = wapi.compare_model(o)
        if diff:
            n_corr += 1
            rep.violation("correspondence-c10", "%s [%s]" % (diff, label),
                          dict(kind="wapi-calls", calls=toks, label=label, failing="correspondence writer API model vs implementation",
                               impl=o["impl"].split(" | xml=")[0][:1500], model=o["model"][:1500]), no_input=True)
    fd_bad = tie_stats.pop("_fd_bad", [])
    if fd_bad:
        rep.violation("float-oracle", "Rust's Display/parse of a float does not satisfy the oracle hypotheses: %r" % (fd_bad[:2],), dict(kind="float-oracle", bad=[list(x) for x in fd_bad]), no_input=True)
    rep.cov.update(tie_stats)
    rep.cov.update(sequences=len(cases), families=labels, call_results=result_classes, rejected_calls=rejected_calls, accepted_calls=accepted_calls,
                   direct_failures=n_dir, correspondence_failures=n_corr, traces_validated_against_impl=len(cases))
    mid = len(cases) // 3
    rep.sample(dict(kind="call sequence", label=cases[mid][0], calls=[wapi.call_tok(c)[:70] for c in cases[mid][1]][:14], impl=outs[mid]["impl"].split(" | xml=")[0][:400]))
    rep.cov["rule"] = ("call sequences on the real writer API (debug and release build, every call under catch_unwind) and on the extracted state machine: "
                       "every documented prototype rule violated alone and in pairs on four base prototypes, lonely flags, extension names (xml prefixes, empty, dots, umlauts, unregistered), "
                       "prototypes at the packet-capacity limits (5910..5912 and 6000 double records, 20808..21678 and 30000 narrow records, all-zero-width), out-of-range integers "
                       "of widths 1..64 inserted after 0..8 valid points (every bit phase), mistyped values after valid coordinates, wrong arity, i64 extremes, NaN/inf, min > max, "
                       "abandoned point-cloud and image writers, limit overrides, all setters, random walks; regression probes for the four repaired defect classes: finalize twice and "
                       "sections added after finalize (must be rejected, the file keeps what it had), a sub-writer finalized twice or used after its finalize (rejected), "
                       "a duplicated index attribute of another type (prototype rejected), incomplete limits set by the caller (finalize of the point cloud rejected). "
                       "Direct oracles: no panic; every accepted call is representable under an independent reading of the documented rules; whenever the last call is a successful finalize "
                       "the file opens and contains exactly the finished point clouds with exactly the accepted points (bit for bit), bounds of the accepted points only, all blobs and image payloads. "
                       "Correspondence: result class of every call, every device byte, operation count and write log, and the reader's descriptors against the model's writer state. "
                       "distinct = distinct call sequences")
