"""C05 - the simple point iterator equals the documented view of the raw data.

Two levels.  (a) unit level: the hook e57::verif::postprocess on random Points x
switches x poses.  (b) file level: files written by the real writer, read with
pointcloud_raw and with pointcloud_simple under option vectors.
Direct oracle: the Python re-computation of the documented view below (IEEE doubles;
cos/sin/asin/atan2 only through the harness, i.e. Rust's libm, so that everything is
bit exact).  Correspondence: the extracted Coq model on the same cases."""
import math, struct
from fractions import Fraction
from vlib import core, gen

# ------------------------------------------------------------------ floats as Rust has them

NAN64, NAN32 = 0x7ff8000000000000, 0x7fc00000


def b2d(b):
    return struct.unpack("<d", struct.pack("<Q", b & 0xFFFFFFFFFFFFFFFF))[0]


def d2b(x):
    b = struct.unpack("<Q", struct.pack("<d", x))[0]
    return NAN64 if x != x else b


def b2f(b):
    return struct.unpack("<f", struct.pack("<I", b & 0xFFFFFFFF))[0]


def f2b(x):
    """bits of `x as f32` (x a double): round to nearest even, overflow to infinity"""
    if x != x:
        return NAN32
    try:
        return struct.unpack("<I", struct.pack("<f", x))[0]
    except OverflowError:
        return 0x7f800000 if x > 0 else 0xff800000


def h64(x):
    return "%016x" % d2b(x)


def h32b(b):
    return "%08x" % (NAN32 if (b & 0x7f800000) == 0x7f800000 and (b & 0x7fffff) else b)


def fdiv(a, b):
    if b == 0.0:
        if a != a or a == 0.0:
            return math.nan
        neg = (math.copysign(1.0, a) < 0) != (math.copysign(1.0, b) < 0)
        return -math.inf if neg else math.inf
    return a / b


def fsqrt(a):
    if a != a:
        return math.nan
    if a < 0:
        return math.nan
    return math.sqrt(a)


def fmin(a, b):
    return b if a != a else (b if b < a else a)


def fmax(a, b):
    return b if a != a else (b if b > a else a)


def finite(x):
    return x == x and x not in (math.inf, -math.inf)


class Trig:
    """Rust's libm by table; unknown arguments are recorded and answered NaN."""
    def __init__(self):
        self.table, self.need = {}, set()

    def _q(self, key):
        v = self.table.get(key)
        if v is None:
            self.need.add(key)
            return math.nan
        return v

    def cos(self, x): return self._q("c" + h64(x))
    def sin(self, x): return self._q("s" + h64(x))
    def asin(self, x): return self._q("a" + h64(x))
    def atan2(self, y, x): return self._q("t" + h64(y) + ":" + h64(x))

    def fill(self, impl):
        """evaluate the recorded arguments with the harness; returns the number of new entries"""
        need = sorted(self.need - set(self.table))
        self.need = set()
        if not need:
            return 0
        lines = ["TRIG " + " ".join(need[i:i + 200]) for i in range(0, len(need), 200)]
        outs = core.run_cases(impl, lines)
        k = 0
        for o in outs:
            for r in o.split():
                self.table[need[k]] = b2d(int(r, 16))
                k += 1
        if k != len(need):
            raise core.InfraError("TRIG returned %d results for %d queries" % (k, len(need)))
        return k

    def tok(self, keys=None):
        ks = sorted(self.table) if keys is None else sorted(k for k in keys if k in self.table)
        return "T:" + ",".join("%s=%s" % (k, h64(self.table[k])) for k in ks)


class Recorder:
    """a Trig view that remembers which entries one computation used"""
    def __init__(self, trig):
        self.t, self.used = trig, set()
    def cos(self, x): self.used.add("c" + h64(x)); return self.t.cos(x)
    def sin(self, x): self.used.add("s" + h64(x)); return self.t.sin(x)
    def asin(self, x): self.used.add("a" + h64(x)); return self.t.asin(x)
    def atan2(self, y, x): self.used.add("t" + h64(y) + ":" + h64(x)); return self.t.atan2(y, x)


# ------------------------------------------------------------------ the documented view, in Python

class ViewErr(Exception):
    def __init__(self, kind):
        self.kind = kind


def pose_matrix(pose):
    """the rotation matrix of a quaternion (w,x,y,z) in the operation order of the crate, column major"""
    w, x, y, z = pose[:4]
    return [w * w + x * x - y * y - z * z, 2.0 * (x * y + w * z), 2.0 * (x * z - w * y),
            2.0 * (x * y - w * z), w * w + y * y - x * x - z * z, 2.0 * (y * z + w * x),
            2.0 * (x * z + w * y), 2.0 * (y * z - w * x), w * w + z * z - x * x - y * y]


def apply_pose(pose, c):
    r = pose_matrix(pose)
    x, y, z = c
    nx = r[0] * x + r[3] * y + r[6] * z
    ny = r[1] * x + r[4] * y + r[7] * z
    nz = r[2] * x + r[5] * y + r[8] * z
    return (nx + pose[4], ny + pose[5], nz + pose[6])


IDENTITY = (1.0, 0.0, 0.0, 0.0, 0.0, 0.0, 0.0)


def conversions(cart, sph, color, intensity, s2c, c2s, i2c, pose, trig):
    """cart ('V'|'D', x,y,z) | ('I',); sph ('V', r,a,e) | ('D', a,e) | ('I',); colour 3 f32 bit patterns or None;
    pose None = not applied"""
    c0 = cart
    if s2c and cart[0] != "V":
        if sph[0] == "V":
            r, az, el = sph[1:]
            ce = trig.cos(el)
            cart = ("V", r * ce * trig.cos(az), r * ce * trig.sin(az), r * trig.sin(el))
        elif cart[0] == "I" and sph[0] == "D":
            az, el = sph[1:]
            ce = trig.cos(el)
            cart = ("D", 1.0 * ce * trig.cos(az), 1.0 * ce * trig.sin(az), 1.0 * trig.sin(el))
    if c2s and sph[0] != "V":
        # the stored Cartesian value: a converted one exists only where the spherical one is at least as good
        if c0[0] == "V":
            x, y, z = c0[1:]
            r = fsqrt(x * x + y * y + z * z)
            sph = ("V", r, trig.atan2(y, x), trig.asin(fdiv(z, r)))
        elif sph[0] == "I" and c0[0] == "D":
            x, y, z = c0[1:]
            sph = ("D", trig.atan2(y, x), trig.asin(fdiv(z, fsqrt(x * x + y * y + z * z))))
    if i2c and color is None and intensity is not None:
        color = (intensity, intensity, intensity)
    if pose is not None and cart[0] == "V":
        cart = ("V",) + apply_pose(pose, cart[1:])
    return cart, sph, color


def show_point(cart, sph, color, intensity, row, col):
    c = "I" if cart[0] == "I" else cart[0] + "," + ",".join(h64(v) for v in cart[1:])
    s = "I" if sph[0] == "I" else sph[0] + "," + ",".join(h64(v) for v in sph[1:])
    co = "-" if color is None else ",".join(h32b(v) for v in color)
    i = "-" if intensity is None else h32b(intensity)
    return "%s/%s/%s/%s/%d/%d" % (c, s, co, i, row, col)


def parse_point(s):
    p = s.split("/")
    c = p[0].split(",")
    cart = ("I",) if c[0] == "I" else (c[0],) + tuple(b2d(int(v, 16)) for v in c[1:])
    sp = p[1].split(",")
    sph = ("I",) if sp[0] == "I" else (sp[0],) + tuple(b2d(int(v, 16)) for v in sp[1:])
    color = None if p[2] == "-" else tuple(int(v, 16) for v in p[2].split(","))
    intensity = None if p[3] == "-" else int(p[3], 16)
    return cart, sph, color, intensity, int(p[4]), int(p[5])


def parse_type(t):
    p = t.split("/")
    if p[0] == "F":
        return ("F", None if len(p) < 2 or p[1] == "-" else int(p[1], 16), None if len(p) < 3 or p[2] == "-" else int(p[2], 16))
    if p[0] == "D":
        return ("D", None if len(p) < 2 or p[1] == "-" else int(p[1], 16), None if len(p) < 3 or p[2] == "-" else int(p[2], 16))
    if p[0] == "S":
        return ("S", int(p[1]), int(p[2]), int(p[3], 16) if len(p) > 3 else 0x3ff0000000000000, int(p[4], 16) if len(p) > 4 else 0)
    return ("I", int(p[1]), int(p[2]))


def full_type(t):
    """type token with explicit float limits"""
    return t + "/-/-" if t in ("F", "D") else t


def number(typ, v):
    k, a = v[0], v[1:]
    if k == "f":
        return b2f(int(a, 16))
    if k == "d":
        return b2d(int(a, 16))
    if k == "i":
        return float(int(a))
    if typ[0] != "S":
        raise ViewErr("Internal")
    return float(int(a)) * b2d(typ[3]) + b2d(typ[4])


def integer(typ, v):
    if typ[0] != "I" or v[0] != "i":
        raise ViewErr("Internal")
    return int(v[1:])


def limit_number(tok):
    k, a = tok[0], tok[1:]
    return {"f": lambda: b2f(int(a, 16)), "d": lambda: b2d(int(a, 16)), "i": lambda: float(int(a))}[k]()


def make_range(mn, mx):
    if not finite(mn) or not finite(mx) or mn > mx:
        raise ViewErr("Invalid")
    return (mn, mx)


def channel_range(desc, name, lim):
    """the normalisation range of a channel: the limits of the point cloud, else the range of the record type"""
    typ = next((t for n, t in desc["proto"] if n == name), None)
    lo, hi = lim
    if lo is not None and hi is not None:
        if lo[0] == "s" and hi[0] == "s":
            if typ is not None and typ[0] == "S":
                a = float(int(lo[1:])) * b2d(typ[3]) + b2d(typ[4])
                b = float(int(hi[1:])) * b2d(typ[3]) + b2d(typ[4])
                return make_range(fmin(a, b), fmax(a, b))
        elif lo[0] == hi[0]:
            return make_range(limit_number(lo), limit_number(hi))
    if typ is None:
        return None
    if typ[0] == "F":
        return make_range(b2f(0xff7fffff if typ[1] is None else typ[1]), b2f(0x7f7fffff if typ[2] is None else typ[2]))
    if typ[0] == "D":
        return make_range(b2d(0xffefffffffffffff if typ[1] is None else typ[1]), b2d(0x7fefffffffffffff if typ[2] is None else typ[2]))
    if typ[0] == "S":
        a = float(typ[1]) * b2d(typ[3]) + b2d(typ[4])
        b = float(typ[2]) * b2d(typ[3]) + b2d(typ[4])
        return make_range(fmin(a, b), fmax(a, b))
    return make_range(float(typ[1]), float(typ[2]))


def ranges_of(desc):
    il = desc["il"] or (None, None)
    cl = desc["cl"] or (None,) * 6
    return {"in": channel_range(desc, "in", il), "r": channel_range(desc, "r", cl[0:2]),
            "g": channel_range(desc, "g", cl[2:4]), "b": channel_range(desc, "b", cl[4:6])}


def normalized(rg, enabled, v):
    """f32 bit pattern"""
    if not enabled:
        return f2b(v)
    if rg is None:
        return 0
    mn, mx = rg
    c = mn if v < mn else v
    c = mx if c > mx else c
    width = mx - mn
    if finite(width):
        n = fdiv(c - mn, width)
    else:
        n = fdiv(c * 0.5 - mn * 0.5, mx * 0.5 - mn * 0.5)
    return f2b(n) if width > 0.0 else 0


def view(desc, rgs, k, raw, trig):
    """the documented simple point of one raw point under option vector k; raises ViewErr"""
    s2c, c2s, i2c, ni, nc, ap = [bool(k & (1 << i)) for i in range(6)]
    attr = {}
    for (n, t), v in zip(desc["proto"], raw):
        attr.setdefault(n, (t, v))

    def state(name):
        return integer(*attr[name]) if name in attr else None

    def coords(names, st, with_range_first):
        if not all(n in attr for n in names):
            return ("I",)
        if st is None or st == 0:
            return ("V",) + tuple(number(*attr[n]) for n in names)
        if st == 1:
            ns = names[1:] if with_range_first else names
            return ("D",) + tuple(number(*attr[n]) for n in ns)
        if st == 2:
            return ("I",)
        raise ViewErr("Invalid")

    cart = coords(("x", "y", "z"), state("cis"), False)
    sph = coords(("sr", "sa", "se"), state("sis"), True)
    st = state("ici")
    color = None
    if all(n in attr for n in ("r", "g", "b")):
        if st is None or st == 0:
            color = tuple(normalized(rgs[n], nc, number(*attr[n])) for n in ("r", "g", "b"))
        elif st != 1:
            raise ViewErr("Invalid")
    st = state("iin")
    intensity = None
    if "in" in attr:
        if st is None or st == 0:
            intensity = normalized(rgs["in"], ni, number(*attr["in"]))
        elif st != 1:
            raise ViewErr("Invalid")
    row = integer(*attr["row"]) if "row" in attr else -1
    col = integer(*attr["col"]) if "col" in attr else -1
    pose = (desc["pose"] or IDENTITY) if ap else None
    cart, sph, color = conversions(cart, sph, color, intensity, s2c, c2s, i2c, pose, trig)
    return show_point(cart, sph, color, intensity, row, col)


def exact_rotation(pose, c):
    """q v q* + t in exact rational arithmetic"""
    w, x, y, z, tx, ty, tz = [Fraction(v) for v in pose]
    vx, vy, vz = [Fraction(v) for v in c]

    def qmul(a, b):
        return (a[0] * b[0] - a[1] * b[1] - a[2] * b[2] - a[3] * b[3],
                a[0] * b[1] + a[1] * b[0] + a[2] * b[3] - a[3] * b[2],
                a[0] * b[2] - a[1] * b[3] + a[2] * b[0] + a[3] * b[1],
                a[0] * b[3] + a[1] * b[2] - a[2] * b[1] + a[3] * b[0])
    q = (w, x, y, z)
    r = qmul(qmul(q, (0, vx, vy, vz)), (w, -x, -y, -z))
    return (r[1] + tx, r[2] + ty, r[3] + tz)


# ------------------------------------------------------------------ descriptors

def parse_desc(s):
    d = {"il": None, "cl": None, "pose": None}
    for kv in s.split(";"):
        k, v = kv.split("=", 1)
        if k in ("fo", "rec"):
            d[k] = int(v)
        elif k == "proto":
            d["proto_tok"] = v
            d["proto"] = [(nt.split("=", 1)[0], parse_type(nt.split("=", 1)[1])) for nt in v.split(",") if nt]
        elif k == "il":
            d["il"] = None if v == "~" else tuple(None if t == "-" else t for t in v.split(","))
        elif k == "cl":
            d["cl"] = None if v == "~" else tuple(None if t == "-" else t for t in v.split(","))
        elif k == "pose":
            d["pose"] = None if v == "-" else tuple(b2d(int(t, 16)) for t in v.split(","))
    return d


def desc_tok(fo, rec, proto_tok, il, cl, pose):
    return "fo=%d;rec=%d;proto=%s;il=%s;cl=%s;pose=%s" % (fo, rec, proto_tok, il, cl, pose)


# ------------------------------------------------------------------ generators

INTERESTING = [0x0, 0x8000000000000000, 0x3ff0000000000000, 0xbff0000000000000, 0x7ff0000000000000, 0xfff0000000000000,
               0x7ff8000000000000, 0x1, 0x7fefffffffffffff, 0x400921fb54442d18, 0x3ff921fb54442d18, 0xbff921fb54442d18,
               0x3fe0000000000000, 0x4024000000000000, 0xc059000000000000, 0x3e7ad7f29abcaf48, 0x7fe0000000000000]


def rand_f64(rng, tame=False):
    c = rng.below(10)
    if c < 2 and not tame:
        return rng.choice(INTERESTING)
    if c < 4 and not tame:
        return rng.below(1 << 64)
    # moderate magnitudes: sign, exponent around 0, random mantissa
    return (rng.below(2) << 63) | ((1023 + rng.range(-12, 12)) << 52) | rng.below(1 << 52)


def rand_angle(rng):
    return d2b((rng.below(2000001) - 1000000) / 1000000.0 * rng.choice([0.5, 1.5, 3.2, 6.4, 100.0]))


def rand_pose(rng):
    """token for a pose: '-' (none) or seven f64 bit patterns"""
    c = rng.below(10)
    h = math.sqrt(0.5)
    if c == 0:
        q = (1.0, 0.0, 0.0, 0.0)
    elif c == 1:
        q = rng.choice([(h, h, 0.0, 0.0), (h, 0.0, h, 0.0), (h, 0.0, 0.0, h), (0.0, 1.0, 0.0, 0.0), (0.0, 0.0, 1.0, 0.0),
                        (0.0, 0.0, 0.0, 1.0), (0.5, 0.5, 0.5, 0.5), (h, -h, 0.0, 0.0)])
    elif c < 6:
        v = [(rng.below(2001) - 1000) / 1000.0 for _ in range(4)]
        n = math.sqrt(sum(a * a for a in v)) or 1.0
        q = tuple(a / n for a in v)
    elif c < 8:
        q = tuple((rng.below(4001) - 2000) / 1000.0 for _ in range(4))        # not a unit quaternion
    else:
        q = tuple(b2d(rand_f64(rng, tame=True)) for _ in range(4))
    t = rng.choice([(0.0, 0.0, 0.0), (1.0, 2.0, 3.0), tuple((rng.below(200001) - 100000) / 100.0 for _ in range(3)),
                    tuple(b2d(rand_f64(rng, tame=True)) for _ in range(3))])
    return ",".join(h64(v) for v in q + t)


def rand_unit_point(rng):
    def cart():
        c = rng.below(5)
        if c == 0:
            return "I"
        vals = ",".join("%016x" % rand_f64(rng) for _ in range(3))
        return ("V," if c < 3 else "D,") + vals

    def sph():
        c = rng.below(5)
        if c == 0:
            return "I"
        ang = lambda: "%016x" % (rand_angle(rng) if rng.chance(3, 4) else rand_f64(rng))
        if c < 3:
            return "V,%016x,%s,%s" % (rand_f64(rng), ang(), ang())
        return "D,%s,%s" % (ang(), ang())
    f32 = lambda: "%08x" % (rng.choice(gen.SPECIAL_F32) if rng.chance(1, 4) else rng.below(1 << 32))
    color = "-" if rng.chance(1, 2) else ",".join(f32() for _ in range(3))
    intensity = "-" if rng.chance(1, 3) else f32()
    row = rng.choice([-1, 0, 7, -(1 << 63), (1 << 63) - 1])
    return "%s/%s/%s/%s/%d/%d" % (cart(), sph(), color, intensity, row, rng.choice([-1, 0, 12345]))


def covering_opts():
    base = [0, 63, 61]
    return sorted(set(base + [1 << i for i in range(6)] + [63 ^ (1 << i) for i in range(6)] + [3, 33, 35, 12, 28]))


def rand_limit(rng, kind, typ):
    """a limit token of the given kind near the type's range"""
    if kind == "i":
        return "i%d" % rng.choice([0, 1, 255, 65535, -5, rng.range(-1000, 1000)])
    if kind == "s":
        return "s%d" % rng.choice([0, 1, 255, 4095, -7, rng.range(-1000, 1000)])
    if kind == "f":
        return "f%08x" % f2b(rng.choice([0.0, 1.0, 255.0, -1.0, 0.5, (rng.below(20001) - 10000) / 10.0]))
    return "d%016x" % d2b(rng.choice([0.0, 1.0, 255.0, -1.0, 0.5, 65535.0, (rng.below(20001) - 10000) / 10.0]))


def kind_of_type(t):
    return {"F": "f", "D": "d", "S": "s", "I": "i"}[t[0]]


def rand_limits(rng, proto, names, allow_bad):
    """tokens for the limits of the channels `names` (one or three); returns 'tok' or '~' (writer default) or '-' (removed)"""
    c = rng.below(10)
    if c < 4:
        return "~"
    if c == 4:
        return "-"
    out = []
    for n in names:
        t = next((t for m, t in proto if m == n), None)
        kind = kind_of_type(t) if t and rng.chance(4, 5) else rng.choice(["i", "d", "f", "s"])
        lo, hi = rand_limit(rng, kind, t), rand_limit(rng, kind, t)
        num = lambda tok: int(tok[1:]) if tok[0] in "is" else (b2f(int(tok[1:], 16)) if tok[0] == "f" else b2d(int(tok[1:], 16)))
        if num(lo) > num(hi) and not (allow_bad and rng.chance(1, 6)):
            lo, hi = hi, lo
        if rng.chance(1, 12):
            hi = lo                                  # degenerate
        if rng.chance(1, 15):
            lo = "-"
        if rng.chance(1, 15) and allow_bad:
            hi = rng.choice(["d7ff0000000000000", "d7ff8000000000000", "f7f800000"])
        out += [lo, hi]
    return ",".join(out)


def gen_file_cases(rng, tier):
    """each case: dict(mode, proto [(name, type token)], points, pose token, il, cl, tamper)"""
    cases = []
    n = 150 if tier == "quick" else 5000
    for i in range(n):
        proto = [(nm, full_type(t)) for nm, t in gen.rand_proto(rng, small=rng.chance(1, 3))]
        # colours as u8 / u16 / float more often than the general generator does
        if rng.chance(1, 3) and not any(nm == "r" for nm, _ in proto):
            t = rng.choice(["I/0/255", "I/0/65535", "F/-/-", "D/-/-", "F/00000000/3f800000", "S/0/4095/3f50624dd2f1a9fc/0000000000000000",
                            "S/0/255/bff0000000000000/406fe00000000000"])
            proto += [("r", t), ("g", t), ("b", t)]
            if rng.chance(1, 2):
                proto.append(("ici", "I/0/1"))
        if rng.chance(1, 3) and not any(nm == "in" for nm, _ in proto):
            proto.append(("in", rng.choice(["I/0/255", "I/0/65535", "F/-/-", "D/3ff0000000000000/4000000000000000", "S/-100/100/3fb999999999999a/4059000000000000"])))
            if rng.chance(1, 2):
                proto.append(("iin", "I/0/1"))
        if rng.chance(1, 4) and not any(nm == "row" for nm, _ in proto):
            proto += [("row", "I/-5/1000"), ("col", "I/0/%d" % rng.choice([0, 7, (1 << 63) - 1]))]
        mode, tamper = "n", None
        c = rng.below(12)
        if c < 3:
            # prototypes the writer refuses: invalid-state records with out-of-set values / non-integer types,
            # incomplete triples, duplicate names
            mode = "r"
            t = rng.below(6)
            if t == 0:
                proto = [(nm, ("I/0/%d" % rng.choice([3, 7]) if nm in ("cis", "sis") else "I/0/%d" % rng.choice([2, 5]) if nm in ("ici", "iin") else ty)) for nm, ty in proto]
                if not any(nm in ("cis", "sis", "ici", "iin") for nm, _ in proto):
                    if any(nm == "x" for nm, _ in proto):
                        proto.append(("cis", "I/-1/3"))
                    else:
                        proto.append(("sis", "I/0/4"))
                tamper = "state-out-of-set"
            elif t == 1:
                nm = rng.choice(["cis", "sis", "ici", "iin", "row", "col"])
                proto = [(a, b) for a, b in proto if a != nm] + [(nm, rng.choice(["F/-/-", "D/-/-", "S/0/2/3ff0000000000000/0000000000000000"]))]
                tamper = "index-record-not-integer"
            elif t == 2:
                drop = rng.choice(["x", "y", "z", "sr", "sa", "se", "r", "g", "b"])
                proto = [(a, b) for a, b in proto if a != drop]
                if len(proto) < 3:
                    proto += [("ts", "D/-/-"), ("rc", "I/0/9"), ("ri", "I/0/9")]
                tamper = "incomplete-triple"
            elif t == 3:
                k = rng.below(len(proto))
                proto.insert(rng.below(len(proto) + 1), (proto[k][0], rng.choice(["D/-/-", "I/0/7", proto[k][1]])))
                tamper = "duplicate-name"
            elif t == 4:
                proto = [(nm, ty) for nm, ty in proto if nm not in ("x", "y", "z", "sr", "sa", "se")]
                proto += [("cis", "I/0/2"), ("ts", "D/-/-")]
                if len(proto) < 3:
                    proto.append(("rc", "I/0/3"))
                tamper = "state-without-coordinates"
            else:
                tamper = "plain-renamed"
        while len(proto) < 3:
            proto.append(("ts", "D/-/-"))
        npts = rng.choice([0, 1, 1, 2, 3, 3, 5, 9, 17, 40])
        wproto = [(nm, ty if ty[0] in "IS" else ty[0]) for nm, ty in proto]
        pts = gen.rand_points(rng, wproto, npts)
        # angles and ranges that make sense now and then
        for p in pts:
            for j, (nm, ty) in enumerate(proto):
                if nm in ("sa", "se") and ty[0] == "D" and rng.chance(2, 3):
                    p[j] = "d%016x" % rand_angle(rng)
                if nm in ("x", "y", "z", "sr") and ty[0] == "D" and rng.chance(2, 3):
                    p[j] = "d%016x" % rand_f64(rng, tame=rng.chance(3, 4))
        pose = "-" if rng.chance(1, 4) else rand_pose(rng)
        has_in = any(nm == "in" for nm, _ in proto)
        has_col = any(nm == "r" for nm, _ in proto)
        tp = [(nm, parse_type(ty)) for nm, ty in proto]
        il = rand_limits(rng, tp, ["in"], allow_bad=False) if has_in else "~"
        cl = rand_limits(rng, tp, ["r", "g", "b"], allow_bad=False) if has_col else "~"
        cases.append(dict(mode=mode, proto=proto, points=pts, pose=pose, il=il, cl=cl, tamper=tamper, big=False,
                          retamper=rng.below(8) if rng.chance(1, 4) else None))
    # files of more than one packet: the batching per packet is visible only here
    for i in range(2 if tier == "quick" else 24):
        proto = [("x", "D/-/-"), ("y", "D/-/-"), ("z", "D/-/-"), ("cis", "I/0/2"), ("sr", "D/-/-"), ("sa", "D/-/-"), ("se", "D/-/-"),
                 ("sis", "I/0/2"), ("in", "D/-/-"), ("r", "D/-/-"), ("g", "D/-/-"), ("b", "D/-/-"), ("ts", "D/-/-"),
                 ("u.v.q", "D/-/-"), ("row", "I/0/100000"), ("col", "I/0/7")]
        mode = "r" if i % 3 == 1 else "n"
        if mode == "r":
            proto[3] = ("cis", "I/0/3")
        wproto = [(nm, ty if ty[0] in "IS" else ty[0]) for nm, ty in proto]
        cap = gen.proto_capacity(wproto)
        npts = cap + rng.choice([1, 2, 30]) if (i % 4 != 3 or tier == "quick") else 2 * cap + 1
        pts = [[("d%016x" % (rand_angle(rng) if nm in ("sa", "se") else rand_f64(rng, tame=True))) if ty[0] == "D" else
                "i%d" % (rng.below(3) if nm in ("cis", "sis") else j if nm == "row" else rng.below(8))
                for nm, ty in proto] for j in range(npts)]
        if mode == "r":
            # one out-of-set value in the second packet: the points of the first packet are delivered before the error
            pts[cap + rng.below(npts - cap)][3] = "i3"
        cases.append(dict(mode=mode, proto=proto, points=pts, pose=rand_pose(rng), il="~", cl="~",
                          tamper="state-out-of-set" if mode == "r" else None, big=True, retamper=None))
    return cases


# ------------------------------------------------------------------ the check

def split_result(line):
    """'raw n=.. end=.. pts=.. # o0 n=.. ...' -> (raw dict, {k: dict})"""
    parts = line.split(" # ")
    def seg(s):
        s = s.split(" ", 1)[1] if " " in s else ""
        if s.startswith("new:"):
            return dict(new=s[4:], n=0, end=s[4:], pts=[])
        f = dict(x.split("=", 1) for x in s.split(" ") if "=" in x)
        return dict(new=None, n=int(f.get("n", "0")), end=f.get("end", "?"), pts=[p for p in f.get("pts", "").split(";") if p])
    raw = seg(parts[0])
    per = {}
    for p in parts[1:]:
        per[int(p.split(" ", 1)[0][1:])] = seg(p)
    return raw, per


FINDING_CLASSES = ("c05-constructor-rejects-limits", "c05-index-record-not-integer", "c05-nonfinite-identity-pose")


def note_finding(rep, cls, desc, replay):
    """Deviations from the property text that the theorems list as hypotheses: counted in the evidence;
    reported through rep.violation (hence as KNOWN-FINDING) once known_findings.txt carries an entry of that class."""
    rep.cov.setdefault("finding_candidates", {})
    rep.cov["finding_candidates"][cls] = rep.cov["finding_candidates"].get(cls, 0) + 1
    if any(k.get("class") == cls for k in rep.known):
        rep.violation(cls, desc, replay)


def run_with_table(lines_wo_table, trig, keysets, max_rounds=4):
    """run the model on lines that need the trig table; answers `trig-miss` by extending the table"""
    impl = core.ensure_harness("debug")
    outs = [None] * len(lines_wo_table)
    todo = list(range(len(lines_wo_table)))
    extra = [set() for _ in lines_wo_table]
    rounds = 0
    while todo and rounds < max_rounds:
        rounds += 1
        res = core.run_cases(core.DRIVER, [lines_wo_table[i] + " " + trig.tok(keysets[i] | extra[i]) for i in todo])
        again = []
        for i, o in zip(todo, res):
            if o.startswith("trig-miss "):
                ks = o.split()[1:]
                extra[i] |= set(ks)
                trig.need |= set(ks)
                again.append(i)
            outs[i] = o
        trig.fill(impl)
        todo = again
    return outs, rounds


def unit_level(rep, rng, tier, trig, replay=None):
    impl = core.ensure_harness("debug")
    impl_rel = core.ensure_harness("release")
    n = 3000 if tier == "quick" else 60000
    cases = []
    if replay:
        cases = [(replay["pose"], replay["flags"], replay["point"])]
    else:
        for _ in range(n):
            pose = rng.choice(["-", "N"]) if rng.chance(1, 4) else rand_pose(rng)
            flags = "".join(rng.choice("01") for _ in range(3))
            cases.append((pose, flags, rand_unit_point(rng)))
        # the documented corner: non-finite coordinates under the identity pose
        for bits in (0x7ff0000000000000, 0xfff0000000000000, 0x7ff8000000000000, 0x7fefffffffffffff):
            for pose in ("N", ",".join(h64(v) for v in IDENTITY)):
                cases.append((pose, "000", "V,%016x,3ff0000000000000,4000000000000000/I/-/-/-1/-1" % bits))

    def expect(case, t):
        pose, flags, point = case
        cart, sph, color, intensity, row, col = parse_point(point)
        p = None if pose == "-" else (IDENTITY if pose == "N" else tuple(b2d(int(v, 16)) for v in pose.split(",")))
        c, s, co = conversions(cart, sph, color, intensity, flags[0] == "1", flags[1] == "1", flags[2] == "1", p, t)
        return show_point(c, s, co, intensity, row, col)
    for c in cases:
        expect(c, trig)
    trig.fill(impl)
    keysets, exps = [], []
    for c in cases:
        r = Recorder(trig)
        exps.append(expect(c, r))
        keysets.append(r.used)
    lines = ["PPOST %s %s %s" % c for c in cases]
    o_impl = core.run_cases(impl, lines)
    o_rel = core.run_cases(impl_rel, lines)
    o_model, rounds = run_with_table(lines, trig, keysets)
    rep.count(len(cases))
    n_dir = n_corr = n_nonfinite = n_rot = 0
    for i, c in enumerate(cases):
        rep.distinct("u" + gen.fnv_hex(lines[i].encode()))
        rp = dict(kind="postprocess", pose=c[0], flags=c[1], point=c[2])
        if c[0] in ("N", ",".join(h64(v) for v in IDENTITY)) and c[1][0] == "0" and c[2].startswith("V,") and o_impl[i] == exps[i] \
                and o_impl[i].split("/")[0] != c[2].split("/")[0] and not all(finite(v) for v in parse_point(c[2])[0][1:]):
            note_finding(rep, "c05-nonfinite-identity-pose", "the identity pose changes a valid non-finite coordinate: %s becomes %s" %
                         (c[2].split("/")[0], o_impl[i].split("/")[0]), rp)
        if o_impl[i] != exps[i]:
            n_dir += 1
            rep.violation("c05-postprocess", "post-processing of %s (s2c,c2s,i2c=%s, pose %s) gives %s, the documented conversions give %s" %
                          (c[2], c[1], c[0][:40], o_impl[i][:200], exps[i][:200]), rp)
        elif o_model[i] != o_impl[i] or o_rel[i] != o_impl[i]:
            n_corr += 1
            rep.violation("correspondence-c05", "%s differ on the post-processing of one point: impl=%s | other=%s" %
                          ("debug/release" if o_rel[i] != o_impl[i] else "model/implementation", o_impl[i][:200], (o_rel[i] if o_rel[i] != o_impl[i] else o_model[i])[:200]),
                          dict(rp, failing="correspondence postprocess hook"), no_input=True)
        # the rotation is q v q* + t (exact arithmetic, tolerance for rounding), on finite inputs
        if c[0] not in ("-", "N") and o_impl[i].startswith("V,"):
            pose = tuple(b2d(int(v, 16)) for v in c[0].split(","))
            pre = conversions(*parse_point(c[2])[:4], c[1][0] == "1", False, False, None, trig)[0]
            got = parse_point(o_impl[i])[0]
            if pre[0] == "V" and all(finite(v) for v in pose + pre[1:]) and all(finite(v) for v in got[1:]):
                ex = exact_rotation(pose, pre[1:])
                scale = max([abs(Fraction(v)) for v in pre[1:]]) * sum(Fraction(v) * Fraction(v) for v in pose[:4]) + max(abs(Fraction(v)) for v in pose[4:]) + Fraction(1, 10 ** 300)
                n_rot += 1
                if any(abs(Fraction(g) - e) > scale * Fraction(1, 10 ** 12) for g, e in zip(got[1:], ex)):
                    n_dir += 1
                    rep.violation("c05-pose-rotation", "apply_pose does not compute q v q* + t: point %s pose %s gives %s" % (c[2][:80], c[0], o_impl[i][:120]), rp)
            else:
                n_nonfinite += 1
    return dict(unit_cases=len(cases), unit_direct_failures=n_dir, unit_correspondence_failures=n_corr,
                unit_rotation_checked_exactly=n_rot, unit_nonfinite_excluded_from_rotation_check=n_nonfinite,
                unit_model_rounds=rounds)


def retamper_desc(rng_k, d):
    """descriptor-level alterations applied after writing: what a foreign file may say"""
    k = rng_k
    il, cl, rec, pose = d["il_tok"], d["cl_tok"], d["rec"], d["pose_tok"]
    what = None
    if k == 0 and d["rec"] > 1:
        rec, what = d["rec"] - 1, "records-smaller"
    elif k == 1:
        rec, what = d["rec"] + 2, "records-larger"
    elif k == 2 and il != "~":
        il, what = "d4024000000000000,d0000000000000000", "limits-reversed"
    elif k == 3 and cl != "~":
        cl, what = "d0000000000000000,d7ff0000000000000,d0000000000000000,d3ff0000000000000,d0000000000000000,d3ff0000000000000", "limits-infinite"
    elif k == 4 and il != "~":
        il, what = "d7ff8000000000000,d3ff0000000000000", "limits-nan"
    elif k == 5:
        pose, what = "7ff0000000000000,0000000000000000,0000000000000000,0000000000000000,0000000000000000,0000000000000000,0000000000000000", "pose-infinite"
    elif k == 6:
        il, cl, what = "~", "~", "limits-absent"
    elif k == 7 and d["rec"] > 0:
        rec, what = 0, "records-zero"
    return rec, il, cl, pose, what


def file_level(rep, rng, tier, trig, replay=None):
    impl = core.ensure_harness("debug")
    impl_rel = core.ensure_harness("release")
    if replay:
        cases = [replay["case"]]
    else:
        cases = gen_file_cases(rng, tier)
    # the writer refuses incomplete limits (one bound missing): such limits are written as the default
    # and planted in the descriptor afterwards, as a foreign file may carry them
    def incomplete(tok):
        return tok not in ("~", "-") and "-" in tok.split(",")
    wl = ["SIMW %s %s %s %s %s %s" % (c["mode"], gen.proto_tok(c["proto"]), gen.points_tok(c["points"]) or "-", c["pose"],
                                      "~" if incomplete(c["il"]) else c["il"], "~" if incomplete(c["cl"]) else c["cl"]) for c in cases]
    if replay and replay.get("file_hex"):
        # the recorded file and descriptor, not a new run of the writer
        wo = ["w=o dev=%s desc=%s" % (replay["file_hex"], replay["descriptor"])]
        cases = [dict(cases[0], mode="r", retamper=None, proto=[(nt.split("=", 1)[0], nt.split("=", 1)[1]) for nt in
                                                                 parse_desc(replay["descriptor"])["proto_tok"].split(",") if nt])]
    else:
        wo = core.run_cases(impl, wl)
    rd_lines, metas = [], []
    stats = dict(files=0, write_refused=0, descriptor_differs=0, tampered=0)
    for c, o in zip(cases, wo):
        f = dict(x.split("=", 1) for x in o.split(" ") if "=" in x)
        if f.get("w") != "o" or not f.get("desc", "").startswith("fo="):
            stats["write_refused"] += 1
            if c["mode"] == "n" and not c.get("allow_refusal"):
                rep.violation("c05-writer-refused", "the writer refused a valid program: %s" % o[:200], dict(kind="file", case=c))
            continue
        d = parse_desc(f["desc"])
        planted = gen.proto_tok(c["proto"])
        if c["mode"] == "n":
            if d["proto_tok"] != planted:
                stats["descriptor_differs"] += 1
            proto_tok = d["proto_tok"]
        else:
            proto_tok = planted
        il_tok = f["desc"].split(";il=")[1].split(";")[0]
        cl_tok = f["desc"].split(";cl=")[1].split(";")[0]
        pose_tok = f["desc"].split(";pose=")[1]
        if incomplete(c["il"]):
            il_tok = c["il"]
        if incomplete(c["cl"]):
            cl_tok = c["cl"]
        rec, what = d["rec"], c["tamper"]
        if c.get("retamper") is not None:
            rec, il_tok, cl_tok, pose_tok, w2 = retamper_desc(c["retamper"], dict(il_tok=il_tok, cl_tok=cl_tok, rec=d["rec"], pose_tok=pose_tok))
            what = w2 or what
        if what:
            stats["tampered"] += 1
        desc = desc_tok(d["fo"], rec, proto_tok, il_tok, cl_tok, pose_tok)
        small = len(c["points"]) <= 5
        opts = [replay["options"]] if replay and "options" in replay else list(range(64)) if (small or tier == "thorough") and not c["big"] else (([61, 2] if tier == "quick" else [0, 63, 61, 2]) if c["big"] else covering_opts())
        rd_lines.append("SIMRD - %s %s %s" % (f["dev"], desc, ",".join(map(str, opts))))
        metas.append(dict(case=c, desc=desc, d=parse_desc(desc), opts=opts, what=what, dev=f["dev"]))
        stats["files"] += 1
    o_impl = core.run_cases(impl, rd_lines)
    o_rel = core.run_cases(impl_rel, rd_lines)
    # expected views (two passes for the trig table)
    parsed = [split_result(o) for o in o_impl]

    def expectations(m, raw, t):
        """per option vector: list of view strings or ('err', kind) per raw point; ctor error if any"""
        d = m["d"]
        try:
            rgs = ranges_of(d)
        except ViewErr as e:
            return ("ctor", e.kind)
        out = {}
        for k in m["opts"]:
            vs = []
            for p in raw["pts"]:
                try:
                    vs.append(view(d, rgs, k, p.split(","), t))
                except ViewErr as e:
                    vs.append(("err", e.kind))
            out[k] = vs
        return out
    for m, (raw, per) in zip(metas, parsed):
        expectations(m, raw, trig)
    trig.fill(impl)
    keysets, exps = [], []
    for m, (raw, per) in zip(metas, parsed):
        r = Recorder(trig)
        exps.append(expectations(m, raw, r))
        keysets.append(r.used)
    o_model, rounds = run_with_table(rd_lines, trig, keysets)
    causes = {}
    n_dir = n_corr = n_points = 0
    for i, m in enumerate(metas):
        raw, per = parsed[i]
        c = m["case"]
        rp = dict(kind="file", case=c, file_hex=m["dev"], descriptor=m["desc"])
        rep.distinct("f" + gen.fnv_hex((m["desc"] + gen.points_tok(c["points"])).encode()))
        rep.count(len(m["opts"]))
        written = [",".join(p) for p in c["points"]]
        bad = None
        # the raw iterator returns what was written (count limited by the descriptor)
        if raw["new"] is None and raw["pts"] != written[:len(raw["pts"])]:
            bad = ("c05-raw", "the raw iterator does not return the written values")
        e = exps[i]
        for k in m["opts"]:
            if bad:
                break
            s = per.get(k)
            if s is None:
                bad = ("c05-missing", "no result for option vector %d: %s" % (k, o_impl[i][:200]))
                break
            rpk = dict(rp, options=k)
            if raw["new"] is not None:
                # the queue reader could not be created: the same failure on both iterators
                if s["new"] != raw["new"]:
                    bad = ("c05-fails-only-if", "raw constructor: %s, simple constructor (options %d): %s" % (raw["new"], k, s["new"]))
                continue
            if isinstance(e, tuple):
                causes["limits rejected by the constructor"] = causes.get("limits rejected by the constructor", 0) + 1
                if s["new"] == "e" + e[1] and raw["end"] == "none":
                    note_finding(rep, "c05-constructor-rejects-limits", "limits %s / %s: pointcloud_simple fails with %s, pointcloud_raw reads %d points" %
                                 (m["d"]["il"], m["d"]["cl"], s["new"], raw["n"]), rpk)
                if s["new"] != "e" + e[1]:
                    bad = ("c05-fails-only-if", "limits %s / %s are not a usable range but the simple iterator (options %d) answers %s" %
                           (m["d"]["il"], m["d"]["cl"], k, s["new"] or "ok"))
                continue
            if s["new"] is not None:
                bad = ("c05-fails-only-if", "the simple iterator cannot be created (%s) although the raw iterator can and the limits are usable" % s["new"])
                continue
            views = e[k]
            # the written points beyond what the raw iterator returned may have been decoded ahead
            firsterr = next((j for j, v in enumerate(views) if isinstance(v, tuple)), None)
            n_points += s["n"]
            if s["end"] == raw["end"] and s["n"] == raw["n"] and firsterr is None:
                for j in range(s["n"]):
                    if s["pts"][j] != views[j]:
                        bad = ("c05-view", "point %d under options %d is %s, the documented view of its raw values %s is %s" %
                               (j, k, s["pts"][j][:200], raw["pts"][j][:120], views[j][:200]))
                        rpk["point_index"] = j
                        break
            elif firsterr is not None:
                kind = views[firsterr][1]
                cause = "invalid-state value outside its set" if kind == "Invalid" else "invalid-state/row/column record that is not an integer"
                causes[cause] = causes.get(cause, 0) + 1
                if kind == "Internal" and s["end"] == "eInternal":
                    note_finding(rep, "c05-index-record-not-integer", "an invalid-state/row/column record that is not an integer: the simple iterator fails with Internal at raw point %d, the raw iterator reads %d points" %
                                 (firsterr, raw["n"]), rpk)
                if s["end"] != "e" + kind or s["n"] > firsterr:
                    bad = ("c05-fails-only-if", "raw point %d has no documented view (%s) but the simple iterator (options %d) returned %d points and ended with %s" %
                           (firsterr, kind, k, s["n"], s["end"]))
                else:
                    j = next((j for j in range(s["n"]) if s["pts"][j] != views[j]), None)
                    if j is not None:
                        bad = ("c05-view", "point %d under options %d (delivered before a later point failed) is %s, the documented view of its raw values %s is %s" %
                               (j, k, s["pts"][j][:200], raw["pts"][j][:120], views[j][:200]))
                        rpk["point_index"] = j
            else:
                # no failing point among those the raw iterator returned: nothing excuses a difference
                # (values behind the last point are not converted since 1d9b775)
                bad = ("c05-count-order", "raw iterator: %d points, end %s; simple iterator (options %d): %d points, end %s" %
                       (raw["n"], raw["end"], k, s["n"], s["end"]))
            if bad:
                rp = rpk
        if bad:
            n_dir += 1
            rep.violation(bad[0], bad[1], rp)
        elif o_model[i] != o_impl[i] or o_rel[i] != o_impl[i]:
            n_corr += 1
            other = o_rel[i] if o_rel[i] != o_impl[i] else o_model[i]
            # first differing segment
            a, b = o_impl[i].split(" # "), other.split(" # ")
            j = next((j for j in range(min(len(a), len(b))) if a[j] != b[j]), min(len(a), len(b)))
            rep.violation("correspondence-c05", "%s differ on a file (segment %d): impl=%s | other=%s" %
                          ("debug/release" if o_rel[i] != o_impl[i] else "model/implementation", j, (a[j] if j < len(a) else "")[:220], (b[j] if j < len(b) else "")[:220]),
                          dict(rp, failing="correspondence simple iterator model vs implementation"), no_input=True)
    # the extracted Spec view on a sample of raw points, against the Python view (three-way agreement)
    vl, vexp, vkeys = [], [], []
    for m, (raw, per), e in zip(metas, parsed, exps):
        if m["case"]["big"] or isinstance(e, tuple) or not raw["pts"]:
            continue
        p = raw["pts"][0]
        ks = m["opts"][:16]
        vl.append("VIEW %s %s %s" % (m["desc"], ",".join(map(str, ks)), p))
        r = Recorder(trig)
        try:
            rgs = ranges_of(m["d"])
        except ViewErr:
            continue
        row = []
        for k in ks:
            try:
                row.append(view(m["d"], rgs, k, p.split(","), r))
            except ViewErr as ex:
                row.append("e" + ex.kind)
        vexp.append(" ".join(row)); vkeys.append(r.used)
    vl = vl[:len(vexp)]
    vo, _ = run_with_table(vl, trig, vkeys)
    n_view = 0
    for l, a, b in zip(vl, vo, vexp):
        n_view += 1
        if a != b:
            n_corr += 1
            rep.violation("correspondence-c05", "the extracted Spec view and the check's own view differ: %s | %s" % (a[:200], b[:200]),
                          dict(kind="view", line=l[:2000], failing="Spec.view vs Python view"), no_input=True)
    stats.update(file_direct_failures=n_dir, file_correspondence_failures=n_corr, simple_points_compared=n_points,
                 failures_by_cause=causes, spec_view_cases=n_view, file_model_rounds=rounds)
    return stats, metas, o_impl


def run(rep, tier, rng, replay=None):
    ok = core.proof_step(rep, "C05", thorough=(tier == "thorough"))
    rep.cov["trusted_base"] = core.TRUSTED_COMMON + [
        "Flocq 4.1.0 binary64/binary32 as the meaning of Rust's f64/f32 arithmetic (checked bit for bit against the hardware by this run)",
        "cos, sin, asin, atan2 are not modelled: the theorems hold for any four functions; in the tie they are a table of what Rust's libm returned in this run",
        "Python's float arithmetic (IEEE binary64, round to nearest even; struct for binary32) in the direct oracle",
        "the point cloud descriptor is given to the model as parsed by the implementation (the XML layer is C04's)"]
    if not ok:
        return
    trig = Trig()
    if replay:
        if replay.get("kind") == "postprocess":
            st = unit_level(rep, rng, tier, trig, replay)
            rep.cov.update(st)
        else:
            st, _, _ = file_level(rep, rng, tier, trig, replay)
            rep.cov.update(st)
        return
    st_u = unit_level(rep, rng.fork(), tier, trig)
    st_f, metas, o_impl = file_level(rep, rng.fork(), tier, trig)
    rep.cov.update(st_u)
    rep.cov.update(st_f)
    protos = {}
    for m in metas:
        for nm, _ in m["case"]["proto"]:
            protos[nm] = protos.get(nm, 0) + 1
    rep.cov.update(attribute_histogram=protos, trig_table_entries=len(trig.table),
                   tamper_histogram={w: sum(1 for m in metas if str(m["what"]) == w) for w in sorted(set(str(m["what"]) for m in metas))},
                   option_vectors_per_small_file=64, traces_validated_against_impl=st_u["unit_cases"] + st_f["files"])
    if metas:
        m = metas[len(metas) // 2]
        rep.sample(dict(kind="file", descriptor=m["desc"][:300], options=m["opts"][:8], impl=o_impl[len(metas) // 2][:400]))
    rep.cov["rule"] = ("(a) unit: random Points (valid/direction/invalid Cartesian and spherical, colour/intensity present or not, special floats) x the three "
                       "conversion switches x poses (absent, none, identity, axis rotations, random unit and non-unit quaternions, translations) through "
                       "e57::verif::postprocess; oracle: the documented conversions recomputed in Python with Rust's libm by table, bit for bit; the pose "
                       "additionally against q v q* + t in exact rationals. (b) files from the C01 prototype generator (all attribute subsets, "
                       "single/double/integer/scaled integer, colours as u8/u16/float/scaled, invalid-state records with values 0,1,2) plus prototypes the writer refuses "
                       "(out-of-set invalid states, non-integer state/index records, incomplete triples, duplicate names, state without coordinates) written under neutral names, "
                       "poses and limits through the writer API, descriptor alterations (record count smaller/larger/zero, reversed/NaN/infinite/absent limits, infinite pose), "
                       "multi-packet files with an out-of-set value in the second packet; read with pointcloud_raw and pointcloud_simple under all 64 option vectors "
                       "(files of at most 5 points) or a covering subset. Oracle: same count and order as raw, every Point equals the Python view, failures only for the "
                       "causes the theorem lists. Correspondence: extracted simple iterator = implementation (debug and release) bit for bit; extracted Spec view = Python view. "
                       "distinct = distinct case texts")
