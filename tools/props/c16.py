"""C16 - device faults surface as errors; short I/O changes nothing."""
import os
from vlib import core, gen, crash

SCHEDULES = ["1", "2,5", "7,1,300", "1000,1,1,24", "1023", "4096", "100"]
FAULT_SCHEDULES = ["1023", "7,1,300"]


def gen_programs(rng, tier):
    P = crash.SMALL_PROTOS
    pts = lambda p, n: gen.rand_points(rng, p, n)
    progs = [
        dict(tag="empty", items=[]),
        dict(tag="blob,pointcloud", items=[("B", rng.bytes(700)), ("P", P[0], pts(P[0], 5))]),
        dict(tag="image+mask,blob-over-page,pointcloud", items=[("I", "v", rng.bytes(400), rng.bytes(5)), ("B", rng.bytes(1021)), ("P", P[2], pts(P[2], 3))]),
        dict(tag="pointcloud,empty-blob,image", items=[("P", P[3], pts(P[3], 40)), ("B", b""), ("I", "c", rng.bytes(3), None)]),
        dict(tag="dropped sub-writers", items=[("PD", P[1], pts(P[1], 2)), ("ID", "s", rng.bytes(60), rng.bytes(1)), ("B", rng.bytes(4))]),
        dict(tag="unfinalized", nofin=True, items=[("B", rng.bytes(956)), ("P", P[0], pts(P[0], 2))]),
        # the second public entry point of the top-level finalize
        dict(tag="finalize_customized_xml", finx=True, items=[("P", P[1], pts(P[1], 3)), ("B", rng.bytes(200))]),
    ]
    # the section header of the item after the first blob ends on / straddles the page boundary (logical 1020):
    # the writes inside one library call that reach the device only there
    followers = [lambda: ("B", rng.bytes(10)), lambda: ("P", P[0], pts(P[0], 2)), lambda: ("I", "s", rng.bytes(7), rng.bytes(2))]
    sweep = [(940, 0), (948, 1), (944, 2), (924, 1)] if tier == "quick" else [(L, j) for L in range(900, 1016, 4) for j in range(3)]
    for L, j in sweep:
        progs.append(dict(tag="boundary-%d" % L, items=[("B", rng.bytes(L)), followers[j]()]))
    for _ in range(6 if tier == "quick" else 60):
        nofin = rng.chance(1, 8)
        progs.append(dict(tag="random", nofin=nofin, finx=(not nofin and rng.chance(1, 3)),
                          items=[crash.rand_item(rng, allow_dropped=True) for _ in range(rng.range(1, 3))]))
    return progs


def call_names(prog):
    """kind of library call behind each result token position"""
    names = ["new"]
    for it in prog["items"]:
        k = {"B": "add_blob", "I": "image", "ID": "image(dropped)", "P": "pointcloud", "PD": "pointcloud(dropped)"}[it[0]]
        names += [k] * (2 if it[0] in ("I", "ID") and it[3] is not None else 1)
    return names + ["finalize"]


def check_writer(rep, prog, impl, stats, chunks="-", with_model=True, only_k=None):
    """fault at every device operation of one writer program (with the given chunk schedule)"""
    text = crash.prog_text(prog)
    rdict = dict(kind="fault-writer", items=[crash.item_tok(i) for i in prog["items"]], nofin=bool(prog.get("nofin")), finx=bool(prog.get("finx")), chunks=chunks)
    ref = crash.parse_cw(core.run_one(impl, crash.cw_line(prog, chunks=chunks, flags=("stop",))))
    if ref["crash"] or any(crash.is_fail_tok(t) for t in ref["outs"]):
        raise core.InfraError("C16 generator produced a program the writer rejects: %s -> %s" % (text[:200], ref["raw"][:200]))
    ops = ref["ops"]
    ks = list(range(ops)) if only_k is None else [only_k]
    lines = [crash.cw_line(prog, fault=k, chunks=chunks, flags=("stop",)) for k in ks]
    res = core.run_cases(impl, lines)
    mres = None
    if with_model:
        mlines = [crash.cw_line(prog, fault="-", flags=("stop",), xml=ref["xml"] or None)] + \
                 [crash.cw_line(prog, fault=k, flags=("stop",), xml=ref["xml"] or None) for k in ks]
        mres = core.run_cases(core.DRIVER, mlines)
    rep.count(len(lines) * (2 if with_model else 1))
    stats["writer_fault_points"] += len(lines)
    names = call_names(prog)
    for idx, k in enumerate(ks):
        a = crash.parse_cw(res[idx])
        r2 = dict(rdict, fault=k)
        outs = a["outs"]
        bad = None
        if a["crash"] or "P" in outs or "dropP" in outs or "new:P" in outs:
            bad = ("c16-panic", "a writer call panicked under a device fault at operation %d: %s" % (k, " ".join(outs)[:160]))
        else:
            fi = next((i for i, t in enumerate(outs) if crash.is_fail_tok(t)), None)
            if fi is None:
                # every call returned ok: only a fault inside Drop (after finalize returned) may be swallowed
                in_drop = ref["finops"] is not None and k >= ref["finops"]
                if not crash.outs_eq(outs, ref["outs"]):
                    bad = ("c16-fault-not-surfaced", "fault at operation %d: no error, but results differ from the fault-free run: %s vs %s" % (k, " ".join(outs)[:100], " ".join(ref["outs"])[:100]))
                elif not in_drop:
                    bad = ("c16-fault-not-surfaced", "device fault at operation %d (the last call returned at operation %d, Drop follows) and every call returned ok: %s" % (k, ref["finops"], " ".join(outs)[:120]))
                else:
                    stats["where"]["drop(swallowed)"] = stats["where"].get("drop(swallowed)", 0) + 1
                if bad is None and not prog.get("nofin") and (a["len"], a["h"]) != (ref["len"], ref["h"]):
                    bad = ("c16-finalize-ok-incomplete", "finalize returned ok under a fault at operation %d but the device (len %s, hash %s) is not the fault-free file (len %s, hash %s)" %
                           (k, a["len"], a["h"], ref["len"], ref["h"]))
            else:
                if not crash.outs_eq(outs[:fi], ref["outs"][:fi]):
                    bad = ("c16-fault-not-surfaced", "fault at operation %d: results before the failing call differ from the fault-free run: %s vs %s" % (k, " ".join(outs[:fi])[:100], " ".join(ref["outs"][:fi])[:100]))
                else:
                    # the call that fails is the call during which operation k is issued
                    ci = crash.call_of_token(prog, fi)
                    co = ref["callops"]
                    lo = co[ci - 1] if ci > 0 else 0
                    if not (ci < len(co) and lo <= k < co[ci]):
                        bad = ("c16-fault-not-surfaced", "fault at operation %d is issued during call %d of the fault-free run (operations after each call: %s) but call %d reports the error" %
                               (k, next((i for i, x in enumerate(co) if k < x), len(co)), co, ci))
                nm = "new" if outs[fi].startswith("new:") or fi == 0 else (names[fi] if fi < len(names) else "finalize")
                stats["where"][nm] = stats["where"].get(nm, 0) + 1
        if bad:
            stats["direct_bad"] += 1
            rep.violation(bad[0], bad[1] + " [%s]%s" % (text[:100], "" if chunks == "-" else " chunks " + chunks), r2)
        elif with_model:
            m = mres[idx + 1].rstrip()
            if not crash.raw_eq(a["raw"], m):
                stats["corr_bad"] += 1
                rep.violation("correspondence-c16", "model/implementation differ under a device fault at operation %d of a writer program: impl=%s | model=%s" % (k, a["raw"][:170], m[:170]),
                              dict(r2, failing="correspondence CWLOG with fault index (results, device bytes, operation count, write log)"), no_input=True)
    if with_model and only_k is None and not crash.raw_eq(ref["raw"], mres[0].rstrip()):
        stats["corr_bad"] += 1
        rep.violation("correspondence-c16", "model/implementation differ on a fault-free writer program: impl=%s | model=%s" % (ref["raw"][:170], mres[0][:170]),
                      dict(rdict, failing="correspondence CWLOG"), no_input=True)
    return ref


def capacities_for(log, final_len):
    """capacities of a full device: every write boundary of the fault-free run (start and end of every write)
    -2..+2 bytes, a few places inside every page, and the sizes at which everything just fits / just does not"""
    caps = set()
    for pos, bs in log:
        for b in (pos, pos + len(bs)):
            caps.update(b + d for d in (-2, -1, 0, 1, 2))
    for page in range(0, final_len, 1024):
        caps.update(page + d for d in (16, 47, 48, 49, 500, 1019, 1020, 1021, 1023))
    caps.update([0, 1, final_len - 1, final_len, final_len + 1, final_len + 1024])
    return sorted(c for c in caps if 0 <= c <= final_len + 1024)


def check_capacity(rep, prog, impl, stats, chunks="-", only_cap=None):
    """a device of fixed capacity (write returns Ok(0) once it is full, a short count when a write straddles the
    capacity): some call up to and including finalize returns an error, or finalize returned ok and the device
    holds exactly the complete file of the run on an unbounded device"""
    if prog.get("nofin"):
        return
    text = crash.prog_text(prog)
    rdict = dict(kind="capacity-writer", items=[crash.item_tok(i) for i in prog["items"]], finx=bool(prog.get("finx")), chunks=chunks)
    ref = crash.parse_cw(core.run_one(impl, crash.cw_line(prog, chunks=chunks, flags=("stop", "log"))))
    if ref["crash"] or any(crash.is_fail_tok(t) for t in ref["outs"]):
        raise core.InfraError("C16 generator produced a program the writer rejects: %s -> %s" % (text[:200], ref["raw"][:200]))
    caps = capacities_for(ref["log"], ref["len"]) if only_cap is None else [only_cap]
    ctok = lambda c: ("cap%d" % c) if chunks == "-" else "%s/cap%d" % (chunks, c)
    res = core.run_cases(impl, [crash.cw_line(prog, chunks=ctok(c), flags=("stop",)) for c in caps])
    rep.count(len(caps))
    stats["capacity_points"] += len(caps)
    for c, line in zip(caps, res):
        a = crash.parse_cw(line)
        outs = a["outs"]
        bad = None
        if a["crash"] or "P" in outs or "dropP" in outs or "new:P" in outs:
            bad = ("c16-panic", "a writer call panicked on a device of capacity %d bytes: %s" % (c, " ".join(outs)[:160]))
        elif any(crash.is_fail_tok(t) for t in outs):
            stats["capacity_errors"] += 1
            if c >= ref["len"]:
                bad = ("c16-spurious-error", "the complete file (%d bytes) fits on a device of capacity %d, yet a call failed: %s" % (ref["len"], c, " ".join(outs)[:120]))
        else:
            stats["capacity_ok"] += 1
            if (a["len"], a["h"]) != (ref["len"], ref["h"]):
                bad = ("c16-full-device-not-surfaced",
                       "device of capacity %d bytes (write returns Ok(0) when full): every call including finalize returned ok (%s) but the device holds %s bytes "
                       "(hash %s), not the complete file of %d bytes (hash %s)" % (c, " ".join(outs)[:80], a["len"], a["h"], ref["len"], ref["h"]))
        if bad:
            stats["direct_bad"] += 1
            rep.violation(bad[0], bad[1] + " [%s]%s" % (text[:100], "" if chunks == "-" else " chunks " + chunks), dict(rdict, capacity=c))


def make_files(rng, impl, tier):
    """finalized files with their reader operations"""
    P = crash.SMALL_PROTOS
    files = []
    specs = [
        [("B", rng.bytes(500)), ("P", P[0], gen.rand_points(rng, P[0], 7)), ("I", "p", rng.bytes(1500), rng.bytes(20))],
        [("P", P[2], gen.rand_points(rng, P[2], 30)), ("B", rng.bytes(3)), ("P", P[3], gen.rand_points(rng, P[3], 2))],
    ]
    for _ in range(2 if tier == "quick" else 8):
        specs.append([crash.rand_item(rng) for _ in range(rng.range(1, 4))])
    for items in specs:
        prog = dict(items=items)
        a = crash.parse_cw(core.run_one(impl, crash.cw_line(prog, flags=("dump",))))
        if a["crash"] or any(crash.is_fail_tok(t) for t in a["outs"]):
            raise core.InfraError("C16: file generation failed: " + a["raw"][:200])
        bops = crash.blob_ops(a["outs"])
        sess = ["X"]
        pcs = iter(crash.pc_descs(a["outs"]))
        for it in items:
            if it[0] == "P":
                off, n = next(pcs)
                sess.append("R:%d:%d:%s:all" % (off, n, ",".join(t for _, t in it[1])))
        # blobs in reverse order: the reader has to seek back
        sess += list(reversed(bops))
        files.append(dict(items=[crash.item_tok(i) for i in items], dev=a["dev"], bops=bops, sess=sess))
    return files


def reader_cases(f, name):
    """(kind, line template with {k} {c}, compared with the model?)"""
    return [
        ("CRD", "CRD {k} {c} @%s %s" % (name, " ".join(f["bops"])), False),
        ("CSESS", "CSESS {k} {c} stop @%s %s" % (name, " ".join(f["sess"])), True),
        ("COPEN", "COPEN {k} {c} @%s" % name, True),
        ("CVCRC", "CVCRC {k} {c} @%s" % name, True),
        ("CRAWXML", "CRAWXML {k} {c} @%s" % name, True),
    ]


def reader_oracle(kind, line, ref):
    """(class, text) | None, failing-part name.  `ref` is the fault-free line."""
    segs, _ = crash.split_crd(line)
    rsegs, _ = crash.split_crd(ref)
    if line.startswith("CRASH") or crash.seg_panics(segs) or line.split(" | ")[0] == "P":
        return ("c16-panic", "a reader call panicked: %s" % line[:160]), None
    if kind in ("COPEN", "CVCRC", "CRAWXML"):
        if line.split(" | ")[0].startswith("e"):
            return None, kind.lower()[1:]
        return ("c16-fault-not-surfaced", "%s returned [%s] although a device operation failed" % (kind[1:], line[:120])), None
    if kind == "CSESS":
        # ' # ' separated results, no tags: open:..., xml=..., n=... end=..., ok n=... / e...
        for i, s in enumerate(segs):
            failed = (s.startswith("open:") and s != "open:ok") or s.startswith("new:") or " end=e" in s or s.startswith("e")
            if failed:
                if segs[:i] != rsegs[:i]:
                    return ("c16-fault-not-surfaced", "results before the failing read differ from the fault-free session: %s vs %s" % (segs[:i][-1][:80], rsegs[:i][-1][:80])), None
                if " end=e" in s:
                    n = int(s.split("n=")[1].split()[0]); rn = int(rsegs[i].split("n=")[1].split()[0])
                    pts = s.split(" pts=")[1] if " pts=" in s else None
                    rpts = rsegs[i].split(" pts=")[1] if " pts=" in rsegs[i] else None
                    if n > rn or (pts and rpts is not None and not (rpts == pts or rpts.startswith(pts + ";"))):
                        return ("c16-fault-not-surfaced", "points delivered before the error are not a prefix of the fault-free points"), None
                return None, ("open" if s.startswith("open:") else "raw-iteration" if ("end=" in s or s.startswith("new:")) else "blob")
        return ("c16-fault-not-surfaced", "a device operation failed but every read of the session succeeded: %s" % line[:160]), None
    # CRD: tagged segments
    for i, s in enumerate(segs):
        if crash.seg_failed(s):
            for x, y in zip(segs[:i], rsegs[:i]):
                if x != y:
                    return ("c16-fault-not-surfaced", "results before the failing read differ from the fault-free run: [%s] vs [%s]" % (x[:80], y[:80])), None
            if i < len(rsegs) and not crash.read_seg_ok(s, rsegs[i]):
                return ("c16-fault-not-surfaced", "the failing read delivered data that is not a prefix of the fault-free result: [%s] vs [%s]" % (s[:80], rsegs[i][:80])), None
            return None, ("open" if s.startswith("open:") else "raw-iteration" if s.startswith("it ") else "blob")
    return ("c16-fault-not-surfaced", "a device operation failed but every read succeeded: %s" % line[:160]), None


def check_readers(rep, files, impl, stats, chunks="-", with_model=True, only=None):
    prelude = ["BASE f%d %s" % (i, f["dev"].hex()) for i, f in enumerate(files)]
    jobs = []      # (file index, kind, template, model?, ref)
    for i, f in enumerate(files):
        for kind, tmpl, model in reader_cases(f, "f%d" % i):
            if only and (only["file_index"] != i or only["case_kind"] != kind):
                continue
            jobs.append([i, kind, tmpl, model and with_model])
    refs = core.run_cases(impl, [j[2].format(k="-", c=chunks) for j in jobs], prelude=prelude)
    lines, owner = [], []
    for ji, (i, kind, tmpl, model) in enumerate(jobs):
        _, ops = crash.split_crd(refs[ji])
        if ops is None:
            raise core.InfraError("no operation count in " + refs[ji][:100])
        for k in ([only["fault"]] if only else range(ops)):
            lines.append(tmpl.format(k=k, c=chunks)); owner.append((ji, k))
    res = core.run_cases(impl, lines, prelude=prelude)
    midx = [n for n, (ji, k) in enumerate(owner) if jobs[ji][3]]
    mres = dict(zip(midx, core.run_cases(core.DRIVER, [lines[n] for n in midx], prelude=prelude))) if midx else {}
    mref = core.run_cases(core.DRIVER, [j[2].format(k="-", c="-") for j in jobs if j[3]], prelude=prelude) if with_model else []
    rep.count(len(lines) + len(midx))
    stats["reader_fault_points"] += len(lines)
    # fault-free correspondence
    for j, m in zip([j for j in jobs if j[3]], mref):
        a = refs[jobs.index(j)]
        if a != m.rstrip() and chunks == "-":
            stats["corr_bad"] += 1
            rep.violation("correspondence-c16", "model/implementation differ on a fault-free reader case %s: impl=%s model=%s" % (j[1], a[-200:], m[-200:]),
                          dict(kind="fault-reader", case_kind=j[1], file_items=files[j[0]]["items"], failing="correspondence " + j[1]), no_input=True)
    for n, ((ji, k), line) in enumerate(zip(owner, res)):
        i, kind, tmpl, model = jobs[ji]
        bad, part = reader_oracle(kind, line, refs[ji])
        r2 = dict(kind="fault-reader", case_kind=kind, file_items=files[i]["items"], file_index=i, fault=k, chunks=chunks)
        if bad:
            stats["direct_bad"] += 1
            rep.violation(bad[0], "%s: fault at device operation %d%s: %s" % (kind, k, "" if chunks == "-" else " (chunks %s)" % chunks, bad[1]), r2)
        else:
            stats["where"]["read:" + part] = stats["where"].get("read:" + part, 0) + 1
            if model and chunks == "-" and line != mres[n].rstrip():
                stats["corr_bad"] += 1
                rep.violation("correspondence-c16", "model/implementation differ under a device fault at operation %d of %s: impl=%s | model=%s" % (k, kind, line[-170:], mres[n][-170:]),
                              dict(r2, failing="correspondence %s with fault index" % kind), no_input=True)


def check_chunking(rep, progs, files, impl, stats, schedules):
    """short transfers: byte-identical files, identical results, identical read results"""
    lines, meta = [], []
    for pi, prog in enumerate(progs):
        for c in ["-"] + schedules:
            lines.append(crash.cw_line(prog, chunks=c)); meta.append(("w", pi, c))
    prelude = ["BASE f%d %s" % (i, f["dev"].hex()) for i, f in enumerate(files)]
    for i, f in enumerate(files):
        for kind, tmpl, _ in reader_cases(f, "f%d" % i):
            for c in ["-"] + schedules:
                lines.append(tmpl.format(k="-", c=c).replace(" stop ", " - ")); meta.append((kind, i, c))
    res = core.run_cases(impl, lines, prelude=prelude)
    rep.count(len(lines))
    base = {}
    for (kind, i, c), line in zip(meta, res):
        if kind == "w":
            a = crash.parse_cw(line)
            val = (tuple(a["outs"]), a["len"], a["h"])
        else:
            val = line.rpartition(" | ops=")[0]
        if c == "-":
            base[(kind, i)] = val
            continue
        stats["chunk_runs"] += 1
        if val != base[(kind, i)]:
            stats["direct_bad"] += 1
            if kind == "w":
                rep.violation("c16-chunking-changes-result", "writer program gives a different %s with chunk schedule [%s]: %s vs %s [%s]" %
                              ("file" if val[0] == base[(kind, i)][0] else "result", c, str(val)[:120], str(base[(kind, i)])[:120], crash.prog_text(progs[i])[:80]),
                              dict(kind="chunk-writer", items=[crash.item_tok(x) for x in progs[i]["items"]], nofin=bool(progs[i].get("nofin")), finx=bool(progs[i].get("finx")), chunks=c))
            else:
                rep.violation("c16-chunking-changes-result", "%s gives a different result with chunk schedule [%s]: %s vs %s" % (kind, c, val[-150:], base[(kind, i)][-150:]),
                              dict(kind="chunk-reader", case_kind=kind, file_items=files[i]["items"], file_index=i, chunks=c))


def observe_stale_page(impl):
    """DESIGN 7/C16: after an I/O error inside PagedReader::read_page the cache may still name the old page.
    Reported, never a violation."""
    first = bytes(range(1, 201))
    # page 1 starts at physical 1024; bytes 48..64 of it shall look like a blob header (type 0, huge length)
    head = 48 + 16 + len(first)             # blob 2 starts here (200 is a multiple of 4)
    filler = (1020 - head - 16)             # data bytes of blob 2 that still lie on page 0
    second = bytearray((i * 7 + 3) % 251 + 1 for i in range(filler + 400))
    crafted = bytearray(second)
    crafted[filler + 48: filler + 64] = bytes(8) + (1 << 40).to_bytes(8, "little")
    out = []
    for name, data in (("plain second blob", second), ("second blob crafted so that page 1 looks like a blob header at offset 48", crafted)):
        prog = dict(items=[("B", first), ("B", bytes(data))])
        a = crash.parse_cw(core.run_one(impl, crash.cw_line(prog, flags=("dump",))))
        b1, b2 = crash.blob_ops(a["outs"])
        base = ["BASE o " + a["dev"].hex()]
        ref = core.run_cases(impl, ["CSESS - 100 - @o %s %s %s" % (b1, b2, b1)], prelude=base)[0]
        _, ops = crash.split_crd(ref)
        seen = {}
        for k in range(ops):
            line = core.run_cases(impl, ["CSESS %d 100 - @o %s %s %s" % (k, b1, b2, b1)], prelude=base)[0]
            segs, _ = crash.split_crd(line)
            rsegs, _ = crash.split_crd(ref)
            if len(segs) == 4 and segs[1] == rsegs[1] and segs[2].startswith("e") and segs[3] != rsegs[3]:
                cls = "wrong bytes WITHOUT error" if segs[3].startswith("ok") else "error " + segs[3]
                seen.setdefault(cls, []).append(k)
        out.append(dict(file=name, session="blob 1 (page 0), blob 2 (crosses into page 1; the fault hits a later transfer of that page read, chunks [100]), blob 1 again",
                        fault_free=ref[:120], third_read_after_failed_second={c: "fault indices %s" % ks[:12] for c, ks in seen.items()} or "always equal to the first read"))
    return out


def run(rep, tier, rng, replay=None):
    ok = True
    if not os.environ.get("C16_SKIP_PROOF"):
        ok = core.proof_step(rep, "C16", thorough=(tier == "thorough"))
    rep.cov["trusted_base"] = core.TRUSTED_COMMON + [
        "fault model: exactly one device operation (read, write, seek or flush call) fails with an I/O error and has no effect; short transfers follow a cyclic chunk schedule",
        "the model device has no short transfers: chunking is checked on the implementation only (results and bytes against the unchunked run)",
        "full device (write returns Ok(0)): direct oracle on the implementation only - the model device grows without bound, and the chunked device of Model/DeviceChunked.v "
        "transfers at least one byte per call (its write_all loop has the WriteZero branch of std, proved unreachable there), so a 0-byte write is not expressible in the fault model of the proofs",
        "the XML text is taken from the implementation's fault-free run and given to the writer model as an input; a faulted program stops at its first failing call on both sides"]
    if not ok:
        return
    impl = core.ensure_harness("debug")
    stats = dict(writer_fault_points=0, reader_fault_points=0, chunk_runs=0, where={}, direct_bad=0, corr_bad=0,
                 capacity_points=0, capacity_errors=0, capacity_ok=0)
    if replay:
        k = replay.get("kind")
        if k in ("fault-writer", "chunk-writer"):
            prog = dict(items=[crash.parse_item(t) for t in replay["items"]], nofin=replay.get("nofin", False), finx=replay.get("finx", False))
            if k == "fault-writer":
                check_writer(rep, prog, impl, stats, chunks=replay.get("chunks", "-"), with_model=replay.get("chunks", "-") == "-", only_k=replay.get("fault"))
            else:
                check_chunking(rep, [prog], [], impl, stats, [replay["chunks"]])
        elif k == "capacity-writer":
            prog = dict(items=[crash.parse_item(t) for t in replay["items"]], finx=replay.get("finx", False))
            check_capacity(rep, prog, impl, stats, chunks=replay.get("chunks", "-"), only_cap=replay.get("capacity"))
        elif k in ("fault-reader", "chunk-reader"):
            prog = dict(items=[crash.parse_item(t) for t in replay["file_items"]])
            a = crash.parse_cw(core.run_one(impl, crash.cw_line(prog, flags=("dump",))))
            files = make_files(core.Rng(0), impl, "quick")[:0]
            bops = crash.blob_ops(a["outs"]); sess = ["X"]; pcs = iter(crash.pc_descs(a["outs"]))
            for it in prog["items"]:
                if it[0] == "P":
                    off, n = next(pcs); sess.append("R:%d:%d:%s:all" % (off, n, ",".join(t for _, t in it[1])))
            files = [dict(items=replay["file_items"], dev=a["dev"], bops=bops, sess=sess + list(reversed(bops)))]
            if k == "fault-reader":
                check_readers(rep, files, impl, stats, chunks=replay.get("chunks", "-"), with_model=replay.get("chunks", "-") == "-",
                              only=dict(file_index=0, case_kind=replay["case_kind"], fault=replay["fault"]))
            else:
                check_chunking(rep, [], files, impl, stats, [replay["chunks"]])
        return
    progs = gen_programs(rng, tier)
    for prog in progs:
        check_writer(rep, prog, impl, stats)
        rep.distinct(gen.fnv_hex(crash.prog_text(prog).encode()))
    files = make_files(rng, impl, tier)
    check_readers(rep, files, impl, stats)
    check_chunking(rep, progs, files, impl, stats, SCHEDULES)
    # chunks + fault at every operation (implementation only)
    nf = 3 if tier == "quick" else len(progs)
    for c in FAULT_SCHEDULES:
        for prog in progs[1:1 + nf]:
            check_writer(rep, prog, impl, stats, chunks=c, with_model=False)
        check_readers(rep, files[:1] if tier == "quick" else files, impl, stats, chunks=c, with_model=False)
    # a full device: capacity swept over every write boundary; also with short transfers
    for prog in progs:
        check_capacity(rep, prog, impl, stats)
    for prog in progs[1:1 + nf]:
        check_capacity(rep, prog, impl, stats, chunks="7,1,300")
    rep.cov["observations"] = observe_stale_page(impl)
    rep.cov["exhaustive"] = True
    rep.cov.update(programs=len(progs), program_tags=[p["tag"] for p in progs][:10], reader_files=len(files),
                   writer_fault_points=stats["writer_fault_points"], reader_fault_points=stats["reader_fault_points"],
                   total_fault_points=stats["writer_fault_points"] + stats["reader_fault_points"],
                   chunk_schedules=SCHEDULES, chunk_schedules_combined_with_faults=FAULT_SCHEDULES, chunked_runs=stats["chunk_runs"],
                   failing_call_distribution=stats["where"], direct_failures=stats["direct_bad"], correspondence_failures=stats["corr_bad"],
                   traces_validated_against_impl=stats["writer_fault_points"] + stats["reader_fault_points"],
                   full_device_capacities=stats["capacity_points"], full_device_runs_with_error=stats["capacity_errors"],
                   full_device_runs_all_ok_and_complete=stats["capacity_ok"])
    rep.sample(dict(kind="writer program", text=crash.prog_text(progs[1])[:200]))
    rep.sample(dict(kind="reader session", ops=files[0]["sess"]))
    rep.cov["rule"] = ("writer programs (blobs, images, point clouds, dropped sub-writers, writer dropped without finalize) and reader cases (open + list + read everything, a session of "
                       "XML / raw iterations / blobs in reverse order, open alone, validate_crc, raw_xml) on the instrumented device; a fault at EVERY device operation index 0..ops-1 of the "
                       "fault-free run. Oracle: results before the failing call equal the fault-free ones, the call in which the fault falls returns an error (an iterator: an error item after a "
                       "prefix of the points), never a panic, never success - except a fault inside Drop after finalize returned, which is swallowed; whenever finalize returned ok the device "
                       "equals the fault-free file. Chunk schedules: identical results and byte-identical files; two schedules also combined with every fault index. Correspondence: for every "
                       "fault index the model gives the same results, device length/hash, operation count and write-log hash (writer) / the same results and operation count (reader). "
                       "Full device: the writer programs on a device of fixed capacity whose write returns Ok(0) once it is full (a short count when a write straddles the capacity); the "
                       "capacity is swept over every write boundary of the unbounded run -2..+2 bytes, places inside every page and the sizes around the complete file, also with a chunk "
                       "schedule. Oracle: some call up to and including finalize returns an error (never a panic), or every call returned ok and the device holds exactly the complete file; "
                       "if the file fits no call fails. Implementation only (no model counterpart). distinct = distinct writer programs")
