"""Generator of E57 XML documents for the XML-extraction slice (xe): templates following the crate's
xml_string functions with every optional field present/absent at random, then structural and lexical
mutations.  Every random choice comes from the core.Rng given.

Tree representation: ["e", name, attrs, children] with attrs = [[name, value], ...];
["t", text, cdata_flag]; ["c", text] comment; ["p", target, value] processing instruction; ["raw", text]."""

E57_NS = "http://www.astm.org/COMMIT/E57/2010-e57-v1.0"

NUMBERS = ["", "+5", "-0", " 5", "5 ", "1e3", "NaN", "inf", "-inf", "1e999", "0x10", str(2 ** 63), str(2 ** 63 - 1),
           str(2 ** 64), str(2 ** 64 - 1), str(-2 ** 63), str(-2 ** 63 - 1), str(2 ** 32), str(2 ** 32 - 1), "-", "+", "+-5", "-+5",
           "00012", "1_000", ".5", "5.", "infinity", "nan", "+NaN", "-nan", "1e-400", "١", "1.0", "-1", "0", "1", "7",
           "0.1", "0" * 30 + "5", "9" * 25, "-" + "9" * 25, "+0", "-00", "1e", "e5", "1,5", "1.5e300", "3.4028236e38", "1e39",
           "4.9e-324", "2.5e-324", "-1e-46", "0.30000000000000004", "123456789012345678", "+4294967295", "-4294967296",
           "18446744073709551615", "+18446744073709551616", "\t1", "1\n", "Infinity", "INF", "+inf", "١٢"]
ATOMIC = ["0", "1", " 1", "1 ", "\n1\n", "\u00a01", "1\u2003", "\u30001 ", "01", "1 1", "", "true", "\u200b1", "\u00851", "1\u2028",
          "+1", "\t1\r", "1\u205f\u1680", "\u20291", "1\u202f", "\u180e1", "1\u200a", "\u20001"]
TYPES = ["String", "Float", "Integer", "ScaledInteger", "Structure", "Vector", "CompressedVector", "Blob", "", "float", "string", "Double"]
STRINGS = ["", "a", "scan 1", "a<b", "x&y", "]]>", "a]]>b]]>", " lead", "trail ", "\n", "äöü", "\U0001F600", "1", "NaN",
           "{A1B2C3D4-0000-1111-2222-333344445555}", "name with spaces", "'quoted\"", "<guid>", "tab\there"]
RECORD_NAMES = ["cartesianX", "cartesianY", "cartesianZ", "cartesianInvalidState", "sphericalRange", "sphericalAzimuth",
                "sphericalElevation", "sphericalInvalidState", "intensity", "isIntensityInvalid", "colorRed", "colorGreen",
                "colorBlue", "isColorInvalid", "rowIndex", "columnIndex", "returnCount", "returnIndex", "timeStamp", "isTimeStampInvalid"]
STD_NAMES = ["e57Root", "formatName", "guid", "versionMajor", "versionMinor", "creationDateTime", "coordinateMetadata",
             "e57LibraryVersion", "data3D", "images2D", "vectorChild", "name", "description", "sensorModel", "sensorVendor",
             "sensorSerialNumber", "sensorHardwareVersion", "sensorSoftwareVersion", "sensorFirmwareVersion", "temperature",
             "relativeHumidity", "atmosphericPressure", "acquisitionStart", "acquisitionEnd", "pose", "cartesianBounds",
             "sphericalBounds", "indexBounds", "intensityLimits", "colorLimits", "originalGuids", "points", "prototype",
             "dateTimeValue", "isAtomicClockReferenced", "translation", "rotation", "w", "x", "y", "z",
             "xMinimum", "xMaximum", "yMinimum", "yMaximum", "zMinimum", "zMaximum", "rangeMinimum", "rangeMaximum",
             "elevationMinimum", "elevationMaximum", "azimuthStart", "azimuthEnd", "rowMinimum", "rowMaximum", "columnMinimum",
             "columnMaximum", "returnMinimum", "returnMaximum", "intensityMinimum", "intensityMaximum", "colorRedMinimum",
             "colorRedMaximum", "colorGreenMinimum", "colorGreenMaximum", "colorBlueMinimum", "colorBlueMaximum",
             "associatedData3DGuid", "acquisitionDateTime", "visualReferenceRepresentation", "pinholeRepresentation",
             "sphericalRepresentation", "cylindricalRepresentation", "jpegImage", "pngImage", "imageMask", "imageWidth",
             "imageHeight", "focalLength", "pixelWidth", "pixelHeight", "principalPointX", "principalPointY", "radius"]
OTHER_NAMES = ["foo", "bar", "extra", "Guid", "GUID", "points2", "readius", "data3d"]


def E(name, attrs=None, children=None):
    return ["e", name, [list(a) for a in (attrs or [])], list(children or [])]


def T(text, cdata=False):
    return ["t", text, cdata]


_root_ns = {}   # prefix -> URI declared at the root of the document being generated
_noise = [60]   # one value in _noise[0] is an edge case (set per document)


def edge(rng):
    return rng.below(_noise[0]) == 0


def fstr(rng):
    if edge(rng):
        return rng.choice(NUMBERS)
    c = 1 + rng.below(9)
    if c <= 2:
        return rng.choice(["0", "1", "-1", "0.5", "1e3", "-2.5e-3", "NaN", "inf", "-inf", "1.7976931348623157e308", "5e-324", "-0"])
    if c <= 5:
        return repr((rng.below(2000001) - 1000000) / rng.choice([1, 10, 1000, 7, 3]))
    if c <= 7:
        return str(rng.below(1000))
    import struct
    v = struct.unpack("<d", struct.pack("<Q", rng.next() & (2 ** 64 - 1)))[0]
    return repr(v) if v == v else "NaN"


def istr(rng, lo=-2 ** 63, hi=2 ** 63 - 1):
    if edge(rng):
        return rng.choice(NUMBERS)
    if edge(rng):
        return str(rng.choice([hi + 1, lo - 1, 2 ** 32, 2 ** 63, 2 ** 64, -1, "-0", "+" + str(hi), "-" + str(-lo if lo < 0 else 1)]))
    c = rng.below(10)
    if c <= 2:
        return rng.choice(["", "-0" if lo < 0 else "+0", "007"] + [str(v) for v in [lo, hi, lo + 1, hi - 1, 0, 1, 255, 65535] if lo <= v <= hi])
    if c == 3:
        return "+" + str(rng.below(100))
    return str(rng.below(5000) - (1000 if lo < 0 else 0))


def sstr(rng):
    return rng.choice(STRINGS) if rng.chance(1, 2) else "s%d" % rng.below(1000)


def gstring(rng, name, value=None):
    v = sstr(rng) if value is None else value
    return E(name, [["type", "String"]], [T(v, rng.chance(3, 4))] if (v != "" or rng.chance(1, 2)) else [])


def gfloat(rng, name):
    return E(name, [["type", "Float"]], [T(fstr(rng))])


def gint(rng, name, lo=-2 ** 63, hi=2 ** 63 - 1):
    return E(name, [["type", "Integer"]], [T(istr(rng, lo, hi))])


def gdatetime(rng, name):
    ch = []
    if not edge(rng):
        ch.append(E("dateTimeValue", [["type", "Float"]], [T(fstr(rng))] if not rng.chance(1, 12) else []))
    if not rng.chance(1, 12):
        ch.append(E("isAtomicClockReferenced", [["type", "Integer"]], [T(rng.choice(ATOMIC) if rng.chance(1, 3) else rng.choice("01"))] if not rng.chance(1, 12) else []))
    return E(name, [["type", "Structure"]], ch)


def gtransform(rng, name):
    ch = []
    if not rng.chance(1, 6):
        ch.append(E("rotation", [["type", "Structure"]], [gfloat(rng, k) for k in "wxyz" if not edge(rng)]))
    if not rng.chance(1, 6):
        ch.append(E("translation", [["type", "Structure"]], [gfloat(rng, k) for k in "xyz" if not edge(rng)]))
    if rng.chance(1, 4):
        ch.reverse()
    return E(name, [["type", "Structure"]], ch)


def gstruct(rng, name, fields, gen):
    return E(name, [["type", "Structure"]], [gen(rng, f) for f in fields if not rng.chance(1, 5)])


def glimit(rng, name):
    c = rng.below(5) if not edge(rng) else 5
    if c == 0:
        return E(name, [["type", "Integer"]], [T(istr(rng))])
    if c == 1:
        return E(name, [["type", "ScaledInteger"]], [T(istr(rng))])
    if c == 2:
        return E(name, [["type", "Float"], ["precision", "single"]], [T(fstr(rng))])
    if c == 3:
        return E(name, [["type", "Float"], ["precision", rng.choice(["double", "single", "double", "single", "half", ""])]], [T(fstr(rng))])
    if c == 4:
        return E(name, [["type", "Float"]], [T(fstr(rng))])
    return E(name, [["type", rng.choice(TYPES)]], [T(fstr(rng))] if rng.chance(1, 2) else [])


def int_range(rng):
    if edge(rng):
        return istr(rng), istr(rng)
    c = rng.below(6)
    if c == 0:
        lo = rng.choice([-2 ** 63, -2 ** 63 + 1, -1, 0, 2 ** 63 - 1]); hi = rng.choice([lo, 2 ** 63 - 1])
    elif c == 1:
        lo = rng.below(100) - 50; hi = lo
    else:
        lo = rng.below(5000) - 1000; hi = lo + rng.below(70000)
    return ("+" if lo >= 0 and rng.chance(1, 8) else "") + str(lo), str(hi)


def grecord(rng, prefixes):
    c = rng.below(8)
    if c <= 4:
        name = rng.choice(RECORD_NAMES)
    elif c == 5:
        name = rng.choice(OTHER_NAMES)
    else:
        if prefixes and not edge(rng):
            name = rng.choice(prefixes) + ":" + rng.choice(OTHER_NAMES + RECORD_NAMES[:4])
        elif edge(rng):
            name = rng.choice(["nope", "ext"]) + ":" + rng.choice(OTHER_NAMES)
        else:
            name = rng.choice(["foo2", "intensity2", "nor"]) if not edge(rng) else "xml:foo"
    attrs = []
    t = rng.below(9)
    if t <= 1:
        attrs.append(["type", "Float"])
        if rng.chance(1, 2):
            attrs.append(["precision", rng.choice(["single", "double", "single"]) if not edge(rng) else "half"])
        if rng.chance(1, 2):
            attrs.append(["minimum", fstr(rng)])
        if rng.chance(1, 2):
            attrs.append(["maximum", fstr(rng)])
    elif t <= 3:
        attrs.append(["type", "Integer"])
        mn, mx = int_range(rng)
        if not rng.chance(1, 4):
            attrs.append(["minimum", mn])
        if not rng.chance(1, 4):
            attrs.append(["maximum", mx])
    elif t <= 6:
        attrs.append(["type", "ScaledInteger"])
        mn, mx = int_range(rng)
        if not rng.chance(1, 4):
            attrs.append(["minimum", mn])
        if not rng.chance(1, 4):
            attrs.append(["maximum", mx])
        if not rng.chance(1, 4):
            attrs.append(["scale", fstr(rng)])
        if not rng.chance(1, 4):
            attrs.append(["offset", fstr(rng)])
    elif edge(rng):
        attrs.append(["type", rng.choice(TYPES)])
    else:
        attrs += [["type", "Integer"], ["minimum", "0"], ["maximum", str(rng.below(70000))]]
    if rng.chance(1, 5) and len(attrs) > 1:
        i = rng.below(len(attrs)); j = rng.below(len(attrs))
        attrs[i], attrs[j] = attrs[j], attrs[i]
    return E(name, attrs, [T(rng.choice(["0", "", "1.5"]))] if rng.chance(1, 2) else [])


def gblob(rng, name):
    return E(name, [["type", "Blob"], ["fileOffset", istr(rng, 0, 2 ** 64 - 1)], ["length", istr(rng, 0, 2 ** 64 - 1)]])


def gpointcloud(rng, prefixes):
    ch = []
    def opt(node_fn, p=2):
        if rng.chance(1, p):
            ch.append(node_fn())
    opt(lambda: gstring(rng, "guid"), 1 if rng.chance(5, 6) else 2)
    opt(lambda: E("originalGuids", [["type", "Vector"], ["allowHeterogeneousChildren", "0"]],
                  [gstring(rng, "vectorChild") if not rng.chance(1, 6) else
                   E(rng.choice(["vectorChild", "vectorChild", "guid"]), [["type", rng.choice(TYPES)]], [T(sstr(rng))])
                   for _ in range(rng.below(4))]), 4)
    opt(lambda: gstruct(rng, "cartesianBounds", ["xMinimum", "xMaximum", "yMinimum", "yMaximum", "zMinimum", "zMaximum"], gfloat))
    opt(lambda: gstruct(rng, "sphericalBounds", ["azimuthStart", "azimuthEnd", "elevationMinimum", "elevationMaximum", "rangeMinimum", "rangeMaximum"], gfloat), 3)
    opt(lambda: gstruct(rng, "indexBounds", ["rowMinimum", "rowMaximum", "columnMinimum", "columnMaximum", "returnMinimum", "returnMaximum"], gint), 3)
    opt(lambda: gstruct(rng, "colorLimits", ["colorRedMinimum", "colorRedMaximum", "colorGreenMinimum", "colorGreenMaximum", "colorBlueMinimum", "colorBlueMaximum"], glimit))
    opt(lambda: gstruct(rng, "intensityLimits", ["intensityMinimum", "intensityMaximum"], glimit))
    for nm in ["name", "description", "sensorVendor", "sensorModel", "sensorSerialNumber", "sensorSoftwareVersion", "sensorFirmwareVersion", "sensorHardwareVersion"]:
        opt(lambda: gstring(rng, nm), 3)
    opt(lambda: gtransform(rng, "pose"))
    opt(lambda: gdatetime(rng, "acquisitionStart"), 3)
    opt(lambda: gdatetime(rng, "acquisitionEnd"), 3)
    for nm in ["temperature", "relativeHumidity", "atmosphericPressure"]:
        opt(lambda: gfloat(rng, nm), 3)
    proto = E("prototype", [["type", "Structure"]], [grecord(rng, prefixes) for _ in range(rng.below(7))])
    points = E("points", [["type", "CompressedVector"], ["fileOffset", istr(rng, 0, 2 ** 64 - 1)], ["recordCount", istr(rng, 0, 2 ** 64 - 1)]], [proto])
    ch.append(points)
    local_decl = []   # (element, attribute) to add once the vectorChild exists
    for _ in range(rng.choice([0, 0, 0, 1, 1, 2])):
        # an extension record whose prefix is declared BELOW the root: on the record, the prototype, points or the
        # vectorChild; possibly a second prefix for a URI that an outer level already binds
        lp = rng.choice(["lp", "lq", "l-2"])
        outer = [(p, u) for p, u in _root_ns.items()]
        uri = rng.choice(outer)[1] if outer and rng.chance(1, 3) else rng.choice(["urn:local:a", "urn:local:b"])
        rec = grecord(rng, [lp])
        rec[1] = lp + ":" + rng.choice(OTHER_NAMES + RECORD_NAMES[:4])
        use_outer = [p for p, u in outer if u == uri]
        if use_outer and rng.chance(1, 2):
            rec[1] = rng.choice(use_outer) + ":" + rec[1].split(":")[1]   # the outer prefix, with an inner one for the same URI in scope
        level = rng.below(4)
        proto[3].insert(rng.below(len(proto[3]) + 1), rec)
        local_decl.append((level, rec, ["xmlns:" + lp, uri]))
    if rng.chance(1, 3):
        # the reader does not depend on the order of fields
        for k in range(len(ch)):
            j = rng.below(len(ch)); ch[k], ch[j] = ch[j], ch[k]
    vc = E("vectorChild", [["type", "Structure"]], ch)
    for level, rec, decl in local_decl:
        target = [rec, proto, points, vc][level]
        if all(a[0] != decl[0] for a in target[2]):
            target[2].insert(rng.below(len(target[2]) + 1), decl)
        elif target is not rec and all(a[0] != decl[0] for a in rec[2]):
            rec[2].append(decl)
    return vc


def grep_node(rng, kind):
    ch = [gblob(rng, rng.choice(["jpegImage", "pngImage"]))]
    if rng.chance(1, 8):
        ch.append(gblob(rng, rng.choice(["jpegImage", "pngImage"])))
    if rng.chance(1, 2):
        ch.append(gblob(rng, "imageMask"))
    ch.append(gint(rng, "imageWidth", 0, 2 ** 32 - 1))
    ch.append(gint(rng, "imageHeight", 0, 2 ** 32 - 1))
    fl = {"visualReferenceRepresentation": [],
          "pinholeRepresentation": ["focalLength", "pixelWidth", "pixelHeight", "principalPointX", "principalPointY"],
          "sphericalRepresentation": ["pixelWidth", "pixelHeight"],
          "cylindricalRepresentation": ["radius", "principalPointY", "pixelWidth", "pixelHeight"]}[kind]
    for f in fl:
        if not (rng.chance(1, 4) if kind == "sphericalRepresentation" else edge(rng)):
            ch.append(gfloat(rng, f))
    if rng.chance(1, 5):
        for k in range(len(ch)):
            j = rng.below(len(ch)); ch[k], ch[j] = ch[j], ch[k]
    return E(kind, [["type", "Structure"]], ch)


def gimage(rng):
    ch = []
    if rng.chance(4, 5):
        ch.append(gstring(rng, "guid"))
    if rng.chance(1, 2):
        ch.append(grep_node(rng, "visualReferenceRepresentation"))
    for kind in ["pinholeRepresentation", "sphericalRepresentation", "cylindricalRepresentation"]:
        if rng.chance(1, 3):
            ch.append(grep_node(rng, kind))
    if rng.chance(1, 2):
        ch.append(gtransform(rng, "pose"))
    for nm in ["associatedData3DGuid", "name", "description"]:
        if rng.chance(1, 3):
            ch.append(gstring(rng, nm))
    if rng.chance(1, 3):
        ch.append(gdatetime(rng, "acquisitionDateTime"))
    for nm in ["sensorVendor", "sensorModel", "sensorSerialNumber"]:
        if rng.chance(1, 3):
            ch.append(gstring(rng, nm))
    return E("vectorChild", [["type", "Structure"]], ch)


def gen_tree(rng):
    prefixes = [rng.choice(["ext", "nor", "e1", "my-ns", "x_y"]) for _ in range(rng.choice([0, 0, 1, 1, 2]))]
    prefixes = sorted(set(prefixes))
    attrs = [["type", "Structure"]]
    for p in prefixes:
        attrs.append(["xmlns:" + p, rng.choice(["http://www.example.com/" + p, "urn:x:" + p, "http://a.b/c?d=1&e=2", E57_NS if rng.chance(1, 10) else "u"])])
    if not rng.chance(1, 15):
        attrs.append(["xmlns", E57_NS if not rng.chance(1, 10) else "http://other"])
    _root_ns.clear()
    for a in attrs:
        if a[0].startswith("xmlns:"):
            _root_ns[a[0][6:]] = a[1]
    if rng.chance(1, 5):
        k = rng.below(len(attrs)); attrs.append(attrs.pop(k))
    ch = [gstring(rng, "formatName", "ASTM E57 3D Imaging Data File" if not rng.chance(1, 10) else None),
          gstring(rng, "guid"),
          gint(rng, "versionMajor"), gint(rng, "versionMinor")]
    if rng.chance(1, 2):
        ch.append(gstring(rng, "coordinateMetadata"))
    if rng.chance(1, 2):
        ch.append(gstring(rng, "e57LibraryVersion"))
    if rng.chance(1, 2):
        ch.append(gdatetime(rng, "creationDateTime"))
    if not rng.chance(1, 15):
        ch.append(E("data3D", [["type", "Vector"], ["allowHeterogeneousChildren", "1"]],
                    [gpointcloud(rng, prefixes) for _ in range(rng.choice([0, 1, 1, 1, 2, 3]))]))
    if not rng.chance(1, 8):
        ch.append(E("images2D", [["type", "Vector"], ["allowHeterogeneousChildren", "1"]],
                    [gimage(rng) for _ in range(rng.choice([0, 0, 1, 1, 2, 3]))]))
    if rng.chance(1, 6):
        for k in range(len(ch)):
            j = rng.below(len(ch)); ch[k], ch[j] = ch[j], ch[k]
    return E("e57Root", attrs, ch), prefixes


# ----------------------------------------------------------------------------- mutations

def elements(root, with_parent=False):
    out = []
    def go(n, parent):
        if n[0] == "e":
            out.append((n, parent))
            for c in n[3]:
                go(c, n)
    go(root, None)
    return out if with_parent else [n for n, _ in out]


def clone(n):
    if n[0] == "e":
        return ["e", n[1], [list(a) for a in n[2]], [clone(c) for c in n[3]]]
    return list(n)


def pick_elem(rng, root, pred=lambda n, p: True):
    cands = [(n, p) for n, p in elements(root, True) if pred(n, p)]
    return rng.choice(cands) if cands else (None, None)


def is_leaf(n):
    return n[0] == "e" and all(c[0] != "e" for c in n[3])


def foreign_name(rng, prefixes, local=None):
    """returns (qualified name, extra attrs declaring the prefix locally or [])"""
    local = local or (rng.choice(STD_NAMES) if rng.chance(1, 2) else rng.choice(OTHER_NAMES))
    c = rng.below(6)
    if prefixes and c <= 2:
        return rng.choice(prefixes) + ":" + local, []
    if c <= 4:
        p = rng.choice(["zz", "q", "ext2"])
        return p + ":" + local, [["xmlns:" + p, rng.choice(["urn:foreign", "http://f.g/h", E57_NS if rng.chance(1, 8) else "urn:f2"])]]
    if rng.chance(5, 6):
        return local, [["xmlns", rng.choice(["urn:foreign-default", ""])]]
    return "undeclared:" + local, []


def foreign_subtree(rng, prefixes, root, local=None):
    name, decl = foreign_name(rng, prefixes, local)
    c = rng.below(5)
    if c == 0:
        ch = []
    elif c == 1:
        ch = [T(rng.choice(NUMBERS + STRINGS))]
    elif c == 2:
        # a copy of some standard element inside the foreign one
        n, _ = pick_elem(rng, root)
        ch = [clone(n)] if n is not None and len(elements(n)) < 60 else []
    elif c == 3:
        nm2, d2 = foreign_name(rng, prefixes)
        ch = [E(nm2, d2 + [["type", rng.choice(TYPES)]], [T(rng.choice(NUMBERS))])]
    else:
        ch = [E(rng.choice(STD_NAMES), [["type", rng.choice(TYPES)]], [T(rng.choice(NUMBERS + STRINGS))])]
    attrs = list(decl)
    if rng.chance(1, 2):
        attrs.append(["type", rng.choice(TYPES)])
    return E(name, attrs, ch)


def mutate(rng, root, prefixes):
    """applies one mutation in place; returns its name"""
    k = rng.below(28)
    if k >= 26:
        n, p = pick_elem(rng, root, lambda n, p: p is not None and n[1] in ("points", "prototype", "dateTimeValue", "isAtomicClockReferenced", "vectorChild",
                                                                           "jpegImage", "pngImage", "imageMask") and len(elements(n)) < 80)
        if n is not None:
            tw = clone(n)
            for a in tw[2]:
                if a[0] == "type":
                    a[1] = rng.choice(TYPES)
            if k == 27:
                tw[2] = [a for a in tw[2] if a[0] != "type"]
            for m in elements(tw):
                if is_leaf(m) and m[3] and rng.chance(1, 2):
                    m[3] = [T(rng.choice(NUMBERS + STRINGS))]
                for a in m[2]:
                    if a[0] in ("fileOffset", "recordCount", "length", "minimum", "maximum") and rng.chance(1, 2):
                        a[1] = str(rng.below(1000))
            i = p[3].index(n)
            p[3].insert(i + (0 if rng.chance(3, 4) else 1), tw)
        return "differently-typed-twin"
    if k == 0:
        n, p = pick_elem(rng, root, lambda n, p: p is not None)
        if n is not None:
            p[3].remove(n)
        return "remove-element"
    if k == 1:
        n, p = pick_elem(rng, root, lambda n, p: p is not None and len(elements(n)) < 80)
        if n is not None:
            i = p[3].index(n)
            p[3].insert(rng.choice([i, i + 1, 0, len(p[3])]), clone(n))
        return "duplicate-element"
    if k == 2:
        n, _ = pick_elem(rng, root, lambda n, p: len(n[3]) > 1)
        if n is not None:
            for a in range(len(n[3])):
                b = rng.below(len(n[3])); n[3][a], n[3][b] = n[3][b], n[3][a]
        return "shuffle-children"
    if k == 3:
        n, _ = pick_elem(rng, root, lambda n, p: any(a[0] == "type" for a in n[2]))
        if n is not None:
            for a in n[2]:
                if a[0] == "type":
                    a[1] = rng.choice(TYPES)
        return "change-type"
    if k == 4:
        n, _ = pick_elem(rng, root, lambda n, p: len(n[2]) > 0)
        if n is not None:
            n[2].pop(rng.below(len(n[2])))
        return "drop-attribute"
    if k == 5:
        n, _ = pick_elem(rng, root, lambda n, p: is_leaf(n))
        if n is not None:
            n[3] = [T(rng.choice(NUMBERS), rng.chance(1, 4))]
        return "leaf-number"
    if k == 6:
        n, _ = pick_elem(rng, root, lambda n, p: any(a[0] in ("minimum", "maximum", "scale", "offset", "fileOffset", "recordCount", "length") for a in n[2]))
        if n is not None:
            c = [a for a in n[2] if a[0] in ("minimum", "maximum", "scale", "offset", "fileOffset", "recordCount", "length")]
            rng.choice(c)[1] = rng.choice(NUMBERS)
        return "attribute-number"
    if k == 7:
        n, p = pick_elem(rng, root, lambda n, p: p is not None and len(elements(n)) < 80)
        q, _ = pick_elem(rng, root)
        if n is not None and q is not None and q not in elements(n):
            p[3].remove(n)
            q[3].insert(rng.below(len(q[3]) + 1), n)
        return "move-element"
    if k == 8:
        q, _ = pick_elem(rng, root)
        q[3].insert(rng.below(len(q[3]) + 1), E(rng.choice(OTHER_NAMES), [["type", rng.choice(TYPES)]], [T(rng.choice(NUMBERS + STRINGS))]))
        return "unknown-element"
    if k in (9, 10):
        # foreign element anywhere among the children of any element
        q, _ = pick_elem(rng, root)
        q[3].insert(rng.below(len(q[3]) + 1), foreign_subtree(rng, prefixes, root))
        return "foreign-element"
    if k == 11:
        # foreign element with the local name of a sibling, right before or after it
        n, p = pick_elem(rng, root, lambda n, p: p is not None and ":" not in n[1])
        if n is not None:
            i = p[3].index(n)
            p[3].insert(i + rng.below(2), foreign_subtree(rng, prefixes, root, local=n[1]))
        return "foreign-same-name-sibling"
    if k == 12:
        # foreign element or comment as first child of a leaf (before the text)
        n, _ = pick_elem(rng, root, lambda n, p: is_leaf(n))
        if n is not None:
            n[3].insert(0, foreign_subtree(rng, prefixes, root) if rng.chance(1, 2) else ["c", " note "])
        return "first-child-of-leaf"
    if k == 13:
        # foreign wrapper around a standard element
        n, p = pick_elem(rng, root, lambda n, p: p is not None)
        if n is not None:
            name, decl = foreign_name(rng, prefixes)
            i = p[3].index(n)
            p[3][i] = E(name, decl, [n])
        return "foreign-wrapper"
    if k == 14:
        n, _ = pick_elem(rng, root)
        name, decl = foreign_name(rng, prefixes, local=rng.choice(["type", "minimum", "maximum", "scale", "offset", "precision", "fileOffset", "recordCount", "length", "foo"]))
        if ":" in name:
            n[2] += decl
            n[2].insert(rng.below(len(n[2]) + 1), [name, rng.choice(TYPES + NUMBERS)])
        return "foreign-attribute"
    if k == 15:
        n, _ = pick_elem(rng, root, lambda n, p: is_leaf(n))
        if n is not None:
            texts = [c for c in n[3] if c[0] == "t"]
            if texts and len(texts[0][1]) > 1 and rng.chance(1, 2):
                t = texts[0]; i = n[3].index(t); cut = 1 + rng.below(len(t[1]) - 1)
                n[3][i:i + 1] = [T(t[1][:cut], t[2]), ["c", "x"], T(t[1][cut:], t[2])]
            else:
                n[3].insert(rng.below(len(n[3]) + 1), ["c", rng.choice(["", " c ", "1"])])
        return "comment-in-leaf"
    if k == 16:
        n, _ = pick_elem(rng, root)
        n[3] = []
        return "empty-element"
    if k == 17:
        n, _ = pick_elem(rng, root, lambda n, p: is_leaf(n) and any(c[0] == "t" for c in n[3]))
        if n is not None:
            t = [c for c in n[3] if c[0] == "t"][0]
            i = n[3].index(t)
            if len(t[1]) > 1 and rng.chance(1, 2):
                cut = 1 + rng.below(len(t[1]) - 1)
                n[3][i:i + 1] = [T(t[1][:cut], not t[2]), T(t[1][cut:], t[2])]
            else:
                t[2] = not t[2]
        return "cdata-toggle"
    if k == 18:
        c = rng.below(4)
        if c == 0:
            root[2] = [a for a in root[2] if a[0] != "xmlns"]
        elif c == 1:
            for a in root[2]:
                if a[0] == "xmlns":
                    a[1] = rng.choice(["urn:other", E57_NS + "x"])
        elif c == 2:
            n, _ = pick_elem(rng, root)
            n[2].append(["xmlns", rng.choice(["", "urn:other"])])
        else:
            n, _ = pick_elem(rng, root)
            n[2].append(["xmlns:" + rng.choice(prefixes + ["ext", "w"]), rng.choice(["urn:redeclared", E57_NS])])
        return "namespace-declarations"
    if k == 19:
        n, _ = pick_elem(rng, root)
        n[1] = rng.choice(STD_NAMES + OTHER_NAMES)
        return "rename-element"
    if k == 20:
        n, _ = pick_elem(rng, root, lambda n, p: n[1] == "prototype")
        if n is not None:
            n[3].insert(rng.below(len(n[3]) + 1), grecord(rng, prefixes + ["xml"]))
            if rng.chance(1, 3):
                n[3].insert(rng.below(len(n[3]) + 1), rng.choice([["c", "r"], T(" x "), ["p", "pi", "v"]]))
        return "prototype-record"
    if k == 21:
        q, _ = pick_elem(rng, root)
        q[3].insert(rng.below(len(q[3]) + 1), rng.choice([["p", "target", "value"], ["p", "t2", None], T("\n  "), T("stray"), ["c", "--x".replace("--", "-")]]))
        return "pi-or-stray-text"
    if k == 22:
        n, _ = pick_elem(rng, root, lambda n, p: n[1] == "isAtomicClockReferenced")
        if n is not None:
            n[3] = [T(rng.choice(ATOMIC), rng.chance(1, 4))]
        return "atomic-clock-text"
    if k == 23:
        # a foreign subtree containing a copy of a descendant-lookup target, placed early in the document
        tgt, _ = pick_elem(rng, root, lambda n, p: n[1] in ("e57Root", "data3D", "images2D", "intensityMinimum", "intensityMaximum",
                                                             "colorRedMinimum", "colorRedMaximum", "colorGreenMinimum", "colorBlueMaximum"))
        q, _ = pick_elem(rng, root)
        if tgt is not None and len(elements(tgt)) < 200:
            name, decl = foreign_name(rng, prefixes, local=rng.choice(OTHER_NAMES))
            cp = clone(tgt)
            if rng.chance(1, 2):
                for m in elements(cp):
                    if is_leaf(m) and rng.chance(1, 3):
                        m[3] = [T(rng.choice(NUMBERS + STRINGS))]
            q[3].insert(0 if rng.chance(2, 3) else rng.below(len(q[3]) + 1), E(name, decl, [cp]))
        return "foreign-descendant-capture"
    if k == 24:
        n, _ = pick_elem(rng, root, lambda n, p: len(n[2]) > 0)
        if n is not None:
            a = rng.choice(n[2])
            nm = a[0] if rng.chance(1, 10) else rng.choice(["type", "precision", "minimum", "maximum", "scale", "xml:space", "xml:lang", "length"])
            if nm == a[0] or all(b[0] != nm for b in n[2]) or rng.chance(1, 10):
                n[2].insert(rng.below(len(n[2]) + 1), [nm, rng.choice(["preserve", "single", "double", "5", "Float", "Integer"])])
        return "add-attribute"
    # entity / character references in a leaf
    n, _ = pick_elem(rng, root, lambda n, p: is_leaf(n))
    if n is not None:
        n[3] = [["raw", rng.choice(["&#49;", "&#x31;5", "1&#46;5", "&lt;1", "&amp;", "&#32;1", "1&#10;", "&quot;x&apos;", "&#x20;1&#9;", "&#49;&#x0A;"] + (["&bogus;", "&#0;"] if rng.chance(1, 4) else []))]]
    return "char-references"


# ----------------------------------------------------------------------------- rendering

def esc_text(s):
    return s.replace("&", "&amp;").replace("<", "&lt;").replace(">", "&gt;").replace("\r", "&#13;")


def esc_attr(s, q):
    s = s.replace("&", "&amp;").replace("<", "&lt;").replace("\t", "&#9;").replace("\n", "&#10;").replace("\r", "&#13;")
    return s.replace('"', "&quot;") if q == '"' else s.replace("'", "&apos;")


def render(rng, n, out, depth=0):
    if n[0] == "t":
        if n[2]:
            out.append("<![CDATA[" + n[1].replace("]]>", "]]]]><![CDATA[>") + "]]>")
        else:
            out.append(esc_text(n[1]))
    elif n[0] == "raw":
        out.append(n[1])
    elif n[0] == "c":
        out.append("<!--" + n[1] + "-->")
    elif n[0] == "p":
        out.append("<?" + n[1] + (" " + n[2] if n[2] is not None else "") + "?>")
    else:
        q = "'" if rng.chance(1, 8) else '"'
        s = "<" + n[1]
        for a in n[2]:
            s += " " + a[0] + "=" + q + esc_attr(a[1], q) + q
        if not n[3] and rng.chance(2, 3):
            out.append(s + "/>")
        else:
            out.append(s + ">")
            structural = any(c[0] == "e" for c in n[3])
            nl = structural and not rng.chance(1, 10)
            if nl:
                out.append("\n")
            for c in n[3]:
                render(rng, c, out, depth + 1)
                if nl and c[0] != "t":
                    out.append("\n")
            out.append("</" + n[1] + ">")


def render_doc(rng, root):
    out = []
    c = rng.below(10)
    if c <= 6:
        out.append('<?xml version="1.0" encoding="UTF-8"?>\n')
    elif c == 7:
        out.append("<?xml version='1.0'?>")
    if rng.chance(1, 12):
        out.append("<!-- head -->\n")
    if rng.chance(1, 30):
        out.append("<?pi head?>")
    render(rng, root, out)
    out.append("\n" if rng.chance(3, 4) else "")
    if rng.chance(1, 20):
        out.append("<!-- tail -->")
    return "".join(out)


def gen_document(rng):
    """returns (xml bytes, list of mutation names)"""
    _noise[0] = rng.choice([100000, 100000, 300, 300, 80, 20])
    root, prefixes = gen_tree(rng)
    muts = []
    c = rng.below(10)
    nm = 0 if c <= 1 else 1 if c <= 5 else 2 if c <= 7 else 3 + rng.below(3)
    for _ in range(nm):
        muts.append(mutate(rng, root, prefixes))
    text = render_doc(rng, root)
    data = text.encode("utf-8", "surrogatepass")
    # the malformed stream: byte-level damage
    if rng.chance(1, 40) and len(data) > 10:
        c = rng.below(4)
        data = bytearray(data)
        if c == 0:
            data[rng.below(len(data))] = rng.choice([0xff, 0xc0, 0x80, 0xfe])
            muts.append("bad-utf8")
        elif c == 1:
            del data[rng.below(len(data)):]
            muts.append("truncate")
        elif c == 2:
            i = rng.below(len(data)); data[i:i + 1] = b"<"
            muts.append("stray-lt")
        else:
            i = rng.below(len(data)); del data[i:i + 1 + rng.below(4)]
            muts.append("delete-bytes")
        data = bytes(data)
    return data, muts
