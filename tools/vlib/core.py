"""Shared machinery of the checks: builds, sharded execution of the model
driver and the implementation harness, proof audit, evidence, verdicts."""
import hashlib, json, os, re, shutil, subprocess, sys, tempfile, time
from concurrent.futures import ThreadPoolExecutor

VERIF = os.path.dirname(os.path.dirname(os.path.dirname(os.path.abspath(__file__))))
REPO = os.environ.get("E57_REPO", "/repo")
CACHE = os.environ.get("VERIF_CACHE") or os.path.join(VERIF, ".cache")
COQ = os.path.join(VERIF, "coq")
DRIVER = os.path.join(CACHE, "ocaml", "driver")
NPROC = int(os.environ.get("VERIF_JOBS", "16"))
GUARD_FLAGS = "--cfg e57_verif"

ENV_OFFLINE = dict(os.environ, CARGO_NET_OFFLINE="true", GOPROXY="off", PIP_NO_INDEX="1")

# Axioms declared by Coq's standard library that theorems may depend on (DESIGN.md section 10).
ALLOWED_AXIOMS = {
    "Classical_Prop.classic",
    "FunctionalExtensionality.functional_extensionality_dep",
    "ClassicalDedekindReals.sig_not_dec",
    "ClassicalDedekindReals.sig_forall_dec",
    "Eqdep.Eq_rect_eq.eq_rect_eq",
    "JMeq.JMeq_eq",
    "ProofIrrelevance.proof_irrelevance",
}

FORBIDDEN = re.compile(
    r"\b(Admitted|admit|Axiom|Axioms|Parameter|Parameters|Conjecture|Conjectures|Abort All)\b"
    r"|Unset\s+Guard|Unset\s+Positivity|Unset\s+Universe|bypass_check|type-in-type|impredicative-set|Admit\s+Obligations")


class Rng:
    """SplitMix64; every random choice of a run derives from VERIF_SEED."""
    def __init__(self, seed):
        self.s = seed & 0xFFFFFFFFFFFFFFFF
    def next(self):
        self.s = (self.s + 0x9E3779B97F4A7C15) & 0xFFFFFFFFFFFFFFFF
        z = self.s
        z = ((z ^ (z >> 30)) * 0xBF58476D1CE4E5B9) & 0xFFFFFFFFFFFFFFFF
        z = ((z ^ (z >> 27)) * 0x94D049BB133111EB) & 0xFFFFFFFFFFFFFFFF
        return z ^ (z >> 31)
    def below(self, n):
        return self.next() % n if n > 0 else 0
    def range(self, lo, hi):
        return lo + self.below(hi - lo + 1)
    def choice(self, xs):
        return xs[self.below(len(xs))]
    def chance(self, num, den):
        return self.below(den) < num
    def fork(self):
        return Rng(self.next())
    def bytes(self, n):
        out = bytearray()
        while len(out) < n:
            out += self.next().to_bytes(8, "little")
        return bytes(out[:n])


class InfraError(Exception):
    pass


def sh(cmd, cwd=None, timeout=3600, env=None):
    p = subprocess.run(cmd, cwd=cwd, shell=isinstance(cmd, str), capture_output=True, text=True,
                       timeout=timeout, env=env or ENV_OFFLINE)
    return p.returncode, p.stdout, p.stderr


def ensure_model():
    """Full .vo build of the Coq development + extraction + OCaml driver.
    Returns (ok, log_tail)."""
    rc, out, err = sh([os.path.join(VERIF, "tools", "build_model.sh")], timeout=3400)
    return rc == 0, (out + err)[-4000:]


_harness_cache = {}


def ensure_harness(profile="debug", features=()):
    """Builds the harness against /repo's current working tree with the hooks
    enabled.  Returns the path of the binary."""
    key = (profile, tuple(features))
    if key in _harness_cache:
        return _harness_cache[key]
    hdir = os.path.join(VERIF, "harness")
    if REPO != "/repo":
        # development only (E57_REPO set: a scratch copy of the crate, e.g. with a
        # candidate repair or a seeded change): build a copy of the harness whose
        # dependency points at that copy; the registered commands never set E57_REPO
        src = hdir
        hdir = os.path.join(CACHE, "harness-src")
        os.makedirs(hdir, exist_ok=True)
        sh(["rsync", "-a", "--delete", "--exclude", "target", "--exclude", "Cargo.lock", src + "/", hdir + "/"])
        toml = os.path.join(hdir, "Cargo.toml")
        text = open(toml).read().replace('path = "/repo"', 'path = "%s"' % REPO)
        open(toml, "w").write(text)
    lock_src = os.path.join(REPO, "Cargo.lock")
    if os.path.exists(lock_src) and not os.path.exists(os.path.join(hdir, "Cargo.lock")):
        shutil.copy(lock_src, os.path.join(hdir, "Cargo.lock"))
    tdir = os.path.join(CACHE, "target" + ("-" + "-".join(features) if features else ""))
    cmd = ["cargo", "build", "--offline", "--quiet"]
    if profile == "release":
        cmd.append("--release")
    if features:
        cmd += ["--features", ",".join(features)]
    env = dict(ENV_OFFLINE, RUSTFLAGS=GUARD_FLAGS, CARGO_TARGET_DIR=tdir)
    rc, out, err = sh(cmd, cwd=hdir, timeout=1800, env=env)
    if rc != 0:
        raise InfraError("harness build failed (%s, %s):\n%s" % (profile, features, err[-3000:]))
    path = os.path.join(tdir, profile, "e57-verif-harness")
    _harness_cache[key] = path
    return path


def run_cases(binary, lines, shards=None, timeout=3000, extra_args=(), prelude=()):
    """Runs `binary` over the case lines, sharded over processes; returns one
    output line per case, in order."""
    if not lines:
        return []
    shards = shards or NPROC
    shards = max(1, min(shards, len(lines)))
    tmp = tempfile.mkdtemp(prefix="e57v_", dir=os.environ.get("VERIF_TMP", None))
    try:
        chunks = [lines[i::shards] for i in range(shards)]
        def work(i):
            inp = os.path.join(tmp, "in%d" % i)
            with open(inp, "w") as f:
                f.write("\n".join(list(prelude) + chunks[i]) + "\n")
            with open(inp) as fin:
                p = subprocess.run([binary] + list(extra_args), stdin=fin, capture_output=True, text=True,
                                   timeout=timeout, env=ENV_OFFLINE)
            outs = p.stdout.split("\n")
            if outs and outs[-1] == "":
                outs.pop()
            outs = outs[len(prelude):]
            if len(outs) != len(chunks[i]):
                # the process died: attribute the crash to the first case without output
                outs = outs + ["CRASH rc=%s %s" % (p.returncode, p.stderr[-200:].replace("\n", " "))] * (len(chunks[i]) - len(outs))
            return outs
        with ThreadPoolExecutor(max_workers=shards) as ex:
            results = list(ex.map(work, range(shards)))
        out = [None] * len(lines)
        for i in range(shards):
            for j, o in enumerate(results[i]):
                out[i + j * shards] = o
        return out
    finally:
        shutil.rmtree(tmp, ignore_errors=True)


def run_one(binary, line, timeout=600):
    return run_cases(binary, [line], shards=1, timeout=timeout)[0]


# ---------------------------------------------------------------- proof audit

def grep_forbidden():
    """No Admitted/admit/Axiom/... anywhere in the development."""
    hits = []
    for root, _, files in os.walk(COQ):
        for fn in files:
            if not fn.endswith(".v"):
                continue
            path = os.path.join(root, fn)
            text = open(path).read()
            # strip comments (nested)
            out, depth, i = [], 0, 0
            while i < len(text):
                if text.startswith("(*", i):
                    depth += 1; i += 2
                elif text.startswith("*)", i) and depth > 0:
                    depth -= 1; i += 2
                else:
                    if depth == 0:
                        out.append(text[i])
                    elif text[i] == "\n":
                        out.append("\n")
                    i += 1
            clean = "".join(out)
            for ln, line in enumerate(clean.split("\n"), 1):
                if FORBIDDEN.search(line):
                    hits.append("%s:%d: %s" % (os.path.relpath(path, VERIF), ln, line.strip()))
            # Variable / Hypothesis only inside sections
            depth = 0
            for ln, line in enumerate(clean.split("\n"), 1):
                st = line.strip()
                if re.match(r"Section\s+\w+", st):
                    depth += 1
                elif re.match(r"End\s+\w+\s*\.", st) and depth > 0:
                    depth -= 1
                elif re.match(r"(Variable|Variables|Hypothesis|Hypotheses|Context)\b", st) and depth == 0:
                    hits.append("%s:%d: %s outside a section" % (os.path.relpath(path, VERIF), ln, st))
    return hits


def proof_audit(prop):
    """Re-compiles Props/<prop>.v alone (its dependencies were built by make),
    collects the Print Assumptions output per theorem and checks it against
    the allow-list.  Returns dict(obligations, discharged, theorems, axioms, problems)."""
    src = os.path.join(COQ, "theories", "Props", prop + ".v")
    res = dict(obligations=0, discharged=0, theorems=[], axioms=[], problems=[])
    if not os.path.exists(src):
        res["problems"].append("missing " + src)
        return res
    text = open(src).read()
    names = re.findall(r"^\s*(?:Theorem|Lemma|Corollary)\s+(\w+)", text, re.M)
    res["obligations"] = len(names)
    res["theorems"] = names
    for n in names:
        if not re.search(r"Print\s+Assumptions\s+%s\s*\." % re.escape(n), text):
            res["problems"].append("no Print Assumptions for " + n)
    # the property file must contain only statements closed by `exact`
    for m in re.finditer(r"^\s*(?:Theorem|Lemma|Corollary)\s+(\w+)(?:(?!\bProof\.).)*?Proof\.(.*?)Qed\.", text, re.S | re.M):
        body = m.group(2).strip()
        if not re.fullmatch(r"exact\s+\(?[\w.@' ]+\)?\s*\.", body, re.S):
            res["problems"].append("proof of %s in Props file is not a single `exact`: %s" % (m.group(1), body[:60]))
    tmp = tempfile.mkdtemp(prefix="e57a_")
    try:
        rc, out, err = sh(["coqc", "-Q", os.path.join(COQ, "theories"), "E57",
                           "-w", "-notation-overridden,-deprecated-hint-without-locality,-deprecated-instance-without-locality",
                           "-o", os.path.join(tmp, prop + ".vo"), src], timeout=900)
    finally:
        shutil.rmtree(tmp, ignore_errors=True)
    if rc != 0:
        res["problems"].append("Props/%s.v does not compile: %s" % (prop, (out + err)[-800:]))
        return res
    # Parse Print Assumptions blocks: either "Closed under the global context" or "Axioms:\n name : type ..."
    blocks = re.split(r"(?=Closed under the global context|Axioms:)", out)
    blocks = [b for b in blocks if b.startswith("Closed") or b.startswith("Axioms:")]
    if len(blocks) != len(names):
        res["problems"].append("expected %d Print Assumptions blocks, saw %d" % (len(names), len(blocks)))
    axioms = set()
    for b in blocks:
        if b.startswith("Axioms:"):
            for m in re.finditer(r"^([A-Za-z_][\w.']*)\s*:", b[len("Axioms:"):], re.M):
                axioms.add(m.group(1))
    res["axioms"] = sorted(axioms)
    for a in axioms:
        base = a
        if not any(base == al or al.endswith("." + base) or base.endswith(al.split(".")[-1]) for al in ALLOWED_AXIOMS):
            res["problems"].append("theorem depends on axiom outside the allow-list: " + a)
    if not res["problems"]:
        res["discharged"] = len(names)
    return res


# ---------------------------------------------------------------- known findings

def load_known():
    """known_findings.txt: one finding per line,
         known: property=Cxx id=<id> class=<violation class> <what fails>
         fixed: property=Cxx <commit> <what failed>          (suppresses nothing)
    Never written at run time."""
    path = os.path.join(VERIF, "known_findings.txt")
    out = []
    if os.path.exists(path):
        for line in open(path):
            line = line.strip()
            m = re.match(r"known:\s+property=(\S+)\s+id=(\S+)\s+class=(\S+)\s+(.*)", line)
            if m:
                out.append({"property": m.group(1), "id": m.group(2), "class": m.group(3),
                            "what": m.group(4), "status": "known"})
    return out


class Report:
    """Collects what a check run did; writes evidence; prints the verdict."""
    def __init__(self, prop, tier, seed, level="proof"):
        self.prop, self.tier, self.seed, self.level = prop, tier, seed, level
        self.t0 = time.time()
        self.violations = []      # (class, description, replay dict)
        self.known_hits = {}      # finding id -> description
        self.cov = dict(evaluations=0, distinct_nontrivial=0, rule="", samples=[],
                        obligations=0, discharged=0, checker_cmd="", trusted_base=[])
        self.assumptions = []
        self.known = [k for k in load_known() if k.get("property") == prop and k.get("status") == "known"]
        self._distinct = set()

    def count(self, n=1):
        self.cov["evaluations"] += n

    def distinct(self, key):
        self._distinct.add(key)

    def sample(self, s):
        if len(self.cov["samples"]) < 6:
            self.cov["samples"].append(s)

    def violation(self, cls, desc, replay, no_input=False):
        """cls: class string matched against known_findings' `class` field."""
        for k in self.known:
            if k.get("class") == cls:
                self.known_hits[k["id"]] = k.get("what", desc)
                return False
        self.violations.append((cls, desc, replay, no_input))
        return True

    def finish(self):
        self.cov["distinct_nontrivial"] = max(self.cov.get("distinct_nontrivial", 0), len(self._distinct))
        os.makedirs(os.path.join(VERIF, "evidence"), exist_ok=True)
        for fid, what in sorted(self.known_hits.items()):
            print("KNOWN-FINDING: property=%s %s (%s)" % (self.prop, what, fid))
        rc = 0
        seen = set()
        for cls, desc, replay, no_input in self.violations:
            if cls in seen:
                continue
            seen.add(cls)
            rdir = os.path.join(VERIF, "replays", self.prop)
            os.makedirs(rdir, exist_ok=True)
            h = hashlib.sha256(json.dumps(replay, sort_keys=True).encode()).hexdigest()[:12]
            path = os.path.join(rdir, "%s.json" % h)
            replay = dict(replay, property=self.prop, violation_class=cls, description=desc,
                          replay_cmd="./tools/check %s --replay %s" % (self.prop, path))
            with open(path, "w") as f:
                json.dump(replay, f, indent=1)
            print("VIOLATION property=%s replay=%s%s" % (self.prop, path, " no-failing-input-found" if no_input else ""))
            print("  " + desc[:600])
            rc = 1
        ev = dict(property_id=self.prop, tier=self.tier, seed=self.seed, level=self.level,
                  coverage=self.cov, assumptions=self.assumptions,
                  wall_s=round(time.time() - self.t0, 2), violations=len(seen))
        with open(os.path.join(VERIF, "evidence", self.prop + ".json"), "w") as f:
            json.dump(ev, f, indent=1)
        return rc


def proof_step(rep, prop, thorough=False):
    """Step 1 of every check: build, forbidden-construct grep, assumption audit.
    Returns True when the model and driver are usable."""
    ok, log = ensure_model()
    rep.cov["checker_cmd"] = ("coq_makefile -f _CoqProject -o Makefile && make -j16 (full .vo build, coqc 8.16.1); "
                              "coqc Props/%s.v with Print Assumptions under every theorem; grep audit for Admitted/admit/Axiom/Parameter/..." % prop)
    if not ok:
        rep.violation("proof-build-failed", "the Coq development no longer builds: " + log[-500:],
                      dict(kind="proof", failing="coq build", log=log[-2000:]), no_input=True)
        return False
    hits = grep_forbidden()
    if hits:
        rep.violation("proof-audit-forbidden", "forbidden constructs: " + "; ".join(hits[:5]),
                      dict(kind="proof", failing="audit", hits=hits), no_input=True)
    a = proof_audit(prop)
    rep.cov["obligations"] = a["obligations"]
    rep.cov["discharged"] = a["discharged"]
    rep.cov["theorems"] = a["theorems"]
    rep.cov["axioms_reported_by_Print_Assumptions"] = a["axioms"] or ["Closed under the global context"]
    if a["problems"]:
        rep.violation("proof-audit", "; ".join(a["problems"])[:800],
                      dict(kind="proof", failing="Props/%s.v" % prop, problems=a["problems"]), no_input=True)
    if thorough:
        vo = os.path.join(COQ, "theories", "Props", prop + ".vo")
        rc, out, err = sh(["coqchk", "-silent", "-o", "-Q", os.path.join(COQ, "theories"), "E57", "E57.Props." + prop], timeout=3000)
        rep.cov["coqchk"] = (out + err)[-1500:]
        rep.cov["checker_cmd"] += "; coqchk -o -silent E57.Props.%s" % prop
        if rc != 0:
            rep.violation("coqchk-failed", "coqchk rejects Props/%s.vo: %s" % (prop, (out + err)[-400:]),
                          dict(kind="proof", failing="coqchk"), no_input=True)
    return True


TRUSTED_COMMON = [
    "Coq 8.16.1 kernel (full .vo build; vm_compute used; native_compute not used)",
    "hand-written Gallina model of the crate (not a translation of the Rust source), tied to /repo by the differential correspondence check of this run",
    "extraction: Coq.extraction.ExtrOcamlBasic only (bool, option, unit, list, prod, sumbool, sumor -> OCaml types; andb/orb inlined); N, Z, positive, nat stay inductive; OCaml 4.13.1",
    "Rust harness (/verif/harness), OCaml driver (/verif/ocaml), Python orchestration (/verif/tools); rustc/cargo; in-memory instrumented device standing in for std::fs::File",
]
