"""Builds the bundled command-line tools of /repo (the workspace members under
tools/) offline into the cache directory and runs them on files in a scratch
directory."""
import os, subprocess
from vlib import core

TOOLS = ["e57-from-xyz", "e57-to-xyz", "e57-check-crc", "e57-extract-xml", "e57-unpack"]
_cache = {}


def ensure_tools():
    """cargo build --offline --release of the five tool binaries from /repo's
    current working tree (without the verification cfg: the tools are built as
    a user builds them).  Returns {name: path}."""
    if _cache:
        return _cache
    tdir = os.path.join(core.CACHE, "tools-target")
    cmd = ["cargo", "build", "--offline", "--release", "--quiet"]
    for t in TOOLS:
        cmd += ["-p", t]
    env = dict(core.ENV_OFFLINE, CARGO_TARGET_DIR=tdir)
    env.pop("RUSTFLAGS", None)
    rc, out, err = core.sh(cmd, cwd=core.REPO, timeout=1800, env=env)
    if rc != 0:
        raise core.InfraError("building the tool binaries failed:\n" + err[-3000:])
    for t in TOOLS:
        p = os.path.join(tdir, "release", t)
        if not os.path.exists(p):
            raise core.InfraError("tool binary missing after build: " + p)
        _cache[t] = p
    return _cache


_RUN_ENV = dict(core.ENV_OFFLINE, RUST_BACKTRACE="0")


def run_tool(path, args, cwd, timeout=300):
    """-> (exit status, stdout bytes, stderr text); a signal or a timeout is reported as status -1"""
    try:
        p = subprocess.run([path] + list(args), cwd=cwd, capture_output=True, timeout=timeout, env=_RUN_ENV)
    except subprocess.TimeoutExpired:
        return -1, b"", "timeout"
    rc = p.returncode if p.returncode >= 0 else -1
    return rc, p.stdout, p.stderr.decode("utf-8", "replace")[-400:]
