"""Generators shared by several properties: record types, values, cuts."""
I64_MIN, I64_MAX = -(1 << 63), (1 << 63) - 1


def width_of(mn, mx):
    r = mx - mn
    return r.bit_length() if r > 0 else 0


def int_ranges_for_width(w, rng):
    """(min, max) pairs whose range needs exactly w bits: range = 2^w - 1, 2^(w-1), something between;
    minima 0, negative, i64::MIN, positive, placed so that max <= i64::MAX."""
    out = []
    if w == 0:
        for mn in (0, -5, 7, I64_MIN, I64_MAX):
            out.append((mn, mn))
        return out
    spans = {(1 << w) - 1, 1 << (w - 1)}
    if w > 2:
        spans.add(rng.range((1 << (w - 1)) + 1, (1 << w) - 2))
    for span in sorted(spans):
        mins = {I64_MIN, I64_MAX - span, 0, -1, -(span // 2), 1, rng.range(I64_MIN, I64_MAX - span)}
        for mn in sorted(mins):
            if I64_MIN <= mn and mn + span <= I64_MAX:
                out.append((mn, mn + span))
    return out


def boundary_values(mn, mx, rng, n):
    cands = [mn, mx, min(mn + 1, mx), max(mx - 1, mn), (mn + mx) // 2]
    vals = []
    for i in range(n):
        if i < len(cands) and rng.chance(3, 4):
            vals.append(cands[i])
        else:
            vals.append(rng.range(mn, mx))
    return vals


SPECIAL_F64 = [0x0, 0x8000000000000000, 0x3ff0000000000000, 0xbff0000000000000, 0x7ff0000000000000, 0xfff0000000000000,
               0x7ff8000000000000, 0x7ff0000000000001, 0xfff8000000000123, 0x1, 0x000fffffffffffff, 0x7fefffffffffffff,
               0x400921fb54442d18, 0x3fb999999999999a]
SPECIAL_F32 = [0x0, 0x80000000, 0x3f800000, 0xbf800000, 0x7f800000, 0xff800000, 0x7fc00000, 0x7f800001, 0xffc00123,
               0x1, 0x007fffff, 0x7f7fffff, 0x40490fdb, 0x3dcccccd]


def type_token(kind, mn=None, mx=None):
    if kind in ("F", "D"):
        return kind
    return "%s/%d/%d" % (kind, mn, mx)


def value_token(kind, v):
    if kind == "F":
        return "f%08x" % v
    if kind == "D":
        return "d%016x" % v
    if kind == "S":
        return "s%d" % v
    return "i%d" % v


# ---------------------------------------------------------------- prototypes, points, programs

def fnv_bytes(b, h=0xcbf29ce484222325):
    for x in b:
        h = ((h ^ x) * 0x100000001b3) & 0xFFFFFFFFFFFFFFFF
    return h


def fnv_hex(b):
    return "%016x" % fnv_bytes(b)


def rand_int_type(rng, kind=None, w=None):
    """('I'|'S', min, max[, scalebits, offsetbits]) token parts with a width drawn from the grid"""
    if w is None:
        w = rng.choice([0, 1, 2, 3, 5, 7, 8, 9, 11, 15, 16, 17, 24, 31, 32, 33, 48, 63, 64]) if rng.chance(3, 4) else rng.range(0, 64)
    mn, mx = rng.choice(int_ranges_for_width(w, rng))
    kind = kind or ("S" if rng.chance(1, 3) else "I")
    return kind, mn, mx


def type_tok(rng, allow=("F", "D", "I", "S"), w=None):
    k = rng.choice(list(allow))
    if k in ("F", "D"):
        return k
    kind, mn, mx = rand_int_type(rng, k, w)
    if kind == "S":
        scale = rng.choice([0x3ff0000000000000, 0x3f50624dd2f1a9fc, 0x3fb999999999999a, 0x4000000000000000])
        offset = rng.choice([0x0, 0x4059000000000000, 0xc024000000000000])
        return "S/%d/%d/%016x/%016x" % (mn, mx, scale, offset)
    return "I/%d/%d" % (mn, mx)


def tok_width(t):
    if t == "F":
        return 32
    if t == "D":
        return 64
    p = t.split("/")
    return width_of(int(p[1]), int(p[2]))


def rand_value(rng, t):
    if t == "F":
        return "f%08x" % (rng.choice(SPECIAL_F32) if rng.chance(1, 4) else rng.below(1 << 32))
    if t == "D":
        return "d%016x" % (rng.choice(SPECIAL_F64) if rng.chance(1, 4) else rng.below(1 << 64))
    p = t.split("/")
    mn, mx = int(p[1]), int(p[2])
    c = rng.below(6)
    v = mn if c == 0 else mx if c == 1 else rng.range(mn, mx)
    return ("s%d" if p[0] == "S" else "i%d") % v


def rand_proto(rng, small=False):
    """A prototype that follows the writer's documented rules: list of (name, type token)."""
    proto = []
    coord = rng.below(3)
    if coord in (0, 2):
        t = type_tok(rng) if rng.chance(1, 2) else rng.choice(["F", "D"])
        ts = [t, t, t] if rng.chance(2, 3) else [type_tok(rng) for _ in range(3)]
        proto += list(zip(["x", "y", "z"], ts))
        if rng.chance(1, 3):
            proto.append(("cis", "I/0/2"))
    if coord in (1, 2):
        proto += [("sr", type_tok(rng)), ("sa", type_tok(rng, ("F", "D", "S"))), ("se", type_tok(rng, ("F", "D", "S")))]
        if rng.chance(1, 3):
            proto.append(("sis", "I/0/2"))
    if not small or rng.chance(1, 2):
        if rng.chance(1, 2):
            proto.append(("in", type_tok(rng)))
            if rng.chance(1, 3):
                proto.append(("iin", "I/0/1"))
        if rng.chance(1, 3):
            t = type_tok(rng)
            proto += [("r", t), ("g", t if rng.chance(2, 3) else type_tok(rng)), ("b", t)]
            if rng.chance(1, 3):
                proto.append(("ici", "I/0/1"))
        if rng.chance(1, 4):
            proto += [("row", type_tok(rng, ("I",))), ("col", type_tok(rng, ("I",)))]
        if rng.chance(1, 5):
            proto += [("rc", type_tok(rng, ("I",))), ("ri", type_tok(rng, ("I",)))]
        if rng.chance(1, 5):
            proto.append(("ts", type_tok(rng, ("D", "F", "S"))))
            if rng.chance(1, 2):
                proto.append(("its", "I/0/1"))
    if rng.chance(1, 3):
        rng2 = rng.fork()
        for i in range(len(proto) - 1, 0, -1):
            j = rng2.below(i + 1)
            proto[i], proto[j] = proto[j], proto[i]
    # at least one record of non-zero width (all-zero-width prototypes are rejected, see known findings)
    if all(tok_width(t) == 0 for _, t in proto):
        proto[0] = (proto[0][0], "F")
    return proto


def proto_capacity(proto):
    bits = sum(tok_width(t) for _, t in proto)
    n = len(proto)
    return ((65535 - 6 - 2 * n - n - 500) * 8) // bits


def proto_tok(proto):
    return ",".join("%s=%s" % (n, t) for n, t in proto)


def rand_points(rng, proto, count):
    return [[rand_value(rng, t) for _, t in proto] for _ in range(count)]


def points_tok(points):
    return ";".join(",".join(p) for p in points)
