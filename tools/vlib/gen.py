"""Generators shared by several properties: record types, values, cuts."""
I64_MIN, I64_MAX = -(1 << 63), (1 << 63) - 1


def width_of(mn, mx):
    r = mx - mn
    return r.bit_length() if r > 0 else 0


def int_ranges_for_width(w, rng):
    """(min, max) pairs whose range needs exactly w bits: range = 2^w - 1, 2^(w-1), something between;
    minima 0, negative, i64::MIN, positive, placed so that max <= i64::MAX."""
    out = []
    if w == 0:
        for mn in (0, -5, 7, I64_MIN, I64_MAX):
            out.append((mn, mn))
        return out
    spans = {(1 << w) - 1, 1 << (w - 1)}
    if w > 2:
        spans.add(rng.range((1 << (w - 1)) + 1, (1 << w) - 2))
    for span in sorted(spans):
        mins = {I64_MIN, I64_MAX - span, 0, -1, -(span // 2), 1, rng.range(I64_MIN, I64_MAX - span)}
        for mn in sorted(mins):
            if I64_MIN <= mn and mn + span <= I64_MAX:
                out.append((mn, mn + span))
    return out


def boundary_values(mn, mx, rng, n):
    cands = [mn, mx, min(mn + 1, mx), max(mx - 1, mn), (mn + mx) // 2]
    vals = []
    for i in range(n):
        if i < len(cands) and rng.chance(3, 4):
            vals.append(cands[i])
        else:
            vals.append(rng.range(mn, mx))
    return vals


SPECIAL_F64 = [0x0, 0x8000000000000000, 0x3ff0000000000000, 0xbff0000000000000, 0x7ff0000000000000, 0xfff0000000000000,
               0x7ff8000000000000, 0x7ff0000000000001, 0xfff8000000000123, 0x1, 0x000fffffffffffff, 0x7fefffffffffffff,
               0x400921fb54442d18, 0x3fb999999999999a]
SPECIAL_F32 = [0x0, 0x80000000, 0x3f800000, 0xbf800000, 0x7f800000, 0xff800000, 0x7fc00000, 0x7f800001, 0xffc00123,
               0x1, 0x007fffff, 0x7f7fffff, 0x40490fdb, 0x3dcccccd]


def type_token(kind, mn=None, mx=None):
    if kind in ("F", "D"):
        return kind
    return "%s/%d/%d" % (kind, mn, mx)


def value_token(kind, v):
    if kind == "F":
        return "f%08x" % v
    if kind == "D":
        return "d%016x" % v
    if kind == "S":
        return "s%d" % v
    return "i%d" % v
