"""Generators of XML documents (bytes) for the differential check of the XML parser model
(Model/XmlParse.v) against roxmltree.  Every random choice comes from a core.Rng.

  writer_doc(rng)   documents in the style of the crate's writer
  variant_doc(rng)  lexical variants a foreign producer may choose (mostly well-formed)
  soup_doc(rng)     sequences of XML-ish tokens (mostly malformed, reaches the error paths)
  malformed(rng, doc)  truncations / mutations of a document
"""

E57_NS = "http://www.astm.org/COMMIT/E57/2010-e57-v1.0"
XML_NS = "http://www.w3.org/XML/1998/namespace"
XMLNS_NS = "http://www.w3.org/2000/xmlns/"

# strings that exercise every special case of text / attribute handling
POOL = ["", " ", "  ", "\t", "\n", "\r", "\r\n", "\n\r", "\r\r", " \n ", "a\rb", "a\r\nb", "\rz", "z\r",
        "<", ">", "&", "x<y", "a&b", "a>b", "]]>", "a]]>b", "]]", "]]]>", "]]>]]>", "]>", "]", "]]>>",
        "\"", "'", "\"'", "say \"hi\"", "it's",
        "\u00e9", "\u00fc\u00df", "\u20ac", "\u4e2d\u6587", "\U0001F600", "\U00010000", "\u00a0", "\ufffd", "\ud7ff", "\ue000",
        "\u0080", "\u07ff", "\u0800", "\uffff"[:0] + "\ufffd",
        "tab\there", "<![CDATA[", "&amp;", "&#10;", "&lt;", "-->", "--", "-", "?>", "<?", "<!--", "=", "/>", "</a>",
        "ASTM E57 3D Imaging Data File", "{A4F0B1C2-1234-5678-9ABC-DEF012345678}", "0", "-1", "1.5e-3", "NaN", "inf",
        "cartesianX", "xmlns", "xml", "e57Root", "http://example.com/ext?a=1&b=2", "caf\u00e9 \u2603 snow"]

NAMES = ["a", "b", "c", "guid", "e57Root", "data3D", "vectorChild", "name", "points", "prototype", "cartesianX",
         "x-1", "_u", "A.b", "n0", "\u00e9l", "\u4e2d", "a\u00b7b", "xmlns", "xml", "xmlfoo", "X_Y-z.9"]
PREFIXES = ["p", "q", "ext", "nor", "xml", "xmlns", "e57", "\u00e9"]
URIS = ["u1", "u2", E57_NS, "http://www.libe57.org/E57_NOR_surface_normals.txt", "", " ", "a b", XML_NS, XMLNS_NS,
        "http://x/?a=1&b=2", "u\u00e9", "u<", "u\t1", "u\n1", "u\r\n1"]
WS = [" ", "  ", "\t", "\n", "\r\n", " \n  ", "\r"]


def rstring(rng):
    k = rng.choice([0, 1, 1, 1, 2, 2, 3, 4])
    parts = []
    for _ in range(k):
        c = rng.below(10)
        if c < 6:
            parts.append(rng.choice(POOL))
        elif c < 9:
            parts.append("".join(chr(rng.range(32, 126)) for _ in range(rng.range(1, 8))))
        else:
            parts.append(chr(rng.choice([0x9, 0xA, 0xD, 0x20, 0x7F, 0x85, 0xA0, 0x2028, 0xFFFD, 0xE9, 0x10FFFF, 0xD7FF, 0xE000])))
    return "".join(parts)


# ------------------------------------------------------------------ (a) writer style

def w_string(tag, v):
    return "<%s type=\"String\"><![CDATA[%s]]></%s>\n" % (tag, v.replace("]]>", "]]]]><![CDATA[>"), tag)


def w_url(u):
    for a, b in (("&", "&amp;"), ("<", "&lt;"), (">", "&gt;"), ("\"", "&quot;"), ("\t", "&#9;"), ("\n", "&#10;"), ("\r", "&#13;")):
        u = u.replace(a, b)
    return u


def writer_doc(rng):
    exts = []
    for _ in range(rng.choice([0, 0, 1, 1, 2, 3])):
        exts.append((rng.choice(["nor", "ext", "p", "q", "demo", "e" + str(rng.below(5))]), rstring(rng) if rng.chance(1, 2) else rng.choice(URIS)))
    x = "<?xml version=\"1.0\" encoding=\"UTF-8\"?>\n<e57Root type=\"Structure\" "
    for p, u in exts:
        x += "xmlns:%s=\"%s\" " % (p, w_url(u))
    x += "xmlns=\"%s\">\n" % E57_NS
    x += w_string("formatName", "ASTM E57 3D Imaging Data File")
    x += w_string("guid", rstring(rng))
    x += "<versionMajor type=\"Integer\">%d</versionMajor>\n<versionMinor type=\"Integer\">0</versionMinor>\n" % rng.below(3)
    if rng.chance(1, 2):
        x += w_string("coordinateMetadata", rstring(rng))
    if rng.chance(1, 2):
        x += w_string("e57LibraryVersion", rstring(rng))
    if rng.chance(1, 2):
        x += "<creationDateTime type=\"Structure\">\n<dateTimeValue type=\"Float\">%s</dateTimeValue>\n<isAtomicClockReferenced type=\"Integer\">%d</isAtomicClockReferenced>\n</creationDateTime>\n" % (
            rng.choice(["0", "1.5", "-3e10", "NaN", "inf"]), rng.below(2))
    x += "<data3D type=\"Vector\" allowHeterogeneousChildren=\"1\">\n"
    for _ in range(rng.choice([0, 1, 1, 2])):
        x += "<vectorChild type=\"Structure\">\n"
        x += w_string("guid", rstring(rng))
        if rng.chance(1, 2):
            x += w_string("name", rstring(rng))
        if rng.chance(1, 2):
            x += w_string("description", rstring(rng))
        x += "<points type=\"CompressedVector\" fileOffset=\"%d\" recordCount=\"%d\">\n<prototype type=\"Structure\">\n" % (rng.below(10000), rng.below(1000))
        for nm in ["cartesianX", "cartesianY", "cartesianZ"][:rng.range(0, 3)]:
            c = rng.below(3)
            if c == 0:
                x += "<%s type=\"Float\" precision=\"single\" minimum=\"-1\" maximum=\"1\"/>\n" % nm
            elif c == 1:
                x += "<%s type=\"Integer\" minimum=\"%d\" maximum=\"%d\"/>\n" % (nm, -rng.below(100), rng.below(1 << 20))
            else:
                x += "<%s type=\"ScaledInteger\" minimum=\"0\" maximum=\"1023\" scale=\"0.001\" offset=\"0\"/>\n" % nm
        if exts and rng.chance(1, 2):
            x += "<%s:%s type=\"Integer\" minimum=\"0\" maximum=\"255\"/>\n" % (exts[0][0], rng.choice(["normalX", "a", "b"]))
        x += "</prototype>\n</points>\n</vectorChild>\n"
    x += "</data3D>\n<images2D type=\"Vector\" allowHeterogeneousChildren=\"1\">\n"
    for _ in range(rng.choice([0, 0, 1])):
        x += "<vectorChild type=\"Structure\">\n" + w_string("guid", rstring(rng))
        x += "<visualReferenceRepresentation type=\"Structure\">\n<pngImage type=\"Blob\" fileOffset=\"%d\" length=\"%d\"/>\n<imageWidth type=\"Integer\">%d</imageWidth>\n</visualReferenceRepresentation>\n</vectorChild>\n" % (
            rng.below(5000), rng.below(5000), rng.below(100))
    x += "</images2D>\n</e57Root>\n"
    return x.encode("utf-8", "surrogatepass")


# ------------------------------------------------------------------ (b) lexical variants

def ref_of(ch, rng, in_attr):
    o = ord(ch)
    named = {"<": "&lt;", ">": "&gt;", "&": "&amp;", "\"": "&quot;", "'": "&apos;"}
    c = rng.below(6)
    if c == 0 and ch in named:
        return named[ch]
    if c == 1:
        return "&#%d;" % o
    if c == 2:
        return "&#x%x;" % o
    if c == 3:
        return "&#x%s;" % ("%X" % o).rjust(rng.range(1, 8), "0")
    if c == 4:
        return "&#%s;" % str(o).rjust(rng.range(1, 12), "0")
    return named.get(ch, "&#%d;" % o)


def esc_text(s, rng, sloppy):
    out = []
    for ch in s:
        if ch in "<&" and not (sloppy and rng.chance(1, 3)):
            out.append(ref_of(ch, rng, False))
        elif ch == ">" and rng.chance(1, 2):
            out.append(ref_of(ch, rng, False))
        elif rng.chance(1, 12):
            out.append(ref_of(ch, rng, False))
        else:
            out.append(ch)
    return "".join(out)


def esc_attr(s, q, rng, sloppy):
    out = []
    for ch in s:
        if ch in ("<", "&", q) and not (sloppy and rng.chance(1, 3)):
            out.append(ref_of(ch, rng, True))
        elif ch in "\t\n\r" and rng.chance(1, 2):
            out.append(ref_of(ch, rng, True))
        elif rng.chance(1, 12):
            out.append(ref_of(ch, rng, True))
        else:
            out.append(ch)
    return "".join(out)


def text_item(s, rng, sloppy):
    """one string as a mixture of character data and CDATA sections"""
    c = rng.below(4)
    if c == 0:
        return esc_text(s, rng, sloppy)
    if c == 1:
        if sloppy and rng.chance(1, 2):
            return "<![CDATA[" + s + "]]>"
        return "<![CDATA[" + s.replace("]]>", rng.choice(["]]]]><![CDATA[>", "]]]><![CDATA[]>", "]]]]>&gt;<![CDATA["])) + "]]>"
    # cut into pieces
    out, i = [], 0
    while i < len(s) or not out:
        j = i + rng.range(0, 4)
        piece = s[i:j]
        if rng.chance(1, 2):
            out.append(esc_text(piece, rng, sloppy))
        else:
            out.append("<![CDATA[" + (piece if sloppy else piece.replace("]]>", "]]]]><![CDATA[>")) + "]]>")
        if rng.chance(1, 8):
            out.append(comment(rng, sloppy) if rng.chance(1, 2) else pi(rng, sloppy))
        i = j
        if i >= len(s):
            break
    return "".join(out)


def comment(rng, sloppy):
    body = rng.choice(["", " ", "c", " a comment ", "-", "a-b", "x -", "<a>", "&amp;", "]]>", "\u00e9", "a\rb", "?>", " -- ", "--", "->", "a--", "\r\n"])
    if not sloppy:
        body = body.replace("--", "- -")
        if body.endswith("-"):
            body += " "
    return "<!--" + body + "-->"


def pi(rng, sloppy):
    t = rng.choice(["pi", "p", "xml-stylesheet", "X", "_a", "xmlfoo", "a:b", "\u00e9"] + (["xml", "XML", "1a", ""] if sloppy else []))
    body = rng.choice(["", " ", " a", " a=\"b\"", "  x  ", " ?", " ? >", "\tq", "\n", " <&>", " \u00e9", "\"b\"", " a\rb"])
    return "<?" + t + body + "?>"


def qname(prefix, local):
    return (prefix + ":" + local) if prefix is not None else local


def variant_element(rng, depth, scope, sloppy, budget):
    """scope: list of prefixes in scope (None = default)"""
    decls = []
    for _ in range(rng.choice([0, 0, 0, 1, 1, 2, 3]) if depth < 3 else rng.choice([0, 0, 0, 1])):
        c = rng.below(10)
        if c < 3:
            decls.append((None, rng.choice(URIS) if rng.chance(1, 2) else ""))
        else:
            decls.append((rng.choice(PREFIXES[:4] if not sloppy else PREFIXES), rng.choice(URIS)))
    if not sloppy:
        seen, d2 = set(), []
        for p, u in decls:
            if p in seen or p in ("xml", "xmlns") or u in (XML_NS, XMLNS_NS) or "<" in u:
                continue
            seen.add(p); d2.append((p, u))
        decls = d2
    inner = list(scope)
    for p, u in decls:
        if p not in inner:
            inner.append(p)
    cands = [p for p in inner if p is not None] if inner else []
    def pick_prefix(allow_none=True):
        c = rng.below(10)
        if c < 5 and allow_none:
            return None
        if cands and c < 9:
            return rng.choice(cands)
        if sloppy:
            return rng.choice(PREFIXES)
        return None
    prefix = pick_prefix()
    local = rng.choice(NAMES[:18] if not sloppy else NAMES)
    attrs = []
    used = set()
    for _ in range(rng.choice([0, 0, 1, 1, 2, 3])):
        ap = None if rng.chance(2, 3) else pick_prefix(False)
        if ap is None and rng.chance(1, 12):
            ap = "xml"
        al = rng.choice(["type", "a", "b", "minimum", "lang", "space", "x-y", "\u00e9"] + (["xmlns", "a"] if sloppy else []))
        if not sloppy and (ap, al) in used:
            continue
        used.add((ap, al))
        attrs.append((qname(ap, al), rstring(rng)))
    items = [("xmlns" if p is None else "xmlns:" + p, u) for p, u in decls] + attrs
    # random order
    for i in range(len(items) - 1, 0, -1):
        j = rng.below(i + 1)
        items[i], items[j] = items[j], items[i]
    tag = qname(prefix, local)
    x = "<" + tag
    for n, v in items:
        q = rng.choice("\"\"'")
        eq = rng.choice(["=", "=", "=", " =", "= ", " = ", "\n=\t"])
        sp = rng.choice(WS) if not (sloppy and rng.chance(1, 10)) else ""
        x += sp + n + eq + q + esc_attr(v, q, rng, sloppy) + q
    x += rng.choice(["", "", "", " ", "\n", "\t "])
    kids = rng.choice([0, 0, 1, 1, 2, 3, 5]) if depth < 4 and budget[0] > 0 else 0
    budget[0] -= 1
    if kids == 0 and rng.chance(1, 2):
        return x + "/>"
    x += ">"
    for _ in range(kids):
        c = rng.below(12)
        if c < 4:
            x += variant_element(rng, depth + 1, inner, sloppy, budget)
        elif c < 8:
            x += text_item(rstring(rng), rng, sloppy)
        elif c < 9:
            x += comment(rng, sloppy)
        elif c < 10:
            x += pi(rng, sloppy)
        elif c < 11:
            x += rng.choice(WS)
        else:
            x += rng.choice(["\n", "\r\n", "<![CDATA[]]>", "&#13;", "&#xD;\n", "\r&#10;", "&amp;\r", "\r&lt;\r\n", "&#x20;"])
    end = tag if not (sloppy and rng.chance(1, 8)) else qname(rng.choice([None, "p", prefix]), rng.choice([local, "a", "b"]))
    x += "</" + end + rng.choice(["", "", "", " ", "\n", "\t"]) + ">"
    return x


def xml_decl(rng, sloppy):
    c = rng.below(12 if sloppy else 7)
    q = rng.choice("\"'")
    if c == 0:
        return "<?xml version=%s1.0%s?>" % (q, q)
    if c == 1:
        return "<?xml version=\"1.0\" encoding=\"UTF-8\"?>"
    if c == 2:
        return "<?xml version=\"1.0\" encoding=%sutf-8%s standalone=%syes%s ?>" % (q, q, q, q)
    if c == 3:
        return "<?xml  version = \"1.1\"\tstandalone='no'?>"
    if c == 4:
        return "<?xml version=\"1.0\"\n encoding=\"ISO-8859-1\"\n?>"
    if c == 5:
        return "<?xml version='1.0' encoding='UTF-8'?>"
    if c == 6:
        return "<?xml version=\"\"?>"
    return rng.choice(["<?xml?>", "<?xml ?>", "<?xml version?>", "<?xml version=\"1.0\"encoding=\"x\"?>", "<?xml encoding=\"x\"?>",
                       "<?xml version=\"1.0\" standalone=\"yes\" encoding=\"x\"?>", "<?xml version=\"1.0\" ?", "<?xml version=\"1<0\"?>",
                       "<?xml versionx=\"1.0\"?>", "<?xml version=\"1.0\" encodingx=\"q\"?>", "<?xml\tversion=\"1.0\"?>", "<?XML version=\"1.0\"?>",
                       "<?xml version=\"1.0\" foo=\"1\"?>", "<?xml version=\"1.0\"", "<?xml p:version=\"1.0\"?>", "<?xml version=\"1.0\" standalone=\"yes\"encoding=\"a\"?>"])


def misc(rng, sloppy):
    x = ""
    for _ in range(rng.choice([0, 0, 0, 1, 2])):
        c = rng.below(8)
        if c < 3:
            x += rng.choice(WS)
        elif c < 5:
            x += comment(rng, sloppy)
        elif c < 7:
            x += pi(rng, sloppy)
        elif sloppy:
            x += rng.choice(["x", "&amp;", "<![CDATA[a]]>", "<!DOCTYPE a>", "<!DOCTYPE a [<!ENTITY e \"v\">]>", "<b/>", "</a>", "\ufeff",
                             "<?xml version=\"1.0\"?>"])
    return x


def variant_doc(rng, sloppy=False):
    x = ""
    if rng.chance(1, 10):
        x += "\ufeff"
    if rng.chance(1, 2):
        x += xml_decl(rng, sloppy)
    x += misc(rng, sloppy)
    if not (sloppy and rng.chance(1, 20)):
        x += variant_element(rng, 0, [], sloppy, [rng.choice([3, 8, 20])])
    x += misc(rng, sloppy)
    return x.encode("utf-8", "surrogatepass")


# ------------------------------------------------------------------ token soup

TOKENS = ["<", ">", "/>", "</", "<a", "<b", "</a>", "</b>", "<a>", "<b>", "<a/>", "<p:a", "</p:a>", " ", "\t", "\n", "\r", "=", "\"", "'",
          "a", "b", "p", ":", "xmlns", "xml", "xmlns:p", "xmlns=", "=\"u\"", "='v'", " a=\"1\"", " b='2'", " xmlns:p=\"u\"", " xmlns=\"d\"",
          " xmlns=\"\"", " p:a=\"3\"", " xml:lang=\"en\"", "&", "&amp;", "&lt;", "&gt;", "&quot;", "&apos;", "&#", "&#x", "41;", "x41;", ";",
          "&#65;", "&#x41;", "&#0;", "&#x0;", "&#xFFFE;", "&#xFFFF;", "&#xD800;", "&#x110000;", "&#4294967295;", "&#4294967296;",
          "&#x10FFFF;", "&#9;", "&#10;", "&#13;", "&#xd;", "&#x1F600;", "&foo;", "&amp", "&;", "&#;", "&#x;", "&#X41;", "&#-1;", "&#+1;", "&# 1;",
          "]]>", "]]", "]", "<![CDATA[", "<![CDATA[x]]>", "<![CDATA[]]>", "<![cdata[", "<!--", "-->", "--", "-", "<!---->", "<!-- c -->", "<!--->",
          "<?", "?>", "<?p?>", "<?p q?>", "<?xml ", "<?xml?>", "<?xml version=\"1.0\"?>", "<!", "<!DOCTYPE", "<!DOCTYPE a>", "<!ENTITY",
          "\u00e9", "\u20ac", "\U0001F600", "\ufffe", "\uffff", "\u00b7", "\u0300", "0", "9", ".", "_", "text", "\x00", "\x01", "\x0b", "\x1f", "\x7f",
          "\ufeff", "<:a/>", "<a:>", "<a:b:c>", "<1a>", "<-a>", "<a b>", "<a b=>", "<a b=c>", "<a b=\"<\">", "<a b=\"1\"c=\"2\">"]


SLOTS = ["<a>%s</a>", "<a b=\"%s\"/>", "<a b='%s'/>", "<a %s/>", "<a%s>t</a>", "%s<a/>", "<a/>%s", "<a>x%sy</a>", "<a><b>%s</b>%s</a>",
         "<a xmlns:p=\"u\" xmlns=\"d\">%s</a>", "<a xmlns:p=\"%s\"><p:b/></a>", "<a xmlns=\"%s\"><b/></a>", "<p:a xmlns:p=\"u\" %s>%s</p:a>",
         "<a><![CDATA[%s]]></a>", "<a><!--%s--></a>", "<a><?p %s?></a>", "<?xml version=\"1.0\"%s?><a/>", "<a>%s<![CDATA[%s]]>%s</a>", "<a></a%s>",
         "<a xmlns=\"u\" xmlns=\"v\">%s<b %s/></a>", "<a xmlns:p=\"u\"><b xmlns:p=\"u\">%s</b><p:c %s/></a>", "<?xml version=\"1.0\"%s",
         "<?xml version=\"1.0\" %s?><a/>", "<a>&#%s;&#x%s;</a>", "<a b=\"%s\" b=\"%s\"/>", "<a xmlns:p=\"%s\" xmlns:p=\"%s\"/>",
         "<%s/>", "<a><%s/></a>", "<a %s=\"1\"/>", "<a>&%s;</a>", "<a b=\"&%s;\"/>", "<a>&#%s;</a>", "<a>&#x%s;</a>"]
SLOT_TOKENS = [t for t in TOKENS if not t.startswith("<") or len(t) > 3] + ["\r", "\r\n", "\n", "\r", "&#13;", "&#10;", "&amp;", "x", " ", "1", "F", "fffe", "lt", "amp"]


def slot_doc(rng):
    """a well-formed frame with token sequences in one or more slots"""
    f = rng.choice(SLOTS)
    k = f.count("%s")
    fills = []
    for _ in range(k):
        n = rng.choice([0, 1, 1, 1, 2, 2, 3, 4])
        fills.append("".join(rng.choice(SLOT_TOKENS) for _ in range(n)))
    return (f % tuple(fills)).encode("utf-8", "surrogatepass")


def soup_doc(rng):
    if rng.chance(3, 5):
        return slot_doc(rng)
    n = rng.choice([1, 2, 3, 4, 5, 6, 8, 10, 14, 20])
    if rng.chance(1, 2):
        # biased towards something element-like
        x = rng.choice(["<a", "<a>", "<a ", "<p:a xmlns:p=\"u\"", "<a>t", "<a><b>"])
    else:
        x = ""
    for _ in range(n):
        x += rng.choice(TOKENS)
    if rng.chance(1, 2):
        x += rng.choice(["</a>", "/>", ">", "</b></a>", "></a>", "\"/>", "'></a>"])
    return x.encode("utf-8", "surrogatepass")


# ------------------------------------------------------------------ (c) malformed

MUT_BYTES = list(b"<>&;\"'=/!?-[]: \t\r\nx#a0") + [0, 1, 0x1f, 0x7f, 0x80, 0xbf, 0xc0, 0xc3, 0xa9, 0xe0, 0xed, 0xa0, 0xef, 0xbf, 0xbe, 0xf0, 0xf4, 0x90, 0xf5, 0xff]


def truncations(doc):
    return [doc[:i] for i in range(len(doc))]


def mutate(rng, doc):
    d = bytearray(doc)
    c = rng.below(7)
    if not d:
        return bytes([rng.choice(MUT_BYTES)])
    i = rng.below(len(d))
    if c < 3:
        d[i] = rng.choice(MUT_BYTES)
    elif c == 3:
        d.insert(i, rng.choice(MUT_BYTES))
    elif c == 4:
        del d[i]
    elif c == 5:
        j = min(len(d), i + rng.range(1, 6))
        d[i:i] = d[i:j]
    else:
        j = min(len(d), i + rng.range(1, 6))
        del d[i:j]
    return bytes(d)


BAD_UTF8 = [b"\xff", b"\xc0\x80", b"\xc1\xbf", b"\xe0\x80\x80", b"\xe0\x9f\xbf", b"\xed\xa0\x80", b"\xed\xbf\xbf", b"\xf0\x8f\xbf\xbf",
            b"\xf4\x90\x80\x80", b"\xf5\x80\x80\x80", b"\xc3", b"\xe2\x82", b"\xf0\x9f\x98", b"\x80", b"\xbf", b"\xc3\x28", b"\xe2\x28\xa1",
            b"\xef\xbf\xbe", b"\xef\xbf\xbf", b"\xef\xbf\xbd", b"\xef\xbb\xbf", b"\xed\x9f\xbf", b"\xee\x80\x80", b"\xf4\x8f\xbf\xbf", b"\xf0\x90\x80\x80",
            b"\xc2\x80", b"\xdf\xbf", b"\xe0\xa0\x80"]


def bad_utf8(rng, doc):
    d = bytearray(doc)
    i = rng.below(len(d) + 1)
    d[i:i] = rng.choice(BAD_UTF8)
    return bytes(d)


HAND = [
    "", " ", "<", "<a", "<a>", "<a/>", "<a></a>", "<a></b>", "<a/><b/>", "<a/>x", "x<a/>", " <a/> ", "<a/>\n<!--c-->\n<?p?>\n",
    "<a><b></a></b>", "</a>", "<a></a></a>", "<a b=\"1\" b=\"2\"/>", "<a xmlns:p=\"u\" xmlns:q=\"u\" p:b=\"1\" q:b=\"2\"/>",
    "<a xmlns:p=\"u\" xmlns:p=\"v\"/>", "<a xmlns=\"u\" xmlns=\"v\"/>", "<p:a/>", "<a p:b=\"1\"/>", "<a xml:lang=\"en\"/>", "<xml:a/>",
    "<xmlns:a xmlns:xmlns=\"u\"/>", "<a xmlns:xmlns=\"u\"/>", "<a xmlns:xml=\"http://www.w3.org/XML/1998/namespace\"/>", "<a xmlns:xml=\"u\"/>",
    "<a xmlns:p=\"http://www.w3.org/XML/1998/namespace\"/>", "<a xmlns=\"http://www.w3.org/XML/1998/namespace\"/>",
    "<a xmlns=\"http://www.w3.org/2000/xmlns/\"/>", "<a xmlns:p=\"http://www.w3.org/2000/xmlns/\"/>",
    "<a xmlns:p=\"&#x75;\"><p:b/></a>", "<a xmlns:p=\"u\"><b xmlns:p=\"\"><p:c/></b></a>", "<a xmlns=\"u\"><b xmlns=\"\"><c/></b></a>",
    "<a xmlns:p=\"u\"><p:b xmlns:p=\"v\"/></a>", "<p:a xmlns:p=\"u\"></p:a>", "<p:a xmlns:p=\"u\" xmlns:q=\"u\"></q:a>", "<a xmlns:p=\"u\"></p:a>",
    "<a>&lt;&gt;&amp;&quot;&apos;</a>", "<a>&LT;</a>", "<a>&lt</a>", "<a>&</a>", "<a>& </a>", "<a>&#38;#38;</a>", "<a b=\"&lt;\"/>", "<a b=\"<\"/>",
    "<a b='\"' c=\"'\"/>", "<a b=\"&#9;&#10;&#13; \t\n\r\r\n\"/>", "<a b=\"\r\"/>", "<a b=\"x\r\"/>", "<a b=\"\r\n\"/>", "<a b=\"\r&#10;\"/>", "<a b=\"&#13;\n\"/>",
    "<a>\r</a>", "<a>\r\n</a>", "<a>\n\r</a>", "<a>\r\r</a>", "<a>a\r</a>", "<a>\ra</a>", "<a>\r&#10;</a>", "<a>&#13;\n</a>", "<a>&#13;</a>", "<a>&#13;\r</a>",
    "<a>\r<![CDATA[\n]]></a>", "<a><![CDATA[\r]]>\n</a>", "<a><![CDATA[\r\n]]></a>", "<a><![CDATA[\r]]></a>", "<a><![CDATA[a\rb\r\nc\r]]></a>",
    "<a><![CDATA[\r]]><![CDATA[\n]]></a>", "<a>x<![CDATA[]]>y</a>", "<a><![CDATA[]]><![CDATA[]]></a>", "<a><![CDATA[]]><b/><![CDATA[]]></a>",
    "<a>]]></a>", "<a>]]&gt;</a>", "<a>]] ></a>", "<a>></a>", "<a><![CDATA[]]]]><![CDATA[>]]></a>", "<a><![CDATA[<&>]]></a>", "<a><![CDATA[</a>",
    "<a><![CDATA[]]</a>", "<a><!CDATA[x]]></a>", "<a><!-- --></a>", "<a><!-- -- --></a>", "<a><!----></a>", "<a><!-----></a>", "<a><!---></a>",
    "<a><!--a--></a>", "<a><!--a-></a>", "<a><?p?></a>", "<a><?p ?></a>", "<a><?p  a ?></a>", "<a><?xml version=\"1.0\"?></a>", "<a><?xml?></a>",
    "<a><?xmlx?></a>", "<a><??></a>", "<a><? p?></a>", "<a><?p</a>", "<?xml version=\"1.0\"?><?xml version=\"1.0\"?><a/>",
    " <?xml version=\"1.0\"?><a/>", "\ufeff<a/>", "\ufeff\ufeff<a/>", "\ufeff<?xml version=\"1.0\"?><a/>", "<a/>\ufeff", "<a>\ufeff</a>",
    "<!DOCTYPE a><a/>", "<!DOCTYPE a []><a/>", "<a><!DOCTYPE a></a>", "<!-- c --><!DOCTYPE a><a/>", "<a/><!DOCTYPE a>",
    "<a>\x00</a>", "<a>\x0b</a>", "<a b=\"\x01\"/>", "<a>\ufffe</a>", "<a>\uffff</a>", "<a>\ufffd</a>", "<a b=\"\uffff\"/>", "<!--\ufffe--><a/>",
    "<?p \uffff?><a/>", "<a><![CDATA[\ufffe]]></a>", "<a>\x7f\u0080\u0085</a>", "<\u00e9/>", "<\u00b7/>", "<a\u00b7/>", "<a\u0300 />", "<\u0300a/>",
    "<a \u00e9=\"1\"/>", "<\u00e9:\u00e9 xmlns:\u00e9=\"u\"/>", "<a\u00d7/>", "<a\u00f7b/>", "<\U00010000/>", "<\U000EFFFF/>", "<\U000F0000/>", "<\u037e/>", "<\u2000/>",
    "<a:b:c/>", "<:a/>", "<a:/>", "<:/>", "<a :b=\"1\"/>", "<a b:=\"1\"/>", "<a  />", "<a\n/>", "<a/ >", "<a / >", "< a/>", "<a b = \"1\" />", "<a b=\"1\"c=\"2\"/>",
    "<a b=\"1\"  c='2'\n/>", "<a b/>", "<a b=/>", "<a b=1/>", "<a =\"1\"/>", "<a b=\"1/>", "<a></a >", "<a></ a>", "<a></a\n>", "<a></a b>", "<a></a",
    "<a>&#x41;&#65;&#x00041;&#0000065;</a>", "<a>&#x;</a>", "<a>&#;</a>", "<a>&#xG;</a>", "<a>&#65</a>", "<a>&#65 ;</a>", "<a>&#4294967295;</a>", "<a>&#4294967296;</a>",
    "<a>&#x110000;</a>", "<a>&#xD800;</a>", "<a>&#xDFFF;</a>", "<a>&#xFFFE;</a>", "<a>&#xFFFD;</a>", "<a>&#0;</a>", "<a>&#1;</a>", "<a>&#8;</a>", "<a>&#9;</a>", "<a>&#x7F;</a>",
    "<a>&#x80;&#x7ff;&#x800;&#xffff;&#x10000;&#x10ffff;</a>", "<a b=\"&#xD800;&#0;\"/>", "<a>&#99999999999999999999999;</a>", "<a>&#x0000000000000000000041;</a>",
    "<a>&amp;\r</a>", "<a>x\r&amp;y\r</a>", "<a>&amp;\r\n</a>", "<a>&amp;\rX</a>", "<a>&amp;&#13;\n</a>", "<a>\r&amp;</a>", "<a>&#13;a\n</a>",
    "<a> </a>", "<a>\n<b/>\n</a>", "<a><b/> <c/></a>", "<a>t<b/>u</a>", "<a>t<!--c-->u</a>", "<a>t<?p?>u</a>", "<a>t<![CDATA[u]]>v</a>", "<a>t<![CDATA[u]]><!--c-->v</a>",
    "<a><?p?>t</a>", "<a><!--c-->t</a>", "<a>t<!--c--></a>",
    "<a xmlns:p=\"u\" p:xmlns=\"v\"/>", "<a xmlns:p=\"u\"><b p:xmlns=\"v\"/></a>", "<a xmlns:p=\"\"><p:b p:c=\"1\" c=\"2\"/></a>", "<a xmlns=\"u\" b=\"1\"/>",
    "<a xmlns:p=\"u\" xmlns:q=\"v\"><b xmlns:r=\"w\" xmlns:p=\"z\"><c/></b></a>", "<a xmlns=\"u\" xmlns=\"v\"><b xmlns:p=\"q\"/></a>", "<a xmlns=\"u\" xmlns=\"v\"><b/></a>",
    "<a xmlns:p=\"u\"><b xmlns:p=\"u\"/></a>", "<a xmlns:p=\" u \"/>", "<a xmlns:p=\"u\tv\"/>", "<a xmlns:p=\"u&#9;v\"/>", "<a xmlns:p=\"u&amp;v\"/>",
    "<a xmlns:p=\"u\"><p:b></p:b><p:c/></a>", "<a xmlns:p=\"u\" xmlns:q=\"u\"><p:b></q:b></a>",
]


def hand_docs():
    return [h.encode("utf-8", "surrogatepass") for h in HAND]
