"""Text side of the XYZ tools, written from the documentation of the tools and of
Rust's std (not from the model): str::trim's whitespace set, split(' '), the
grammar of f32::from_str and u8::from_str with exact rounding by rational
arithmetic, and generators of decimal texts for given f32 values."""
import re, struct
from decimal import Decimal
from fractions import Fraction

# char::is_whitespace (Unicode White_Space); note: U+001C..U+001F and U+200B are NOT in it
RUST_WS = {chr(c) for c in [9, 10, 11, 12, 13, 32, 0x85, 0xA0, 0x1680, 0x2028, 0x2029, 0x202F, 0x205F, 0x3000]} | {chr(c) for c in range(0x2000, 0x200B)}


def rust_trim(s):
    a, b = 0, len(s)
    while a < b and s[a] in RUST_WS:
        a += 1
    while b > a and s[b - 1] in RUST_WS:
        b -= 1
    return s[a:b]


_FLT = re.compile(r"^([+-]?)(?:(inf|infinity|nan)|(?:([0-9]*)(?:\.([0-9]*))?(?:[eE]([+-]?[0-9]+))?))$", re.I | re.S)


def round_f32(fr):
    """non-negative Fraction -> f32 bit pattern without sign, round to nearest even"""
    if fr == 0:
        return 0
    e = fr.numerator.bit_length() - fr.denominator.bit_length()
    if Fraction(2) ** e > fr:
        e -= 1
    e = max(e, -126)
    q = fr / (Fraction(2) ** (e - 23))
    m = q.numerator // q.denominator
    rem = q - m
    if rem > Fraction(1, 2) or (rem == Fraction(1, 2) and m % 2 == 1):
        m += 1
    if m == 1 << 24:
        m >>= 1
        e += 1
    if e > 127:
        return 0x7f800000
    if m < (1 << 23):
        return m
    return ((e + 127) << 23) | (m - (1 << 23))


def parse_f32_text(s):
    """f32::from_str on a str: bit pattern (NaN canonical 0x7fc00000) or None"""
    m = _FLT.match(s)
    if not m or "\n" in s:
        return None
    sign = 0x80000000 if m.group(1) == "-" else 0
    if m.group(2):
        return 0x7fc00000 if m.group(2).lower() == "nan" else sign | 0x7f800000
    ip, fp, ex = m.group(3) or "", m.group(4) or "", m.group(5)
    if ip == "" and fp == "":
        return None
    digits = (ip + fp).lstrip("0")
    e10 = (int(ex) if ex else 0) - len(fp)
    if digits == "":
        return sign
    # clamp absurd exponents (the value is then 0 or infinite whatever the digits)
    if e10 + len(digits) > 60:
        return sign | 0x7f800000
    if e10 + len(digits) < -70:
        return sign
    return sign | round_f32(Fraction(int(digits)) * Fraction(10) ** e10)


_U8 = re.compile(r"^\+?[0-9]+$")


def parse_u8_text(s):
    if not _U8.match(s) or "\n" in s:
        return None
    v = int(s)
    return v if v <= 255 else None


def f32_value(bits):
    return struct.unpack("<f", struct.pack("<I", bits))[0]


def f32_is_finite(bits):
    return (bits & 0x7f800000) != 0x7f800000


def f64_bits(x):
    return struct.unpack("<Q", struct.pack("<d", x))[0]


def f64_of_f32_bits(bits):
    """`x as f64` for an f32 bit pattern (exact), as f64 bit pattern"""
    return f64_bits(f32_value(bits))


def exact_decimal(bits):
    """the exact decimal expansion of a finite f32 ('many digits')"""
    return format(Decimal(f32_value(bits)), "f")


def shortest(bits):
    v = f32_value(bits)
    for p in range(0, 9):
        s = "%.*e" % (p, v)
        if parse_f32_text(s) == bits:
            return s
    return "%.8e" % v


def text_variants(bits, rng):
    """decimal texts that denote exactly the finite f32 `bits` (checked with parse_f32_text)"""
    v = f32_value(bits)
    sh = shortest(bits)
    mant, ex = sh.split("e")
    ex = int(ex)
    out = [sh, exact_decimal(bits), repr(v) if parse_f32_text(repr(v)) == bits else sh]
    out.append(mant + "E" + ("+" if ex >= 0 and rng.chance(1, 2) else "") + str(ex))
    if not sh.startswith("-"):
        out.append("+" + sh)
        out.append("+" + exact_decimal(bits))
    # shifted exponent, leading / trailing zeros
    sgn = "-" if mant.startswith("-") else ""
    digs = mant.lstrip("-").replace(".", "")
    out.append(sgn + "0." + digs + "e" + str(ex + 1))
    out.append(sgn + digs + "e" + str(ex - len(digs) + 1))
    out.append(sgn + "000" + mant.lstrip("-") + "000e" + str(ex) if "." in mant else sgn + "000" + mant.lstrip("-") + ".000e" + str(ex))
    ed = exact_decimal(bits)
    if "." not in ed:
        out.append(ed + ".")
        out.append(ed + ".0")
    elif ed.lstrip("-").startswith("0."):
        out.append(sgn + ed.lstrip("-")[1:])         # ".5"
    good = [t for t in out if parse_f32_text(t) == bits]
    return good or [sh]
