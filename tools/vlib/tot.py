"""Shared by C08 (no panic) and C09 (bounded cost): base files, structure-aware mutation with
re-sealed page checksums, the TOT / TOTM case kinds (harness/src/ext_tot.rs, ocaml/drv_tot.ml),
parsing of their results and the comparison of implementation and model."""
import os, re, struct
from vlib import core, gen, crc

U64 = (1 << 64) - 1
BVALS = [0, 1, 3, 4, 0xFFFF, 0x10000, 1 << 31, (1 << 32) - 1, 1 << 63, U64]
TESTDATA = os.path.join(core.REPO, "testdata")


def phys_of_log(x):
    return x + 4 * (x // 1020)


def log_of_phys(p):
    return p - 4 * (p // 1024)


def boundary(true, bits=64):
    m = (1 << bits) - 1
    vs = []
    for v in BVALS + [true - 1, true + 1, true + 4, true * 2]:
        if 0 <= v <= m and v != true and v not in vs:
            vs.append(v)
    return vs


# ---------------------------------------------------------------- file structure

class Base:
    """a well-formed file: physical bytes, logical stream, XML text and the binary sections the XML names"""
    def __init__(self, name, phys, origin):
        self.name, self.phys, self.origin = name, bytes(phys), origin
        self.log = bytearray(crc.strip(self.phys))
        self.xml_off, self.xml_len = struct.unpack("<QQ", self.phys[24:40])
        lo = log_of_phys(self.xml_off)
        self.xml = bytes(self.log[lo:lo + self.xml_len])
        txt = self.xml.decode("latin-1")
        self.cv = [int(m.group(1)) for m in re.finditer(r'type="CompressedVector"[^>]*?fileOffset="(\d+)"', txt)]
        self.cv += [int(m.group(1)) for m in re.finditer(r'fileOffset="(\d+)"[^>]*?type="CompressedVector"', txt) if int(m.group(1)) not in self.cv]
        self.blobs = [(int(m.group(1)), int(m.group(2))) for m in re.finditer(r'type="Blob"[^>]*?fileOffset="(\d+)"[^>]*?length="(\d+)"', txt)]

    def cv_layout(self, fo):
        """logical offsets of the section header fields and of the packets of the section at physical offset fo"""
        L = log_of_phys(fo)
        log = self.log
        if L + 32 > len(log):
            return None
        sec_len, data_off, idx_off = struct.unpack("<QQQ", log[L + 8:L + 32])
        pk = []
        p = log_of_phys(data_off) if data_off < len(self.phys) else None
        end = L + sec_len
        while p is not None and p + 4 <= min(end, len(log)) and len(pk) < 64:
            t = log[p]
            if t == 1:
                ln = struct.unpack("<H", log[p + 2:p + 4])[0] + 1
                cnt = struct.unpack("<H", log[p + 4:p + 6])[0]
                pk.append(dict(off=p, type=1, length=ln, count=cnt))
            elif t == 0:
                ln = struct.unpack("<H", log[p + 2:p + 4])[0] + 1
                pk.append(dict(off=p, type=0, length=ln, count=0))
            elif t == 2:
                ln = struct.unpack("<H", log[p + 2:p + 4])[0] + 1
                pk.append(dict(off=p, type=2, length=ln, count=0))
            else:
                break
            p += ln
        return dict(hdr=L, sec_len=sec_len, data_off=data_off, idx_off=idx_off, packets=pk)


def seal(log):
    """logical stream -> physical image with valid checksums; the header's physical length follows the new size"""
    return crc.paginate(bytes(log))


def with_xml(base, xml, fix_len=True):
    """the file with another XML text (XML is the last section of every base file)"""
    lo = log_of_phys(base.xml_off)
    log = bytearray(base.log[:lo]) + bytearray(xml)
    if fix_len:
        log[32:40] = struct.pack("<Q", len(xml))
    n = (len(log) + 1019) // 1020
    log[16:24] = struct.pack("<Q", n * 1024)
    return seal(log)


def put(log, off, fmt, val):
    b = bytearray(log)
    raw = struct.pack(fmt, val)
    if off + len(raw) <= len(b):
        b[off:off + len(raw)] = raw
    return b


# ---------------------------------------------------------------- base files

PROTOS = [
    [("x", "F"), ("y", "F"), ("z", "F"), ("in", "I/0/2047"), ("r", "I/0/255"), ("g", "I/0/255"), ("b", "I/0/255")],
    [("x", "D"), ("y", "D"), ("z", "D"), ("cis", "I/0/2"), ("row", "I/5/5"), ("col", "I/0/7")],
    [("sr", "S/0/100000/3f50624dd2f1a9fc/0000000000000000"), ("sa", "F"), ("se", "D"), ("sis", "I/0/2"), ("in", "F"), ("iin", "I/0/1")],
    [("x", "S/-500/500/3f50624dd2f1a9fc/4059000000000000"), ("y", "S/-500/500/3f50624dd2f1a9fc/0000000000000000"), ("z", "S/7/7/3ff0000000000000/0000000000000000"),
     ("r", "F"), ("g", "F"), ("b", "F"), ("ici", "I/0/1"), ("ts", "D"), ("its", "I/0/1")],
    [("x", "I/-9223372036854775808/9223372036854775807"), ("y", "I/0/1"), ("z", "I/-1/0"), ("in", "S/0/65535/bff0000000000000/0000000000000000"),
     ("rc", "I/1/1"), ("ri", "I/0/0")],
    [("x", "F"), ("y", "F"), ("z", "F"), ("sr", "D"), ("sa", "D"), ("se", "D"), ("in", "I/3/3"), ("r", "I/9/9"), ("g", "I/9/9"), ("b", "I/9/9")],
]


def item_tok(it):
    if it[0] == "B":
        return "B:" + it[1].hex()
    if it[0] == "I":
        return "I:%s:%s:%s" % (it[1], it[2].hex(), "-" if it[3] is None else it[3].hex())
    return "P:%s:%s" % (gen.proto_tok(it[1]), gen.points_tok(it[2]))


def make_bases(rng, impl, tier):
    progs = []
    progs.append([("B", rng.bytes(37)), ("P", PROTOS[0], gen.rand_points(rng, PROTOS[0], 12))])
    progs.append([("P", PROTOS[1], gen.rand_points(rng, PROTOS[1], 25)), ("I", "v", rng.bytes(60), rng.bytes(9)), ("I", "p", rng.bytes(33), None)])
    progs.append([("I", "s", rng.bytes(700), rng.bytes(10)), ("P", PROTOS[2], gen.rand_points(rng, PROTOS[2], 40)), ("I", "c", rng.bytes(5), rng.bytes(3))])
    progs.append([("P", PROTOS[3], gen.rand_points(rng, PROTOS[3], 9)), ("P", PROTOS[0], gen.rand_points(rng, PROTOS[0], 3)), ("B", b"")])
    progs.append([("P", PROTOS[4], gen.rand_points(rng, PROTOS[4], 30))])
    progs.append([("P", PROTOS[5], gen.rand_points(rng, PROTOS[5], 7)), ("P", PROTOS[1], [])])
    progs.append([("P", PROTOS[0], gen.rand_points(rng, PROTOS[0], 400))])   # several pages of data
    if tier == "thorough":
        for _ in range(10):
            items = []
            for _ in range(rng.range(1, 3)):
                p = gen.rand_proto(rng, small=rng.chance(1, 2))
                items.append(("P", p, gen.rand_points(rng, p, rng.choice([0, 1, 5, 60]))))
                if rng.chance(1, 2):
                    items.append(("I", rng.choice("vpsc"), rng.bytes(rng.range(0, 300)), rng.bytes(4) if rng.chance(1, 2) else None))
            progs.append(items)
    outs = core.run_cases(impl, ["FW - " + " ".join(item_tok(i) for i in items) + " DUMP" for items in progs])
    bases = []
    for k, o in enumerate(outs):
        if " dev=" not in o:
            raise core.InfraError("writer did not produce base file %d: %s" % (k, o[:200]))
        head = o.split(" | ")[0].split()
        if any(x.startswith("e") or x == "P" for x in head):
            raise core.InfraError("writer rejected base program %d: %s" % (k, " ".join(head)))
        bases.append(Base("w%d" % k, bytes.fromhex(o.split(" dev=")[1].strip()), "written by the crate"))
    for fn in sorted(os.listdir(TESTDATA)):
        if not fn.endswith(".e57"):
            continue
        d = open(os.path.join(TESTDATA, fn), "rb").read()
        if len(d) > 60000 and not (tier == "thorough" and len(d) < 300000):
            continue
        if len(d) % 1024 or len(d) < 1024 or d[:8] != b"ASTM-E57":
            continue
        try:
            bases.append(Base("t:" + fn[:-4], d, "testdata"))
        except Exception:
            pass
    return bases


def big_testdata():
    """the large bundled files: run unmodified on the implementation only"""
    out = []
    for fn in sorted(os.listdir(TESTDATA)):
        p = os.path.join(TESTDATA, fn)
        if fn.endswith(".e57") and os.path.getsize(p) > 60000:
            out.append((fn, open(p, "rb").read()))
    return out


# ---------------------------------------------------------------- mutations

XML_NUMS = ["NaN", "nan", "inf", "-inf", "Infinity", "1e999", "-1e999", "1e-999", "9223372036854775807", "9223372036854775808",
            "-9223372036854775808", "-9223372036854775809", "18446744073709551615", "18446744073709551616", "1" + "0" * 30,
            "-1", "-0", "0", "1", "", " ", "abc", "1.2.3", " 5", "5 ", "+5", "0x10", "1e", "--1", "1,5", "١", "4294967296", "2147483648", "0.0", "1e308", "-1e308", "5e-324"]
TYPES = ["Integer", "ScaledInteger", "Float", "String", "Structure", "Vector", "CompressedVector", "Blob", "", "integer"]


def xml_mutants(base, rng, n):
    """text-level edits of the XML; returns (kind, new xml bytes)"""
    txt = base.xml.decode("latin-1")
    out = []
    attrs = [m for m in re.finditer(r'(\w+)="([^"]*)"', txt)]
    numattrs = [m for m in attrs if m.group(1) in ("minimum", "maximum", "scale", "offset", "recordCount", "fileOffset", "length", "precision")]
    texts = [m for m in re.finditer(r'>(-?[0-9][0-9.eE+\-]*)<', txt)]
    types = [m for m in attrs if m.group(1) == "type"]
    lines = txt.split("\n")

    def sub(m, g, val):
        return txt[:m.start(g)] + val + txt[m.end(g):]

    for _ in range(n):
        c = rng.below(16)
        if c <= 2 and numattrs:
            m = rng.choice(numattrs)
            out.append(("xml-attr-" + m.group(1), sub(m, 2, rng.choice(XML_NUMS + ["single", "double"]))))
        elif c <= 4 and texts:
            m = rng.choice(texts)
            out.append(("xml-text-number", sub(m, 1, rng.choice(XML_NUMS))))
        elif c == 5 and types:
            m = rng.choice(types)
            out.append(("xml-type-swap", sub(m, 2, rng.choice(TYPES))))
        elif c == 6 and attrs:
            m = rng.choice(attrs)
            out.append(("xml-attr-removed", txt[:m.start()] + txt[m.end():]))
        elif c == 7:
            i = rng.below(len(lines))
            out.append(("xml-line-removed", "\n".join(lines[:i] + lines[i + 1:])))
        elif c == 8:
            i = rng.below(len(lines))
            out.append(("xml-line-duplicated", "\n".join(lines[:i + 1] + lines[i:])))
        elif c == 9:
            # minimum > maximum in one record
            ms = [m for m in re.finditer(r'minimum="([^"]*)"([^>]*?)maximum="([^"]*)"', txt)]
            if ms:
                m = rng.choice(ms)
                out.append(("xml-min-gt-max", txt[:m.start()] + 'minimum="%s"%smaximum="%s"' % (m.group(3), m.group(2), m.group(1)) + txt[m.end():]))
        elif c == 10:
            ms = [m for m in attrs if m.group(1) == "recordCount"]
            if ms:
                m = rng.choice(ms)
                out.append(("xml-recordcount", sub(m, 2, str(rng.choice([0, 1, 1000001, 1 << 32, 1 << 63, U64, int(m.group(2) or 0) + 1, max(0, int(m.group(2) or 0) - 1)])))))
        elif c == 11:
            ms = [m for m in attrs if m.group(1) == "fileOffset"]
            if ms:
                m = rng.choice(ms)
                npages = len(base.phys) // 1024
                tgt = rng.choice([0, 1, 47, 48, 1020, 1021, 1023, 1024, rng.below(npages) * 1024 + 1020 + rng.below(4), base.xml_off, base.xml_off + 5,
                                  len(base.phys) - 1, len(base.phys), len(base.phys) + 1, rng.below(len(base.phys)), 1 << 32, 1 << 63, U64,
                                  int(m.group(2) or 0) + 1, max(0, int(m.group(2) or 0) - 1), int(m.group(2) or 0) + 4, int(m.group(2) or 0) + 32])
                out.append(("xml-fileoffset", sub(m, 2, str(tgt))))
        elif c == 12:
            # every record of every prototype gets zero width (or all but one)
            keep = rng.below(3) == 0
            def zw(m):
                body = m.group(0)
                recs = list(re.finditer(r'<([\w:]+) type="(\w+)"([^>]*?)(/>|>[^<]*</[\w:]+>)', body))
                res, last = [], 0
                for i, r in enumerate(recs):
                    if r.group(1) == "prototype":
                        continue
                    res.append(body[last:r.start()])
                    if keep and i == len(recs) - 1:
                        res.append(r.group(0))
                    else:
                        res.append('<%s type="Integer" minimum="4" maximum="4"/>' % r.group(1))
                    last = r.end()
                res.append(body[last:])
                return "".join(res)
            out.append(("xml-zero-width-prototype", re.sub(r'<prototype.*?</prototype>', zw, txt, flags=re.S)))
        elif c == 13:
            # scale edge values
            ms = [m for m in attrs if m.group(1) == "scale"]
            if ms:
                m = rng.choice(ms)
                out.append(("xml-scale", sub(m, 2, rng.choice(["0", "-0", "NaN", "-1", "inf", "-inf", "1e-320", "1e308"]))))
            else:
                ms = [m for m in re.finditer(r'type="ScaledInteger"', txt)]
                if ms:
                    m = rng.choice(ms)
                    out.append(("xml-scale", txt[:m.end()] + ' scale="%s"' % rng.choice(["0", "NaN", "-1"]) + txt[m.end():]))
        elif c == 14:
            # extension garbage: a foreign namespace with records, attributes and elements nobody knows
            ins = '<zz:q type="Integer" minimum="0" maximum="%s"/>' % rng.choice(["0", "1", "NaN", "255"])
            t2 = txt.replace("<e57Root ", '<e57Root xmlns:zz="http://x" ', 1)
            if "</prototype>" in t2 and rng.chance(1, 2):
                t2 = t2.replace("</prototype>", ins + "</prototype>", 1)
            else:
                t2 = t2.replace("</e57Root>", '<zz:w type="Structure" zz:a="1"><zz:v type="Blob" fileOffset="%d" length="%d"/></zz:w></e57Root>' % (rng.below(4000), rng.below(100)), 1)
            out.append(("xml-extension", t2))
        else:
            # raw damage: truncation, random byte, invalid UTF-8
            k = rng.below(4)
            if k == 0:
                out.append(("xml-truncated", txt[:rng.below(len(txt) + 1)]))
            elif k == 1:
                i = rng.below(max(1, len(txt)))
                out.append(("xml-byte", txt[:i] + chr(rng.choice([0, 0x80, 0xff, 0x3c, 0x26, 0x22, rng.below(256)])) + txt[i + 1:]))
            elif k == 2:
                i = rng.below(max(1, len(txt)))
                out.append(("xml-insert", txt[:i] + rng.choice(["<", "&", "]]>", "<!--", "<![CDATA[", "<?x?>", "&#0;", "&amp;", "\x00"]) + txt[i:]))
            else:
                out.append(("xml-empty", rng.choice(["", " ", "<a/>", "<e57Root/>", '<e57Root><data3D><vectorChild type="Structure"/></data3D></e57Root>'])))
    return [(k, x.encode("latin-1", "replace")) for k, x in out]


def binary_mutants(base, rng, tier):
    """(kind, physical bytes): header, section headers, packet headers, stream lengths, payload bits - all re-sealed"""
    out = []
    log = base.log
    quick = tier == "quick"
    # file header
    for off, fmt, nm, bits in [(16, "<Q", "phys_length", 64), (24, "<Q", "xml_offset", 64), (32, "<Q", "xml_length", 64), (40, "<Q", "page_size", 64),
                               (8, "<I", "major", 32), (12, "<I", "minor", 32)]:
        true = struct.unpack(fmt, log[off:off + struct.calcsize(fmt)])[0]
        vals = boundary(true, bits)
        if nm == "page_size":
            vals += [2, 5, 8, 16, 512, 1020, 1023, 2048, 1 << 20, (1 << 20) + 1, len(base.phys), len(base.phys) // 2]
        if nm == "xml_length":
            vals += [10 * 1024 * 1024, 10 * 1024 * 1024 + 1, len(log), len(log) - log_of_phys(base.xml_off), len(log) - log_of_phys(base.xml_off) + 1]
        if nm == "xml_offset":
            vals += [len(base.phys) - 1, len(base.phys), 1020, 1023, 1024]
        for v in vals:
            if 0 <= v < (1 << bits):
                out.append(("hdr-" + nm, seal(put(log, off, fmt, v))))
    for i in range(8):
        b = bytearray(log); b[i] ^= 1 << rng.below(8)
        out.append(("hdr-signature", seal(b)))
    # compressed vector sections
    for fo in base.cv:
        lay = base.cv_layout(fo)
        if not lay:
            continue
        L = lay["hdr"]
        for off, nm in [(8, "section_length"), (16, "data_offset"), (24, "index_offset")]:
            true = struct.unpack("<Q", log[L + off:L + off + 8])[0]
            vals = boundary(true) + [len(base.phys) - 1, len(base.phys), fo, fo + 31, fo + 33, base.xml_off, 1020, 1023]
            for v in vals:
                out.append(("cv-" + nm, seal(put(log, L + off, "<Q", v))))
        for v in (0, 2, 255):
            out.append(("cv-id", seal(put(log, L, "<B", v))))
        for i in range(1, 8):
            out.append(("cv-reserved", seal(put(log, L + i, "<B", rng.range(1, 255)))))
        pks = lay["packets"]
        sel = pks if not quick else (pks[:2] + pks[-1:] if len(pks) > 2 else pks)
        for pk in sel:
            p = pk["off"]
            for v in (0, 1, 2, 3, 255):
                if v != pk["type"]:
                    out.append(("pk-type", seal(put(log, p, "<B", v))))
            out.append(("pk-flags", seal(put(log, p + 1, "<B", rng.choice([1, 2, 0x80, 0xff])))))
            for v in boundary(pk["length"] - 1, 16) + [2, 7, 11, 15, 19]:
                out.append(("pk-length", seal(put(log, p + 2, "<H", v & 0xFFFF))))
            if pk["type"] == 1:
                for v in boundary(pk["count"], 16):
                    out.append(("pk-count", seal(put(log, p + 4, "<H", v))))
                for s in range(min(pk["count"], 12)):
                    so = p + 6 + 2 * s
                    true = struct.unpack("<H", log[so:so + 2])[0]
                    vals = boundary(true, 16)
                    if quick:
                        vals = [v for v in vals if v in (0, 1, 0xFFFF, true - 1, true + 1)]
                    for v in vals:
                        out.append(("pk-stream-length", seal(put(log, so, "<H", v))))
                # payload bit flips
                body = p + 6 + 2 * pk["count"]
                for _ in range(6 if quick else 40):
                    if pk["length"] > 6 + 2 * pk["count"]:
                        i = body + rng.below(pk["length"] - 6 - 2 * pk["count"])
                        if i < len(log):
                            b = bytearray(log); b[i] ^= 1 << rng.below(8)
                            out.append(("payload-bit", seal(b)))
            else:
                for i in range(4, min(16, pk["length"])):
                    out.append(("pk-reserved", seal(put(log, p + i, "<B", rng.range(1, 255)))))
    # blob section headers
    for off, ln in base.blobs:
        L = log_of_phys(off)
        if L + 16 > len(log):
            continue
        true = struct.unpack("<Q", log[L + 8:L + 16])[0]
        for v in boundary(true) + [ln, ln - 1, ln - 16, ln - 17, U64 - 15, U64 - 16, U64 - 17]:
            if 0 <= v <= U64:
                out.append(("blob-section-length", seal(put(log, L + 8, "<Q", v))))
        for v in (1, 2, 255):
            out.append(("blob-id", seal(put(log, L, "<B", v))))
    return out


BLOB_LENGTHS = [1 << 20, 1 << 26, 1 << 28, 1 << 32, 1 << 40, 1 << 63]


def blob_header_inflated(base, off, L):
    """the logical stream with the blob section header at physical offset off declaring 16 + L rounded up to 4"""
    return put(base.log, log_of_phys(off) + 8, "<Q", ((16 + L + 3) // 4 * 4) & U64)


def blob_length_mutants(base):
    """a blob length inflated CONSISTENTLY in the section header and in the XML `length` attribute (checksums re-sealed):
    the mismatch check of Blob::read passes, so the length must not be trusted for an allocation"""
    out = []
    txt = base.xml.decode("latin-1")
    for off, ln in base.blobs[:3]:
        if log_of_phys(off) + 16 > len(base.log):
            continue
        for L in BLOB_LENGTHS:
            m = re.search(r'fileOffset="%d"([^>]*?)length="%d"' % (off, ln), txt)
            if not m:
                continue
            xml = txt[:m.start()] + 'fileOffset="%d"%slength="%d"' % (off, m.group(1), L) + txt[m.end():]
            b2 = Base(base.name, seal(blob_header_inflated(base, off, L)), base.origin)
            out.append(("blob-length-consistent", with_xml(b2, xml.encode("latin-1"))))
    return out


def other_mutants(base, rng, tier):
    """unsealed damage, truncations, extensions"""
    out = []
    phys = base.phys
    n = len(phys)
    for _ in range(12 if tier == "quick" else 200):
        b = bytearray(phys)
        for _ in range(rng.range(1, 4)):
            b[rng.below(n)] ^= 1 << rng.below(8)
        out.append(("unsealed-bits", bytes(b)))
    for _ in range(4 if tier == "quick" else 40):
        b = bytearray(phys)
        i = rng.below(n)
        k = rng.range(1, 64)
        b[i:i + k] = rng.bytes(min(k, n - i))
        out.append(("unsealed-overwrite", bytes(b)))
    cuts = set()
    for pg in range(n // 1024 + 1):
        cuts.add(pg * 1024)
        cuts.add(pg * 1024 + rng.below(1024))
    cuts |= {0, 1, 8, 40, 47, 48, 49, 1020, 1023, n - 1, n - 4, n - 1024}
    cuts = sorted(c for c in cuts if 0 <= c < n)
    if tier == "quick" and len(cuts) > 24:
        cuts = cuts[:8] + [rng.choice(cuts) for _ in range(8)] + cuts[-8:]
    for c in cuts:
        out.append(("truncation", phys[:c]))
    for ext in (rng.bytes(1), rng.bytes(1023), rng.bytes(1024), bytes(1024), crc.paginate(rng.bytes(1020)), crc.paginate(bytes(2040)), phys[:1024], phys):
        out.append(("extension", phys + ext))
    return out


def crafted(rng):
    """small hand-built files that sit on particular guards: (kind, physical bytes, note)"""
    out = []

    def build(xml, body):
        """header + body (sections from physical offset 48) + xml"""
        log = bytearray(48) + bytearray(body)
        while len(log) % 4:
            log.append(0)
        xoff = len(log)
        log += xml
        n = (len(log) + 1019) // 1020
        log[0:48] = b"ASTM-E57" + struct.pack("<IIQQQQ", 1, 0, n * 1024, phys_of_log(xoff), len(xml), 1024)
        return seal(log)

    def pc_xml(records, proto_xml, fo=48):
        return ('<?xml version="1.0" encoding="UTF-8"?>\n<e57Root type="Structure" xmlns="http://www.astm.org/COMMIT/E57/2010-e57-v1.0">'
                '<formatName type="String">ASTM E57 3D Imaging Data File</formatName><guid type="String">g</guid>'
                '<versionMajor type="Integer">1</versionMajor><versionMinor type="Integer">0</versionMinor>'
                '<data3D type="Vector" allowHeterogeneousChildren="1"><vectorChild type="Structure"><guid type="String">p</guid>'
                '<points type="CompressedVector" fileOffset="%d" recordCount="%d"><prototype type="Structure">%s</prototype></points>'
                '</vectorChild></data3D></e57Root>' % (fo, records, proto_xml)).encode()

    def cv(packets, data_off=80):
        body = b"".join(packets)
        return struct.pack("<B7xQQQ", 1, 32 + len(body), data_off, 0) + body

    def data_packet(streams, count=None, length=None):
        n = len(streams)
        raw = b"".join(struct.pack("<H", len(s)) for s in streams) + b"".join(streams)
        ln = 6 + len(raw)
        pad = (-ln) % 4
        return struct.pack("<BBHH", 1, 0, (length if length is not None else ln + pad) - 1, count if count is not None else n) + raw + bytes(pad)

    names = ["cartesianX", "cartesianY", "cartesianZ", "intensity", "colorRed", "colorGreen", "colorBlue", "rowIndex", "columnIndex"]
    # a one-bit record next to k zero-width records: one input byte makes 8 * (k + 1) queued values
    for k, nbytes in ((0, 2000), (3, 2000), (8, 4000), (3, 100), (8, 40)):
        proto = '<cartesianX type="Integer" minimum="0" maximum="1"/>' + "".join('<%s type="Integer" minimum="7" maximum="7"/>' % names[1 + i] for i in range(k))
        streams = [rng.bytes(nbytes)] + [b""] * k
        out.append(("crafted-one-bit-plus-%d-zero-width%s" % (k, "" if nbytes >= 2000 else "-small"), build(pc_xml(8 * nbytes, proto), cv([data_packet(streams)])),
                    "one-bit record + %d zero-width records, %d stream bytes" % (k, nbytes)))
    # regression probes for the zero-width amplification repaired in the crate by 803272f (a 10 KB file needed 53 MB, a 35 KB
    # file 525 MB): many zero-width extension records next to a one-bit record must now respect the fixed memory bound
    for k, nbytes in ((100, 4000), (500, 8000)):
        proto = '<cartesianX type="Integer" minimum="0" maximum="1"/>' + "".join('<zz:a%d type="Integer" minimum="7" maximum="7"/>' % i for i in range(k))
        xml = pc_xml(8 * nbytes, proto).replace(b"<e57Root ", b'<e57Root xmlns:zz="http://z" ', 1)
        out.append(("crafted-one-bit-plus-%d-zero-width" % k, build(xml, cv([data_packet([rng.bytes(nbytes)] + [b""] * k)])),
                    "one-bit record + %d zero-width records, %d stream bytes" % (k, nbytes)))
    # XML nested deeper than any parser stack: must be an error, never a dead process (repaired by 7d387b1: depth limit 256)
    for depth in (255, 256, 257, 300, 20000):
        deep = pc_xml(1, '<cartesianX type="Float"/>').replace(b"</e57Root>", b"<a>" * depth + b"</a>" * depth + b"</e57Root>")
        out.append(("crafted-xml-depth-%d" % depth, build(deep, cv([data_packet([rng.bytes(4)])])), "XML with %d nested elements below the root" % depth))
    # all zero width
    proto = "".join('<%s type="Integer" minimum="7" maximum="7"/>' % n for n in names[:3])
    out.append(("crafted-all-zero-width", build(pc_xml(1000000, proto), cv([data_packet([b"", b"", b""])])), "no sized record"))
    # empty prototype, only index / ignored packets
    ign = struct.pack("<BBH", 2, 0, 3)
    idx = struct.pack("<BBHHB9x", 0, 0, 15, 0, 0)
    out.append(("crafted-empty-prototype", build(pc_xml(5, ""), cv([ign] * 50 + [idx] * 5)), "empty prototype, 55 skipped packets"))
    out.append(("crafted-ignored-packets-only", build(pc_xml(5, '<cartesianX type="Float"/>'), cv([ign] * 200)), "200 four-byte ignored packets then end of file"))
    # index and ignored packets whose length field sits on the header size (16 / 4) and around it, then real data
    good = data_packet([rng.bytes(16)])
    for pl in (4, 8, 12, 16, 20, 32, 65536):
        body = bytes(max(0, pl - 16))
        pkt = struct.pack("<BBHHB9x", 0, 0, pl - 1, 0, 0) + body
        out.append(("crafted-index-length-%d" % pl, build(pc_xml(2, '<cartesianX type="Float"/>'), cv([pkt, good])), "index packet of declared length %d before a data packet" % pl))
    for pl in (4, 8, 12, 65536):
        pkt = struct.pack("<BBH", 2, 0, pl - 1) + bytes(pl - 4)
        out.append(("crafted-ignored-length-%d" % pl, build(pc_xml(2, '<cartesianX type="Float"/>'), cv([pkt, good])), "ignored packet of declared length %d before a data packet" % pl))
    # index / ignored packets whose declared length ends exactly at the end of the file, one page before it, just behind it and
    # far behind it - as first packet and after two data packets; the section is the LAST thing in the file (XML in front of it).
    # The rest of such a packet cannot be read: both iterators must return an error (seeded change C09f: a skip loop without
    # end-of-file check never returns)
    def build_tail(xml, section_wo_tail, tail_header, pages_after):
        """header, XML, section ..., packet header at offset P, zeros to the end of the last page; returns (file, P, logical size)"""
        log = bytearray(48) + bytearray(xml)
        while len(log) % 4:
            log.append(0)
        fo = len(log)
        log += section_wo_tail
        P = len(log)
        log += tail_header
        n = (len(log) + 1019) // 1020 + pages_after
        size = n * 1020
        return fo, P, size, log
    for first in (True, False):
        for ptype in ("ignored", "index"):
            hdr_len = 4 if ptype == "ignored" else 16
            pre = [] if first else [data_packet([rng.bytes(8)]), data_packet([rng.bytes(8)])]
            for where in ("at-eof", "page-before-eof", "4-past-eof", "far-past-eof"):
                xml0 = pc_xml(7, '<cartesianX type="Float"/>', fo=0)
                # two passes: the XML carries the section offset, whose digits may change the layout
                fo = 0
                for _ in range(3):
                    xml1 = pc_xml(7, '<cartesianX type="Float"/>', fo=phys_of_log(fo))
                    sec_body = b"".join(pre)
                    fo, P, size, log = build_tail(xml1, struct.pack("<B7xQQQ", 1, 0, 0, 0) + sec_body, bytes(hdr_len), 2)
                R = size - P                      # bytes from the packet start to the logical end of the file
                pl = {"at-eof": R, "page-before-eof": R - 1020, "4-past-eof": R + 4, "far-past-eof": 65536}[where]
                th = struct.pack("<BBH", 2, 0, pl - 1) if ptype == "ignored" else struct.pack("<BBHHB9x", 0, 0, pl - 1, 0, 0)
                log[P:P + hdr_len] = th
                log[fo:fo + 32] = struct.pack("<B7xQQQ", 1, (P - fo + pl + 3) // 4 * 4, phys_of_log(fo + 32), 0)
                log += bytes(size - len(log))
                log[0:48] = b"ASTM-E57" + struct.pack("<IIQQQQ", 1, 0, size // 1020 * 1024, 48, len(xml1), 1024)
                out.append(("crafted-%s-packet-%s%s" % (ptype, where, "" if first else "-after-data"), seal(log),
                            "%s packet of declared length %d with %d bytes left in the file%s" % (ptype, pl, R, "" if first else ", after two data packets")))
    # K four-byte ignored packets in front of the only data packet, prototype of P records: before the repair of the crate every
    # skipped packet cost a walk over all P queues (one step = K x P, quadratic in the file size); see c09.py PROBE_SKIPPED
    K, P = 200000, 4000
    proto = "".join('<zz:a%d type="Float"/>' % i for i in range(P))
    xml = pc_xml(1, proto).replace(b"<e57Root ", b'<e57Root xmlns:zz="http://z" ', 1)
    pkt = struct.pack("<BBHH", 1, 0, 0xFFFF, P) + struct.pack("<H", 8) * P + bytes(8 * P)
    pkt += bytes((-len(pkt)) % 4)
    out.append(("crafted-skipped-packets-%d-prototype-%d" % (K, P), build(xml, cv([ign * K, pkt])),
                "%d ignored packets of 4 bytes before the only data packet, %d records" % (K, P)))
    # huge record count over little data
    out.append(("crafted-huge-recordcount", build(pc_xml(U64, '<cartesianX type="Float"/>'), cv([data_packet([rng.bytes(40)])])), "recordCount 2^64-1, ten points of data"))
    # full 64-bit range integers
    proto = '<cartesianX type="Integer"/><cartesianY type="Integer" minimum="-9223372036854775808" maximum="9223372036854775807"/><cartesianZ type="ScaledInteger" minimum="-9223372036854775808" maximum="9223372036854775807" scale="1e300"/>'
    out.append(("crafted-full-range", build(pc_xml(4, proto), cv([data_packet([rng.bytes(32), rng.bytes(32), rng.bytes(32)])])), "64-bit wide records"))
    # data packet whose stream lengths exceed the packet length / the file
    out.append(("crafted-stream-past-eof", build(pc_xml(4, '<cartesianX type="Float"/>'), cv([struct.pack("<BBHHH", 1, 0, 11, 1, 65535) + bytes(4)])), "stream length 65535 with 4 bytes left"))
    # many packets each completing no point (x gets data, y never)
    pk = data_packet([rng.bytes(8), b""])
    out.append(("crafted-never-complete", build(pc_xml(3, '<cartesianX type="Float"/><cartesianY type="Float"/>'), cv([pk] * 60)), "second stream always empty"))
    return out


def all_mutants(bases, rng, tier):
    """list of dict(kind, base, phys)"""
    out = []
    n_xml = 90 if tier == "quick" else 1500
    for b in bases:
        out.append(dict(kind="unmodified", base=b.name, phys=b.phys))
        r = core.Rng(rng.next())
        for kind, phys in binary_mutants(b, r, tier):
            out.append(dict(kind=kind, base=b.name, phys=phys))
        for kind, xml in xml_mutants(b, r, n_xml):
            out.append(dict(kind=kind, base=b.name, phys=with_xml(b, xml, fix_len=not r.chance(1, 10))))
        for kind, phys in other_mutants(b, r, tier):
            out.append(dict(kind=kind, base=b.name, phys=phys))
        for kind, phys in blob_length_mutants(b):
            out.append(dict(kind=kind, base=b.name, phys=phys, keep=True))
    for kind, phys, note in crafted(core.Rng(rng.next())):
        out.append(dict(kind=kind, base="crafted", phys=phys, note=note, nomodel=kind.startswith("crafted-skipped-packets")))
    # quick tier: thin out the systematic binary classes of the larger files, keeping every class
    if tier == "quick":
        budget = 4200
        if len(out) > budget:
            keep, seen = [], {}
            r = core.Rng(rng.next())
            p_keep = budget / float(len(out))
            for m in out:
                k = (m["kind"], m["base"])
                seen[k] = seen.get(k, 0) + 1
                if seen[k] <= 2 or m["base"] == "crafted" or m.get("keep") or r.below(1000) < int(1000 * p_keep):
                    keep.append(m)
            out = keep
    return out


# ---------------------------------------------------------------- running and parsing

QUICK_MASKS = [0, 63, 1, 2, 12, 16 + 8 + 4, 32 + 1, 21]    # none, all, s2c, c2s, i2c+ni, nc+ni+i2c, pose+s2c, mixed
METER = re.compile(r" (?:m|o|t|T|c|C)=\d+")


def strip_meter(s, keep_ops=False):
    if keep_ops:
        return re.sub(r" (?:m|t|T|c|C)=\d+", "", s)
    return METER.sub("", s)


def meter(s):
    return {k: int(v) for k, v in re.findall(r" (m|o|t|T|c|C)=(\d+)", s)}


def parse_tot(line):
    """-> dict(sections=[...], panics=[...], crash=bool)"""
    if line is not None and line.startswith("HANG"):
        return dict(sections=[], panics=[], crash=False, hang=True, raw=line)
    if line is None or line.startswith("CRASH") or line.startswith("unknown-kind"):
        return dict(sections=[], panics=[], crash=True, raw=line)
    pan = []
    if " # PANICS " in line:
        line, p = line.split(" # PANICS ", 1)
        pan = p.split(" ; ")
    return dict(sections=line.split(" # "), panics=pan, crash=False, raw=line)


def model_line(tot, devtok, cap="-"):
    """the TOTM case that runs the binary entry points the implementation ran, with the descriptors it reported"""
    items = []
    for s in tot["sections"]:
        if s.startswith("pc "):
            m = re.match(r"pc \d+ fo=(\d+) rc=(\d+) proto=(\S+) ", s)
            items.append("R:%s:%s:%s" % (m.group(1), m.group(2), m.group(3)))
        elif s.startswith("bl "):
            f = s.split()
            items.append("B:%s:%s" % (f[2], f[3]))
    return "TOTM %s %s %s" % (devtok, cap, " ".join(items))


def comparable(tot):
    """the sections of an implementation result that the model also computes, in the model's format"""
    out = []
    for s in tot["sections"]:
        s1 = strip_meter(s, keep_ops=True)
        if s.startswith(("vcrc:", "rawxml:", "new:")):
            out.append(s1)
        elif s.startswith("pc "):
            out.append(s1.split(" | ", 1)[1])
        elif s.startswith("bl "):
            f = s1.split()
            out.append("bl " + " ".join(f[4:]))
    return out


def compare(tot, model_out):
    """-> (status, detail): status in ok / xml_layer_not_modelled / mismatch"""
    exp = comparable(tot)
    got = model_out.split(" # ") if model_out else []
    xml_skip = False
    for i, e in enumerate(exp):
        g = got[i] if i < len(got) else "<missing>"
        if e == g:
            continue
        if e.startswith("new:e") and g.startswith("new:ok"):
            # UTF-8 decoding, XML parsing and descriptor extraction happen after the last device operation
            # of E57Reader::new and are not modelled yet: the model stops at the XML bytes
            eo, go = re.search(r" o=(\d+)", e), re.search(r" o=(\d+)", g)
            if eo and go and eo.group(1) == go.group(1) and e.split()[0] in ("new:eInvalid", "new:eRead", "new:eNotImpl"):
                xml_skip = True
                continue
        return "mismatch", "section %d: implementation [%s] model [%s]" % (i, e[:200], g[:200])
    if len(got) > len(exp) and not xml_skip:
        return "mismatch", "model has extra sections: %s" % (got[len(exp):][:2],)
    return ("xml_layer_not_modelled" if xml_skip else "ok"), ""


def devtok(phys):
    """hex of the image; `-` stands for the empty image (both binaries read it as zero bytes)"""
    return phys.hex() if phys else "-"


def case_limit_s(line):
    """wall-clock allowance for ONE case run alone: generous (the unchanged crate needs milliseconds for files of a few KB
    and about a second for the largest bundled file under all option vectors), so that it never fires under load"""
    return 60 + len(line) // 20000


def run_alone(binary, line):
    """one case in a process of its own; `HANG <seconds>` when it does not finish within its allowance"""
    import subprocess
    lim = case_limit_s(line)
    try:
        p = subprocess.run([binary], input=line + "\n", capture_output=True, text=True, timeout=lim, env=core.ENV_OFFLINE)
    except subprocess.TimeoutExpired:
        return "HANG %d" % lim
    o = p.stdout.split("\n")[0] if p.stdout else ""
    return o if o else "CRASH rc=%s %s" % (p.returncode, p.stderr[-200:].replace("\n", " "))


def run_lines(binary, lines):
    """like core.run_cases, but a call that does not return is a RESULT (`HANG`), not an infrastructure timeout: every shard has a
    wall-clock limit; the cases of a shard that ran into it, and every case whose process died, are run again alone (16 at a
    time), each with its own limit; a case that hangs alone is run a second time alone to confirm"""
    import subprocess
    from concurrent.futures import ThreadPoolExecutor
    if not lines:
        return []
    shards = max(1, min(core.NPROC, len(lines)))
    chunks = [list(range(i, len(lines), shards)) for i in range(shards)]
    out = [None] * len(lines)

    def work(idx):
        lim = 120 + sum(len(lines[i]) for i in idx) // 200000
        try:
            p = subprocess.run([binary], input="\n".join(lines[i] for i in idx) + "\n", capture_output=True, text=True, timeout=lim, env=core.ENV_OFFLINE)
        except subprocess.TimeoutExpired:
            return
        o = p.stdout.split("\n")
        if o and o[-1] == "":
            o.pop()
        if len(o) == len(idx):
            for i, x in zip(idx, o):
                out[i] = x
    with ThreadPoolExecutor(max_workers=shards) as ex:
        list(ex.map(work, chunks))
    todo = [i for i, x in enumerate(out) if x is None or x.startswith("CRASH")]
    if todo:
        with ThreadPoolExecutor(max_workers=core.NPROC) as ex:
            for i, x in zip(todo, ex.map(lambda i: run_alone(binary, lines[i]), todo)):
                out[i] = x
        hung = [i for i in todo if out[i].startswith("HANG")]
        if hung:                                             # confirm by a second run alone
            with ThreadPoolExecutor(max_workers=core.NPROC) as ex:
                for i, x in zip(hung, ex.map(lambda i: run_alone(binary, lines[i]), hung)):
                    if not x.startswith("HANG"):
                        out[i] = x
    return out


def run_tot(binary, muts, masks, prelude=(), cap="-"):
    """TOT on every mutant; cases whose process died are re-run alone so that the crash is attributed correctly"""
    mtok = ",".join(str(x) for x in masks) if masks != "all" else "all"
    outs = []
    for c0 in range(0, len(muts), 4000):       # in batches: the case lines are twice the size of the files
        lines = ["TOT %s %s %s" % (devtok(m["phys"]), mtok, cap) for m in muts[c0:c0 + 4000]]
        outs += run_lines(binary, lines)
    return outs


# ---------------------------------------------------------------- free descriptors (not from the XML)

def descriptor_cases(bases, rng, tier):
    """TOTRAW / TOTBLOB cases: the descriptor is an input of its own (the public API takes any PointCloud / Blob value),
    so prototypes no XML can produce (minimum > maximum) are reached too.  -> (lines, notes)"""
    lines, notes = [], []
    small = [b for b in bases if b.name.startswith("w")]
    for b in small:
        tok = devtok(b.phys)
        n = len(b.phys)
        txt = b.xml.decode("latin-1")
        pcs = re.findall(r'fileOffset="(\d+)" recordCount="(\d+)"', txt)
        for (fo, rc), proto in zip(pcs, [p for p in PROTOS_OF.get(b.name, [])]):
            fo, rc = int(fo), int(rc)
            types = [t for _, t in proto]
            variants = [("true", types)]
            variants.append(("min>max", [swap_minmax(t) for t in types]))
            variants.append(("all-zero-width", ["I/4/4"] * len(types)))
            variants.append(("one-sized", ["I/4/4"] * (len(types) - 1) + ["I/0/1"]))
            variants.append(("full-range", ["I/-9223372036854775808/9223372036854775807"] * len(types)))
            variants.append(("width-63", ["S/-4611686018427387904/4611686018427387903"] * len(types)))
            variants.append(("floats", ["F" if i % 2 else "D" for i in range(len(types))]))
            variants.append(("empty", []))
            variants.append(("shorter", types[:-1]))
            variants.append(("longer", types + ["I/0/255"]))
            variants.append(("extremes", ["I/9223372036854775807/-9223372036854775808"] * len(types)))
            for nm, ts in variants:
                lines.append("TOTRAW %s %d %d %s -" % (tok, fo, rc, ",".join(ts) if ts else "-"))
                notes.append("proto " + nm)
            for f2 in [0, 1, 47, fo - 1, fo + 1, fo + 4, fo + 32, b.xml_off, n - 1, n, n + 1, 1020, 1021, 1023, 1024, 1 << 32, 1 << 63, U64] + [o for o, _ in b.blobs]:
                if f2 >= 0:
                    lines.append("TOTRAW %s %d %d %s -" % (tok, f2, rc, ",".join(types)))
                    notes.append("file_offset")
            for r2 in [0, 1, max(0, rc - 1), rc + 1, 1000001, 1 << 32, U64]:
                lines.append("TOTRAW %s %d %d %s 5000" % (tok, fo, r2, ",".join(types)))
                notes.append("records")
        offs = [o for o, _ in b.blobs] + b.cv + [0, 1, 47, 48, b.xml_off, n - 16, n - 1, n, 1020, 1023, 1024, 1 << 63, U64]
        lens = [0, 1, 16, 17, 1020, 1 << 16, 1 << 32, 1 << 63, U64 - 16, U64 - 15, U64]
        for o, l in b.blobs:
            for l2 in [l, l - 1, l + 1, l + 3, l + 4, l + 16, l + 17] + lens:
                if l2 >= 0:
                    lines.append("TOTBLOB %s %d %d" % (tok, o, l2)); notes.append("blob length")
        for o in offs:
            for l2 in [0, 1, 40, U64]:
                if 0 <= o <= U64:
                    lines.append("TOTBLOB %s %d %d" % (tok, o, l2)); notes.append("blob offset")
    if tier == "quick" and len(lines) > 900:
        keep = sorted(set(rng.below(len(lines)) for _ in range(900)))
        lines, notes = [lines[i] for i in keep], [notes[i] for i in keep]
    # a blob length inflated consistently in the section header and in the descriptor (never thinned out)
    for b in bases:
        for off, ln in b.blobs[:2]:
            if len(b.phys) > MODEL_MAX_BYTES or log_of_phys(off) + 16 > len(b.log):
                continue
            for L in BLOB_LENGTHS:
                lines.append("TOTBLOB %s %d %d" % (devtok(seal(blob_header_inflated(b, off, L))), off, L))
                notes.append("blob length inflated consistently in header and descriptor")
    return lines, notes


def swap_minmax(t):
    p = t.split("/")
    if p[0] in ("I", "S") and p[1] != p[2]:
        p[1], p[2] = p[2], p[1]
    return "/".join(p)


# which prototypes the written base files contain, in file order (see make_bases)
PROTOS_OF = {"w0": [PROTOS[0]], "w1": [PROTOS[1]], "w2": [PROTOS[2]], "w3": [PROTOS[3], PROTOS[0]], "w4": [PROTOS[4]],
             "w5": [PROTOS[5], PROTOS[1]], "w6": [PROTOS[0]]}


def comparable_free(line):
    """harness TOTRAW / TOTBLOB result in the model's format"""
    t = parse_tot(line)
    if t["crash"] or not t["sections"]:
        return line
    s = strip_meter(t["sections"][0], keep_ops=True)
    if s.startswith("bl "):
        return "bl " + " ".join(s.split()[4:])
    return s


# ---------------------------------------------------------------- the exploration shared by C08 and C09

MODEL_MAX_POINTS = 2500
MODEL_MAX_BYTES = 12 * 1024      # the list-based extracted model is quadratic in the number of points; larger files are sampled


def explore(rep, tier, rng, replay, profiles=("debug", "release")):
    """-> dict(muts, out={profile: [line]}, tot={profile: [parsed]}, model=[line or None], free=dict(...), big=dict(...))"""
    bins = {p: core.ensure_harness(p) for p in profiles}
    first = profiles[0]
    if replay and replay.get("kind") == "file":
        muts = [dict(kind=replay.get("mutation", "replay"), base=replay.get("base", "?"), phys=bytes.fromhex(replay["file"]))]
        bases = []
    else:
        bases = make_bases(core.Rng(rng.next()), bins[first], tier)
        muts = all_mutants(bases, core.Rng(rng.next()), tier)
    masks = QUICK_MASKS if tier == "quick" else "all"
    out = {p: run_tot(bins[p], muts, masks) for p in profiles}
    tots = {p: [parse_tot(o) for o in out[p]] for p in profiles}
    # the model: every small file, a sample of the larger ones
    r2 = core.Rng(rng.next())
    def points(t):
        return sum(int(x) for x in re.findall(r"raw:n=(\d+)", t["raw"] or ""))
    # a file on which the first profile hangs or dies has no descriptors to hand to the model: take them from the other profile
    midx = [i for i, m in enumerate(muts)
            if points(tots[first][i]) <= MODEL_MAX_POINTS and not m.get("nomodel") and
            (replay or len(m["phys"]) <= MODEL_MAX_BYTES or (not tots[first][i]["crash"] and r2.below(60) == 0))]
    mout = []
    for c0 in range(0, len(midx), 4000):
        mout += core.run_cases(core.DRIVER, [model_line(tots[first][i], devtok(muts[i]["phys"])) for i in midx[c0:c0 + 4000]])
    model = [None] * len(muts)
    for i, o in zip(midx, mout):
        model[i] = o
    res = dict(muts=muts, out=out, tot=tots, model=model, bases=bases, masks=masks)
    if not replay:
        fl, fn = descriptor_cases(bases, core.Rng(rng.next()), tier)
        res["free"] = dict(lines=fl, notes=fn, out={p: run_lines(bins[p], fl) for p in profiles}, model=core.run_cases(core.DRIVER, fl))
        big = big_testdata()
        bm = [dict(kind="unmodified", base="t:" + fn_[:-4], phys=d) for fn_, d in big]
        res["big"] = dict(muts=bm, out={p: run_tot(bins[p], bm, [0, 63]) for p in profiles})
    else:
        res["free"] = dict(lines=[], notes=[], out={p: [] for p in profiles}, model=[])
        res["big"] = dict(muts=[], out={p: [] for p in profiles})
    return res
