"""CRC-32C in Python, used by the generators to seal pages of crafted files."""
_T = []
for i in range(256):
    v = i
    for _ in range(8):
        v = (v >> 1) ^ 0x82F63B78 if v & 1 else v >> 1
    _T.append(v)

def crc32c(data):
    s = 0xFFFFFFFF
    for b in data:
        s = _T[(s ^ b) & 255] ^ (s >> 8)
    return s ^ 0xFFFFFFFF

def paginate(log):
    """logical stream -> physical image (zero padded, sealed 1024-byte pages)"""
    out = bytearray()
    n = (len(log) + 1019) // 1020
    log = bytes(log) + bytes(n * 1020 - len(log))
    for p in range(n):
        pl = log[p * 1020:(p + 1) * 1020]
        out += pl + crc32c(pl).to_bytes(4, "big")
    return bytes(out)

def reseal(phys):
    out = bytearray(phys)
    for p in range(len(out) // 1024):
        pl = bytes(out[p * 1024:p * 1024 + 1020])
        out[p * 1024 + 1020:p * 1024 + 1024] = crc32c(pl).to_bytes(4, "big")
    return bytes(out)

def strip(phys):
    out = bytearray()
    for p in range(len(phys) // 1024):
        out += phys[p * 1024:p * 1024 + 1020]
    return bytes(out)
