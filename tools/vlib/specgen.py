"""Generators for the file-level specification checks (C02/C03): random scenes x random LEGAL
layouts in the token syntax of ocaml/drv_spec.ml, the placement arithmetic of the format
(recomputed here and cross-checked against the extracted spec_layout_offsets on every file),
and the XML text in the crate's own style."""
import resource, struct
from vlib import gen


def big_stack():
    """the extracted functions are not tail recursive: give the child processes (model driver) a large stack"""
    try:
        soft, hard = resource.getrlimit(resource.RLIMIT_STACK)
        want = 4 << 30
        if hard != resource.RLIM_INFINITY:
            want = min(want, hard)
        if soft == resource.RLIM_INFINITY or soft >= want:
            return
        resource.setrlimit(resource.RLIMIT_STACK, (want, hard))
    except (ValueError, OSError):
        pass

MAX_PACKET = 65536


def phys_of_log(l):
    return l + 4 * (l // 1020)


def log_of_phys(p):
    return p - 4 * (p // 1024)


def pad4(n):
    return (4 - n % 4) % 4


def stream_len(t, count):
    """bytes of one record's byte stream over `count` points"""
    return (gen.tok_width(t) * count + 7) // 8


# ---------------------------------------------------------------- prototypes and scenes

STD_NAMES = ["cartesianX", "cartesianY", "cartesianZ", "cartesianInvalidState", "sphericalRange", "sphericalAzimuth",
             "sphericalElevation", "sphericalInvalidState", "intensity", "isIntensityInvalid", "colorRed", "colorGreen",
             "colorBlue", "isColorInvalid", "rowIndex", "columnIndex", "returnCount", "returnIndex", "timeStamp",
             "isTimeStampInvalid"]

WIDTH_GRID = [0, 1, 2, 3, 5, 7, 8, 9, 11, 15, 16, 17, 24, 31, 32, 33, 48, 63, 64]


def rand_types(rng, n, force_width=None):
    """n record type tokens (F, D, I/mn/mx, S/mn/mx/scalebits/offsetbits); at least one of non-zero width"""
    out = []
    for _ in range(n):
        w = force_width if force_width is not None else (rng.choice(WIDTH_GRID) if rng.chance(3, 4) else rng.range(0, 64))
        out.append(gen.type_tok(rng, ("F", "D", "I", "I", "S"), w=w))
    if all(gen.tok_width(t) == 0 for t in out):
        out[rng.below(n)] = rng.choice(["F", "D", gen.type_tok(rng, ("I",), w=rng.range(1, 64))])
    return out


def rand_scene(rng, size):
    """(types, points) ; size in {'tiny', 'small', 'big'}"""
    if size == "tiny":
        types = rand_types(rng, rng.range(1, 5))
        count = rng.choice([0, 0, 1, 1, 2, 3, 5, 9])
    elif size == "small":
        types = rand_types(rng, rng.range(1, 12) if rng.chance(5, 6) else rng.range(21, 30))
        count = rng.choice([0, 1, 2, 3, 7, 8, 9, 33, 64, 120, 257])
    else:
        # streams long enough to fill packets up to the 64 KiB limit
        types = rand_types(rng, rng.range(2, 5), force_width=rng.choice([64, 64, 33, 17]))
        per_point = max(1, sum(gen.tok_width(t) for t in types))
        count = (rng.choice([70000, 140000, 200000]) * 8) // per_point
    pts = [[gen.rand_value(rng, t) for t in types] for _ in range(count)]
    return types, pts


# ---------------------------------------------------------------- packetisation

def rand_layout(rng, types, count, mode):
    """list of packets: ('I', total) | ('G', total) | ('D', [chunk length per record]).  Every split of
    each stream is legal: unequal per record, empty chunks, records finishing early, values straddling."""
    n = len(types)
    rem = [stream_len(t, count) for t in types]
    cap_max = MAX_PACKET - 6 - 2 * n
    packets = []
    nd = lambda: rng.chance(1, 6)

    def nondata():
        if rng.chance(1, 2):
            return ("I", rng.choice([16, 16, 20, 32, 64, 1024, MAX_PACKET] if rng.chance(9, 10) else [4 * rng.range(4, 16384)]))
        return ("G", rng.choice([4, 4, 8, 12, 100, 1020, MAX_PACKET] if rng.chance(9, 10) else [4 * rng.range(1, 16384)]))

    if mode != "plain" and nd():
        packets.append(nondata())                       # non-data packet first
    if mode != "plain" and rng.chance(1, 8):
        packets.append(("D", [0] * n))                   # a data packet of empty chunks only
    guard = 0
    while any(r > 0 for r in rem):
        guard += 1
        if mode == "one" or mode == "plain":
            budget = cap_max
        elif mode == "tiny":
            budget = rng.choice([1, 1, 2, 3, 4, 5, 7, 8])
        elif mode == "max":
            budget = cap_max if rng.chance(3, 4) else cap_max - rng.range(0, 9)
        else:
            budget = rng.choice([1, 2, 3, 5, 8, 13, 16, 64, 300, 1000, 4096, 20000, cap_max])
        chunks = [0] * n
        order = list(range(n))
        if mode not in ("plain",):
            for i in range(n - 1, 0, -1):
                j = rng.below(i + 1)
                order[i], order[j] = order[j], order[i]
        left = budget
        for i in order:
            if rem[i] == 0 or left == 0:
                continue
            c = rng.below(8) if mode not in ("one", "plain", "max") else 0
            if c == 0:
                k = min(rem[i], left, 65535)             # as much as fits (a record may finish early)
            elif c == 1:
                k = 0                                    # empty chunk
            else:
                k = rng.range(0, min(rem[i], left, 65535))
            chunks[i] = k
            left -= k
            rem[i] -= k
        if sum(chunks) == 0 and guard % 3:
            # do not loop on empty packets: take one byte of the first unfinished record
            i = next(i for i in range(n) if rem[i] > 0)
            chunks[i] = 1
            rem[i] -= 1
        packets.append(("D", chunks))
        if mode not in ("plain",) and nd():
            packets.append(nondata())                    # between data packets
            if rng.chance(1, 4):
                packets.append(nondata())
    if mode != "plain" and rng.chance(1, 10):
        packets.append(("D", [0] * n))
    if mode != "plain" and nd():
        packets.append(nondata())                        # non-data packet last
    return packets


def packet_len(p, n):
    if p[0] in ("I", "G"):
        return p[1]
    raw = 6 + 2 * n + sum(p[1])
    return raw + pad4(raw)


def layout_tok(packets):
    return "_".join(("D" + ".".join(str(c) for c in p[1])) if p[0] == "D" else "%s%d" % (p[0], p[1]) for p in packets)


# ---------------------------------------------------------------- file layouts

def entry_len(e, xl):
    if e[0] == "X":
        return xl + pad4(xl)
    if e[0] == "B":
        return 16 + len(e[2]) + pad4(len(e[2])) + e[1]
    n = len(e[2])
    return 32 + sum(packet_len(p, n) for p in e[4]) + e[1]


def starts(entries, xl):
    out, base = [], 48
    for e in entries:
        out.append(base)
        base += entry_len(e, xl)
    return out, base


def entry_tok(e):
    if e[0] == "X":
        return "X"
    if e[0] == "B":
        return "B:%d:%s" % (e[1], e[2].hex())
    return "P:%d:%s:%s:%s" % (e[1], ",".join(e[2]), gen.points_tok(e[3]), layout_tok(e[4]))


def rand_pad(rng):
    return rng.choice([0, 0, 0, 4, 8, 12, 16, 1016, 1020, 1024]) if rng.chance(9, 10) else 4 * rng.range(0, 600)


def rand_file(rng, size):
    """entries: ('X',) | ('B', pad, bytes) | ('P', pad, types, points, packets)"""
    entries = []
    n_sec = rng.choice([0, 1, 1, 2, 2, 3, 4]) if size != "big" else 1
    for _ in range(n_sec):
        if size != "big" and rng.chance(1, 3):
            L = rng.choice([0, 1, 3, 4, 5, 1000, 1003, 1004, 1019, 1020, 1021, 2040]) if rng.chance(1, 2) else rng.range(0, 2500)
            entries.append(("B", rand_pad(rng), rng.bytes(L)))
        else:
            types, pts = rand_scene(rng, size)
            mode = rng.choice(["tiny", "random", "random", "one", "plain", "max"]) if size != "big" else rng.choice(["max", "max", "random"])
            if size == "small" and len(pts) > 40 and mode == "tiny":
                mode = "random"
            entries.append(("P", rand_pad(rng), types, pts, rand_layout(rng, types, len(pts), mode)))
    entries.insert(rng.below(len(entries) + 1), ("X",))
    return entries


# ---------------------------------------------------------------- XML in the crate's style

def f64_bits(x):
    return struct.unpack("<Q", struct.pack("<d", x))[0]


def bits_f64(b):
    return struct.unpack("<d", struct.pack("<Q", b))[0]


def float_text(b):
    """decimal text that parses back to exactly these bits (shortest round trip, no exponent for the values used)"""
    x = bits_f64(b)
    s = repr(x)
    if s.endswith(".0"):
        s = s[:-2]
    return s


def record_xml(name, t, rng=None):
    """one prototype entry; with rng, optional attributes that equal their defaults may be omitted"""
    omit = (lambda: rng is not None and rng.chance(1, 2))
    if t == "F":
        return '<%s type="Float" precision="single">0</%s>\n' % (name, name)
    if t == "D":
        if omit():
            return '<%s type="Float" precision="double">0</%s>\n' % (name, name)
        return '<%s type="Float">0</%s>\n' % (name, name)
    p = t.split("/")
    mn, mx = int(p[1]), int(p[2])
    attrs = 'type="%s"' % ("Integer" if p[0] == "I" else "ScaledInteger")
    if not (mn == gen.I64_MIN and omit()):
        attrs += ' minimum="%d"' % mn
    if not (mx == gen.I64_MAX and omit()):
        attrs += ' maximum="%d"' % mx
    if p[0] == "S":
        sb, ob = int(p[3], 16), int(p[4], 16)
        if not (sb == 0x3ff0000000000000 and omit()):
            attrs += ' scale="%s"' % float_text(sb)
        if not (ob == 0 and omit()):
            attrs += ' offset="%s"' % float_text(ob)
    return '<%s %s>%d</%s>\n' % (name, attrs, mn, name)


def record_names(rng, n):
    if n <= len(STD_NAMES) and rng.chance(2, 3):
        names = list(STD_NAMES)
        for i in range(len(names) - 1, 0, -1):
            j = rng.below(i + 1)
            names[i], names[j] = names[j], names[i]
        return names[:n]
    return ["ext:a%d" % i for i in range(n)]


def make_xml(entries, offs, names, rng=None):
    """XML text for the entries placed at physical offsets `offs` (one per entry, the XML entry's own ignored)"""
    xml = '<?xml version="1.0" encoding="UTF-8"?>\n'
    xml += '<e57Root type="Structure" xmlns:ext="http://www.example.com/e57/ext" xmlns="http://www.astm.org/COMMIT/E57/2010-e57-v1.0">\n'
    xml += '<formatName type="String"><![CDATA[ASTM E57 3D Imaging Data File]]></formatName>\n'
    xml += '<guid type="String"><![CDATA[spec-file]]></guid>\n'
    xml += '<versionMajor type="Integer">1</versionMajor>\n<versionMinor type="Integer">0</versionMinor>\n'
    xml += '<data3D type="Vector" allowHeterogeneousChildren="1">\n'
    k = 0
    for e, off in zip(entries, offs):
        if e[0] != "P":
            continue
        xml += '<vectorChild type="Structure">\n<guid type="String"><![CDATA[pc-%d]]></guid>\n' % k
        xml += '<points type="CompressedVector" fileOffset="%d" recordCount="%d">\n<prototype type="Structure">\n' % (off, len(e[3]))
        for nm, t in zip(names[k], e[2]):
            xml += record_xml(nm, t, rng)
        xml += '</prototype>\n</points>\n</vectorChild>\n'
        k += 1
    xml += '</data3D>\n<images2D type="Vector" allowHeterogeneousChildren="1">\n'
    k = 0
    for e, off in zip(entries, offs):
        if e[0] != "B":
            continue
        xml += '<vectorChild type="Structure">\n<guid type="String"><![CDATA[img-%d]]></guid>\n' % k
        xml += '<visualReferenceRepresentation type="Structure">\n<pngImage type="Blob" fileOffset="%d" length="%d"/>\n' % (off, len(e[2]))
        xml += '<imageWidth type="Integer">3</imageWidth>\n<imageHeight type="Integer">2</imageHeight>\n'
        xml += '</visualReferenceRepresentation>\n</vectorChild>\n'
        k += 1
    xml += '</images2D>\n</e57Root>\n'
    return xml.encode()


def place(entries, names, rng_seed_xml=None):
    """fixpoint of (XML length -> offsets -> XML text): returns (xml bytes, physical offsets, logical end)"""
    from vlib import core
    xl = 0
    for _ in range(8):
        st, end = starts(entries, xl)
        offs = [phys_of_log(s) for s in st]
        xml = make_xml(entries, offs, names, core.Rng(rng_seed_xml) if rng_seed_xml is not None else None)
        if len(xml) == xl:
            return xml, offs, end
        xl = len(xml)
    raise core.InfraError("XML length did not reach a fixpoint")


def shown_type(t):
    """the harness's show_type of a record type token"""
    if t in ("F", "D"):
        return t
    p = t.split("/")
    if p[0] == "I":
        return "I/%s/%s" % (p[1], p[2])
    return "S/%s/%s/%s/%s" % (p[1], p[2], p[3], p[4])


def bare_type(t):
    """type token without scale/offset (what the binary model needs)"""
    p = t.split("/")
    return t if p[0] in ("F", "D") else "%s/%s/%s" % (p[0], p[1], p[2])


# ---------------------------------------------------------------- lexical and structural variants of the XML

E57_NS = "http://www.astm.org/COMMIT/E57/2010-e57-v1.0"


def tree_variant(xml, rng):
    """variants that change the document tree but not its meaning: comments and processing instructions
    between elements (never inside a leaf), and the E57 namespace bound to a prefix instead of being the
    default namespace.  Returns (bytes, tags of the variants applied)."""
    import re
    txt = xml.decode()
    tags = []
    if rng.chance(1, 3):
        pre = rng.choice(["e57", "e", "E57_ns", "a.b-c"])
        tags.append("prefix=" + pre)
        txt = re.sub(r"<(/?)([A-Za-z_][\w.-]*)(?=[\s>/])", lambda m: "<%s%s:%s" % (m.group(1), pre, m.group(2)), txt)
        txt = txt.replace(' xmlns="%s"' % E57_NS, ' xmlns:%s="%s"' % (pre, E57_NS))
    if rng.chance(1, 2):
        tags.append("misc")
        parts = txt.split(">\n<")
        out = [parts[0]]
        for k, part in enumerate(parts[1:]):
            c = rng.below(8)
            if c == 0:
                out.append(">\n<!-- %s -->\n<" % rng.choice(["note", "", "a < b & c", "fileOffset=\"7\"", "<points>"]))
            elif c == 1:
                out.append(">\n<?%s?>\n<" % rng.choice(["proc", "target some data", "x-y a=\"1\""]))
            elif c == 2 and k > 0:
                out.append("><!--c--><")
            else:
                out.append(">\n<")
            out.append(part)
        txt = "".join(out)
    return txt.encode(), tags


# ---------------------------------------------------------------- what the reader must expose (dump of harness kind RNEW)

EXT_URL = "http://www.example.com/e57/ext"


def _hs(t):
    return "=" + t.encode().hex()


def dump_name(nm):
    if ":" in nm:
        p, l = nm.split(":", 1)
        return "U:%s:%s" % (_hs(p), _hs(l))
    return nm[0].upper() + nm[1:]


def dump_type(t):
    if t == "F":
        return "S:-:-"
    if t == "D":
        return "D:-:-"
    p = t.split("/")
    if p[0] == "I":
        return "I:%s:%s" % (p[1], p[2])
    return "SI:%s:%s:%s:%s" % (p[1], p[2], p[3], p[4])


def expected_dump(entries, offs, names, prefix=None):
    """the canonical metadata dump (harness/src/ext_xe.rs) of a file made by make_xml: names, types with the
    defaults made explicit, counts, offsets, guids; `prefix` = the prefix the E57 namespace is bound to, if any
    (the reader lists every prefixed namespace of the root element as an extension)"""
    exts = [("ext", EXT_URL)] + ([(prefix, E57_NS)] if prefix else [])
    out = ["OK", "fmt=" + _hs("ASTM E57 3D Imaging Data File"), "guid=" + _hs("spec-file"), "lib=-", "cre=-", "crd=-",
           "ext=%d" % len(exts)] + ["%s,%s" % (_hs(p), _hs(u)) for p, u in exts]
    pcs = [(e, o) for e, o in zip(entries, offs) if e[0] == "P"]
    out.append("pcs=%d" % len(pcs))
    for k, (e, off) in enumerate(pcs):
        out += ["pc", "guid=" + _hs("pc-%d" % k), "off=%d" % off, "rec=%d" % len(e[3]), "proto=%d" % len(e[2])]
        out += ["%s/%s" % (dump_name(n), dump_type(t)) for n, t in zip(names[k], e[2])]
        out += "og=- name=- desc=- cb=- sb=- ib=- il=- cl=- tr=- as=- ae=- sv=- sm=- ss=- hw=- sw=- fw=- temp=- hum=- pres=-".split()
    bl = [(e, o) for e, o in zip(entries, offs) if e[0] == "B"]
    out.append("ims=%d" % len(bl))
    for k, (e, off) in enumerate(bl):
        out += ["im", "guid=" + _hs("img-%d" % k), "vr=P@%d+%d,-,3,2" % (off, len(e[2]))]
        out += "pj=- tr=- pcg=- name=- desc=- acq=- sv=- sm=- ss=-".split()
    return " ".join(out)


def mask_dump(d):
    """a dump with everything removed that legitimately depends on the rendering: section offsets (the XML length
    moves the sections behind it) and the list of prefixed namespaces"""
    import re
    d = re.sub(r"\boff=\d+", "off=*", d)
    d = re.sub(r"@\d+\+", "@*+", d)
    d = re.sub(r"\bext=\d+ (?:=[0-9a-f]*,=[0-9a-f]* )*pcs=", "ext=* pcs=", d)
    return d
