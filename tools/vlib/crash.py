"""Helpers shared by C15 (interrupted writes) and C16 (device faults, short transfers):
writer programs for the CWLOG case kind, parsing of its output, crash images."""
import re
from vlib import core, gen

SMALL_PROTOS = [
    [("x", "F"), ("y", "F"), ("z", "F")],
    [("x", "D"), ("y", "D"), ("z", "D"), ("in", "I/0/2047")],
    [("x", "I/-100/100"), ("y", "I/5/5"), ("z", "S/0/1000/3f50624dd2f1a9fc/0000000000000000"), ("r", "I/0/255"), ("g", "I/0/255"), ("b", "I/0/255")],
    [("sr", "S/0/100000/3f50624dd2f1a9fc/0000000000000000"), ("sa", "F"), ("se", "F"), ("row", "I/0/7"), ("col", "I/-3/3")],
]


# ---------------------------------------------------------------- items
# ('B', bytes) | ('I'|'ID', kind, data, mask|None) | ('P'|'PD', proto, points)
# ('FIN',) | ('FINX',)  top-level finalize() / finalize_customized_xml(Ok) in the middle of a program (flag xfin)
# program keys: items, nofin (writer dropped without finalize), finx (the implicit last finalize goes through
# finalize_customized_xml), xfin (no implicit finalize: the FIN / FINX items are the top-level finalize calls)

def item_tok(it):
    if it[0] in ("FIN", "FINX"):
        return it[0]
    if it[0] == "B":
        return "B:" + it[1].hex()
    if it[0] in ("I", "ID"):
        return "%s:%s:%s:%s" % (it[0], it[1], it[2].hex(), "-" if it[3] is None else it[3].hex())
    return "%s:%s:%s" % (it[0], gen.proto_tok(it[1]), gen.points_tok(it[2]))


def parse_item(t):
    p = t.split(":")
    if p[0] in ("FIN", "FINX"):
        return (p[0],)
    if p[0] == "B":
        return ("B", bytes.fromhex(p[1]))
    if p[0] in ("I", "ID"):
        return (p[0], p[1], bytes.fromhex(p[2]), None if p[3] == "-" else bytes.fromhex(p[3]))
    proto = [tuple(x.split("=", 1)) for x in p[1].split(",") if x]
    pts = [q.split(",") for q in p[2].split(";")] if len(p) > 2 and p[2] else []
    return (p[0], proto, pts)


def prog_flags(prog):
    return [f for f in ("nofin", "finx", "xfin") if prog.get(f)]


def prog_text(prog):
    return " ".join(prog_flags(prog) + [item_tok(i) for i in prog["items"]])


def split_outs(prog, outs):
    """result tokens of a fault-free run -> (tokens up to and including the first successful top-level finalize,
    tokens of the calls made after it); None when the tokens do not match the program"""
    pos, committed, before, after = 1, False, outs[:1], []
    for it in prog["items"]:
        ntok = 1 if committed else (2 if it[0] in ("I", "ID") and it[3] is not None else 1)
        toks = outs[pos:pos + ntok]
        if len(toks) != ntok:
            return None
        pos += ntok
        (after if committed else before).extend(toks)
        if it[0] in ("FIN", "FINX") and not committed and toks == ["o"]:
            committed = True
    rest = outs[pos:]
    (after if committed else before).extend(rest)
    return before, after


def rand_item(rng, sizes=None, allow_dropped=False):
    sizes = sizes or [0, 1, 3, 4, 5, 60, 300, 955, 956, 957, 1019, 1020, 1021, 1976, 2040]
    c = rng.below(10)
    if c < 3:
        return ("B", rng.bytes(rng.choice(sizes)))
    if c < 5:
        kind = "ID" if allow_dropped and rng.chance(1, 4) else "I"
        mask = rng.bytes(rng.choice([0, 1, 5, 64, 700])) if rng.chance(1, 2) else None
        return (kind, rng.choice(["v", "p", "s", "c"]), rng.bytes(rng.choice(sizes)), mask)
    proto = rng.choice(SMALL_PROTOS) if rng.chance(3, 4) else gen.rand_proto(rng, small=True)
    kind = "PD" if allow_dropped and rng.chance(1, 4) else "P"
    return (kind, proto, gen.rand_points(rng, proto, rng.choice([0, 1, 2, 3, 5, 9, 40])))


# ---------------------------------------------------------------- CWLOG

def cw_line(prog, fault="-", chunks="-", flags=(), xml=None):
    fl = list(flags) + prog_flags(prog)
    s = "CWLOG %s %s %s %s" % (fault, chunks, ",".join(fl) if fl else "-", " ".join(item_tok(i) for i in prog["items"]))
    if xml:
        s += " X:" + xml
    return s.rstrip()


_FIELD = re.compile(r"(\w+)=(\S*)")


def parse_cw(line):
    """-> dict(raw, outs, ops, len, h, wlog, finops, logmark, log, dev, xml); `raw` is the line without xml="""
    d = dict(raw=line.split(" xml=")[0].rstrip(), outs=[], crash=line.startswith("CRASH") or line.startswith("unknown-kind") or line.startswith("driver-"))
    head, _, tail = line.partition(" | ")
    d["outs"] = head.split()
    f = dict(_FIELD.findall(tail))
    for k in ("ops", "len"):
        d[k] = int(f[k]) if k in f and f[k].isdigit() else None
    d["h"] = f.get("h")
    d["wlog"] = f.get("wlog")
    d["finops"] = int(f["finops"]) if f.get("finops", "-").isdigit() else None
    d["logmark"] = int(f["logmark"]) if f.get("logmark", "-").isdigit() else None
    d["finlog"] = int(f["finlog"]) if f.get("finlog", "-").isdigit() else None
    d["callops"] = [int(x) for x in f.get("callops", "").split(",") if x]
    d["xml"] = f.get("xml", "")
    d["dev"] = bytes.fromhex(f["dev"]) if "dev" in f else None
    d["log"] = None
    if "log" in f:
        d["log"] = [(int(e.split(":")[0]), bytes.fromhex(e.split(":")[1])) for e in f["log"].split(",") if e]
    return d


def tok_eq(a, b):
    """result tokens equal; an offset the implementation could not learn (`p?:n`, `b?:n`: the file was not
    finalized) matches any offset"""
    if a == b:
        return True
    for x, y in ((a, b), (b, a)):
        if len(x) > 2 and x[1] == "?" and y[:1] == x[:1] and ":" in y and y[1:2].isdigit():
            return x.split(":")[1] == y.split(":")[1]
    return False


def outs_eq(a, b):
    return len(a) == len(b) and all(tok_eq(x, y) for x, y in zip(a, b))


def raw_eq(impl_raw, model_raw):
    """whole CWLOG lines (without xml=): result tokens up to unknown offsets, everything after ` | ` exactly"""
    ha, _, ta = impl_raw.partition(" | ")
    hb, _, tb = model_raw.partition(" | ")
    return ta == tb and outs_eq(ha.split(), hb.split())


def is_fail_tok(t):
    return t == "P" or t == "dropP" or t.startswith("e") or t.startswith("new:")


def call_of_token(prog, fi):
    """index of the library call (0 = new, 1.. = items, last = finalize) that produced result token number fi,
    all tokens before it being successes"""
    pos, call = 1, 0
    if fi == 0:
        return 0
    for it in prog["items"]:
        call += 1
        ntok = 2 if it[0] in ("I", "ID") and it[3] is not None else 1
        if fi < pos + ntok:
            return call
        pos += ntok
    return call + 1


def blob_ops(outs):
    """B:<off>:<len> reader operations for every blob the (completed) run published"""
    return ["B:%s" % t[1:] for t in outs if t.startswith("b") and "?" not in t]


def pc_descs(outs):
    return [tuple(int(x) for x in t[1:].split(":")) for t in outs if t.startswith("p") and "?" not in t and t[1:2].isdigit()]


# ---------------------------------------------------------------- crash images

def apply_log(log, upto=None, cut=0):
    """replay of the first `upto` writes and the first `cut` bytes of the next one on an empty device;
    a write beyond the end zero-fills the gap"""
    n = len(log) if upto is None else upto
    img = bytearray()
    seq = list(log[:n])
    if cut and n < len(log):
        seq.append((log[n][0], log[n][1][:cut]))
    for pos, bs in seq:
        if not bs:
            continue
        if len(img) < pos:
            img.extend(bytes(pos - len(img)))
        end = pos + len(bs)
        if len(img) < end:
            img.extend(bytes(end - len(img)))
        img[pos:end] = bs
    return bytes(img)


def cuts_for(n):
    """cut positions inside a write of n bytes (0 = nothing of it, n = all of it is the next prefix)"""
    if n <= 64:
        return list(range(0, n))
    c = set(range(0, 49)) | set(range(0, n, 97)) | {n - 3, n - 2, n - 1}
    return sorted(x for x in c if 0 <= x < n)


def crash_points(log):
    """every (n, cut): first n writes complete, the next cut after `cut` bytes; ends with (len(log), 0)"""
    out = []
    for n, (_, bs) in enumerate(log):
        for c in cuts_for(len(bs)):
            out.append((n, c))
    out.append((len(log), 0))
    return out


def incremental_images(log, points):
    """yields ((n, cut), bytes) for crash points sorted by n, building the prefix incrementally"""
    base = bytearray()
    done = 0
    for (n, cut) in points:
        while done < n:
            pos, bs = log[done]
            if bs:
                if len(base) < pos:
                    base.extend(bytes(pos - len(base)))
                end = pos + len(bs)
                if len(base) < end:
                    base.extend(bytes(end - len(base)))
                base[pos:end] = bs
            done += 1
        if cut == 0 or n >= len(log):
            yield (n, cut), bytes(base)
        else:
            img = bytearray(base)
            pos, bs = log[n]
            bs = bs[:cut]
            if len(img) < pos:
                img.extend(bytes(pos - len(img)))
            end = pos + len(bs)
            if len(img) < end:
                img.extend(bytes(end - len(img)))
            img[pos:end] = bs
            yield (n, cut), bytes(img)


# ---------------------------------------------------------------- CRD output

def split_crd(line):
    """'seg # seg ... | ops=n' -> (segments, ops)"""
    body, _, tail = line.rpartition(" | ops=")
    if not _:
        return [line], None
    return body.split(" # "), int(tail) if tail.strip().isdigit() else None


def seg_panics(segs):
    return any(s == "open:P" or s.endswith(" P") or s.endswith("new:P") or "end=P" in s or s.startswith("CRASH") for s in segs)


def seg_failed(s):
    """a read segment that reports an error"""
    if s.startswith("open:"):
        return s != "open:ok" and not s.startswith("open:ok ")
    if s.startswith("it "):
        return s.startswith("it new:") or " end=e" in s or " end=P" in s
    if s.startswith("bl "):
        return s.startswith("bl e") or s == "bl P"
    return False


def it_fields(s):
    m = re.match(r"it n=(\d+) end=(\S+) pts=(.*)$", s)
    return (int(m.group(1)), m.group(2), m.group(3)) if m else None


def read_seg_ok(seg, ref):
    """a read on a partial/faulted medium returned an error or exactly the reference result;
    an iteration may deliver a prefix of the reference points and then an error"""
    if seg == ref:
        return True
    if not seg_failed(seg):
        return False
    if seg.startswith("it n="):
        a, b = it_fields(seg), it_fields(ref)
        if a is None or b is None:
            return ref.startswith("it ")
        n, end, pts = a
        return n <= b[0] and (pts == "" or b[2] == pts or b[2].startswith(pts + ";"))
    return seg[:3] == ref[:3]
