"""Writer-API call sequences (case kind WAPI): tokens, an independent reading of the
documented rules (what may be accepted, what the file must then contain), running the
implementation and the extracted model, and comparing them.  Used by props/c10.py and c14.py.

A call is a tuple; see harness/src/ext_wapi.rs for the token format.
  ("NEW", guid) ("SCM", s|None) ("SCR", (bits, atomic)|None) ("EXT", ns, url) ("BLOB", bytes)
  ("PC", guid, proto) proto = [(name, type)], name = short token or ("u", ns, name), type = token string
  ("PT", [value tokens]) ("PFIN",) ("PDROP",) ("PSET", field, arg-token)
  ("IMG", guid) ("ISET", field, arg-token) ("IVIS", fmt, data, w, h, mask|None)
  ("IPIN"|"ISPH"|"ICYL", fmt, data, props-token, mask|None) ("IFIN",) ("IDROP",) ("FIN",) ("FINX",) (= finalize_customized_xml(Ok))
Strings are Python str (UTF-8 encoded into hex tokens)."""
import os, struct
from fractions import Fraction
from vlib import core, gen

I64_MIN, I64_MAX = -(1 << 63), (1 << 63) - 1
STD_NAMES = ["x", "y", "z", "cis", "sr", "sa", "se", "sis", "in", "iin", "r", "g", "b", "ici", "row", "col", "rc", "ri", "ts", "its"]


def hx(s):
    return s.encode("utf-8").hex() if isinstance(s, str) else bytes(s).hex()


def name_tok(n):
    return n if isinstance(n, str) else "u~%s~%s" % (hx(n[1]), hx(n[2]))


def proto_tok(proto):
    return ",".join("%s=%s" % (name_tok(n), t) for n, t in proto)


def call_tok(c):
    k = c[0]
    if k == "NEW":
        return "NEW:" + hx(c[1])
    if k == "SCM":
        return "SCM:" + ("-" if c[1] is None else hx(c[1]))
    if k == "SCR":
        return "SCR:-" if c[1] is None else "SCR:%016x:%d" % c[1]
    if k == "EXT":
        return "EXT:%s:%s" % (hx(c[1]), hx(c[2]))
    if k == "BLOB":
        return "BLOB:" + bytes(c[1]).hex()
    if k == "PC":
        return "PC:%s:%s" % (hx(c[1]), proto_tok(c[2]))
    if k == "PT":
        return "PT:" + ",".join(c[1])
    if k in ("PSET", "ISET"):
        return "%s:%s:%s" % (k, c[1], c[2])
    if k == "IMG":
        return "IMG:" + hx(c[1])
    if k == "IVIS":
        return "IVIS:%s:%s:%d:%d:%s" % (c[1], bytes(c[2]).hex(), c[3], c[4], "-" if c[5] is None else bytes(c[5]).hex())
    if k in ("IPIN", "ISPH", "ICYL"):
        return "%s:%s:%s:%s:%s" % (k, c[1], bytes(c[2]).hex(), c[3], "-" if c[4] is None else bytes(c[4]).hex())
    return k


def case_line(calls):
    return "WAPI " + " ".join(call_tok(c) for c in calls)


def calls_of_tokens(toks):
    """inverse of call_tok for replays"""
    out = []
    for t in toks:
        p = t.split(":")
        k = p[0]
        s = lambda h: bytes.fromhex(h).decode("utf-8")
        if k == "NEW":
            out.append(("NEW", s(p[1])))
        elif k == "SCM":
            out.append(("SCM", None if p[1] == "-" else s(p[1])))
        elif k == "SCR":
            out.append(("SCR", None if p[1] == "-" else (int(p[1], 16), int(p[2]))))
        elif k == "EXT":
            out.append(("EXT", s(p[1]), s(p[2])))
        elif k == "BLOB":
            out.append(("BLOB", bytes.fromhex(p[1] if len(p) > 1 else "")))
        elif k == "PC":
            proto = []
            for nt in (p[2] if len(p) > 2 else "").split(","):
                if not nt:
                    continue
                n, ty = nt.split("=", 1)
                if n.startswith("u~"):
                    q = n.split("~")
                    n = ("u", s(q[1]), s(q[2]))
                proto.append((n, ty))
            out.append(("PC", s(p[1]), proto))
        elif k == "PT":
            out.append(("PT", [v for v in (p[1] if len(p) > 1 else "").split(",") if v]))
        elif k in ("PSET", "ISET"):
            out.append((k, p[1], p[2]))
        elif k == "IMG":
            out.append(("IMG", s(p[1])))
        elif k == "IVIS":
            out.append(("IVIS", p[1], bytes.fromhex(p[2]), int(p[3]), int(p[4]), None if p[5] == "-" else bytes.fromhex(p[5])))
        elif k in ("IPIN", "ISPH", "ICYL"):
            out.append((k, p[1], bytes.fromhex(p[2]), p[3], None if p[4] == "-" else bytes.fromhex(p[4])))
        else:
            out.append((k,))
    return out


# ------------------------------------------------------------------ the documented rules, read independently

def type_kind(t):
    return t.split("/")[0]


def type_range(t):
    p = t.split("/")
    return int(p[1]), int(p[2])


def type_width(t):
    k = type_kind(t)
    if k == "F":
        return 32
    if k == "D":
        return 64
    mn, mx = type_range(t)
    return (mx - mn).bit_length() if mx > mn else 0


def ext_name_ok(s):
    """XML namespace / attribute names: not empty, not starting with xml (any case), only a-z A-Z 0-9 - _,
    not starting with a digit or a dash"""
    if s == "":
        return False
    if s.lower().startswith("xml"):
        return False
    if s[0] in "0123456789-":
        return False
    return all((c.isascii() and c.isalnum()) or c in "-_" for c in s)


RESERVED_URLS = ("http://www.w3.org/XML/1998/namespace", "http://www.w3.org/2000/xmlns/")
# an extension needs its own URL: not empty, not the E57 namespace
FORBIDDEN_URLS = RESERVED_URLS + ("", "http://www.astm.org/COMMIT/E57/2010-e57-v1.0")


def proto_rule_violations(proto, registered):
    """Names of the documented rules a prototype breaks (empty list = may be accepted)."""
    names = [n for n, _ in proto]
    has = lambda n: n in names
    first = lambda n: next(t for m, t in proto if m == n)
    bad = []
    def group(a, b, c, label):
        k = sum(1 for n in (a, b, c) if has(n))
        if k not in (0, 3):
            bad.append(label + "-incomplete")
    group("x", "y", "z", "cartesian")
    group("sa", "se", "sr", "spherical")
    group("r", "g", "b", "color")
    if not has("x") and not has("sa"):
        bad.append("no-coordinates")
    def flag(n, companion, hi, label):
        if has(n):
            if not has(companion):
                bad.append(label + "-without-companion")
            elif first(n) != "I/0/%d" % hi:
                bad.append(label + "-wrong-type")
    flag("cis", "x", 2, "cartesian-invalid-state")
    flag("sis", "sa", 2, "spherical-invalid-state")
    flag("ici", "r", 1, "color-invalid")
    flag("iin", "in", 1, "intensity-invalid")
    flag("its", "ts", 1, "timestamp-invalid")
    for n in ("sa", "se"):
        if has(n) and type_kind(first(n)) == "I":
            bad.append(n + "-integer")
    for n in ("rc", "ri", "row", "col"):
        if has(n) and type_kind(first(n)) != "I":
            bad.append(n + "-not-integer")
    if has("rc") != has("ri"):
        bad.append("return-incomplete")
    for n in names:
        if not isinstance(n, str):
            if not ext_name_ok(n[1]) or not ext_name_ok(n[2]):
                bad.append("extension-name-malformed")
            elif n[1] not in registered:
                bad.append("extension-unregistered")
    if len(set(names)) != len(names):
        bad.append("attribute-twice")
    for _, t in proto:
        if type_kind(t) in ("I", "S") and type_range(t)[0] > type_range(t)[1]:
            bad.append("empty-integer-range")
            break
    # limits of float types are numbers with minimum <= maximum (a Single's limits compared as f64)
    for _, t in proto:
        if type_kind(t) in ("F", "D"):
            lim = []
            for x in (t.split("/") + ["-", "-"])[1:3]:
                if x == "-":
                    lim.append(None)
                elif type_kind(t) == "F":
                    lim.append(struct.unpack(">f", bytes.fromhex("%08x" % int(x, 16)))[0])
                else:
                    lim.append(struct.unpack(">d", bytes.fromhex("%016x" % int(x, 16)))[0])
            if any(v is not None and v != v for v in lim) or (lim[0] is not None and lim[1] is not None and lim[0] > lim[1]):
                bad.append("float-limits-unordered-or-nan")
                break
    bits = sum(type_width(t) for _, t in proto)
    if bits == 0:
        bad.append("all-zero-width")
    else:
        # one point must fit into a data packet (64 KiB including headers, the writer's reserve of 500 bytes
        # and one partial byte per record)
        n = len(proto)
        if 6 + 2 * n + n + 500 > 65535 or ((65535 - (6 + 2 * n + n + 500)) * 8) // bits == 0:
            bad.append("point-does-not-fit-a-packet")
    return bad


def rand_value(rng, t):
    k = type_kind(t)
    if k in ("F", "D"):
        return gen.rand_value(rng, k)
    mn, mx = type_range(t)
    if mx < mn:
        return ("s%d" if k == "S" else "i%d") % mn
    return gen.rand_value(rng, "%s/%d/%d" % (k, mn, mx))


def rejected_limits_cases(rng):
    """Prototype with BOTH intensity and colour; incomplete limits of one kind make finalize fail, the caller
    repairs them and finalizes again: the OTHER kind's limits (default from the type, or a complete override)
    must still be stored exactly.  [(label, calls)] for C10 and C14."""
    cases = []
    one, two, half = "d3ff0000000000000", "d4000000000000000", "d3fe0000000000000"
    for in_ty, rgb_ty in (("I/0/2047", ("I/0/255", "I/0/1023", "I/10/20")), ("F/00000000/3f800000", ("I/0/7", "I/0/7", "I/0/1")),
                          ("S/0/100/3f847ae147ae147b/0000000000000000", ("D/0000000000000000/3ff0000000000000",) * 3)):
        proto = [("x", "D"), ("y", "D"), ("z", "D"), ("in", in_ty), ("r", rgb_ty[0]), ("g", rgb_ty[1]), ("b", rgb_ty[2])]
        def pt():
            return [one, two, half] + [rand_value(rng, t) for _, t in proto[3:]]
        for broken, bad, good in (("clim", ["i0/i1/-/i2/i0/i3", "-/i1/i0/i2/i0/i3"], ["i0/i1/i0/i2/i0/i3", "-"]),
                                  ("ilim", ["i0/-", "-/i9"], ["i0/i9", "-"])):
            other = "ilim" if broken == "clim" else "clim"
            other_override = "i3/i77" if other == "ilim" else "i1/i2/i3/i4/i5/i6"
            for override_other in (False, True):
                for na in (0, 2):
                    for repair in good:
                        calls = [("NEW", "g"), ("PC", "pc", proto)]
                        if override_other:
                            calls.append(("PSET", other, other_override))
                        calls.append(("PSET", broken, rng.choice(bad)))
                        calls += [("PT", pt()) for _ in range(rng.range(0, 4))]
                        calls += [("PFIN",)] * rng.range(1, 3)
                        calls.append(("PSET", broken, repair))
                        calls += [("PT", pt()) for _ in range(na)]
                        calls += [("PFIN",), ("PDROP",), ("FIN",)]
                        cases.append(("limits:rejected-finalize-keeps-other-limits", calls))
    return cases


def value_ok(t, v):
    k = type_kind(t)
    if k == "F":
        return v[0] == "f"
    if k == "D":
        return v[0] == "d"
    if k == "I" and v[0] != "i" or k == "S" and v[0] != "s":
        return False
    mn, mx = type_range(t)
    return mn <= int(v[1:]) <= mx


def point_ok(proto, vals):
    return len(vals) == len(proto) and all(value_ok(t, v) for (_, t), v in zip(proto, vals))


def f64_of_bits(b):
    return struct.unpack("<d", struct.pack("<Q", b))[0]


def bits_of_f64(x):
    return struct.unpack("<Q", struct.pack("<d", x))[0]


def to_f64(t, v):
    """the real value of an attribute as the reader exposes it: f32 widened, i64 converted (round to
    nearest even, which Python's float(int) does), scaled integers value*scale+offset in double arithmetic"""
    if v[0] == "f":
        return struct.unpack("<f", struct.pack("<I", int(v[1:], 16)))[0]
    if v[0] == "d":
        return f64_of_bits(int(v[1:], 16))
    if v[0] == "i":
        return float(int(v[1:]))
    p = t.split("/")
    return float(int(v[1:])) * f64_of_bits(int(p[3], 16)) + f64_of_bits(int(p[4], 16))


def canon64(b):
    if b & 0x7ff0000000000000 == 0x7ff0000000000000 and b & 0x000fffffffffffff:
        return 0x7ff8000000000000
    return b


def limit_tokens_of_type(t):
    """declared range of a data type as limit tokens (min, max)"""
    p = t.split("/")
    k = p[0]
    if k == "F":
        f = lambda i: "-" if len(p) <= i or p[i] == "-" else "f" + p[i]
        return f(1), f(2)
    if k == "D":
        f = lambda i: "-" if len(p) <= i or p[i] == "-" else "d" + p[i]
        return f(1), f(2)
    pre = "i" if k == "I" else "s"
    return pre + p[1], pre + p[2]


FLOAT_AXES = {"x": ("cb", 0), "y": ("cb", 2), "z": ("cb", 4), "sr": ("sb", 0), "se": ("sb", 2), "sa": ("sb", 4)}
INT_AXES = {"row": 0, "col": 2, "ri": 4}


class Expect:
    """What a finished point cloud must look like, from the calls and the results the implementation gave."""
    def __init__(self, guid, proto):
        self.guid, self.proto = guid, proto
        self.points = []
        self.ilim = "default"
        self.clim = "default"
        self.meta_touched = False


def interpret(calls, results):
    """Walk the calls with the implementation's results.  Returns dict with
       accepted_unrepresentable: [(index, reason)]   (C10_rejects, direct)
       clouds: [Expect] finished point clouds in order (one per PFIN that returned o; `dup` marks repeats)
       blobs: [(offset, length, data)], images: [list of (data, mask)] per IFIN o,
       anomalies: [(class, index, text)] call patterns whose outcome the property judges (repeat finalize...)
       final_ok: the last top-level call is FIN and returned o"""
    registered, urls = set(), set()
    out = dict(accepted_unrepresentable=[], rejected_acceptable=[], clouds=[], blobs=[], images=[], anomalies=[], final_ok=False,
               fin_count=0, writes_after_fin=False)
    cur_pc = cur_img = None
    pc_finalized = img_finalized = 0
    for i, c in enumerate(calls):
        if i >= len(results):
            break
        r = results[i]
        ok = r == "o" or r.startswith("b")
        k = c[0]
        if r == "-":
            continue
        if k in ("FIN", "FINX"):      # FINX = finalize_customized_xml with the identity transformer
            if ok:
                if out["fin_count"]:
                    out["accepted_unrepresentable"].append((i, "finalize was accepted a second time"))
                out["fin_count"] += 1
                out["final_ok"] = True
            # a rejected finalize is a no-op: a file finalized before stays finalized
        elif k != "NEW" and ok:
            # an accepted call after the last finalize: the file is not finalized any more
            out["final_ok"] = False
        if k == "EXT":
            if ok:
                if not ext_name_ok(c[1]):
                    out["accepted_unrepresentable"].append((i, "extension namespace %r is malformed" % c[1]))
                if c[1] in registered:
                    out["accepted_unrepresentable"].append((i, "extension namespace %r registered twice" % c[1]))
                if c[2] in FORBIDDEN_URLS:
                    out["accepted_unrepresentable"].append((i, "extension URL %r is reserved, empty or the E57 namespace" % c[2]))
                if c[2] in urls:
                    out["accepted_unrepresentable"].append((i, "extension URL %r registered twice" % c[2]))
                registered.add(c[1])
                urls.add(c[2])
        elif k == "BLOB":
            if ok:
                o, l = r[1:].split(":")
                out["blobs"].append((int(o), int(l), bytes(c[1])))
                if out["fin_count"]:
                    out["writes_after_fin"] = True
                    out["accepted_unrepresentable"].append((i, "add_blob was accepted after finalize"))
        elif k == "PC":
            cur_pc, pc_finalized = None, 0
            if ok:
                bad = proto_rule_violations(c[2], registered)
                if bad:
                    out["accepted_unrepresentable"].append((i, "prototype breaks: " + ",".join(bad)))
                cur_pc = Expect(c[1], c[2])
                if out["fin_count"]:
                    out["writes_after_fin"] = True
                    out["accepted_unrepresentable"].append((i, "add_pointcloud was accepted after finalize"))
            elif r.startswith("e") and not out["fin_count"] and not proto_rule_violations(c[2], registered):
                # the converse (C10_accepts_step): a prototype that follows every documented rule, with the
                # capacity margin, offered to a writer that is not finalized, must be accepted
                out["rejected_acceptable"].append((i, "prototype %s follows every rule (names compared in full: namespace and name) but add_pointcloud returned %s" % (proto_tok(c[2])[:120], r[:60])))
        elif k == "PT" and cur_pc is not None:
            if ok:
                if not point_ok(cur_pc.proto, c[1]):
                    out["accepted_unrepresentable"].append((i, "point %s does not fit prototype %s" % (",".join(c[1])[:80], proto_tok(cur_pc.proto)[:80])))
                if pc_finalized:
                    out["accepted_unrepresentable"].append((i, "add_point was accepted after the point cloud was finalized"))
                cur_pc.points.append(c[1])
        elif k == "PSET" and cur_pc is not None:
            if c[1] == "ilim":
                cur_pc.ilim = c[2]
            elif c[1] == "clim":
                cur_pc.clim = c[2]
        elif k == "PFIN" and cur_pc is not None:
            if ok:
                for what, lim in (("intensity", cur_pc.ilim), ("colour", cur_pc.clim)):
                    if lim not in ("default", "-") and "-" in lim.split("/"):
                        out["accepted_unrepresentable"].append((i, "finalize accepted %s limits set by the caller that are incomplete (%s)" % (what, lim)))
                pc_finalized += 1
                if pc_finalized == 1:
                    e = Expect(cur_pc.guid, cur_pc.proto)
                    e.points, e.ilim, e.clim = list(cur_pc.points), cur_pc.ilim, cur_pc.clim
                    out["clouds"].append(e)
                else:
                    out["anomalies"].append(("subwriter-finalize-twice", i, "PointCloudWriter::finalize returned Ok a second time"))
        elif k == "IMG":
            cur_img, img_finalized = (dict(vis=None, proj=None) if ok else None), 0
            if ok and out["fin_count"]:
                out["accepted_unrepresentable"].append((i, "add_image was accepted after finalize"))
        elif k == "IVIS" and cur_img is not None and ok:
            if img_finalized:
                out["accepted_unrepresentable"].append((i, "image data was accepted after the image was finalized"))
            cur_img["vis"] = (bytes(c[2]), c[5])
            if out["fin_count"]:
                out["writes_after_fin"] = True
        elif k in ("IPIN", "ISPH", "ICYL") and cur_img is not None and ok:
            if cur_img["proj"] is not None:
                out["accepted_unrepresentable"].append((i, "a second projection was accepted for one image"))
            if img_finalized:
                out["accepted_unrepresentable"].append((i, "image data was accepted after the image was finalized"))
            cur_img["proj"] = (k, bytes(c[2]), c[4])
            if out["fin_count"]:
                out["writes_after_fin"] = True
        elif k == "IFIN" and cur_img is not None and ok:
            img_finalized += 1
            if cur_img["vis"] is None and cur_img["proj"] is None:
                out["accepted_unrepresentable"].append((i, "an image without any representation was accepted"))
            if img_finalized == 1:
                out["images"].append(dict(cur_img))
            else:
                out["anomalies"].append(("subwriter-finalize-twice", i, "ImageWriter::finalize returned Ok a second time"))
    return out


# ------------------------------------------------------------------ running and parsing

def parse_view(v):
    """'open:ok k=v ... # pc k=v ... # im ... # bl ...' -> (head dict, [pc dict], [im dict], [bl str])"""
    parts = v.split(" # ")
    head = {}
    toks = parts[0].split()
    head["_status"] = toks[0] if toks else ""
    for t in toks[1:]:
        if "=" in t:
            k, x = t.split("=", 1)
            head[k] = x
    pcs, ims, bls = [], [], []
    for p in parts[1:]:
        kind, rest = (p.split(" ", 1) + [""])[:2]
        if kind == "bl":
            bls.append(rest.strip())
            continue
        d = {}
        # raw= is last and contains spaces
        if " raw=" in rest:
            rest, raw = rest.split(" raw=", 1)
            d["raw"] = raw.strip()
        for t in rest.split():
            if "=" in t:
                k, x = t.split("=", 1)
                d[k] = x
        (pcs if kind == "pc" else ims).append(d)
    return head, pcs, ims, bls


def split_out(line):
    """harness line -> (results list, dev summary, view string, xml list)"""
    xml = ""
    if " | xml=" in line:
        line, xml = line.rsplit(" | xml=", 1)
    segs = line.split(" | ")
    res = segs[0].split()
    return res, (segs[1] if len(segs) > 1 else ""), (segs[2] if len(segs) > 2 else ""), ([x for x in xml.strip().split(";")] if xml.strip() else [])


def model_line(calls, xmls):
    toks, k = [], 0
    for c in calls:
        if c[0] in ("FIN", "FINX"):
            # finalize() IS finalize_customized_xml(Ok) in the crate: the model's Finalize stands for both entry points
            toks.append("FIN:" + (xmls[k] if k < len(xmls) else ""))
            k += 1
        else:
            toks.append(call_tok(c))
    return "WAPI " + " ".join(toks)


def drop_incomplete(lim):
    """the XML writer drops limits that are not complete"""
    return "-" if lim == "-" or "-" in lim.split("/") else lim


def big_stack_driver():
    """the extracted model recurses over prototypes of 20000 records: run it with a large stack"""
    import os, stat
    path = os.path.join(core.CACHE, "driver_bigstack.sh")
    text = "#!/bin/sh\nulimit -s unlimited 2>/dev/null || ulimit -s 4000000 2>/dev/null\nexec %s \"$@\"\n" % core.DRIVER
    if not os.path.exists(path) or open(path).read() != text:
        with open(path, "w") as f:
            f.write(text)
        os.chmod(path, os.stat(path).st_mode | stat.S_IXUSR | stat.S_IXGRP | stat.S_IXOTH)
    return path


import re
_HEX_RUN = re.compile(r"[0-9a-f]+")
_F32_TOK = re.compile(r"(?:\bf|[=/,:]f|F/|F/[0-9a-f-]+/)([0-9a-f]{8})(?![0-9a-f])")


def float_patterns(text):
    """bit patterns that may occur as floats in a case: every maximal hex run of exactly 16 digits
    (f64; hashes and short blobs are harmless extras), and 8-digit runs in f32 positions"""
    s64 = {h for h in _HEX_RUN.findall(text) if len(h) == 16}
    s32 = set(_F32_TOK.findall(text))
    for m in re.finditer(r"F/([0-9a-f]{8}|-)/([0-9a-f]{8}|-)", text):
        s32.update(x for x in m.groups() if x != "-")
    return s64, s32


def canon32(b):
    return 0x7fc00000 if (b & 0x7f800000 == 0x7f800000 and b & 0x007fffff) else b


def run_all(cases, stats=None):
    """cases: list of call lists.  Returns list of dicts(impl, rel, model).
    The model produces the whole file itself (kind WAPIF: XML from XmlGen.gen_root, float texts from the
    FDISPLAY oracle table of the harness); only when a float text is missing from the table the XML bytes
    are borrowed from the implementation's file (kind WAPI, the old mode)."""
    from props import c04
    impl = os.environ.get("WAPI_HARNESS") or core.ensure_harness("debug")
    rel = os.environ.get("WAPI_HARNESS") or core.ensure_harness("release")
    lines = [case_line(c) for c in cases]
    o_impl = core.run_cases(impl, lines)
    o_rel = core.run_cases(rel, lines)
    fd = c04.Fdisplay(impl)
    per_case = []
    all64, all32 = set(), set()
    for line, o in zip(lines, o_impl):
        a, b = float_patterns(line + " " + o.split(" | xml=")[0])
        a = {"%016x" % canon64(int(x, 16)) for x in a}
        b = {"%08x" % canon32(int(x, 16)) for x in b}
        per_case.append((a, b))
        all64 |= a
        all32 |= b
    fd.ensure(all64, all32)
    version = c04.crate_version().encode().hex()

    def mline(i):
        a, b = per_case[i]
        t64 = ",".join("%s=%s" % (x, fd.t64[x]) for x in sorted(a) if x in fd.t64)
        t32 = ",".join("%s=%s" % (x, fd.t32[x]) for x in sorted(b) if x in fd.t32)
        return "WAPIF V:%s T64:%s T32:%s %s" % (version, t64, t32, " ".join(call_tok(x) for x in cases[i]))

    o_model = core.run_cases(big_stack_driver(), [mline(i) for i in range(len(cases))])
    # a float the model computes itself (a bound of scaled integers or widened singles) whose text was not
    # collected: ask the oracle for exactly that pattern and run the case again
    for _ in range(12):
        todo = [i for i, m in enumerate(o_model) if m.startswith("missing-float ")]
        if not todo:
            break
        for i in todo:
            k = o_model[i].split()[1]
            per_case[i][0 if len(k) == 16 else 1].add(k)
        fd.ensure({k for i in todo for k in per_case[i][0]}, {k for i in todo for k in per_case[i][1]})
        for i, m in zip(todo, core.run_cases(big_stack_driver(), [mline(i) for i in todo])):
            o_model[i] = m
    fallback = [i for i, m in enumerate(o_model) if m.startswith("missing-float")]
    if fallback:
        fl = [model_line(cases[i], split_out(o_impl[i])[3]) for i in fallback]
        for i, m in zip(fallback, core.run_cases(big_stack_driver(), fl)):
            o_model[i] = m
    if stats is not None:
        stats.update(whole_file_from_model=len(cases) - len(fallback), xml_borrowed_fallback=len(fallback),
                     float_texts_in_oracle_table=len(fd.t64) + len(fd.t32), float_oracle_violations=len(fd.bad))
        stats["_fd_bad"] = fd.bad[:5]
    return [dict(impl=a, rel=b, model=m) for a, b, m in zip(o_impl, o_rel, o_model)]


def compare_model(o):
    """None if model and implementation agree, else a description."""
    ri, di, vi, _ = split_out(o["impl"])
    rr, dr, vr, _ = split_out(o["rel"])
    if (ri, di, vi) != (rr, dr, vr):
        return "debug and release builds differ: %s | %s" % (" ".join(ri)[:120], " ".join(rr)[:120])
    if o["model"].startswith("CRASH") or o["model"].startswith("driver-"):
        return "model driver failed: " + o["model"][:200]
    rm, dm, vm, _ = split_out(o["model"])
    if ri != rm:
        j = next((k for k in range(min(len(ri), len(rm))) if ri[k] != rm[k]), min(len(ri), len(rm)))
        return "result of call %d differs: impl=%s model=%s" % (j, ri[j] if j < len(ri) else "(none)", rm[j] if j < len(rm) else "(none)")
    if di != dm:
        return "device image / operation count / write log differ: impl [%s] model [%s]" % (di, dm)
    hi, pi, ii, bi = parse_view(vi)
    if hi["_status"] != "open:ok" or vm.strip() == "nofin":
        return None
    hm, pm, im, bm = parse_view(vm)
    for k in ("guid", "ext", "cm", "cr"):
        if hi.get(k) != hm.get(k):
            return "root field %s: reader reports %s, model holds %s" % (k, hi.get(k), hm.get(k))
    if len(pi) != len(pm) or len(ii) != len(im):
        return "reader reports %d point clouds and %d images, the model's writer state holds %d and %d" % (len(pi), len(ii), len(pm), len(im))
    for a, b in zip(pi, pm):
        for k in ("g", "off", "n", "proto", "cb", "sb", "ib", "meta", "raw"):
            if a.get(k) != b.get(k):
                return "point cloud field %s: reader reports %s, model holds %s" % (k, str(a.get(k))[:150], str(b.get(k))[:150])
        for k in ("il", "cl"):
            if a.get(k) != drop_incomplete(b.get(k, "-")):
                return "point cloud limits %s: reader reports %s, model holds %s" % (k, a.get(k), b.get(k))
    for a, b in zip(ii, im):
        for k in ("g", "vr", "pr", "meta"):
            if a.get(k) != b.get(k):
                return "image field %s: reader reports %s, model holds %s" % (k, str(a.get(k))[:150], str(b.get(k))[:150])
    if bi != bm:
        return "blob read-back differs: %s | %s" % (bi[:3], bm[:3])
    return None


# ------------------------------------------------------------------ direct oracles on the implementation

def expected_bounds(e):
    """per float axis (min, max) over the accepted points as Python floats, None if a NaN occurs
    (the property speaks about non-NaN sequences); per index axis exact integers"""
    fl, ix = {}, {}
    for j, (n, t) in enumerate(e.proto):
        if n in FLOAT_AXES:
            vals = [to_f64(t, p[j]) for p in e.points]
            cur = fl.get(n, [])
            fl[n] = cur + vals
        elif n in INT_AXES:
            ix[n] = ix.get(n, []) + [int(p[j][1:]) for p in e.points]
    return fl, ix


def check_cloud(e, d):
    """e: Expect, d: reader's pc dict.  Returns list of (class, text)."""
    bad = []
    names = [n for n, _ in e.proto]
    if d.get("g") != "=" + hx(e.guid):
        bad.append(("descriptor", "guid read back %s, written %s" % (d.get("g"), hx(e.guid))))
    if d.get("n") != str(len(e.points)):
        bad.append(("points", "record count %s, %d points were accepted" % (d.get("n"), len(e.points))))
    want_proto = ",".join("%s=%s" % (name_tok(n), full_type_tok(t)) for n, t in e.proto)
    if canon_proto(d.get("proto", "")) != canon_proto(want_proto):
        bad.append(("prototype", "prototype read back %s, written %s" % (d.get("proto", "")[:200], want_proto[:200])))
    txt = ";".join(",".join(p) for p in e.points)
    raw = d.get("raw", "")
    exp_raw = "n=%d end=none h=%s" % (len(e.points), gen.fnv_hex(txt.encode()))
    if not raw.startswith(exp_raw):
        bad.append(("points", "points read back [%s], accepted [%s]" % (raw[:120], exp_raw)))
    fl, ix = expected_bounds(e)
    for grp, key, members in (("x", "cb", ("x", "y", "z")), ("sa", "sb", ("sr", "se", "sa"))):
        got = d.get(key, "-")
        if grp not in names:
            if got != "-":
                bad.append(("bounds-presence", "%s present although the prototype has no such coordinates" % key))
            continue
        if got == "-":
            bad.append(("bounds-presence", "%s missing although the prototype has the coordinates" % key))
            continue
        g = got.split("/")
        for n in members:
            pos = FLOAT_AXES[n][1]
            vals = fl.get(n, [])
            lo, hi = g[pos], g[pos + 1]
            if not vals:
                if lo != "-" or hi != "-":
                    bad.append(("bounds-value", "%s bounds %s/%s for a cloud without points" % (n, lo, hi)))
                continue
            if any(v != v for v in vals):
                continue
            if lo == "-" or hi == "-":
                bad.append(("bounds-value", "%s bound missing for %d points" % (n, len(vals))))
                continue
            glo, ghi = f64_of_bits(int(lo, 16)), f64_of_bits(int(hi, 16))
            if not (glo == min(vals) and ghi == max(vals)):
                bad.append(("bounds-value", "%s bounds read back %r..%r, min/max of the accepted points %r..%r" % (n, glo, ghi, min(vals), max(vals))))
            if not all(glo <= v <= ghi for v in vals):
                bad.append(("bounds-within", "%s: a point lies outside %r..%r" % (n, glo, ghi)))
    has_idx = any(n in names for n in INT_AXES)
    got = d.get("ib", "-")
    if not has_idx:
        if got != "-":
            bad.append(("bounds-presence", "index bounds present without index attributes"))
    elif got == "-":
        bad.append(("bounds-presence", "index bounds missing"))
    else:
        g = got.split("/")
        for n, pos in INT_AXES.items():
            vals = ix.get(n, [])
            want = ("-", "-") if not vals else (str(min(vals)), str(max(vals)))
            if (g[pos], g[pos + 1]) != want:
                bad.append(("bounds-value", "%s bounds read back %s/%s, expected %s/%s" % (n, g[pos], g[pos + 1], want[0], want[1])))
    # limits
    def first(n):
        return next((t for m, t in e.proto if m == n), None)
    if e.ilim == "default":
        want = "-" if first("in") is None else drop_incomplete("/".join(limit_tokens_of_type(first("in"))))
    else:
        want = drop_incomplete(e.ilim)
    if canon_limits(d.get("il", "-")) != canon_limits(want):
        bad.append(("limits", "intensity limits read back %s, expected %s" % (d.get("il"), want)))
    if e.clim == "default":
        if first("r") is None or first("g") is None or first("b") is None:
            want = "-"
        else:
            want = drop_incomplete("/".join(sum((list(limit_tokens_of_type(first(n))) for n in ("r", "g", "b")), [])))
    else:
        want = drop_incomplete(e.clim)
    if canon_limits(d.get("cl", "-")) != canon_limits(want):
        bad.append(("limits", "colour limits read back %s, expected %s" % (d.get("cl"), want)))
    return bad


def full_type_tok(t):
    p = t.split("/")
    if p[0] in ("F", "D"):
        p = (p + ["-", "-"])[:3]
    return "/".join(p)


def canon_proto(s):
    """NaN payloads in float minima / maxima / scale / offset are not preserved by the text form"""
    out = []
    for nt in s.split(","):
        if "=" not in nt:
            out.append(nt)
            continue
        n, t = nt.split("=", 1)
        p = t.split("/")
        if p[0] == "D":
            p = [p[0]] + [x if x == "-" else "%016x" % canon64(int(x, 16)) for x in p[1:]]
        elif p[0] == "S":
            p = p[:3] + ["%016x" % canon64(int(x, 16)) for x in p[3:]]
        elif p[0] == "F":
            q = []
            for x in p[1:]:
                if x != "-":
                    b = int(x, 16)
                    x = "%08x" % (0x7fc00000 if (b & 0x7f800000 == 0x7f800000 and b & 0x007fffff) else b)
                q.append(x)
            p = [p[0]] + q
        out.append(n + "=" + "/".join(p))
    return ",".join(out)


def canon_limits(s):
    out = []
    for t in s.split("/"):
        if t.startswith("d"):
            t = "d%016x" % canon64(int(t[1:], 16))
        elif t.startswith("f"):
            b = int(t[1:], 16)
            if b & 0x7f800000 == 0x7f800000 and b & 0x007fffff:
                b = 0x7fc00000
            t = "f%08x" % b
        out.append(t)
    return "/".join(out)


def direct_check(calls, o):
    """The property itself on the implementation's run.  Returns list of (class suffix, text)."""
    bad = []
    for tag in ("impl", "rel"):
        res, _, view, _ = split_out(o[tag])
        if o[tag].startswith("CRASH") or "P" in res or "dropP" in res:
            bad.append(("panic", "a writer call panicked (%s build): results %s" % ("debug" if tag == "impl" else "release", " ".join(res)[-80:])))
    if bad:
        return bad
    res, _, view, _ = split_out(o["impl"])
    info = interpret(calls, res)
    for i, why in info["accepted_unrepresentable"]:
        bad.append(("accepted-unrepresentable", "call %d (%s) returned Ok: %s" % (i, call_tok(calls[i])[:60], why)))
    for i, why in info["rejected_acceptable"]:
        bad.append(("rejected-acceptable", "call %d: %s" % (i, why)))
    if not info["final_ok"]:
        return bad
    head, pcs, ims, bls = parse_view(view)
    if head["_status"] != "open:ok":
        bad.append(("file-does-not-open", "every call including finalize succeeded or was rejected, but the file does not open: " + head["_status"]))
        return bad
    ctx = "finalize-twice" if info["fin_count"] > 1 else ("subwriter-finalize-twice" if info["anomalies"] else "readback")
    if info["writes_after_fin"]:
        ctx = "add-after-finalize"
    if len(pcs) != len(info["clouds"]):
        bad.append((ctx if ctx != "readback" else "descriptor", "%d point clouds were finished, the file lists %d" % (len(info["clouds"]), len(pcs))))
    else:
        for e, d in zip(info["clouds"], pcs):
            for cls, text in check_cloud(e, d):
                bad.append((ctx if ctx != "readback" else cls, text))
    if len(ims) != len(info["images"]):
        bad.append((ctx if ctx != "readback" else "descriptor", "%d images were finished, the file lists %d" % (len(info["images"]), len(ims))))
    else:
        for e, d in zip(info["images"], ims):
            for key, src in (("vr", e["vis"]), ("pr", (e["proj"][1], e["proj"][2]) if e["proj"] else None)):
                got = d.get(key, "-")
                if src is None:
                    if got != "-":
                        bad.append((ctx if ctx != "readback" else "image", "image representation %s appeared from nowhere" % key))
                    continue
                fields = got.split("/")
                views = [f for f in fields if f.count(":") >= 2]
                want = [src[0]] + ([src[1]] if src[1] is not None else [])
                if len(views) != len(want):
                    bad.append((ctx if ctx != "readback" else "image", "image %s: %d blobs read back, %d written" % (key, len(views), len(want))))
                    continue
                for vw, data in zip(views, want):
                    if not vw.endswith("ok%d:%s" % (len(data), gen.fnv_hex(data))):
                        bad.append((ctx if ctx != "readback" else "image", "image %s payload read back as %s, written %d bytes" % (key, vw, len(data))))
    if len(bls) == len(info["blobs"]):
        for vw, (off, ln, data) in zip(bls, info["blobs"]):
            if vw != "%d:%d:ok%d:%s" % (off, ln, len(data), gen.fnv_hex(data)):
                bad.append((ctx if ctx != "readback" else "blob", "blob read back as %s, written %d bytes at %d" % (vw, len(data), off)))
    return bad
