#!/bin/bash
# Run every stored seeded change against the check of the property it breaks (quick tier).
# Output: one line per seed: <seed> <property> caught|MISSED
cd /verif
for d in /verif/seeded/*/; do
  id=$(basename "$d")
  prop=$(python3 -c "import json; print(json.load(open('$d/meta.json'))['breaks_property'])")
  [ -z "$(git -C /repo status --porcelain)" ] || { echo "/repo not clean"; exit 3; }
  if ! git -C /repo apply --check "$d/patch.diff" 2>/dev/null; then
    if git -C /repo apply --check -3 "$d/patch.diff" 2>/dev/null; then :; else echo "$id $prop PATCH-DOES-NOT-APPLY"; continue; fi
  fi
  git -C /repo apply "$d/patch.diff" 2>/dev/null || { echo "$id $prop PATCH-DOES-NOT-APPLY"; git -C /repo checkout -- .; continue; }
  [ -f "evidence/$prop.json" ] && cp "evidence/$prop.json" "/tmp/seedall.$$.json"
  out=$(timeout 3000 ./tools/check "$prop" --tier quick 2>&1 | grep "^VIOLATION" | head -2)
  git -C /repo checkout -- .
  [ -f "/tmp/seedall.$$.json" ] && mv "/tmp/seedall.$$.json" "evidence/$prop.json" 
  if [ -n "$out" ]; then echo "$id $prop caught: $(echo "$out" | head -1 | cut -c1-120)"; else echo "$id $prop MISSED"; fi
done
