#!/bin/bash
# Run every stored seeded change against the check of the property it breaks (quick tier).
#   tools/seedall.sh                 : one after the other on /repo itself (apply, check, undo)
#   tools/seedall.sh iso <verifcopy> [jobs] : in scratch worktrees from a built copy of /verif (tools/seedtest.sh iso), <jobs> at a time
# Output: one line per seed: <seed> <property> caught: <first VIOLATION line> | MISSED | PATCH-DOES-NOT-APPLY
cd /verif
if [ "${1:-}" = iso ]; then
  vc="$2"; jobs="${3:-3}"
  one() {
    d="$1"; vc="$2"; id=$(basename "$d")
    prop=$(python3 -c "import json; print(json.load(open('$d/meta.json'))['breaks_property'])")
    out=$(/verif/tools/seedtest.sh iso "$vc" "$d/patch.diff" "$prop" 2>&1)
    if echo "$out" | grep -q "PATCH-DOES-NOT-APPLY"; then echo "$id $prop PATCH-DOES-NOT-APPLY"
    elif echo "$out" | grep -q "^VIOLATION"; then echo "$id $prop caught: $(echo "$out" | grep "^VIOLATION" | head -1 | sed 's/replay=[^ ]*//' | cut -c1-120)"
    else echo "$id $prop MISSED"; fi
  }
  export -f one
  ls -d /verif/seeded/*/ | sed 's,/$,,' | xargs -P "$jobs" -I{} bash -c 'one {} '"$vc"
  exit 0
fi
for d in /verif/seeded/*/; do
  id=$(basename "$d")
  prop=$(python3 -c "import json; print(json.load(open('$d/meta.json'))['breaks_property'])")
  [ -z "$(git -C /repo status --porcelain)" ] || { echo "/repo not clean"; exit 3; }
  if ! git -C /repo apply --check "$d/patch.diff" 2>/dev/null; then
    if git -C /repo apply --check -3 "$d/patch.diff" 2>/dev/null; then :; else echo "$id $prop PATCH-DOES-NOT-APPLY"; continue; fi
  fi
  git -C /repo apply "$d/patch.diff" 2>/dev/null || { echo "$id $prop PATCH-DOES-NOT-APPLY"; git -C /repo checkout -- .; continue; }
  [ -f "evidence/$prop.json" ] && cp "evidence/$prop.json" "/tmp/seedall.$$.json"
  out=$(timeout 3000 ./tools/check "$prop" --tier quick 2>&1 | grep "^VIOLATION" | head -2)
  git -C /repo checkout -- .
  [ -f "/tmp/seedall.$$.json" ] && mv "/tmp/seedall.$$.json" "evidence/$prop.json" 
  if [ -n "$out" ]; then echo "$id $prop caught: $(echo "$out" | head -1 | cut -c1-120)"; else echo "$id $prop MISSED"; fi
done
