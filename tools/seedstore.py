#!/usr/bin/env python3
"""seedstore.py <id> <outdir> <property> <caught-by text> : copy a validated seeded change into /verif/seeded/<id>/"""
import json, os, shutil, sys
sid, out, prop, caught = sys.argv[1:5]
dst = os.path.join(os.path.dirname(os.path.dirname(os.path.abspath(__file__))), "seeded", sid)
os.makedirs(dst, exist_ok=True)
shutil.copy(os.path.join(out, "patch.diff"), dst)
for f in os.listdir(out):
    if f.endswith(".rs") or f == "notes.md":
        shutil.copy(os.path.join(out, f), dst)
notes = open(os.path.join(out, "notes.md")).read() if os.path.exists(os.path.join(out, "notes.md")) else ""
meta = dict(id=sid, breaks_property=prop,
            needs_to_manifest=notes[:1500],
            validated=["tools/seedtest.sh validate <dir>: demo passes on the unchanged tree, fails with the patch; the 85 existing tests pass with the patch",
                       "tools/seedtest.sh check seeded/%s/patch.diff %s" % (sid, prop)],
            caught_by=caught)
json.dump(meta, open(os.path.join(dst, "meta.json"), "w"), indent=1)
print("stored", dst)
