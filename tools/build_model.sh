#!/bin/bash
# Build the Coq development (full .vo build), extract the models and compile the
# OCaml driver into /verif/.cache.  Re-done only when coq/ or ocaml/ changed.
set -e
VERIF="$(cd "$(dirname "$0")/.." && pwd)"
CACHE="$VERIF/.cache"
mkdir -p "$CACHE/ocaml"
stamp="$CACHE/model.stamp"
cur="$(cd "$VERIF" && find coq ocaml -type f \( -name '*.v' -o -name '*.ml' -o -name '_CoqProject' \) -print0 | sort -z | xargs -0 sha256sum | sha256sum | cut -d' ' -f1)"
if [ -f "$stamp" ] && [ "$(cat "$stamp")" = "$cur" ] && [ -x "$CACHE/ocaml/driver" ]; then
  exit 0
fi
rm -f "$stamp"
cd "$VERIF/coq"
coq_makefile -f _CoqProject -o Makefile > /dev/null
if ! timeout 3000 make -j16 > "$CACHE/coq_build.log" 2>&1; then
  echo "COQ BUILD FAILED (see $CACHE/coq_build.log)" >&2
  tail -30 "$CACHE/coq_build.log" >&2
  exit 2
fi
cd "$CACHE/ocaml"
rm -f *.ml *.mli *.cm* *.o Extract.*
cp "$VERIF/coq/extract/Extract.v" .
timeout 600 coqc -Q "$VERIF/coq/theories" E57 Extract.v > "$CACHE/extract.log" 2>&1 || { cat "$CACHE/extract.log" >&2; exit 2; }
cp "$VERIF"/ocaml/*.ml .
files="$(ocamlfind ocamldep -sort *.ml *.mli)"
if ! ocamlfind ocamlopt -O2 -w -a -o driver $files > "$CACHE/ocaml_build.log" 2>&1; then
  ocamlfind ocamlopt -w -a -o driver $files > "$CACHE/ocaml_build.log" 2>&1 || { cat "$CACHE/ocaml_build.log" >&2; exit 2; }
fi
echo "$cur" > "$stamp"
