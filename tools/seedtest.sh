#!/bin/bash
# Validate a seeded change and run checks against it.
#   tools/seedtest.sh validate <outdir>            : scratch worktree; tests pass with patch, demo fails with patch, passes without
#   tools/seedtest.sh check <patch> <Cxx> [...]    : apply patch to /repo, run the quick checks, undo
#   tools/seedtest.sh iso <verifcopy> <patch> <Cxx> [...] : same without touching /repo or /verif: the patch is applied
#        to a scratch worktree, the checks run from <verifcopy> (a built copy of /verif, see DESIGN 14.5) with
#        E57_REPO pointing at the worktree and a cache of their own; used while other work occupies /repo
# The scratch worktree lives under /tmp/seedval and is removed afterwards.
set -u
mode="$1"; shift
export CARGO_NET_OFFLINE=true
if [ "$mode" = validate ]; then
  out="$1"; wt=/tmp/seedval/wt.$$
  mkdir -p /tmp/seedval; git -C /repo worktree add --detach "$wt" HEAD >/dev/null 2>&1 || exit 3
  trap 'git -C /repo worktree remove --force "$wt" >/dev/null 2>&1; rm -rf "$wt"' EXIT
  cd "$wt"
  demo="$(ls "$out"/*.rs | head -1)"
  mkdir -p tests; cp "$demo" tests/seeded_demo.rs
  export CARGO_TARGET_DIR="$wt/target"
  echo "== demo on unchanged tree"
  if cargo test --offline --test seeded_demo >"$wt/d0.log" 2>&1; then echo "demo passes without change: OK"; else echo "DEMO FAILS WITHOUT CHANGE"; tail -20 "$wt/d0.log"; exit 1; fi
  git apply "$out/patch.diff" || { echo "PATCH DOES NOT APPLY"; exit 1; }
  echo "== demo with change"
  if cargo test --offline --test seeded_demo >"$wt/d1.log" 2>&1; then echo "DEMO PASSES WITH CHANGE"; exit 1; else echo "demo fails with change: OK"; grep -m3 "panicked\|assert" "$wt/d1.log"; fi
  rm tests/seeded_demo.rs
  echo "== existing suite with change"
  cargo test --workspace --no-fail-fast --offline >"$wt/t.log" 2>&1; rc=$?
  grep "^test result" "$wt/t.log" | awk '{p+=$4; f+=$6} END {print "passed="p" failed="f}'
  [ $rc -eq 0 ] && echo "suite passes with change: OK" || { echo "SUITE FAILS WITH CHANGE"; grep "FAILED\|failed" "$wt/t.log" | head; exit 1; }
  exit 0
elif [ "$mode" = check ]; then
  patch="$1"; shift
  [ -z "$(git -C /repo status --porcelain)" ] || { echo "/repo not clean"; exit 3; }
  git -C /repo apply "$patch" || exit 3
  trap 'git -C /repo checkout -- . ; git -C /repo status --porcelain' EXIT
  cd /verif
  for p in "$@"; do
    echo "== $p"
    # the evidence file belongs to runs on the unchanged tree: keep it out of the way
    [ -f "evidence/$p.json" ] && cp "evidence/$p.json" "/tmp/seedtest.$$.$p.json"
    timeout 3000 ./tools/check "$p" --tier quick 2>&1 | grep -v "^WARNING" | tail -6
    echo "rc=${PIPESTATUS[0]}"
    [ -f "/tmp/seedtest.$$.$p.json" ] && mv "/tmp/seedtest.$$.$p.json" "evidence/$p.json"
  done
elif [ "$mode" = iso ]; then
  vc="$1"; patch="$2"; shift 2
  wt=/tmp/seedval/iso.$$; cache="$vc/.cache-iso.$$"
  mkdir -p /tmp/seedval; git -C /repo worktree add --detach "$wt" HEAD >/dev/null 2>&1 || exit 3
  trap 'git -C /repo worktree remove --force "$wt" >/dev/null 2>&1; rm -rf "$wt" "$cache"' EXIT
  git -C "$wt" apply "$patch" || { echo "PATCH-DOES-NOT-APPLY"; exit 3; }
  mkdir -p "$cache"; cp -r "$vc/.cache/ocaml" "$cache/ocaml"; cp "$vc/.cache/model.stamp" "$cache/model.stamp"
  cd "$vc"
  for p in "$@"; do
    echo "== $p"
    E57_REPO="$wt" VERIF_CACHE="$cache" NO_MAKE=1 timeout 3000 ./tools/check "$p" --tier quick 2>&1 | grep -v "^WARNING" | tail -6
    echo "rc=${PIPESTATUS[0]}"
  done
fi
