//! XMLOF <path>: the hex of the XML section of an E57 file on disk (E57Reader::raw_xml, which does not
//! parse the XML), or `err` when the file cannot be read.  Used by tools/props/xmlp.py to run the XML
//! parser model on the XML of the bundled files.
//! XMLDEEP <n> [stack KiB]: roxmltree::Document::parse alone (no tree walk) on n nested elements
//! `<a><a>...</a></a>`, run on a thread with the given stack (default 1 GiB), prints `ok <n>` or
//! `err-parse`.  With a small stack the process dies of stack overflow (roxmltree 0.20 recurses per
//! nesting level and has no depth limit): that is the measurement.
use crate::util::*;

pub fn run(kind: &str, toks: &[&str]) -> Option<String> {
    match kind {
        "XMLOF" => {
            let path = toks.first().copied().unwrap_or("");
            let r = guard(|| {
                let f = std::fs::File::open(path).ok()?;
                let rd = std::io::BufReader::new(f);
                e57::E57Reader::raw_xml(rd).ok()
            });
            Some(match r {
                Some(Some(x)) => format!("xml {}", hex(&x)),
                _ => "err".to_string(),
            })
        }
        "XMLDEEP" => {
            let n: usize = toks.first().and_then(|t| t.parse().ok()).unwrap_or(1);
            let kib: usize = toks.get(1).and_then(|t| t.parse().ok()).unwrap_or(1 << 20);
            let h = std::thread::Builder::new().stack_size(kib << 10).spawn(move || {
                let mut s = String::with_capacity(n * 7);
                for _ in 0..n {
                    s.push_str("<a>");
                }
                for _ in 0..n {
                    s.push_str("</a>");
                }
                match roxmltree::Document::parse(&s) {
                    Ok(d) => format!("ok {}", d.root().descendants().count() - 1),
                    Err(_) => "err-parse".to_string(),
                }
            });
            Some(match h.map(|h| h.join()) {
                Ok(Ok(s)) => s,
                _ => "P".to_string(),
            })
        }
        _ => None,
    }
}
