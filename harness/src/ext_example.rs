//! Template of an extension module of the harness: return Some(result) for the
//! case kinds this module owns, None otherwise.
pub fn run(kind: &str, toks: &[&str]) -> Option<String> {
    match kind {
        "ECHO" => Some(toks.join(" ")),
        _ => None,
    }
}
