//! WAPI <call> <call> ... : a call sequence on the real writer API, every call under catch_unwind,
//! on the instrumented in-memory device.  Strings are hex of their UTF-8 bytes, `-` is None / absent.
//!
//! Calls (top level):
//!   NEW:<guid>                      E57Writer::new (must be first)
//!   SCM:<str|->                     set_coordinate_metadata
//!   SCR:<f64bits>:<0|1> | SCR:-     set_creation
//!   EXT:<ns>:<url>                  register_extension
//!   BLOB:<hexdata>                  add_blob
//!   PC:<guid>:<proto>               add_pointcloud; proto = name=type,... (may be empty)
//!   IMG:<guid>                      add_image
//!   FIN[:...]                       finalize (anything after FIN: is for the model side and ignored here)
//!   FINX                            finalize_customized_xml(Ok) (the model's Finalize stands for both entry points)
//! Point cloud writer (between PC and PDROP):
//!   PT:<v,v,...>                    add_point          PFIN  finalize          PDROP  end of the borrow
//!   PSET:<field>:<args>             set_* ; fields: name desc vendor model serial hw sw fw (str|-),
//!                                   oguids (str;str;..|-|empty), temp hum pres (f64bits|-),
//!                                   pose (7 f64bits joined by / |-), astart aend (bits/0|1 | -),
//!                                   ilim (min/max limit tokens | -), clim (6 limit tokens | -)
//! Image writer (between IMG and IDROP):
//!   ISET:<field>:<args>             name desc pcguid vendor model serial (str), pose (7 bits), acq (bits/0|1)
//!   IVIS:<p|j>:<data>:<w>:<h>:<mask|->
//!   IPIN:<p|j>:<data>:<w>/<h>/<5 f64bits>:<mask|->       (focal, pixel w, pixel h, principal x, principal y)
//!   ISPH:<p|j>:<data>:<w>/<h>/<2 f64bits>:<mask|->       (pixel w, pixel h)
//!   ICYL:<p|j>:<data>:<w>/<h>/<4 f64bits>:<mask|->       (radius, principal y, pixel w, pixel h)
//!   IFIN  finalize        IDROP  end of the borrow
//! names: x y z cis sr sa se sis in iin r g b ici row col rc ri ts its  u~<ns>~<name>
//! types: F[/<min|->/<max|->] D[/<min|->/<max|->] I/<min>/<max> S/<min>/<max>/<scalebits>/<offsetbits>
//! values / limits: f<hex8> d<hex16> s<dec> i<dec>
//!
//! Output: `<result per call> | <device summary> | <reader view> | xml=<hex>;<hex>...`
//!   results: o, b<offset>:<length> (add_blob), e<Variant>, P (the run stops there), - (a call on a sub-writer
//!            whose add_... call failed: skipped, such a program cannot be written)
//!   reader view: what E57Reader reports for the final device image (see `reader_view`)
//!   xml: for every FIN that returned Ok the XML text it wrote (taken from the device), `!<Variant>` for a failed one
use crate::bits::{parse_value, show_value};
use crate::dev::Dev;
use crate::page::dev_summary;
use crate::util::*;
use e57::*;

fn s_of(tok: &str) -> String {
    String::from_utf8(unhex(tok)).expect("string token must be UTF-8")
}
fn opt_s(tok: &str) -> Option<String> {
    if tok == "-" {
        None
    } else {
        Some(s_of(tok))
    }
}
fn f64_of(tok: &str) -> f64 {
    f64::from_bits(u64::from_str_radix(tok, 16).unwrap())
}
fn f32_of(tok: &str) -> f32 {
    f32::from_bits(u32::from_str_radix(tok, 16).unwrap())
}

pub fn parse_name(s: &str) -> RecordName {
    match s {
        "x" => RecordName::CartesianX,
        "y" => RecordName::CartesianY,
        "z" => RecordName::CartesianZ,
        "cis" => RecordName::CartesianInvalidState,
        "sr" => RecordName::SphericalRange,
        "sa" => RecordName::SphericalAzimuth,
        "se" => RecordName::SphericalElevation,
        "sis" => RecordName::SphericalInvalidState,
        "in" => RecordName::Intensity,
        "iin" => RecordName::IsIntensityInvalid,
        "r" => RecordName::ColorRed,
        "g" => RecordName::ColorGreen,
        "b" => RecordName::ColorBlue,
        "ici" => RecordName::IsColorInvalid,
        "row" => RecordName::RowIndex,
        "col" => RecordName::ColumnIndex,
        "rc" => RecordName::ReturnCount,
        "ri" => RecordName::ReturnIndex,
        "ts" => RecordName::TimeStamp,
        "its" => RecordName::IsTimeStampInvalid,
        _ => {
            let p: Vec<&str> = s.split('~').collect();
            assert!(p.len() == 3 && p[0] == "u", "bad name token {}", s);
            RecordName::Unknown { namespace: s_of(p[1]), name: s_of(p[2]) }
        }
    }
}

pub fn show_name(n: &RecordName) -> String {
    match n {
        RecordName::CartesianX => "x".into(),
        RecordName::CartesianY => "y".into(),
        RecordName::CartesianZ => "z".into(),
        RecordName::CartesianInvalidState => "cis".into(),
        RecordName::SphericalRange => "sr".into(),
        RecordName::SphericalAzimuth => "sa".into(),
        RecordName::SphericalElevation => "se".into(),
        RecordName::SphericalInvalidState => "sis".into(),
        RecordName::Intensity => "in".into(),
        RecordName::IsIntensityInvalid => "iin".into(),
        RecordName::ColorRed => "r".into(),
        RecordName::ColorGreen => "g".into(),
        RecordName::ColorBlue => "b".into(),
        RecordName::IsColorInvalid => "ici".into(),
        RecordName::RowIndex => "row".into(),
        RecordName::ColumnIndex => "col".into(),
        RecordName::ReturnCount => "rc".into(),
        RecordName::ReturnIndex => "ri".into(),
        RecordName::TimeStamp => "ts".into(),
        RecordName::IsTimeStampInvalid => "its".into(),
        RecordName::Unknown { namespace, name } => format!("u~{}~{}", hex(namespace.as_bytes()), hex(name.as_bytes())),
    }
}

pub fn parse_type(s: &str) -> RecordDataType {
    let p: Vec<&str> = s.split('/').collect();
    let of32 = |i: usize| if p.len() > i && p[i] != "-" { Some(f32_of(p[i])) } else { None };
    let of64 = |i: usize| if p.len() > i && p[i] != "-" { Some(f64_of(p[i])) } else { None };
    match p[0] {
        "F" => RecordDataType::Single { min: of32(1), max: of32(2) },
        "D" => RecordDataType::Double { min: of64(1), max: of64(2) },
        "I" => RecordDataType::Integer { min: p[1].parse().unwrap(), max: p[2].parse().unwrap() },
        "S" => RecordDataType::ScaledInteger {
            min: p[1].parse().unwrap(),
            max: p[2].parse().unwrap(),
            scale: f64_of(p[3]),
            offset: f64_of(p[4]),
        },
        _ => panic!("bad type token {}", s),
    }
}

fn canon64(b: u64) -> u64 {
    if b & 0x7ff0000000000000 == 0x7ff0000000000000 && b & 0x000fffffffffffff != 0 {
        0x7ff8000000000000
    } else {
        b
    }
}
fn canon32(b: u32) -> u32 {
    if b & 0x7f800000 == 0x7f800000 && b & 0x007fffff != 0 {
        0x7fc00000
    } else {
        b
    }
}
fn h64(x: f64) -> String {
    format!("{:016x}", canon64(x.to_bits()))
}
fn h32(x: f32) -> String {
    format!("{:08x}", canon32(x.to_bits()))
}
fn oh64(x: Option<f64>) -> String {
    x.map(h64).unwrap_or_else(|| "-".into())
}

pub fn show_type(dt: &RecordDataType) -> String {
    match dt {
        RecordDataType::Single { min, max } => {
            format!("F/{}/{}", min.map(h32).unwrap_or_else(|| "-".into()), max.map(h32).unwrap_or_else(|| "-".into()))
        }
        RecordDataType::Double { min, max } => format!("D/{}/{}", oh64(*min), oh64(*max)),
        RecordDataType::ScaledInteger { min, max, scale, offset } => {
            format!("S/{}/{}/{}/{}", min, max, h64(*scale), h64(*offset))
        }
        RecordDataType::Integer { min, max } => format!("I/{}/{}", min, max),
    }
}

fn parse_proto(s: &str) -> Vec<Record> {
    s.split(',')
        .filter(|x| !x.is_empty())
        .map(|nt| {
            let (n, t) = nt.split_once('=').unwrap();
            Record { name: parse_name(n), data_type: parse_type(t) }
        })
        .collect()
}

fn parse_limit(s: &str) -> Option<RecordValue> {
    if s == "-" {
        None
    } else {
        Some(parse_value(s))
    }
}
fn show_limit(v: &Option<RecordValue>) -> String {
    match v {
        None => "-".into(),
        Some(RecordValue::Single(x)) => format!("f{}", h32(*x)),
        Some(RecordValue::Double(x)) => format!("d{}", h64(*x)),
        Some(v) => show_value(v),
    }
}

fn parse_transform(s: &str) -> Transform {
    let p: Vec<f64> = s.split('/').map(f64_of).collect();
    Transform {
        rotation: Quaternion { w: p[0], x: p[1], y: p[2], z: p[3] },
        translation: Translation { x: p[4], y: p[5], z: p[6] },
    }
}
fn show_transform(t: &Option<Transform>) -> String {
    match t {
        None => "-".into(),
        Some(t) => [t.rotation.w, t.rotation.x, t.rotation.y, t.rotation.z, t.translation.x, t.translation.y, t.translation.z]
            .iter()
            .map(|x| h64(*x))
            .collect::<Vec<_>>()
            .join("/"),
    }
}
fn parse_dt(s: &str) -> DateTime {
    let (a, b) = s.split_once('/').unwrap();
    DateTime { gps_time: f64_of(a), atomic_reference: b == "1" }
}
fn show_dt(d: &Option<DateTime>) -> String {
    match d {
        None => "-".into(),
        Some(d) => format!("{}/{}", h64(d.gps_time), if d.atomic_reference { 1 } else { 0 }),
    }
}
fn show_os(s: &Option<String>) -> String {
    match s {
        None => "-".into(),
        Some(s) => format!("={}", hex(s.as_bytes())),
    }
}

fn res_s<T>(r: &Option<Result<T>>) -> String {
    match r {
        None => "P".into(),
        Some(Ok(_)) => "o".into(),
        Some(Err(e)) => format!("e{}", err_name(e)),
    }
}

fn img_format(s: &str) -> ImageFormat {
    if s == "j" {
        ImageFormat::Jpeg
    } else {
        ImageFormat::Png
    }
}

struct Run {
    outs: Vec<String>,
    xmls: Vec<String>,
    panicked: bool,
}

impl Run {
    fn push<T>(&mut self, r: &Option<Result<T>>) {
        let s = res_s(r);
        if s == "P" {
            self.panicked = true;
        }
        self.outs.push(s);
    }
}

/// the XML text the last finalize wrote, from the device image: header fields, then the logical bytes
fn xml_from_device(bytes: &[u8]) -> String {
    if bytes.len() < 48 {
        return "?short".into();
    }
    let off = u64::from_le_bytes(bytes[24..32].try_into().unwrap()) as usize;
    let len = u64::from_le_bytes(bytes[32..40].try_into().unwrap()) as usize;
    let mut out = Vec::with_capacity(len);
    let mut p = off;
    while out.len() < len && p < bytes.len() {
        if p % 1024 < 1020 {
            out.push(bytes[p]);
        }
        p += 1;
    }
    hex(&out)
}

/// the calls on a sub-writer that was never created (its add_... call failed) do not exist in a Rust
/// program: they are skipped up to and including the end-of-borrow token and reported as `-`
fn skip_sub(run: &mut Run, toks: &[&str], mut i: usize, end: &str) -> usize {
    while i < toks.len() && !run.panicked {
        let k = toks[i].split(':').next().unwrap();
        let is_sub = matches!(k, "PT" | "PFIN" | "PSET" | "PDROP" | "ISET" | "IVIS" | "IPIN" | "ISPH" | "ICYL" | "IFIN" | "IDROP");
        if !is_sub {
            break;
        }
        run.outs.push("-".into());
        i += 1;
        if k == end {
            break;
        }
    }
    i
}

fn run_pc<'a>(run: &mut Run, pcw: &mut PointCloudWriter<'a, Dev>, toks: &[&str], mut i: usize) -> usize {
    while i < toks.len() && !run.panicked {
        let t = toks[i];
        let parts: Vec<&str> = t.split(':').collect();
        match parts[0] {
            "PDROP" => {
                run.outs.push("o".into());
                return i + 1;
            }
            "PT" => {
                let vals: Vec<RecordValue> =
                    parts.get(1).unwrap_or(&"").split(',').filter(|x| !x.is_empty()).map(parse_value).collect();
                let r = guard(|| pcw.add_point(vals));
                run.push(&r);
            }
            "PFIN" => {
                let r = guard(|| pcw.finalize());
                run.push(&r);
            }
            "PSET" => {
                let a = parts[2];
                let r = guard(|| -> Result<()> {
                    match parts[1] {
                        "name" => pcw.set_name(opt_s(a)),
                        "desc" => pcw.set_description(opt_s(a)),
                        "vendor" => pcw.set_sensor_vendor(opt_s(a)),
                        "model" => pcw.set_sensor_model(opt_s(a)),
                        "serial" => pcw.set_sensor_serial(opt_s(a)),
                        "hw" => pcw.set_sensor_hw_version(opt_s(a)),
                        "sw" => pcw.set_sensor_sw_version(opt_s(a)),
                        "fw" => pcw.set_sensor_fw_version(opt_s(a)),
                        "oguids" => pcw.set_original_guids(if a == "-" {
                            None
                        } else {
                            Some(a.split(';').filter(|x| !x.is_empty() && *x != "empty").map(s_of).collect())
                        }),
                        "temp" => pcw.set_temperature(if a == "-" { None } else { Some(f64_of(a)) }),
                        "hum" => pcw.set_humidity(if a == "-" { None } else { Some(f64_of(a)) }),
                        "pres" => pcw.set_atmospheric_pressure(if a == "-" { None } else { Some(f64_of(a)) }),
                        "pose" => pcw.set_transform(if a == "-" { None } else { Some(parse_transform(a)) }),
                        "astart" => pcw.set_acquisition_start(if a == "-" { None } else { Some(parse_dt(a)) }),
                        "aend" => pcw.set_acquisition_end(if a == "-" { None } else { Some(parse_dt(a)) }),
                        "ilim" => pcw.set_intensity_limits(if a == "-" {
                            None
                        } else {
                            let l: Vec<&str> = a.split('/').collect();
                            Some(IntensityLimits { intensity_min: parse_limit(l[0]), intensity_max: parse_limit(l[1]) })
                        }),
                        "clim" => pcw.set_color_limits(if a == "-" {
                            None
                        } else {
                            let l: Vec<&str> = a.split('/').collect();
                            Some(ColorLimits {
                                red_min: parse_limit(l[0]),
                                red_max: parse_limit(l[1]),
                                green_min: parse_limit(l[2]),
                                green_max: parse_limit(l[3]),
                                blue_min: parse_limit(l[4]),
                                blue_max: parse_limit(l[5]),
                            })
                        }),
                        f => panic!("bad PSET field {}", f),
                    }
                    Ok(())
                });
                run.push(&r);
            }
            _ => panic!("call {} does not compile while a point cloud writer is open", t),
        }
        i += 1;
    }
    i
}

fn run_img<'a>(run: &mut Run, iw: &mut ImageWriter<'a, Dev>, toks: &[&str], mut i: usize) -> usize {
    while i < toks.len() && !run.panicked {
        let t = toks[i];
        let parts: Vec<&str> = t.split(':').collect();
        match parts[0] {
            "IDROP" => {
                run.outs.push("o".into());
                return i + 1;
            }
            "IFIN" => {
                let r = guard(|| iw.finalize());
                run.push(&r);
            }
            "ISET" => {
                let a = parts[2];
                let r = guard(|| -> Result<()> {
                    match parts[1] {
                        "name" => iw.set_name(&s_of(a)),
                        "desc" => iw.set_description(&s_of(a)),
                        "pcguid" => iw.set_pointcloud_guid(&s_of(a)),
                        "vendor" => iw.set_sensor_vendor(&s_of(a)),
                        "model" => iw.set_sensor_model(&s_of(a)),
                        "serial" => iw.set_sensor_serial(&s_of(a)),
                        "pose" => iw.set_transform(parse_transform(a)),
                        "acq" => iw.set_acquisition(parse_dt(a)),
                        f => panic!("bad ISET field {}", f),
                    }
                    Ok(())
                });
                run.push(&r);
            }
            "IVIS" | "IPIN" | "ISPH" | "ICYL" => {
                let fmt = img_format(parts[1]);
                let data = unhex(parts[2]);
                let (props, mask_tok) = if parts[0] == "IVIS" { (format!("{}/{}", parts[3], parts[4]), parts[5]) } else { (parts[3].to_string(), parts[4]) };
                let p: Vec<&str> = props.split('/').collect();
                let mask = if mask_tok == "-" { None } else { Some(unhex(mask_tok)) };
                let w: u32 = p[0].parse().unwrap();
                let h: u32 = p[1].parse().unwrap();
                let kind = parts[0].to_string();
                let r = guard(|| -> Result<()> {
                    let mut src = std::io::Cursor::new(data);
                    let mut msrc = mask.map(std::io::Cursor::new);
                    let m: Option<&mut dyn std::io::Read> = match msrc.as_mut() {
                        Some(c) => Some(c),
                        None => None,
                    };
                    match kind.as_str() {
                        "IVIS" => iw.add_visual_reference(fmt, &mut src, VisualReferenceImageProperties { width: w, height: h }, m),
                        "IPIN" => iw.add_pinhole(
                            fmt,
                            &mut src,
                            PinholeImageProperties {
                                width: w,
                                height: h,
                                focal_length: f64_of(p[2]),
                                pixel_width: f64_of(p[3]),
                                pixel_height: f64_of(p[4]),
                                principal_x: f64_of(p[5]),
                                principal_y: f64_of(p[6]),
                            },
                            m,
                        ),
                        "ISPH" => iw.add_spherical(
                            fmt,
                            &mut src,
                            SphericalImageProperties { width: w, height: h, pixel_width: f64_of(p[2]), pixel_height: f64_of(p[3]) },
                            m,
                        ),
                        _ => iw.add_cylindrical(
                            fmt,
                            &mut src,
                            CylindricalImageProperties {
                                width: w,
                                height: h,
                                radius: f64_of(p[2]),
                                principal_y: f64_of(p[3]),
                                pixel_width: f64_of(p[4]),
                                pixel_height: f64_of(p[5]),
                            },
                            m,
                        ),
                    }
                });
                run.push(&r);
            }
            _ => panic!("call {} does not compile while an image writer is open", t),
        }
        i += 1;
    }
    i
}

fn show_bounds6(v: [Option<f64>; 6]) -> String {
    v.iter().map(|x| oh64(*x)).collect::<Vec<_>>().join("/")
}

fn iter_summary<I: Iterator<Item = Result<Vec<RecordValue>>>>(mut it: I) -> String {
    let mut txt = String::new();
    let mut count = 0usize;
    let mut fin = "none".to_string();
    loop {
        match guard(|| it.next()) {
            None => {
                fin = "P".to_string();
                break;
            }
            Some(None) => break,
            Some(Some(Ok(p))) => {
                if count > 0 {
                    txt.push(';');
                }
                txt += &p.iter().map(show_value).collect::<Vec<_>>().join(",");
                count += 1;
            }
            Some(Some(Err(e))) => {
                fin = format!("e{}", err_name(&e));
                break;
            }
        }
    }
    let h = fnv_hex(fnv_bytes(FNV_INIT, txt.as_bytes()));
    if txt.len() <= 4000 {
        format!("n={} end={} h={} pts={}", count, fin, h, txt)
    } else {
        format!("n={} end={} h={}", count, fin, h)
    }
}

fn blob_view(r: &mut E57Reader<std::io::Cursor<Vec<u8>>>, b: &Blob) -> String {
    let mut out = Vec::new();
    let rd = match guard(|| r.blob(b, &mut out)) {
        None => "P".to_string(),
        Some(Ok(n)) => format!("ok{}:{}", n, fnv_hex(fnv_bytes(FNV_INIT, &out))),
        Some(Err(e)) => format!("e{}", err_name(&e)),
    };
    format!("{}:{}:{}", b.offset, b.length, rd)
}
fn oblob_view(r: &mut E57Reader<std::io::Cursor<Vec<u8>>>, b: &Option<Blob>) -> String {
    match b {
        None => "-".into(),
        Some(b) => blob_view(r, b),
    }
}

/// What the real reader reports for a device image:
///   open:<ok|eVariant|P> ext=<ns>=<url>,... # pc g=.. off=.. n=.. proto=.. cb=.. sb=.. ib=.. il=.. cl=.. meta=.. raw=.. # im ...
fn reader_view(bytes: Vec<u8>, blobs: &[(u64, u64)]) -> String {
    let r = guard(|| E57Reader::new(std::io::Cursor::new(bytes)));
    let mut r = match r {
        None => return "open:P".into(),
        Some(Err(e)) => return format!("open:e{}", err_name(&e)),
        Some(Ok(r)) => r,
    };
    let mut out = format!(
        "open:ok guid={} ext={}",
        hex(r.guid().as_bytes()),
        r.extensions().iter().map(|e| format!("{}={}", hex(e.namespace.as_bytes()), hex(e.url.as_bytes()))).collect::<Vec<_>>().join(",")
    );
    out += &format!(" cm={} cr={}", show_os(&r.coordinate_metadata().map(|s| s.to_string())), show_dt(&r.creation()));
    for pc in r.pointclouds() {
        let proto = pc.prototype.iter().map(|p| format!("{}={}", show_name(&p.name), show_type(&p.data_type))).collect::<Vec<_>>().join(",");
        let cb = match &pc.cartesian_bounds {
            None => "-".to_string(),
            Some(b) => show_bounds6([b.x_min, b.x_max, b.y_min, b.y_max, b.z_min, b.z_max]),
        };
        let sb = match &pc.spherical_bounds {
            None => "-".to_string(),
            Some(b) => show_bounds6([b.range_min, b.range_max, b.elevation_min, b.elevation_max, b.azimuth_start, b.azimuth_end]),
        };
        let ib = match &pc.index_bounds {
            None => "-".to_string(),
            Some(b) => [b.row_min, b.row_max, b.column_min, b.column_max, b.return_min, b.return_max]
                .iter()
                .map(|x| x.map(|v| v.to_string()).unwrap_or_else(|| "-".into()))
                .collect::<Vec<_>>()
                .join("/"),
        };
        let il = match &pc.intensity_limits {
            None => "-".to_string(),
            Some(l) => format!("{}/{}", show_limit(&l.intensity_min), show_limit(&l.intensity_max)),
        };
        let cl = match &pc.color_limits {
            None => "-".to_string(),
            Some(l) => [&l.red_min, &l.red_max, &l.green_min, &l.green_max, &l.blue_min, &l.blue_max]
                .iter()
                .map(|x| show_limit(x))
                .collect::<Vec<_>>()
                .join("/"),
        };
        let og = match &pc.original_guids {
            None => "-".to_string(),
            Some(v) if v.is_empty() => "empty".to_string(),
            Some(v) => v.iter().map(|s| hex(s.as_bytes())).collect::<Vec<_>>().join(";"),
        };
        let meta = [
            show_os(&pc.name),
            show_os(&pc.description),
            show_os(&pc.sensor_vendor),
            show_os(&pc.sensor_model),
            show_os(&pc.sensor_serial),
            show_os(&pc.sensor_hw_version),
            show_os(&pc.sensor_sw_version),
            show_os(&pc.sensor_fw_version),
            og,
            oh64(pc.temperature),
            oh64(pc.humidity),
            oh64(pc.atmospheric_pressure),
            show_transform(&pc.transform),
            show_dt(&pc.acquisition_start),
            show_dt(&pc.acquisition_end),
        ]
        .join("|");
        let raw = match guard(|| r.pointcloud_raw(&pc)) {
            None => "new:P".to_string(),
            Some(Err(e)) => format!("new:e{}", err_name(&e)),
            Some(Ok(it)) => iter_summary(it),
        };
        out += &format!(
            " # pc g={} off={} n={} proto={} cb={} sb={} ib={} il={} cl={} meta={} raw={}",
            show_os(&pc.guid),
            pc.file_offset,
            pc.records,
            proto,
            cb,
            sb,
            ib,
            il,
            cl,
            meta,
            raw
        );
    }
    for im in r.images() {
        let vr = match &im.visual_reference {
            None => "-".to_string(),
            Some(v) => format!(
                "{}/{}/{}/{}/{}",
                if matches!(v.blob.format, ImageFormat::Jpeg) { "j" } else { "p" },
                blob_view(&mut r, &v.blob.data),
                oblob_view(&mut r, &v.mask),
                v.properties.width,
                v.properties.height
            ),
        };
        let fm = |f: &ImageFormat| if matches!(f, ImageFormat::Jpeg) { "j" } else { "p" };
        let pr = match &im.projection {
            None => "-".to_string(),
            Some(Projection::Pinhole(p)) => format!(
                "pin/{}/{}/{}/{}/{}/{}",
                fm(&p.blob.format),
                blob_view(&mut r, &p.blob.data),
                oblob_view(&mut r, &p.mask),
                p.properties.width,
                p.properties.height,
                [p.properties.focal_length, p.properties.pixel_width, p.properties.pixel_height, p.properties.principal_x, p.properties.principal_y]
                    .iter()
                    .map(|x| h64(*x))
                    .collect::<Vec<_>>()
                    .join("/")
            ),
            Some(Projection::Spherical(p)) => format!(
                "sph/{}/{}/{}/{}/{}/{}",
                fm(&p.blob.format),
                blob_view(&mut r, &p.blob.data),
                oblob_view(&mut r, &p.mask),
                p.properties.width,
                p.properties.height,
                [p.properties.pixel_width, p.properties.pixel_height].iter().map(|x| h64(*x)).collect::<Vec<_>>().join("/")
            ),
            Some(Projection::Cylindrical(p)) => format!(
                "cyl/{}/{}/{}/{}/{}/{}",
                fm(&p.blob.format),
                blob_view(&mut r, &p.blob.data),
                oblob_view(&mut r, &p.mask),
                p.properties.width,
                p.properties.height,
                [p.properties.radius, p.properties.principal_y, p.properties.pixel_width, p.properties.pixel_height]
                    .iter()
                    .map(|x| h64(*x))
                    .collect::<Vec<_>>()
                    .join("/")
            ),
        };
        let meta = [
            show_os(&im.name),
            show_os(&im.description),
            show_os(&im.pointcloud_guid),
            show_os(&im.sensor_vendor),
            show_os(&im.sensor_model),
            show_os(&im.sensor_serial),
            show_transform(&im.transform),
            show_dt(&im.acquisition),
        ]
        .join("|");
        out += &format!(" # im g={} vr={} pr={} meta={}", show_os(&im.guid), vr, pr, meta);
    }
    for (o, l) in blobs {
        out += &format!(" # bl {}", blob_view(&mut r, &Blob::new(*o, *l)));
    }
    out
}

fn run_wapi(toks: &[&str]) -> String {
    let dev = Dev::new(Vec::new(), None);
    let mut run = Run { outs: Vec::new(), xmls: Vec::new(), panicked: false };
    let mut blobs: Vec<(u64, u64)> = Vec::new();
    assert!(!toks.is_empty() && toks[0].starts_with("NEW:"), "a WAPI case starts with NEW");
    let guid = s_of(&toks[0][4..]);
    let w = guard(|| E57Writer::new(dev.clone(), &guid));
    run.push(&w);
    if let Some(Ok(mut w)) = w {
        let mut i = 1;
        while i < toks.len() && !run.panicked {
            let t = toks[i];
            let parts: Vec<&str> = t.split(':').collect();
            i += 1;
            match parts[0] {
                "SCM" => {
                    let r = guard(|| -> Result<()> {
                        w.set_coordinate_metadata(opt_s(parts[1]));
                        Ok(())
                    });
                    run.push(&r);
                }
                "SCR" => {
                    let r = guard(|| -> Result<()> {
                        w.set_creation(if parts[1] == "-" {
                            None
                        } else {
                            Some(DateTime { gps_time: f64_of(parts[1]), atomic_reference: parts[2] == "1" })
                        });
                        Ok(())
                    });
                    run.push(&r);
                }
                "EXT" => {
                    let r = guard(|| w.register_extension(Extension::new(&s_of(parts[1]), &s_of(parts[2]))));
                    run.push(&r);
                }
                "BLOB" => {
                    let data = unhex(parts.get(1).unwrap_or(&""));
                    let mut src = std::io::Cursor::new(data);
                    let r = guard(|| w.add_blob(&mut src));
                    match &r {
                        Some(Ok(b)) => {
                            blobs.push((b.offset, b.length));
                            run.outs.push(format!("b{}:{}", b.offset, b.length));
                        }
                        _ => run.push(&r),
                    }
                }
                "PC" => {
                    let g = s_of(parts[1]);
                    let proto = parse_proto(parts.get(2).unwrap_or(&""));
                    let r = guard(|| w.add_pointcloud(&g, proto));
                    match r {
                        Some(Ok(mut pcw)) => {
                            run.outs.push("o".into());
                            i = run_pc(&mut run, &mut pcw, toks, i);
                            if guard(move || drop(pcw)).is_none() {
                                run.outs.push("P".into());
                                run.panicked = true;
                            }
                        }
                        other => {
                            run.push(&other);
                            i = skip_sub(&mut run, toks, i, "PDROP");
                        }
                    }
                }
                "IMG" => {
                    let g = s_of(parts[1]);
                    let r = guard(|| w.add_image(&g));
                    match r {
                        Some(Ok(mut iw)) => {
                            run.outs.push("o".into());
                            i = run_img(&mut run, &mut iw, toks, i);
                            if guard(move || drop(iw)).is_none() {
                                run.outs.push("P".into());
                                run.panicked = true;
                            }
                        }
                        other => {
                            run.push(&other);
                            i = skip_sub(&mut run, toks, i, "IDROP");
                        }
                    }
                }
                "FIN" | "FINX" => {
                    // FINX: the second public entry point, with the identity transformer
                    let r = if parts[0] == "FINX" { guard(|| w.finalize_customized_xml(Ok)) } else { guard(|| w.finalize()) };
                    match &r {
                        Some(Ok(())) => run.xmls.push(xml_from_device(&dev.snapshot())),
                        Some(Err(e)) => run.xmls.push(format!("!{}", err_name(e))),
                        None => {}
                    }
                    run.push(&r);
                }
                _ => panic!("call {} does not compile at top level", t),
            }
        }
        if guard(move || drop(w)).is_none() {
            run.outs.push("dropP".into());
        }
    }
    let view = reader_view(dev.snapshot(), &blobs);
    format!("{} | {} | {} | xml={}", run.outs.join(" "), dev_summary(&dev), view, run.xmls.join(";"))
}

pub fn run(kind: &str, toks: &[&str]) -> Option<String> {
    match kind {
        "WAPI" => Some(run_wapi(toks)),
        _ => None,
    }
}
