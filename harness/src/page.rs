//! PW / PR / CRC cases: the page layer driven through the e57_verif hook.
use crate::dev::Dev;
use crate::util::*;
use e57::verif::{PagedReader, PagedWriter};
use std::io::{Read, Write};

pub fn dev_summary(d: &Dev) -> String {
    let s = d.0.borrow();
    let mut lh = FNV_INIT;
    for (p, bs) in &s.log {
        lh = fnv_bytes(fnv_int(fnv_int(lh, *p), bs.len() as u64), bs);
    }
    format!(
        "ops={} len={} h={} wlog={}:{}",
        s.ops,
        s.bytes.len(),
        fnv_hex(fnv_bytes(FNV_INIT, &s.bytes)),
        s.log.len(),
        fnv_hex(lh)
    )
}

fn fault_of(s: &str) -> Option<u64> {
    if s == "-" {
        None
    } else {
        Some(s.parse().unwrap())
    }
}

fn io_res<T>(r: Option<std::io::Result<T>>, f: impl Fn(T) -> String) -> String {
    match r {
        None => "P".to_string(),
        Some(Ok(v)) => f(v),
        Some(Err(_)) => "eWrite".to_string(),
    }
}

fn e57_res<T>(r: Option<e57::Result<T>>, f: impl Fn(T) -> String) -> String {
    match r {
        None => "P".to_string(),
        Some(Ok(v)) => f(v),
        Some(Err(e)) => format!("e{}", err_name(&e)),
    }
}

pub fn run_pw(toks: &[&str]) -> String {
    let fault = fault_of(toks[0]);
    let full = toks[1] == "1";
    let dev = Dev::new(Vec::new(), fault);
    let w = guard(|| PagedWriter::new(dev.clone()));
    let mut w = match w {
        None => return "new:P".to_string(),
        Some(Err(e)) => return format!("new:e{} | {}", err_name(&e), dev_summary(&dev)),
        Some(Ok(w)) => w,
    };
    let mut outs = Vec::new();
    for t in &toks[2..] {
        let arg = &t[1..];
        let o = match t.as_bytes()[0] {
            b'w' => {
                let data = unhex(arg);
                io_res(guard(|| w.write_all(&data)), |_| "o0".to_string())
            }
            b's' => {
                let p: u64 = arg.parse().unwrap();
                e57_res(guard(|| w.physical_seek(p)), |_| "o0".to_string())
            }
            b'f' => io_res(guard(|| w.flush()), |_| "o0".to_string()),
            b'a' => e57_res(guard(|| w.align()), |_| "o0".to_string()),
            b'p' => e57_res(guard(|| w.physical_position()), |v| format!("o{}", v)),
            b'z' => e57_res(guard(|| w.physical_size()), |v| format!("o{}", v)),
            _ => panic!("bad pw op"),
        };
        outs.push(o);
    }
    if guard(move || drop(w)).is_none() {
        outs.push("dropP".to_string());
    }
    let mut s = format!("{} | {}", outs.join(" "), dev_summary(&dev));
    if full {
        s += &format!(" dev={}", hex(&dev.snapshot()));
    }
    s
}

pub fn run_pr(toks: &[&str]) -> String {
    let fault = fault_of(toks[0]);
    let ps: u64 = toks[1].parse().unwrap();
    let dev = Dev::new(resolve_dev(toks[2]), fault);
    let r = guard(|| PagedReader::new(dev.clone(), ps));
    let mut r = match r {
        None => return "new:P".to_string(),
        Some(Err(_)) => return format!("new:e | ops={}", dev.ops()),
        Some(Ok(r)) => r,
    };
    let mut outs = Vec::new();
    for t in &toks[3..] {
        let arg = &t[1..];
        let o = match t.as_bytes()[0] {
            b's' => {
                let p: u64 = arg.parse().unwrap();
                match guard(|| r.seek_physical(p)) {
                    None => "P".to_string(),
                    Some(Ok(v)) => format!("o{}", v),
                    Some(Err(_)) => "e".to_string(),
                }
            }
            b'r' => {
                let n: usize = arg.parse().unwrap();
                let mut buf = vec![0u8; n];
                match guard(|| r.read(&mut buf)) {
                    None => "P".to_string(),
                    Some(Ok(k)) => format!("b{}:{}", k, fnv_hex(fnv_bytes(FNV_INIT, &buf[..k]))),
                    Some(Err(_)) => "e".to_string(),
                }
            }
            b'x' => {
                let n: usize = arg.parse().unwrap();
                let mut buf = vec![0u8; n];
                match guard(|| r.read_exact(&mut buf)) {
                    None => "P".to_string(),
                    Some(Ok(())) => format!("b{}:{}", n, fnv_hex(fnv_bytes(FNV_INIT, &buf))),
                    Some(Err(_)) => "e".to_string(),
                }
            }
            b'a' => match guard(|| r.align()) {
                None => "P".to_string(),
                Some(Ok(())) => "o".to_string(),
                Some(Err(_)) => "e".to_string(),
            },
            _ => panic!("bad pr op"),
        };
        outs.push(o);
    }
    format!("{} | ops={}", outs.join(" "), dev.ops())
}

/// CRC of a byte string as the crate computes it: through a one-page write.
/// The page layer is the only public path to the checksum, so the payload is
/// the given bytes zero-padded to 1020; the harness feeds whole payloads.
pub fn run_crc(toks: &[&str]) -> String {
    let data = if toks.is_empty() { Vec::new() } else { unhex(toks[0]) };
    let dev = Dev::new(Vec::new(), None);
    let mut w = PagedWriter::new(dev.clone()).unwrap();
    w.write_all(&data).unwrap();
    drop(w);
    let b = dev.snapshot();
    if b.len() < 1024 {
        return "0".to_string();
    }
    let n = b.len();
    format!("{}", u32::from_be_bytes([b[n - 4], b[n - 3], b[n - 2], b[n - 1]]))
}
