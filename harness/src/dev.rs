//! Instrumented in-memory device shared between the library and the harness.
//! Every Read/Write/Seek/Flush call is one numbered operation; operation
//! number `fault` fails with an I/O error and has no effect; successful
//! writes are logged.  Optionally transfers are cut into short chunks, and optionally the device
//! has a fixed capacity: a write that straddles it transfers the bytes that fit, a write at or
//! behind it returns Ok(0) (a full device, as `Cursor<&mut [u8]>` reports it).
use std::cell::RefCell;
use std::io::{Error, Read, Result, Seek, SeekFrom, Write};
use std::rc::Rc;

#[derive(Default)]
pub struct DevState {
    pub bytes: Vec<u8>,
    pub cur: u64,
    pub ops: u64,
    pub fault: Option<u64>,
    pub log: Vec<(u64, Vec<u8>)>,
    /// chunk schedule for short transfers: sizes used cyclically (empty = full transfers)
    pub chunks: Vec<usize>,
    pub chunk_idx: usize,
    /// fixed capacity in bytes (None = grows as needed)
    pub capacity: Option<u64>,
    /// op index at which the fault fired, and the label current at that time
    pub fault_fired: Option<u64>,
    pub label: u64,
    pub fault_label: Option<u64>,
}

#[derive(Clone, Default)]
pub struct Dev(pub Rc<RefCell<DevState>>);

impl Dev {
    pub fn new(bytes: Vec<u8>, fault: Option<u64>) -> Self {
        Dev(Rc::new(RefCell::new(DevState {
            bytes,
            fault,
            ..Default::default()
        })))
    }
    pub fn with_chunks(self, chunks: Vec<usize>) -> Self {
        self.0.borrow_mut().chunks = chunks;
        self
    }
    pub fn with_capacity(self, cap: Option<u64>) -> Self {
        self.0.borrow_mut().capacity = cap;
        self
    }
    pub fn set_label(&self, l: u64) {
        self.0.borrow_mut().label = l;
    }
    pub fn snapshot(&self) -> Vec<u8> {
        self.0.borrow().bytes.clone()
    }
    pub fn ops(&self) -> u64 {
        self.0.borrow().ops
    }
    pub fn fault_label(&self) -> Option<u64> {
        self.0.borrow().fault_label
    }
}

impl DevState {
    fn tick(&mut self) -> Result<()> {
        let n = self.ops;
        self.ops += 1;
        if self.fault == Some(n) {
            self.fault_fired = Some(n);
            self.fault_label = Some(self.label);
            return Err(Error::other("injected device fault"));
        }
        Ok(())
    }
    fn next_chunk(&mut self, want: usize) -> usize {
        if self.chunks.is_empty() || want == 0 {
            return want;
        }
        let c = self.chunks[self.chunk_idx % self.chunks.len()].max(1);
        self.chunk_idx += 1;
        want.min(c)
    }
}

impl Read for Dev {
    fn read(&mut self, buf: &mut [u8]) -> Result<usize> {
        let mut s = self.0.borrow_mut();
        s.tick()?;
        let len = s.bytes.len() as u64;
        let avail = len.saturating_sub(s.cur) as usize;
        let n = buf.len().min(avail);
        let n = s.next_chunk(n);
        let start = s.cur.min(len) as usize; // a cursor behind the end reads nothing
        buf[..n].copy_from_slice(&s.bytes[start..start + n]);
        s.cur += n as u64;
        Ok(n)
    }
}

impl Write for Dev {
    fn write(&mut self, buf: &[u8]) -> Result<usize> {
        let mut s = self.0.borrow_mut();
        s.tick()?;
        let mut n = s.next_chunk(buf.len());
        if let Some(cap) = s.capacity {
            n = n.min(cap.saturating_sub(s.cur) as usize);
            if n == 0 && !buf.is_empty() {
                // the device is full: nothing is transferred, nothing is logged
                return Ok(0);
            }
        }
        let start = s.cur as usize;
        if s.bytes.len() < start {
            s.bytes.resize(start, 0);
        }
        let end = start + n;
        if s.bytes.len() < end {
            s.bytes.resize(end, 0);
        }
        s.bytes[start..end].copy_from_slice(&buf[..n]);
        let pos = s.cur;
        s.log.push((pos, buf[..n].to_vec()));
        s.cur += n as u64;
        Ok(n)
    }
    fn flush(&mut self) -> Result<()> {
        self.0.borrow_mut().tick()
    }
}

impl Seek for Dev {
    fn seek(&mut self, pos: SeekFrom) -> Result<u64> {
        let mut s = self.0.borrow_mut();
        s.tick()?;
        let len = s.bytes.len() as i128;
        let new = match pos {
            SeekFrom::Start(p) => p as i128,
            SeekFrom::End(o) => len + o as i128,
            SeekFrom::Current(o) => s.cur as i128 + o as i128,
        };
        if new < 0 {
            return Err(Error::other("seek before start"));
        }
        s.cur = new as u64;
        Ok(s.cur)
    }
}
